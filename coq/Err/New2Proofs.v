(* C11: lemmas about the generated contracts (LV.Gen.ContractGen) run by the machines of New2Base.v
   in the environments of New2Model.v. *)
Require Import String.
Require Import List ZArith QArith Bool Lia.
Import ListNotations.
Require Import LV.Err.ErrBase LV.Gen.ErrnoGen LV.Err.OrderModel LV.Err.ContractModel LV.Err.RefutedModel LV.Err.NewModel
               LV.Err.NewProofs LV.Err.New2Base LV.Gen.ContractGen LV.Err.New2Model.
Open Scope string_scope.
Open Scope Z_scope.

(* ------------------------------------------------------------------ generic: classification of refusals *)
Lemma fval_eqb_eq : forall a b, fval_eqb a b = true -> a = b.
Proof. destruct a, b; simpl; congruence. Qed.
Lemma errno_eqb_eq : forall a b, errno_eqb a b = true -> a = b.
Proof. destruct a, b; simpl; congruence. Qed.
Lemma category_eqb_eq : forall a b, category_eqb a b = true -> a = b.
Proof. destruct a, b; simpl; congruence. Qed.

Lemma crun_k_classified : forall fv c e k v r,
  contract_classified fv c = true -> crun_k e k c = CRefused v r ->
  v = fv /\ (r = Direct E_INVAL \/ r = Via USAGE).
Proof.
  intros fv c e. induction c as [|s c IH]; intros k v r Hc H; simpl in *; [discriminate|].
  apply andb_true_iff in Hc. destruct Hc as [Hs Hc].
  destruct k as [|k]; [|eapply IH; eauto].
  destruct s; simpl in Hs.
  - destruct (ceval e c0); [|eapply IH; eauto].
    apply andb_true_iff in Hs. destruct Hs as [Hv He]. inversion H; subst.
    split; [apply fval_eqb_eq; assumption|left; f_equal; apply errno_eqb_eq; assumption].
  - destruct (ceval e c0); [|eapply IH; eauto].
    apply andb_true_iff in Hs. destruct Hs as [Hv He]. inversion H; subst.
    split; [apply fval_eqb_eq; assumption|right; f_equal; apply category_eqb_eq; assumption].
  - destruct (ceval e c0); [discriminate|eapply IH; eauto].
  - destruct (ceval e c0); eapply IH; eauto.
  - eapply IH; eauto.
  - discriminate.
  - discriminate.
Qed.

Lemma crun_k_silent : forall c e k v r,
  contract_silent c = true -> crun_k e k c = CRefused v r -> exists en, r = Direct en.
Proof.
  intros c e. induction c as [|s c IH]; intros k v r Hc H; simpl in *; [discriminate|].
  apply andb_true_iff in Hc. destruct Hc as [Hs Hc].
  destruct k as [|k]; [|eapply IH; eauto].
  destruct s; simpl in Hs.
  - destruct (ceval e c0); [|eapply IH; eauto]. inversion H; subst. eexists; reflexivity.
  - discriminate.
  - destruct (ceval e c0); [discriminate|eapply IH; eauto].
  - destruct (ceval e c0); eapply IH; eauto.
  - eapply IH; eauto.
  - discriminate.
  - discriminate.
Qed.

(* ------------------------------------------------------------------ the reporter *)
Lemma verror_reported_l : forall cat entry clob,
  run_effects (new_errno cat entry) cat gen_verror_reported clob 0 (mkr entry []) =
  mkr (new_errno cat entry) [(cat, new_errno cat entry)].
Proof. intros. reflexivity. Qed.

Lemma verror_format_failed_l : forall cat entry clob,
  run_effects (new_errno cat entry) cat gen_verror_format_failed clob 0 (mkr entry []) =
  mkr (new_errno cat entry) [(cat, new_errno cat entry)].
Proof. intros. reflexivity. Qed.

Lemma verror_no_error_fn_l : forall cat entry clob,
  run_effects (new_errno cat entry) cat gen_verror_no_error_fn clob 0 (mkr entry []) =
  mkr (new_errno cat entry) [].
Proof. intros. reflexivity. Qed.

(* a reporter that calls the error function before it has set errno shows the errno of the caller
   (model variant: the first ESet removed) *)
Lemma model_variant_report_before_errno_l :
  exists cat entry clob,
    r_log (run_effects (new_errno cat entry) cat [EClobber; ECall; EClobber; ESet] clob 0 (mkr entry [])) <>
    [(cat, new_errno cat entry)].
Proof. exists USAGE, E_NOENT, (fun _ => E_NOENT). vm_compute. discriminate. Qed.

Lemma call_trace_refused_l : forall fv c e v r entry clob,
  contract_classified fv c = true -> crun e c = CRefused v r ->
  v = fv /\
  r_errno (call_trace (CRefused v r) entry clob) = E_INVAL /\
  length (r_log (call_trace (CRefused v r) entry clob)) = callbacks r /\
  (forall ce, In ce (r_log (call_trace (CRefused v r) entry clob)) -> ce = (USAGE, E_INVAL)).
Proof.
  intros fv c e v r entry clob Hc H.
  destruct (crun_k_classified _ _ _ _ _ _ Hc H) as [Hv [Hr|Hr]]; subst; split; try reflexivity.
  - simpl. repeat split; try reflexivity. intros ce [].
  - unfold call_trace. rewrite verror_reported_l. simpl. repeat split; try reflexivity.
    intros ce [Hce|[]]. symmetry. exact Hce.
Qed.

Lemma call_trace_not_refused_l : forall o entry clob,
  (forall v r, o <> CRefused v r) -> call_trace o entry clob = mkr entry [].
Proof. intros o entry clob H. destruct o; try reflexivity. exfalso. eapply H; reflexivity. Qed.

(* ------------------------------------------------------------------ the machine: refused => unchanged *)
Section MachineProofs.
  Variable St : Type.
  Variable envf : St -> env.
  Variable exitw : St -> St.
  Variable work : nat -> St -> St * bool.

  Lemma no_check_never_refused : forall c k wi s s' v r,
    existsb is_check (contract_order c) = false ->
    srun envf exitw work k wi c s <> (s', RRefused v r).
  Proof.
    induction c as [|st c IH]; intros k wi s s' v r Hn; simpl; [discriminate|].
    assert (Hrest : existsb is_check (contract_order c) = false).
    { simpl in Hn. destruct (skind st); [simpl in Hn; apply orb_false_iff in Hn; tauto|exact Hn]. }
    destruct k as [|k]; [|apply IH; assumption].
    destruct st; simpl in Hn; try discriminate.
    - destruct (ceval (envf s) c0); [discriminate|apply IH; assumption].
    - destruct (ceval (envf s) c0); apply IH; assumption.
    - apply IH; assumption.
    - destruct (work wi s) as [s2 f]. destruct f; [discriminate|apply IH; assumption].
    - apply IH; assumption.
  Qed.

  Lemma srun_refused_unchanged_l : forall c k wi s s' v r,
    checks_first (contract_order c) = true ->
    srun envf exitw work k wi c s = (s', RRefused v r) -> s' = s.
  Proof.
    induction c as [|st c IH]; intros k wi s s' v r Hc H; simpl in H; [discriminate|].
    assert (Hrest : checks_first (contract_order c) = true \/ existsb is_check (contract_order c) = false).
    { simpl in Hc. destruct st; simpl in Hc; try (left; exact Hc); right; apply negb_true_iff; exact Hc. }
    assert (Hcf : checks_first (contract_order c) = true).
    { destruct Hrest as [?|Hn]; [assumption|].
      clear - Hn. induction (contract_order c) as [|e l IHl]; [reflexivity|].
      simpl in *. apply orb_false_iff in Hn. destruct Hn as [He Hl].
      destruct (is_write e); [apply negb_true_iff; exact Hl|apply IHl; exact Hl]. }
    destruct k as [|k]; [|eapply IH; eauto].
    destruct st.
    - destruct (ceval (envf s) c0); [inversion H; reflexivity|eapply IH; eauto].
    - destruct (ceval (envf s) c0); [inversion H; reflexivity|eapply IH; eauto].
    - destruct (ceval (envf s) c0); [discriminate|eapply IH; eauto].
    - destruct (ceval (envf s) c0); eapply IH; eauto.
    - eapply IH; eauto.
    - simpl in Hc. apply negb_true_iff in Hc.
      destruct (work wi s) as [s2 f]. destruct f; [discriminate|].
      exfalso. eapply no_check_never_refused; eauto.
    - simpl in Hc. apply negb_true_iff in Hc.
      exfalso. eapply no_check_never_refused; eauto.
  Qed.

  (* the prologue on the environment of the state decides whether the body refuses *)
  Lemma srun_refused_iff_crun : forall c k wi s v r,
    checks_first (contract_order c) = true ->
    (snd (srun envf exitw work k wi c s) = RRefused v r <-> crun_k (envf s) k c = CRefused v r).
  Proof.
    induction c as [|st c IH]; intros k wi s v r Hc; simpl; [split; discriminate|].
    assert (Hcf : checks_first (contract_order c) = true).
    { simpl in Hc. destruct st; simpl in Hc; try exact Hc;
        apply negb_true_iff in Hc; clear - Hc; induction (contract_order c) as [|e l IHl]; try reflexivity;
        simpl in *; apply orb_false_iff in Hc; destruct Hc as [He Hl];
        (destruct (is_write e); [apply negb_true_iff; exact Hl|apply IHl; exact Hl]). }
    destruct k as [|k]; [|apply IH; assumption].
    destruct st.
    - destruct (ceval (envf s) c0); [simpl; split; intro H; inversion H; reflexivity|apply IH; assumption].
    - destruct (ceval (envf s) c0); [simpl; split; intro H; inversion H; reflexivity|apply IH; assumption].
    - destruct (ceval (envf s) c0); [simpl; split; discriminate|apply IH; assumption].
    - destruct (ceval (envf s) c0); apply IH; assumption.
    - apply IH; assumption.
    - simpl in Hc. apply negb_true_iff in Hc. split; [|discriminate].
      destruct (work wi s) as [s2 f] eqn:Hw. destruct f; [simpl; discriminate|].
      intro H. exfalso.
      destruct (srun envf exitw work 0 (S wi) c s2) as [s3 res] eqn:Hs. simpl in H. subst res.
      eapply no_check_never_refused; eauto.
    - simpl in Hc. apply negb_true_iff in Hc. split; [|discriminate].
      intro H. exfalso.
      destruct (srun envf exitw work 0 (S wi) c (fst (work wi s))) as [s3 res] eqn:Hs. simpl in H. subst res.
      eapply no_check_never_refused; eauto.
  Qed.
End MachineProofs.

(* a body that writes before it has finished testing returns a changed state from a refused call *)
Lemma model_variant_write_before_test_l :
  exists s',
    srun (fun n : Z => lookup [("x", VInt n)]) (fun n => n) (fun _ n => (n + 1, false)) 0 0
         [SWork; SReport (CCmp OLt (CVar "x") (CInt 5)) USAGE VM1] 0 = (s', RRefused VM1 (Via USAGE)) /\ s' <> 0.
Proof. exists 1. split; [reflexivity|discriminate]. Qed.

(* ------------------------------------------------------------------ facts about the working tree *)
Lemma contracts_checks_first_l :
  forallb (fun p => checks_first (contract_order (snd p))) gen_contracts = true.
Proof. vm_compute. reflexivity. Qed.

Lemma contracts_classified_l :
  forallb (fun p => contract_classified (snd (fst p)) (snd p)) gen_contracts = true.
Proof. vm_compute. reflexivity. Qed.

Lemma silent_contracts_l :
  forallb (fun p => negb (is_silent_function (fst (fst p))) || contract_silent (snd p)) gen_contracts = true.
Proof. vm_compute. reflexivity. Qed.

Lemma silent_functions_translated_l :
  forallb (fun f => existsb (fun p => String.eqb (fst (fst p)) f) gen_contracts) silent_functions = true.
Proof. vm_compute. reflexivity. Qed.

Lemma in_gen_contracts : forall (P : string * fval * list cstep -> bool),
  forallb P gen_contracts = true -> forall p, In p gen_contracts -> P p = true.
Proof. intros P H p Hin. rewrite forallb_forall in H. apply H. exact Hin. Qed.

(* ------------------------------------------------------------------ the generated contracts, function by function *)
Ltac crun_lazy :=
  unfold crun;
  lazy -[Z.ltb Z.leb Z.gtb Z.geb Z.eqb Z.max Qle_bool Qeq_bool inject_Z existsb adjacent_ge dnan dlt dle dgt dge d0 d1
         is_16 Z.of_nat length nth Z.to_nat cal_at negb orb andb olist apply_a_rows dvec_differs xvec_differs xadjacent_ge xfreq_ok xsigma_pos xsigma_nonneg
         xle xlt xnan xinf x0];
  rewrite ?Z.eqb_refl; cbn [negb orb andb].
Ltac batoms :=
  rewrite ?Z.gtb_ltb, ?Z.geb_leb; try reflexivity;
  repeat (match goal with
          | |- context [Z.ltb ?a ?b] => destruct (Z.ltb_spec a b)
          | |- context [Z.leb ?a ?b] => destruct (Z.leb_spec a b)
          | |- context [Z.eqb ?a ?b] => destruct (Z.eqb_spec a b)
          | |- context [Qle_bool ?a ?b] => destruct (Qle_bool a b) eqn:?
          | |- context [Qeq_bool ?a ?b] => destruct (Qeq_bool a b) eqn:?
          end; cbn [negb orb andb lift mdec_of]; try reflexivity; try (exfalso; lia)).
Ltac find_atom b :=
  lazymatch b with
  | (if ?c then _ else _) => find_atom c
  | (?x || _)%bool => find_atom x
  | (?x && _)%bool => find_atom x
  | negb ?x => find_atom x
  | ((if ?c then _ else _) =? _) => find_atom c
  | match ?x with Some _ => _ | None => _ end => destruct x eqn:?
  | _ => destruct b eqn:?
  end.
Ltac bools :=
  try reflexivity;
  repeat (match goal with
          | |- context [if ?b then _ else _] => find_atom b
          end; cbn [negb orb andb lift mdec_of]; try reflexivity; try discriminate; try (exfalso; lia)).

(* vnacal_new_alloc: the generated contract is the decision function of NewModel.v *)
Lemma new_alloc_contract_l : forall t r c f,
  crun (env_new_alloc HOk t r c f) gen_contract_vnacal_new_alloc = lift (check_new_alloc t r c f).
Proof.
  intros. crun_lazy. unfold check_new_alloc, T8, TE10, T16, E12, U8, UE10, UE14, U16. batoms.
Qed.

Lemma new_alloc_contract_iff_doc_l : forall t r c f,
  (exists v rp, crun (env_new_alloc HOk t r c f) gen_contract_vnacal_new_alloc = CRefused v rp) <->
  doc_alloc_valid t r c f = false.
Proof.
  intros. rewrite new_alloc_contract_l, <- new_alloc_refusal_iff_invalid_l.
  destruct (check_new_alloc t r c f) eqn:E; simpl.
  - split; [intros [v [rp H]]; discriminate|discriminate].
  - split; [reflexivity|intros _; eexists; eexists; reflexivity].
  - exfalso. revert E. unfold check_new_alloc. ifs; discriminate.
Qed.

Lemma bad_handle_alloc_l : forall h t r c f, h <> HOk ->
  crun (env_new_alloc h t r c f) gen_contract_vnacal_new_alloc = CRefused VNULL (Direct E_INVAL).
Proof. intros. destruct h; try congruence; reflexivity. Qed.

(* the scalar setters *)
Ltac setter_tac :=
  crun_lazy; unfold check_set_pvalue, check_set_p_tolerance, check_set_et_tolerance, check_set_pvalue_with, check_set_tolerance_with,
    gen_pvalue_refuses_nan, gen_p_tolerance_refuses_nan, gen_et_tolerance_refuses_nan, dnan, dle, dgt, dlt, d0, d1, usage1;
  rewrite ?Qeq_bool_refl; cbn [negb orb andb]; bools.

Lemma set_pvalue_contract_l : forall x,
  crun (env_dbl HOk "significance" x) gen_contract_vnacal_new_set_pvalue_limit = lift (check_set_pvalue x).
Proof. intros [q|]; setter_tac. Qed.

Lemma set_p_tolerance_contract_l : forall x,
  crun (env_dbl HOk "tolerance" x) gen_contract_vnacal_new_set_p_tolerance = lift (check_set_p_tolerance x).
Proof. intros [q|]; setter_tac. Qed.

Lemma set_et_tolerance_contract_l : forall x,
  crun (env_dbl HOk "tolerance" x) gen_contract_vnacal_new_set_et_tolerance = lift (check_set_et_tolerance x).
Proof. intros [q|]; setter_tac. Qed.

Lemma set_iteration_contract_l : forall n,
  crun (env_int HOk "iterations" n) gen_contract_vnacal_new_set_iteration_limit = lift (check_set_iteration n).
Proof. intros; crun_lazy; unfold check_set_iteration, usage1; batoms. Qed.

Lemma set_z0_contract_l : crun (env_int HOk "unused" 0) gen_contract_vnacal_new_set_z0 = CPass.
Proof. reflexivity. Qed.

Lemma setters_bad_handle_l : forall h e,
  h <> HOk ->
  In e [gen_contract_vnacal_new_set_frequency_vector; gen_contract_vnacal_new_set_z0; gen_contract_vnacal_new_set_m_error;
        gen_contract_vnacal_new_set_p_tolerance; gen_contract_vnacal_new_set_et_tolerance;
        gen_contract_vnacal_new_set_iteration_limit; gen_contract_vnacal_new_set_pvalue_limit] ->
  forall rest, crun (lookup (vnp_vars h ++ rest)) e = CRefused VM1 (Direct E_INVAL).
Proof.
  intros h e Hh Hin rest. simpl in Hin.
  destruct h; try congruence;
    repeat (destruct Hin as [Hin|Hin]; [subst e; reflexivity|]); destruct Hin.
Qed.

(* vnacal_new_set_frequency_vector: check_set_fv of NewModel.v, then - when the C text has it (fix DM90) - the test that the
   frequencies do not change under a measurement error model *)
Lemma set_fv_contract_l : forall s inforce fv rb,
  crun (env_set_fv HOk s inforce fv rb) gen_contract_vnacal_new_set_frequency_vector =
  lift (check_set_fv2 gen_fv_tests_m_error s inforce fv rb).
Proof.
  intros s inforce fv rb. destruct fv as [l|]; [|reflexivity].
  crun_lazy. unfold check_set_fv2, check_set_fv, gen_fv_tests_m_error, usage1. rewrite ?Z.gtb_ltb. cbn [andb]. bools.
Qed.

(* vnacal_new_solve: the only argument test is "the frequency vector was given"; NULL is the only handle test *)
Lemma solve_contract_l : forall s,
  crun (env_solve HOk s) gen_contract_vnacal_new_solve = lift (check_solve s None).
Proof. intros s. unfold check_solve, usage1. crun_lazy. bools. Qed.
Lemma solve_bad_magic_not_tested_l : forall s,
  crun (env_solve HBad s) gen_contract_vnacal_new_solve = crun (env_solve HOk s) gen_contract_vnacal_new_solve.
Proof. intros s. crun_lazy. reflexivity. Qed.

(* vnacal_new_set_m_error: the generated list in the environment over doubles with NaN and infinities is the decision as
   coded, for the generation of the validation loops the C text has (gen_m_error_f92 / f94) *)
Lemma set_m_error_contract_l : forall s a,
  mdec_of (crun (env_set_m_error_x HOk s a) gen_contract_vnacal_new_set_m_error) =
  code_set_m_error gen_m_error_f92 gen_m_error_f94 s a.
Proof.
  intros s [n fv nf tr narrow s16]. unfold code_set_m_error, gen_m_error_f92, gen_m_error_f94.
  cbn [mx_n mx_fv mx_nf mx_tr mx_narrow mx_s16].
  destruct nf as [nfl|], tr as [trl|], fv as [l|]; crun_lazy; cbn [olist existsb andb orb negb];
    rewrite ?Z.gtb_ltb; bools.
Qed.

(* vnacal_add_calibration *)
Lemma add_calibration_contract_l : forall hn other solved,
  crun (env_add_calibration HOk hn other solved) gen_contract_vnacal_add_calibration =
  if add_calibration_valid hn other solved then CPass else CRefused VM1 (Via USAGE).
Proof. intros [| |] [|] [|]; reflexivity. Qed.
Lemma add_calibration_bad_vcp_l : forall hv hn other solved, hv <> HOk ->
  crun (env_add_calibration hv hn other solved) gen_contract_vnacal_add_calibration = CRefused VM1 (Direct E_INVAL).
Proof. intros [| |] hn other solved H; try congruence; reflexivity. Qed.

(* vnacal_set_fprecision / vnacal_set_dprecision *)
Lemma precision_contract_l : forall p,
  crun (env_precision HOk p) gen_contract_vnacal_set_fprecision =
    (if (1 <=? p) && (p <=? gen_max_precision) then CPass else CRefused VM1 (Via USAGE)) /\
  crun (env_precision HOk p) gen_contract_vnacal_set_dprecision =
    (if (1 <=? p) && (p <=? gen_max_precision) then CPass else CRefused VM1 (Via USAGE)).
Proof. intros p. unfold gen_max_precision. split; crun_lazy; batoms. Qed.

Lemma precision_bad_handle_l : forall h p c,
  h <> HOk -> In c [gen_contract_vnacal_set_fprecision; gen_contract_vnacal_set_dprecision] ->
  has_handle_test c = true -> crun (env_precision h p) c = CRefused VM1 (Direct E_INVAL).
Proof.
  intros h p c Hh [Hc|[Hc|[]]] Ht; subst c;
    first [ vm_compute in Ht; discriminate Ht | destruct h; [reflexivity|reflexivity|congruence] ].
Qed.

(* the calibration table: _vnacal_get_calibration, the getters, the ci argument of vnacal_property_* *)
Definition getter_contracts : list (list cstep * fval * bool) :=
  [(gen_contract_vnacal_get_name, VNULL, false); (gen_contract_vnacal_get_type, VM1, false);
   (gen_contract_vnacal_get_rows, VM1, false); (gen_contract_vnacal_get_columns, VM1, false);
   (gen_contract_vnacal_get_frequencies, VM1, false); (gen_contract_vnacal_get_fmin, VHUGE, true);
   (gen_contract_vnacal_get_fmax, VHUGE, true); (gen_contract_vnacal_get_frequency_vector, VNULL, false);
   (gen_contract_vnacal_get_z0, VHUGE, false); (gen_contract_vnacal_get_calibration, VNULL, false)].

Lemma getter_contract_l : forall c fv needs tb ci,
  In (c, fv, needs) getter_contracts ->
  crun (env_get HOk tb ci) c = if get_valid needs tb ci then CPass else CRefused fv (Direct E_INVAL).
Proof.
  intros c fv needs tb ci Hin. simpl in Hin.
  repeat (destruct Hin as [Hin|Hin];
          [inversion Hin; subst; clear Hin; unfold env_get, table_vars, get_valid, cal_at; crun_lazy; rewrite ?Z.geb_leb; bools|]).
  destruct Hin.
Qed.

Definition property_contracts : list (list cstep * fval) :=
  [(gen_contract_vnacal_property_type, VM1); (gen_contract_vnacal_property_count, VM1);
   (gen_contract_vnacal_property_keys, VNULL); (gen_contract_vnacal_property_get, VNULL);
   (gen_contract_vnacal_property_set, VM1); (gen_contract_vnacal_property_delete, VM1);
   (gen_contract_vnacal_property_get_subtree, VNULL); (gen_contract_vnacal_property_set_subtree, VNULL)].

Lemma property_contract_l : forall c fv tb ci,
  In (c, fv) property_contracts ->
  crun (env_get HOk tb ci) c = if property_ci_valid tb ci then CPass else CRefused fv (Direct E_INVAL).
Proof.
  intros c fv tb ci Hin. simpl in Hin.
  repeat (destruct Hin as [Hin|Hin];
          [inversion Hin; subst; clear Hin; unfold env_get, table_vars, property_ci_valid, cal_at; crun_lazy; rewrite ?Z.geb_leb;
           batoms; bools|]).
  destruct Hin.
Qed.

Lemma query_bad_handle_l : forall h c fv tb ci,
  h <> HOk -> (exists n, In (c, fv, n) getter_contracts) \/ In (c, fv) property_contracts ->
  crun (env_get h tb ci) c = CRefused fv (Direct E_INVAL).
Proof.
  intros h c fv tb ci Hh [[n Hin]|Hin]; simpl in Hin;
    repeat (destruct Hin as [Hin|Hin]; [inversion Hin; subst; destruct h; try congruence; reflexivity|]);
    destruct Hin.
Qed.

(* vnacal_apply / vnacal_apply_m *)
Lemma apply_contract_l : forall tb a,
  crun (env_apply HOk tb a) gen_contract_vnacal_apply_common =
  if apply_valid tb a then CPass else CRefused VM1 (Via USAGE).
Proof.
  intros tb [ci fvn n fnan na below above bn br bc bcell aopt acell outn].
  unfold env_apply, table_vars, apply_valid, apply_valid_with, gen_apply_tests_nan, cal_at.
  cbn [ap_ci ap_fv_null ap_n ap_fv_nan ap_not_ascending ap_below ap_above ap_b_null ap_b_rows ap_b_cols ap_b_null_cell ap_a
       ap_a_null_cell ap_out_null].
  crun_lazy. rewrite ?Z.geb_leb.
  destruct (Z.ltb_spec ci 0); [reflexivity|].
  destruct (Z.leb_spec (Z.of_nat (length tb)) ci); [reflexivity|]. cbn [orb].
  destruct (nth (Z.to_nat ci) tb None) as [[t r c f]|]; [|reflexivity].
  cbn [cs_type cs_rows cs_cols cs_freqs negb andb orb].
  destruct aopt as [[ar ac]|]; batoms; bools.
  all: exfalso; repeat match goal with H : context [if _ then _ else _] |- _ => simpl in H end; lia.
Qed.

Lemma apply_bad_handle_l : forall h tb a, h <> HOk ->
  crun (env_apply h tb a) gen_contract_vnacal_apply_common = CRefused VM1 (Direct E_INVAL).
Proof. intros h tb a Hh. destruct h; try congruence; reflexivity. Qed.

(* ------------------------------------------------------------------ the settings of a vnacal_new_t: histories *)
Lemma n2_contract_checks_first : forall c, checks_first (contract_order (n2_contract c)) = true.
Proof. destruct c; vm_compute; reflexivity. Qed.
Lemma n2_contract_classified : forall c, contract_classified VM1 (n2_contract c) = true.
Proof. destruct c; vm_compute; reflexivity. Qed.

Lemma n2_refused_unchanged_l : forall s c s' v r, n2_step s c = (s', RRefused v r) -> s' = s.
Proof. intros s c s' v r H. unfold n2_step in H. eapply srun_refused_unchanged_l; [apply n2_contract_checks_first|exact H]. Qed.

Ltac srun_lazy :=
  unfold n2_step, n2_contract, n2_env, n2_work, n2_exit;
  lazy -[Z.ltb Z.leb Z.gtb Z.geb Z.eqb Z.max Qle_bool Qeq_bool inject_Z existsb adjacent_ge dnan dlt dle dgt dge d0 d1 dvec_differs
         is_16 Z.of_nat length nth Z.to_nat cal_at negb orb andb olist n2_inv];
  rewrite ?Z.eqb_refl; cbn [negb orb andb].


Ltac ifs_eqn :=
  repeat match goal with
         | |- context [if ?b then _ else _] => find_atom b; cbn [negb orb andb]
         end.

Lemma n2_inv_step_l : forall s c, n2_inv s -> n2_inv (fst (n2_step s c)).
Proof.
  intros s c Hinv.
  destruct (n2_step s c) as [s' res] eqn:E. simpl.
  destruct res as [| |v r|v].
  3: { apply n2_refused_unchanged_l in E. subst. exact Hinv. }
  all: revert E; destruct s as [[t rw cl fr fvd me pa] pt et it pv fvf];
    destruct c as [h fv rb|h|h a|h x|h x|h n|h x|h fails]; destruct h;
    try (destruct x as [q|]); try (destruct a as [n fv nf tr narrow s16]; destruct nf, tr, fv);
    srun_lazy; rewrite ?Z.gtb_ltb, ?Qeq_bool_refl; cbn [negb orb andb]; ifs_eqn; intro E; inversion E; subst; try exact Hinv;
    unfold n2_inv, dle, dgt, dlt, d0, d1 in *; simpl in *;
    repeat match goal with H : _ /\ _ |- _ => destruct H end;
    repeat split; try assumption; try reflexivity; try lia; try congruence; try tauto;
    repeat match goal with H : Qle_bool _ _ = _ |- _ => rewrite H end; reflexivity.
Qed.


Lemma n2_refused_classified_l : forall s c s' v r,
  n2_step s c = (s', RRefused v r) -> v = VM1 /\ (r = Direct E_INVAL \/ r = Via USAGE).
Proof.
  intros s c s' v r H.
  assert (Hs : snd (n2_step s c) = RRefused v r) by (rewrite H; reflexivity).
  unfold n2_step in Hs. apply srun_refused_iff_crun in Hs; [|apply n2_contract_checks_first].
  eapply crun_k_classified; [apply n2_contract_classified|exact Hs].
Qed.

Lemma n2_history_inv_l : forall ops s, n2_inv s -> n2_inv (n2_hist s ops).
Proof.
  induction ops as [|c ops IH]; intros s H; simpl; [exact H|]. apply IH. apply n2_inv_step_l. exact H.
Qed.

(* a refused call can be erased from a history: the structure ends in the same state *)
Lemma n2_refusal_erasable_l : forall ops1 c ops2 s v r,
  snd (n2_step (n2_hist s ops1) c) = RRefused v r ->
  n2_hist s (ops1 ++ c :: ops2) = n2_hist s (ops1 ++ ops2).
Proof.
  induction ops1 as [|d ops1 IH]; intros c ops2 s v r H; simpl in *.
  - destruct (n2_step s c) as [s' res] eqn:E. simpl in H. subst res.
    apply n2_refused_unchanged_l in E. simpl. subst. reflexivity.
  - eapply IH. exact H.
Qed.

Example n2_history_satisfiable :
  let s0 := mkn2 (mknsum 0 2 2 3 false false (mknew [] 0 0 0 None)) (Some (1 # 1000000)) (Some (1 # 1000000)) 30 (Some (1 # 1000)) [] in
  n2_inv s0 /\
  snd (n2_step s0 (N2SetPvalue HOk (Some 2%Q))) = RRefused VM1 (Via USAGE) /\
  snd (n2_step s0 (N2SetMError HOk (mkmerrx 1 None (Some [XFin 1%Q]) None false false))) = RRefused VM1 (Via USAGE) /\
  snd (n2_step s0 (N2Solve HNull false)) = RRefused VM1 (Direct E_INVAL) /\
  v_merror (n2_sum (n2_hist s0 [N2SetFv HOk (Some [Some 1%Q; Some 2%Q; Some 3%Q]) false; N2SetPvalue HOk (Some 2%Q);
                                N2SetMError HOk (mkmerrx 1 None (Some [XFin 1%Q]) None false false)])) = true.
Proof. vm_compute. repeat split; try reflexivity; try discriminate; intro H; discriminate. Qed.

(* ------------------------------------------------------------------ every translated function at once *)
Lemma contract_report_l : forall f fv c e entry clob v r,
  In (f, fv, c) gen_contracts -> crun e c = CRefused v r ->
  v = fv /\
  r_errno (call_trace (CRefused v r) entry clob) = E_INVAL /\
  length (r_log (call_trace (CRefused v r) entry clob)) = callbacks r /\
  (forall ce, In ce (r_log (call_trace (CRefused v r) entry clob)) -> ce = (USAGE, E_INVAL)) /\
  (is_silent_function f = true -> r_log (call_trace (CRefused v r) entry clob) = []).
Proof.
  intros f fv c e entry clob v r Hin H.
  pose proof (in_gen_contracts _ contracts_classified_l _ Hin) as Hc. simpl in Hc.
  destruct (call_trace_refused_l _ _ _ _ _ entry clob Hc H) as [Hv [He [Hl Hall]]].
  repeat split; try assumption.
  intro Hs. pose proof (in_gen_contracts _ silent_contracts_l _ Hin) as Hsil. simpl in Hsil.
  rewrite Hs in Hsil. simpl in Hsil.
  destruct (crun_k_silent _ _ _ _ _ Hsil H) as [en Hr]. subst r. reflexivity.
Qed.

Lemma contract_refused_unchanged_l : forall f fv c, In (f, fv, c) gen_contracts ->
  forall (St : Type) (envf : St -> env) (exitw : St -> St) (work : nat -> St -> St * bool) s s' v r,
  srun envf exitw work 0 0 c s = (s', RRefused v r) ->
  s' = s /\ crun (envf s) c = CRefused v r.
Proof.
  intros f fv c Hin St envf exitw work s s' v r H.
  pose proof (in_gen_contracts _ contracts_checks_first_l _ Hin) as Hc. simpl in Hc.
  split; [eapply srun_refused_unchanged_l; eauto|].
  apply (srun_refused_iff_crun St envf exitw work c 0%nat 0%nat s v r Hc). rewrite H. reflexivity.
Qed.

Lemma contract_success_silent_l : forall o entry clob,
  (o = CPass \/ o = CExitOk) -> call_trace o entry clob = mkr entry [].
Proof. intros o entry clob [H|H]; subst; reflexivity. Qed.

Example contract_report_satisfiable :
  In ("vnacal_new_alloc", VNULL, gen_contract_vnacal_new_alloc) gen_contracts /\
  crun (env_new_alloc HOk 0 2 1 3) gen_contract_vnacal_new_alloc = CRefused VNULL (Via USAGE) /\
  In ("vnacal_get_fmin", VHUGE, gen_contract_vnacal_get_fmin) gen_contracts /\
  crun (env_get HOk [Some (mkcal 0 1 1 0)] 0) gen_contract_vnacal_get_fmin = CRefused VHUGE (Direct E_INVAL) /\
  crun (env_apply HOk [None; Some (mkcal 8 2 1 3)] (mkapp 1 false 2 false false false false false 2 2 false (Some (1, 2)) false false))
       gen_contract_vnacal_apply_common = CPass /\
  crun (env_apply HOk [None; Some (mkcal 8 2 1 3)] (mkapp 1 false 2 false false false false false 2 2 false (Some (2, 2)) false false))
       gen_contract_vnacal_apply_common = CRefused VM1 (Via USAGE).
Proof. vm_compute. repeat split; try reflexivity; auto 40. Qed.

(* ------------------------------------------------------------------ _vnacal_new_add_common *)
Lemma scan_code_map : forall P l seen mx idx,
  scan_map P l seen mx = match scan_code P l seen mx idx with Some _ => true | None => false end.
Proof.
  intros P l. induction l as [|p r IH]; intros seen mx idx; simpl; [reflexivity|].
  destruct (p <? 1); [reflexivity|]. destruct (Z.max mx p >? P); [reflexivity|].
  destruct (existsb (Z.eqb p) seen); [reflexivity|]. apply IH.
Qed.

Definition add_step_ok (s : cstep) : bool :=
  match s with
  | SReport _ USAGE VM1 | SReport _ MATH VM1 => true
  | _ => false
  end.

Lemma crun_k_reports : forall c e k v r,
  forallb add_step_ok c = true -> crun_k e k c = CRefused v r -> v = VM1 /\ (r = Via USAGE \/ r = Via MATH).
Proof.
  intros c e. induction c as [|s c IH]; intros k v r Hc H; simpl in *; [discriminate|].
  apply andb_true_iff in Hc. destruct Hc as [Hs Hc].
  destruct k as [|k]; [|eapply IH; eauto].
  destruct s; simpl in Hs; try discriminate.
  destruct (ceval e c0); [|eapply IH; eauto].
  inversion H; subst. destruct cat; try discriminate; destruct v; try discriminate; split; auto.
Qed.

(* facts: every step of the generated validation is a reported refusal with -1 (VNAERR_USAGE; VNAERR_MATH for the
   singular 'a' matrix): nothing is written in between as far as the translator follows the function (up to the
   first allocation; the two later tests are made on the not yet linked measurement); the type switch lists the
   eight types a vnacal_new_t can have *)
Lemma add_common_as_found_l :
  forallb add_step_ok gen_contract_vnacal_new_add_common = true /\
  forallb (fun t => match add_type_row t with Some _ => true | None => false end) [0; 1; 2; 3; 4; 5; 6; 7] = true /\
  (gen_add_common_prefix <= List.length gen_contract_vnacal_new_add_common)%nat.
Proof. vm_compute. repeat split; try reflexivity. repeat constructor. Qed.

Lemma add_common_refusal_classified_l : forall e v r,
  crun e gen_contract_vnacal_new_add_common = CRefused v r -> v = VM1 /\ (r = Via USAGE \/ r = Via MATH).
Proof. intros e v r H. eapply crun_k_reports; [exact (proj1 add_common_as_found_l)|exact H]. Qed.

(* the generated validation against check_add of NewModel.v on concrete standards (the general equality is
   compared on generated tuples by the check, not proved) *)
Example add_common_contract_examples :
  let s := mknsum 4 2 2 3 true true (mknew [] 0 0 0 None) in
  let ok := ChEnd 1 true false 0%Q None in
  let rows := [mkadd false None 2 2 2 2 (Some [1; 2]) [ok; ok; ok; ok] false false;
               mkadd false None 2 2 1 1 (Some [2]) [ok] false true;
               mkadd false None 2 2 2 2 (Some [1; 1]) [ok; ok; ok; ok] false false;
               mkadd false None 2 2 2 2 (Some [1; 3]) [ok; ok; ok; ok] false false;
               mkadd false (Some (2, 2)) 2 2 2 2 None [ok; ok; ok; ok] true false;
               mkadd false None 2 2 2 2 None [ok; ChNone 99; ok; ok] false false;
               mkadd true None 2 2 2 2 None [ok; ok; ok; ok] false false;
               mkadd false None 3 2 2 2 None [ok; ok; ok; ok] false false] in
  map (fun a => crun (env_add s a) gen_contract_vnacal_new_add_common) rows = map (fun a => lift (check_add s a)) rows /\
  map (fun a => crun (env_add s a) gen_contract_vnacal_new_add_common) rows =
    [CPass; CRefused VM1 (Via USAGE); CRefused VM1 (Via USAGE); CRefused VM1 (Via USAGE); CRefused VM1 (Via MATH);
     CRefused VM1 (Via USAGE); CRefused VM1 (Via USAGE); CRefused VM1 (Via USAGE)].
Proof. vm_compute. split; reflexivity. Qed.

(* ------------------------------------------------------------------ vnacal_new_set_m_error: the code after DC92 + DC94 is the manual's rule *)
Lemma existsb_negb_forallb : forall (A : Type) (f : A -> bool) l, existsb (fun x => negb (f x)) l = negb (forallb f l).
Proof. induction l as [|x l IH]; simpl; [reflexivity|]. rewrite IH. destruct (f x); reflexivity. Qed.

Lemma xascending_adjacent : forall l, forallb xfreq_ok l = true -> xascending l = negb (xadjacent_ge l).
Proof.
  induction l as [|a l IH]; intros H; [reflexivity|].
  destruct l as [|b r]; [reflexivity|].
  simpl in H. apply andb_true_iff in H. destruct H as [Ha H].
  assert (Hb := H). simpl in Hb. apply andb_true_iff in Hb. destruct Hb as [Hb _].
  change (xascending (a :: b :: r)) with (xlt a b && xascending (b :: r)).
  change (xadjacent_ge (a :: b :: r)) with (xle b a || xadjacent_ge (b :: r)).
  rewrite (IH H). destruct a as [| |qa]; try discriminate. destruct b as [| |qb]; try discriminate.
  simpl. destruct (Qle_bool qb qa); reflexivity.
Qed.

Lemma set_m_error_documented_l : forall s a,
  code_set_m_error true true s a = mdec_of (doc_set_m_error s a).
Proof.
  intros s [n fv nf tr narrow s16]. unfold code_set_m_error, doc_set_m_error.
  cbn [mx_n mx_fv mx_nf mx_tr mx_narrow mx_s16].
  destruct (Z.ltb_spec n 1) as [Hn|Hn]; [reflexivity|].
  destruct nf as [nfl|]; [|destruct tr; reflexivity].
  rewrite !existsb_negb_forallb.
  destruct (forallb xsigma_pos nfl); [|reflexivity]. cbn [negb].
  destruct (forallb xsigma_nonneg (olist tr)); [|reflexivity]. cbn [negb].
  destruct (v_fvalid s); [|reflexivity]. cbn [negb].
  assert (Hn1 : (1 <? n) = negb (n =? 1)).
  { destruct (Z.ltb_spec 1 n), (Z.eqb_spec n 1); try reflexivity; lia. }
  destruct fv as [l|].
  - rewrite Hn1. destruct (n =? 1); [cbn [negb andb]; destruct (is_16 (v_type s) && s16); reflexivity|]. cbn [negb andb orb].
    rewrite existsb_negb_forallb.
    destruct (forallb xfreq_ok l) eqn:Hok.
    + rewrite (xascending_adjacent l Hok). cbn [negb orb].
      destruct (xadjacent_ge l); cbn [negb orb]; [reflexivity|].
      destruct ((0 <? v_freqs s) && narrow); [reflexivity|]. destruct (is_16 (v_type s) && s16); reflexivity.
    + reflexivity.
  - destruct (negb (n =? 1) && negb (n =? v_freqs s)); [reflexivity|]. destruct (is_16 (v_type s) && s16); reflexivity.
Qed.

(* ------------------------------------------------------------------ the log of calls of the error function, from the steps *)
Lemma ctrace_k_cout : forall c e p clob k st, fst (ctrace_k e p clob k c st) = crun_k e k c.
Proof.
  induction c as [|s c IH]; intros e p clob k st; simpl; [reflexivity|].
  destruct k as [|k]; [|apply IH].
  destruct s; try (destruct (ceval e c0); [reflexivity|apply IH]); try apply IH; try reflexivity.
  destruct (ceval e c0); apply IH.
Qed.

(* a prologue that passes or leaves through an early exit has run no reporter and stored no errno *)
Lemma ctrace_k_success_silent : forall c e p clob k st o st',
  ctrace_k e p clob k c st = (o, st') -> (o = CPass \/ o = CExitOk) -> st' = st.
Proof.
  induction c as [|s c IH]; intros e p clob k st o st' H Ho; simpl in H; [inversion H; reflexivity|].
  destruct k as [|k]; [|eapply IH; eauto].
  destruct s.
  - destruct (ceval e c0); [inversion H; subst; destruct Ho; discriminate|eapply IH; eauto].
  - destruct (ceval e c0); [inversion H; subst; destruct Ho; discriminate|eapply IH; eauto].
  - destruct (ceval e c0); [inversion H; reflexivity|eapply IH; eauto].
  - destruct (ceval e c0); eapply IH; eauto.
  - eapply IH; eauto.
  - inversion H; reflexivity.
  - inversion H; reflexivity.
Qed.

Lemma run_effects_paths : forall p cat entry clob,
  run_effects (new_errno cat entry) cat (path_effects p) clob 0 (mkr entry []) =
  mkr (new_errno cat entry) (match p with PNoErrorFn => [] | _ => [(cat, new_errno cat entry)] end).
Proof. intros [| |] cat entry clob; reflexivity. Qed.

Lemma ctrace_k_refused : forall fv c e p clob k entry v r st',
  contract_classified fv c = true ->
  ctrace_k e p clob k c (mkr entry []) = (CRefused v r, st') ->
  v = fv /\ r_errno st' = E_INVAL /\ List.length (r_log st') = path_callbacks p r /\
  (forall ce, In ce (r_log st') -> ce = (USAGE, E_INVAL)).
Proof.
  intros fv c e p clob. induction c as [|s c IH]; intros k entry v r st' Hc H; simpl in *; [discriminate|].
  apply andb_true_iff in Hc. destruct Hc as [Hs Hc].
  destruct k as [|k]; [|eapply IH; eauto].
  destruct s; simpl in Hs.
  - destruct (ceval e c0); [|eapply IH; eauto].
    apply andb_true_iff in Hs. destruct Hs as [Hv He]. inversion H; subst. apply fval_eqb_eq in Hv. apply errno_eqb_eq in He. subst.
    simpl. repeat split; try reflexivity; [destruct p; reflexivity|intros ce []].
  - destruct (ceval e c0); [|eapply IH; eauto].
    apply andb_true_iff in Hs. destruct Hs as [Hv He]. inversion H; subst. apply fval_eqb_eq in Hv. apply category_eqb_eq in He. subst.
    simpl r_errno. rewrite run_effects_paths. destruct p; simpl; repeat split; try reflexivity;
      intros ce Hin; try (destruct Hin as [Hin|[]]; symmetry; exact Hin); destruct Hin.
  - destruct (ceval e c0); [discriminate|eapply IH; eauto].
  - destruct (ceval e c0); eapply IH; eauto.
  - eapply IH; eauto.
  - discriminate.
  - discriminate.
Qed.

Lemma contract_trace_l : forall f fv c e p clob entry v r st',
  In (f, fv, c) gen_contracts -> ctrace e p clob c entry = (CRefused v r, st') ->
  v = fv /\ r_errno st' = E_INVAL /\ List.length (r_log st') = path_callbacks p r /\
  (forall ce, In ce (r_log st') -> ce = (USAGE, E_INVAL)) /\
  (is_silent_function f = true -> r_log st' = []) /\
  crun e c = CRefused v r.
Proof.
  intros f fv c e p clob entry v r st' Hin H.
  pose proof (in_gen_contracts _ contracts_classified_l _ Hin) as Hc. simpl in Hc.
  destruct (ctrace_k_refused _ _ _ _ _ _ _ _ _ _ Hc H) as [Hv [He [Hl Hall]]].
  assert (Hrun : crun e c = CRefused v r).
  { unfold crun. rewrite <- (ctrace_k_cout c e p clob 0%nat (mkr entry [])). unfold ctrace in H. rewrite H. reflexivity. }
  repeat split; try assumption.
  intro Hs. pose proof (in_gen_contracts _ silent_contracts_l _ Hin) as Hsil. simpl in Hsil.
  rewrite Hs in Hsil. simpl in Hsil.
  destruct (crun_k_silent _ _ _ _ _ Hsil Hrun) as [en Hr]. subst r.
  destruct (r_log st') as [|x l]; [reflexivity|]. destruct p; discriminate Hl.
Qed.

Lemma model_variant_set_m_error_l :
  let s := mknsum 0 2 2 3 true false (mknew [] 0 0 0 None) in
  code_set_m_error false false s (mkmerrx 1 (Some [XFin 2000]) (Some [XFin (5 # 1000)]) None true false) = MRefuse /\
  doc_set_m_error s (mkmerrx 1 (Some [XFin 2000]) (Some [XFin (5 # 1000)]) None true false) = CPass /\
  code_set_m_error false false s (mkmerrx 1 None (Some [XNaN]) None false false) = MPassD /\
  doc_set_m_error s (mkmerrx 1 None (Some [XNaN]) None false false) = CRefused VM1 (Via USAGE).
Proof. vm_compute. repeat split; reflexivity. Qed.

(* ------------------------------------------------------------------ failures reported in the category that goes with errno *)
(* as found: every 'if (errno == EINVAL) report(c1) else report(c2)' exit has c1 = VNAERR_USAGE, c2 = VNAERR_SYSTEM *)
Lemma errno_reports_as_found_l :
  forallb (fun p => category_eqb (snd (fst p)) USAGE && category_eqb (snd p) SYSTEM) gen_errno_reports = true.
Proof. vm_compute. reflexivity. Qed.

(* both branches: one call of the error function (none without one), errno on return = errno inside the call = the errno
   the callee left (EINVAL in the first branch, the system's in the second), on each path through the reporter *)
Lemma errno_dependent_report_l : forall f c1 c2 p entry clob (einval : bool),
  In (f, c1, c2) gen_errno_reports ->
  let cat := if einval then c1 else c2 in
  let e := if einval then E_INVAL else entry in
  run_effects (new_errno cat e) cat (path_effects p) clob 0 (mkr e []) =
  mkr e (match p with PNoErrorFn => [] | _ => [(cat, e)] end).
Proof.
  intros f c1 c2 p entry clob einval Hin.
  pose proof errno_reports_as_found_l as F. rewrite forallb_forall in F. specialize (F _ Hin). simpl in F.
  apply andb_true_iff in F. destruct F as [F1 F2]. apply category_eqb_eq in F1. apply category_eqb_eq in F2. subst c1 c2.
  destruct einval; simpl; rewrite run_effects_paths; reflexivity.
Qed.

(* the settings machine with an error model set: the vector in force is accepted again, another one is refused and leaves the
   state (when the C text has the test of fix DM90) *)
Lemma n2_fv_under_model_l :
  gen_fv_tests_m_error = true ->
  let v := [Some 1%Q; Some 2%Q; Some 3%Q] in
  let s := mkn2 (mknsum 0 2 2 3 true true (mknew [] 0 0 0 None)) (Some (1 # 1000000)) (Some (1 # 1000000)) 30 (Some (1 # 1000)) v in
  n2_step s (N2SetFv HOk (Some [Some 1%Q; Some 2%Q; Some 4%Q]) false) = (s, RRefused VM1 (Via USAGE)) /\
  n2_step s (N2SetFv HOk (Some v) false) = (s, RPass) /\
  snd (n2_step (with_sum s (set_merror false)) (N2SetFv HOk (Some [Some 1%Q; Some 2%Q; Some 4%Q]) false)) = RPass.
Proof. intro H. first [discriminate H | (vm_compute; repeat split; reflexivity)]. Qed.
