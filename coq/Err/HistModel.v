(* C11: histories - lists of calls run one after the other on one object - over the step functions of the
   modelled machines (no proofs in this file).

     hrun step s ops      the object after the whole history and the answer (mres) of every call
     kept step s ops      the history without the calls that were refused BY AN ARGUMENT CHECK (MRefused), decided
                          call by call on the object each call finds
     arg_refused m        the answer is such a refusal (a failure inside the work, MLate, is not: the numeric
                          kernels of vnacal_new_solve have written by then)

   Instances: the vnadata summary machine (data_run), the vnacal_new_t machine (new_run), the parameter table
   (param_run), the slot table of the vnacal_t (query_run) and the registration summary under
   _vnacal_new_add_common (add_standard_current, wrapped as a step on newsum). *)
Require Import List ZArith Bool.
Import ListNotations.
Require Import LV.Err.ErrBase LV.Gen.ErrnoGen LV.Err.OrderModel LV.Err.ContractModel LV.Err.RefutedModel LV.Err.NewModel.

Definition arg_refused (m : mres) : bool := match m with MRefused _ _ => true | _ => false end.

Section Histories.
  Variables St Op : Type.
  Variable step : St -> Op -> St * mres.

  Fixpoint hrun (s : St) (ops : list Op) : St * list mres :=
    match ops with
    | [] => (s, [])
    | o :: r => let (s1, a) := step s o in
                let (s2, l) := hrun s1 r in (s2, a :: l)
    end.

  Fixpoint kept (s : St) (ops : list Op) : list Op :=
    match ops with
    | [] => []
    | o :: r => let (s1, a) := step s o in
                if arg_refused a then kept s1 r else o :: kept s1 r
    end.
End Histories.

Arguments hrun {St Op}. Arguments kept {St Op}.

(* the registration of the S cells of one standard after the other, as a step on the summary *)
Definition standard_step (s : newsum) (cells : list pchain) : newsum * mres :=
  match add_standard_current s cells with
  | (s', Refuse v r) => (s', MRefused v r)
  | (s', _) => (s', MPass)
  end.
