(* C11: the failure contract of an API function as an ORDERED list of steps, as generated from the C
   text by translate/contracts.py (LV.Gen.ContractGen), and the machines that run it (no proofs in
   this file).

   cexp     conditions of the refusing tests: ||, &&, !, the six comparisons, truth of a value, over
            variables (arguments, fields of the object, locals, "atom:..." for tests outside the
            grammar: loops over vectors, callees), integer / floating literals and NULL
   cstep    one top-level statement of the C function:
              SDirect c e v    if (c) { errno = e; return v; }            (silent)
              SReport c cat v  if (c) { report with category cat; return v; }
              SExit c          if (c) { ...; return success; }
              SSkip c n        if (c) goto a label n steps further down
              SAlloc v         exit on a failed allocation (does not fail in this model: C12)
              SLate v          call of a working callee that can fail
              SWork            stores to the object, other calls
   crun     the prologue on an environment (what the variables stand for): refused / early exit / passed
   srun     the whole body on a state: tests read the state through envf, SWork / SLate change it
   veffect  the epilogue of _vnaerr_verror as a sequence: set errno, call the error function, a call
            that may disturb errno *)
Require Import String.
Require Import List ZArith QArith Bool.
Import ListNotations.
Require Import LV.Err.ErrBase.
Open Scope Z_scope.

Inductive cop : Type := OLt | OLe | OGt | OGe | OEq | ONe.

Inductive cexp : Type :=
| CVar (s : string)
| CInt (z : Z)
| CDbl (q : Q)
| CNull
| CCmp (o : cop) (a b : cexp)
| CTrue (a : cexp)                (* C truth of a value: non-zero / non-NULL *)
| COr (a b : cexp)
| CAnd (a b : cexp)
| CNot (a : cexp).

(* values: C int, double (None = NaN), pointer (only whether it is NULL) *)
Inductive val : Type :=
| VInt (z : Z)
| VDbl (d : option Q)
| VPtr (null : bool).

Definition env : Type := string -> val.

Definition zcmp (o : cop) (x y : Z) : bool :=
  match o with
  | OLt => x <? y | OLe => x <=? y | OGt => x >? y | OGe => x >=? y | OEq => x =? y | ONe => negb (x =? y)
  end.

(* IEEE comparisons: every ordered comparison with NaN is false, != is true *)
Definition dcmp (o : cop) (a b : option Q) : bool :=
  match a, b with
  | Some x, Some y =>
      match o with
      | OLt => negb (Qle_bool y x) | OLe => Qle_bool x y | OGt => negb (Qle_bool x y) | OGe => Qle_bool y x
      | OEq => Qeq_bool x y | ONe => negb (Qeq_bool x y)
      end
  | _, _ => match o with ONe => true | _ => false end
  end.

Definition pcmp (o : cop) (a b : bool) : bool :=     (* pointers are compared with NULL only *)
  match o with
  | OEq => a && b
  | ONe => negb (a && b)
  | _ => false
  end.

Definition cmp_val (o : cop) (a b : val) : bool :=
  match a, b with
  | VInt x, VInt y => zcmp o x y
  | VDbl x, VDbl y => dcmp o x y
  | VDbl x, VInt y => dcmp o x (Some (inject_Z y))
  | VInt x, VDbl y => dcmp o (Some (inject_Z x)) y
  | VPtr x, VPtr y => pcmp o x y
  | _, _ => false
  end.

Definition truthy (v : val) : bool :=
  match v with
  | VInt z => negb (z =? 0)
  | VDbl (Some q) => negb (Qeq_bool q 0)
  | VDbl None => true
  | VPtr n => negb n
  end.

(* operands are leaves (the translator generates nothing else as an operand of a comparison) *)
Definition tval (e : env) (c : cexp) : val :=
  match c with
  | CVar s => e s
  | CInt z => VInt z
  | CDbl q => VDbl (Some q)
  | CNull => VPtr true
  | _ => VInt 0
  end.

Fixpoint ceval (e : env) (c : cexp) : bool :=
  match c with
  | CCmp o a b => cmp_val o (tval e a) (tval e b)
  | CTrue a => truthy (tval e a)
  | COr a b => if ceval e a then true else ceval e b
  | CAnd a b => if ceval e a then ceval e b else false
  | CNot a => negb (ceval e a)
  | _ => truthy (tval e c)
  end.

Inductive cstep : Type :=
| SDirect (c : cexp) (e : errno_class) (v : fval)
| SReport (c : cexp) (cat : category) (v : fval)
| SExit (c : cexp)
| SSkip (c : cexp) (n : nat)
| SAlloc (v : fval)
| SLate (v : fval)
| SWork.

(* the event of ErrBase a step is (SSkip is control flow only) *)
Definition skind (s : cstep) : option ev :=
  match s with
  | SDirect _ _ _ => Some EvH
  | SReport _ _ _ => Some EvC
  | SExit _ => Some EvS
  | SSkip _ _ => None
  | SAlloc _ => Some EvA
  | SLate _ => Some EvF
  | SWork => Some EvW
  end.

Fixpoint contract_order (c : list cstep) : list ev :=
  match c with
  | [] => []
  | s :: r => match skind s with Some e => e :: contract_order r | None => contract_order r end
  end.

(* ------------------------------------------------------------------ the prologue on an environment *)
Inductive cout : Type :=
| CPass                               (* every test passed: the function goes on to its work *)
| CExitOk                             (* early successful exit *)
| CRefused (v : fval) (r : report).

(* k = number of steps still to be skipped (a goto in the C text) *)
Fixpoint crun_k (e : env) (k : nat) (steps : list cstep) : cout :=
  match steps with
  | [] => CPass
  | s :: r =>
      match k with
      | S k' => crun_k e k' r
      | O =>
          match s with
          | SDirect c en v => if ceval e c then CRefused v (Direct en) else crun_k e O r
          | SReport c cat v => if ceval e c then CRefused v (Via cat) else crun_k e O r
          | SExit c => if ceval e c then CExitOk else crun_k e O r
          | SSkip c n => if ceval e c then crun_k e n r else crun_k e O r
          | SAlloc _ => crun_k e O r
          | SLate _ => CPass
          | SWork => CPass
          end
      end
  end.
Definition crun (e : env) (steps : list cstep) : cout := crun_k e O steps.

Definition outcome_of_cout (o : cout) : outcome :=
  match o with CRefused v r => Refuse v r | _ => Pass end.

(* ------------------------------------------------------------------ the whole body on a state *)
Inductive sres : Type :=
| RPass                               (* ran to its end *)
| ROk                                 (* early successful exit *)
| RRefused (v : fval) (r : report)    (* by a test *)
| RLate (v : fval).                   (* a working callee failed *)

Section Machine.
  Variable St : Type.
  Variable envf : St -> env.                 (* what the tests see of the object and the arguments *)
  Variable exitw : St -> St.                 (* the write of an early successful exit *)
  Variable work : nat -> St -> St * bool.    (* the i-th working step; true = it failed (SLate only) *)

  Fixpoint srun (k wi : nat) (steps : list cstep) (s : St) : St * sres :=
    match steps with
    | [] => (s, RPass)
    | st :: r =>
        match k with
        | S k' => srun k' wi r s
        | O =>
            match st with
            | SDirect c en v => if ceval (envf s) c then (s, RRefused v (Direct en)) else srun O wi r s
            | SReport c cat v => if ceval (envf s) c then (s, RRefused v (Via cat)) else srun O wi r s
            | SExit c => if ceval (envf s) c then (exitw s, ROk) else srun O wi r s
            | SSkip c n => if ceval (envf s) c then srun n wi r s else srun O wi r s
            | SAlloc _ => srun O wi r s
            | SLate v => let (s', failed) := work wi s in
                         if failed then (s', RLate v) else srun O (S wi) r s'
            | SWork => srun O (S wi) r (fst (work wi s))
            end
        end
    end.
End Machine.
Arguments srun {St}.

(* ------------------------------------------------------------------ the reporter *)
Inductive veffect : Type :=
| ESet        (* errno = new_errno *)
| ECall       (* the error function is called (it may leave any errno behind) *)
| EClobber.   (* vasprintf, free: may change errno *)

Record rstate : Type := mkr { r_errno : errno_class; r_log : list (category * errno_class) }.

(* clob i = the errno the i-th disturbing call leaves behind *)
Fixpoint run_effects (new : errno_class) (cat : category) (effs : list veffect) (clob : nat -> errno_class)
         (i : nat) (st : rstate) : rstate :=
  match effs with
  | [] => st
  | ESet :: r => run_effects new cat r clob i (mkr new (r_log st))
  | ECall :: r => run_effects new cat r clob (S i) (mkr (clob i) (r_log st ++ [(cat, r_errno st)]))
  | EClobber :: r => run_effects new cat r clob (S i) (mkr (clob i) (r_log st))
  end.
