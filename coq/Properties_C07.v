(* C07 - calibration files round-trip: theorems (statements only; proofs are the named lemmas). *)
Require Import ZArith List Bool String.
Import ListNotations.
Require Import LV.CalFile.NumText LV.CalFile.NumTextProofs LV.CalFile.CalFileModel LV.CalFile.CalFileProofs.
Require Import LV.CalFile.CalSaveModel LV.CalFile.CalSaveProofs LV.CalFile.CalSaveExamples.
Require Import LV.Gen.SaveBufGen LV.CalFile.SaveBufFacts.
Open Scope Z_scope.

(* cal_buffers_fit: for every precision the setters of the current tree accept, the longest text the
   format in use can produce (plus the NUL) fits the buffer declared in vnacal_save.c: frequencies
   (add_double, vc_fprecision), data and z0 (add_complex, vc_dprecision), integers (add_integer).
   save_cfg is regenerated from the C text on every run (translate/savebuf.py). *)
Theorem cal_buffers_fit :
  (forall p, accepts (c_fset save_cfg) p = true -> fits (c_maxp save_cfg) (c_dbl save_cfg) p = true) /\
  (forall p, accepts (c_dset save_cfg) p = true -> fits (c_maxp save_cfg) (c_cpx save_cfg) p = true) /\
  (forall p, fits (c_maxp save_cfg) (c_int save_cfg) p = true).
Proof. exact save_cfg_fits. Qed.
Print Assumptions cal_buffers_fit.

(* the hypotheses are met: the default precisions, 40 and VNACAL_MAX_PRECISION are accepted *)
Theorem cal_buffers_fit_satisfiable :
  accepts (c_fset save_cfg) default_fprecision = true /\ accepts (c_dset save_cfg) default_dprecision = true /\
  accepts (c_fset save_cfg) 40 = true /\ accepts (c_dset save_cfg) max_precision = true.
Proof. exact save_cfg_accepts. Qed.
Print Assumptions cal_buffers_fit_satisfiable.

(* the text-length model: every shape printf can produce stays within the bound used above, and the
   bound is attained *)
Theorem e_text_length : forall plus p s, 1 <= p -> len_e plus p s <= max_e p.
Proof. exact len_e_le_max. Qed.
Print Assumptions e_text_length.
Theorem e_text_length_attained : forall plus p, 1 <= p -> len_e plus p (EFinite true true) = max_e p.
Proof. exact len_e_max_attained. Qed.
Print Assumptions e_text_length_attained.
Theorem a_text_length : forall plus s, ashape_ok s -> len_a plus s <= 24.
Proof. exact len_a_le_max. Qed.
Print Assumptions a_text_length.

(* the configuration of the tree before the fix of finding D26 is refuted by the same definitions *)
Theorem cal_buffers_fit_unfixed_refuted :
  (exists p, accepts (c_fset unfixed_cfg) p = true /\ fits (c_maxp unfixed_cfg) (c_dbl unfixed_cfg) p = false) /\
  (exists p, accepts (c_dset unfixed_cfg) p = true /\ fits (c_maxp unfixed_cfg) (c_cpx unfixed_cfg) p = false).
Proof. exact unfixed_cfg_refuted. Qed.
Print Assumptions cal_buffers_fit_unfixed_refuted.

(* ------------------------------------------------------------------------------------------------
   The round trip on the models: CalFile/CalSaveModel.v (vnacal_save.c as coded) against
   CalFile/CalFileModel.v (vnacal_load.c as coded).

   Number-text layer (trusted base, NOT proved here; the Section hypotheses below state what C99
   printf / sscanf / strtod and two library functions guarantee; they are exercised on every run by
   the ties of checks/C07.py and discharged for a toy number type in CalFile/CalSaveExamples.v):
     int_rt       sscanf("%d %c") reads back what sprintf("%d") wrote, for every int
     cx_accepted  parse_complex accepts the text add_complex wrote
     name_text    the scalar node of the name carries the name
     type_rt      vnacal_name_to_type(vnacal_type_to_name(t)) = t
     real_rt      rd p x is, by definition, what sscanf("%lf") returns for the text add_double wrote
     cx_rt        the value parse_complex computes from add_complex's text is (rd p re, rd p im)
     num_rt       rd p x = x when p = VNACAL_MAX_PRECISION ("%a") or p >= 17 (every non-NaN double once fix
                  DJ92 is applied: parse_complex no longer combines the parts by arithmetic)
   ------------------------------------------------------------------------------------------------ *)
Section NumberText.
  Variable num : Type.
  Variable num0 : num.
  Variable sc_int : Z -> scalar.
  Variable sc_real : Z -> num -> scalar.
  Variable sc_cx : Z -> (num * num) -> scalar.
  Variable sc_name : string -> scalar.
  Variable sc_type : ctype -> scalar.
  Hypothesis int_rt : forall n, - 2147483648 <= n <= 2147483647 -> s_int (sc_int n) = Some n.
  Hypothesis cx_accepted : forall p z, s_cx (sc_cx p z) = true.
  Hypothesis name_text : forall n, s_text (sc_name n) = n.
  Hypothesis type_rt : forall t, s_type (sc_type t) = Some t.
  Variable cls : num -> rclass.
  Variable rd : Z -> num -> num.
  Variable val_cx : string -> option (num * num).
  Hypothesis real_rt : forall p x, s_real (sc_real p x) = cls (rd p x).
  Hypothesis cx_rt : forall p z, val_cx (s_text (sc_cx p z)) = Some (rdc num rd p z).
  Hypothesis num_rt : forall p x, exact_prec max_precision p = true -> rd p x = x.

  (* save_load_doc: for EVERY container that satisfies the invariants of a vnacal_t the loader insists
     on (wf_container: per used slot min_dim <= rows, columns (min_dim = 1: fix DC1 is applied, the loader refuses dimensions below 1),
     dimensions fit the type, ports^2 <= INT_MAX/4,
     frequency count fits int, the exported property sub-trees are importable, the frequencies as
     written at fprecision read back non-negative and strictly ascending; names of used slots
     distinct) - every type, any rows x columns, any number of frequencies, any slot vector with
     holes, any precisions - the loader model accepts the document the saver model builds and
     returns exactly the calibrations of the used slots in slot order: names, types, dimensions,
     frequency count, the property sub-tree unchanged, z0 and every error-term cell as the text the
     saver wrote for that cell (loaded_cal). *)
  Theorem save_load_doc : forall v : container num, wf_container num sc_real v ->
    load save_vline (Some (save_doc num num0 sc_int sc_real sc_cx sc_name sc_type v))
    = Ok (map (loaded_cal num num0 sc_real sc_cx (v_fprec num v) (v_dprec num v)) (live num (v_slots num v))).
  Proof. exact (load_save_doc num num0 sc_int sc_real sc_cx sc_name sc_type int_rt cx_accepted name_text type_rt). Qed.

  (* cal_roundtrip: the same with values.  cal_equiv fp dp k l: same name, type, rows, columns,
     frequency count, property sub-tree; z0, every frequency and every cell [term][findex] of l
     read (strtod) as rd p of the corresponding value of k. *)
  Theorem cal_roundtrip : forall v : container num, wf_container num sc_real v ->
    exists cals, load save_vline (Some (save_doc num num0 sc_int sc_real sc_cx sc_name sc_type v)) = Ok cals /\
                 Forall2 (cal_equiv num num0 cls rd val_cx (v_fprec num v) (v_dprec num v)) (live num (v_slots num v)) cals /\
                 map c_name cals = names_of num (v_slots num v).
  Proof.
    exact (cal_roundtrip_models num num0 sc_int sc_real sc_cx sc_name sc_type int_rt cx_accepted name_text type_rt
             cls rd val_cx real_rt cx_rt).
  Qed.

  (* cal_roundtrip_exact: at VNACAL_MAX_PRECISION or at least 17 digits for both precisions the
     loaded values ARE the saved values (cal_same), and the only conditions are on the stored
     container (wf_container_stored: the stored frequencies are non-negative and strictly ascending) *)
  Theorem cal_roundtrip_exact : forall v : container num,
    exact_prec max_precision (v_fprec num v) = true -> exact_prec max_precision (v_dprec num v) = true ->
    wf_container_stored num cls v ->
    exists cals, load save_vline (Some (save_doc num num0 sc_int sc_real sc_cx sc_name sc_type v)) = Ok cals /\
                 Forall2 (cal_same num num0 cls val_cx) (live num (v_slots num v)) cals /\
                 map c_name cals = names_of num (v_slots num v).
  Proof.
    exact (cal_roundtrip_exact_models num num0 sc_int sc_real sc_cx sc_name sc_type int_rt cx_accepted name_text type_rt
             max_precision cls rd val_cx real_rt cx_rt num_rt).
  Qed.

  (* emit_parse_terms: for every type and ALL rows, columns >= 0 the data entry of one frequency
     written by add_error_parameters is parsed back to the term vector, cell for cell, every cell
     defined (vectors, matrices, the '~' diagonal, the UE14 / E12 column packing).  Induction on the
     loops; the bounded computation is kept as Example emit_parse_terms_dims_upto4. *)
  Theorem emit_parse_terms : forall fp dp t mr mc (c : scal num) findex f, 0 <= mr -> 0 <= mc ->
    readable (fclass num sc_real fp f) = true ->
    let ly := mk_layout t mr mc in
    parse_entries 1 ly None [save_entry num num0 sc_real sc_cx fp dp ly c findex f]
    = Ok [(xf_of (fclass num sc_real fp f), loaded_cells num sc_cx dp ly (e_at num num0 c findex))]
    /\ cells_defined (l_terms ly) (loaded_cells num sc_cx dp ly (e_at num num0 c findex)) = true.
  Proof. exact (emit_parse_entry num num0 sc_real sc_cx cx_accepted). Qed.

  (* the global property sub-tree is handed to the importer unchanged (its own round trip is C14) *)
  Theorem save_doc_global_properties : forall v : container num,
    match save_doc num num0 sc_int sc_real sc_cx sc_name sc_type v with
    | NM pairs => doc_gprops pairs = match v_props num v with Some p => [p] | None => [] end
    | _ => False
    end.
  Proof. exact (save_doc_gprops num num0 sc_int sc_real sc_cx sc_name sc_type). Qed.
End NumberText.
Print Assumptions save_load_doc.
Print Assumptions cal_roundtrip.
Print Assumptions cal_roundtrip_exact.
Print Assumptions emit_parse_terms.
Print Assumptions save_doc_global_properties.

(* the hypotheses of the Section are satisfiable and the theorems not vacuous: a toy number type
   discharges all of them; a container with a hole, a TE10 1x2 with two frequencies and an E12 2x1
   with a property sub-tree round-trips through the theorem *)
Theorem cal_roundtrip_satisfiable :
  exists cals, load save_vline (Some Toy.saved) = Ok cals /\
               Forall2 (cal_equiv Toy.num false Toy.cls Toy.rd Toy.val_cx 6 1000) [Toy.te10; Toy.e12] cals /\
               map c_name cals = ["a"; "b"]%string.
Proof. exact Toy.box_roundtrip. Qed.
Print Assumptions cal_roundtrip_satisfiable.

(* ------------------------------------------------------------------------------------------------
   legacy_versions and apply_same (session 5).  Models: CalFile/LegacyModel.v (the "#VNACAL 2.x" tree
   generated from a container: "sets" / "calibrations", optional "type: E12", per frequency "f" and
   "e" = rows x columns cells [el, er, em]); the loader side (version-line mapping 2.x -> major 0,
   3.x -> 1.0; parse_old_e_matrix; optional type) is CalFile/CalFileModel.v as coded;
   CalFile/LegacyApply.v (vnacal_apply's fill_* of Cal/ApplyModel.v on a loaded calibration).
   ------------------------------------------------------------------------------------------------ *)
Require Import LV.Cal.Sym LV.Cal.ApplyModel.
Require Import LV.CalFile.LegacyModel LV.CalFile.LegacyProofs LV.CalFile.LegacyExamples.
Require Import LV.CalFile.LegacyApply LV.CalFile.LegacyApplyProofs LV.CalFile.LegacyApplyExamples.

Section LegacyVersions.
  Variable num : Type.
  Variable num0 : num.
  Variable sc_int : Z -> scalar.
  Variable sc_real : Z -> num -> scalar.
  Variable sc_cx : Z -> (num * num) -> scalar.
  Variable sc_name : string -> scalar.
  Variable sc_type : ctype -> scalar.
  Hypothesis int_rt : forall n, - 2147483648 <= n <= 2147483647 -> s_int (sc_int n) = Some n.
  Hypothesis cx_accepted : forall p z, s_cx (sc_cx p z) = true.
  Hypothesis name_text : forall n, s_text (sc_name n) = n.
  Hypothesis type_rt : forall t, s_type (sc_type t) = Some t.

  (* legacy_versions: for EVERY container the old format can express (every used slot an E12 calibration -
     the only type of 2.x -, any rows >= columns, any number of frequencies, any slot vector with holes, any
     precisions; wf_container as in save_load_doc), in either spelling st of the 2.x tree ("sets" or
     "calibrations", with or without "type: E12") and for every minor version number:
       the 2.x tree under "#VNACAL 2.<minor2>", the current document under "#VNACAL 3.<minor3>" and the
       current document under "#VNACal 1.0" load to the SAME list of calibrations, namely the used slots
       in slot order with every error-term cell [term][findex] carrying the text written for that term
       (cell for cell, no bound; induction over rows, columns, triples and frequencies). *)
  Theorem legacy_versions : forall st minor2 minor3 (v : container num),
    wf_container num sc_real v -> all_e12 num (v_slots num v) ->
    load (legacy_vline minor2) (Some (legacy_doc num num0 sc_int sc_real sc_cx sc_name sc_type st v))
      = load save_vline (Some (save_doc num num0 sc_int sc_real sc_cx sc_name sc_type v)) /\
    load (v3_vline minor3) (Some (save_doc num num0 sc_int sc_real sc_cx sc_name sc_type v))
      = load save_vline (Some (save_doc num num0 sc_int sc_real sc_cx sc_name sc_type v)) /\
    load save_vline (Some (save_doc num num0 sc_int sc_real sc_cx sc_name sc_type v))
      = Ok (map (loaded_cal num num0 sc_real sc_cx (v_fprec num v) (v_dprec num v)) (live num (v_slots num v))).
  Proof. exact (legacy_versions_models num num0 sc_int sc_real sc_cx sc_name sc_type int_rt cx_accepted name_text type_rt). Qed.

  (* the heart of it: parse_old_e_matrix on the generated "e" of one frequency defines every term of an
     E12 calibration of ANY dimensions rows, columns >= 0 with the text the current format carries *)
  Theorem legacy_e_matrix_terms : forall dp (e : Z -> num * num) mr mc, 0 <= mr -> 0 <= mc ->
    parse_old_e (mk_layout E12 mr mc) (old_e_node num sc_cx dp (mk_layout E12 mr mc) e) (blank (mk_layout E12 mr mc))
    = Ok (loaded_cells num sc_cx dp (mk_layout E12 mr mc) e).
  Proof. exact (parse_old_e_legacy num sc_cx cx_accepted). Qed.

  (* apply_same, versions: the calibrations loaded from the three documents give the same vnacal_apply
     result (apply model as coded, any arithmetic O, any reading val of the number texts) at every
     frequency index and for every measured matrix *)
  Theorem apply_same : forall (O : Ops) (val : string -> O) st minor2 minor3 (v : container num) cals2 cals3 cals1,
    wf_container num sc_real v -> all_e12 num (v_slots num v) ->
    load (legacy_vline minor2) (Some (legacy_doc num num0 sc_int sc_real sc_cx sc_name sc_type st v)) = Ok cals2 ->
    load (v3_vline minor3) (Some (save_doc num num0 sc_int sc_real sc_cx sc_name sc_type v)) = Ok cals3 ->
    load save_vline (Some (save_doc num num0 sc_int sc_real sc_cx sc_name sc_type v)) = Ok cals1 ->
    forall findex m,
      map (fun c => apply_loaded O val c findex m) cals2 = map (fun c => apply_loaded O val c findex m) cals1 /\
      map (fun c => apply_loaded O val c findex m) cals3 = map (fun c => apply_loaded O val c findex m) cals1.
  Proof.
    exact (apply_same_versions_models num num0 sc_int sc_real sc_cx sc_name sc_type int_rt cx_accepted name_text type_rt).
  Qed.

  (* apply_same, round trip: a container saved with both precisions exact (MAX or >= 17) and loaded again
     is applied exactly as the stored container is (every used slot, every frequency index, every m).
     val_inj: the arithmetic value of a text is the injection of the double complex parse_complex reads. *)
  Variable cls : num -> rclass.
  Variable rd : Z -> num -> num.
  Variable val_cx : string -> option (num * num).
  Hypothesis real_rt : forall p x, s_real (sc_real p x) = cls (rd p x).
  Hypothesis cx_rt : forall p z, val_cx (s_text (sc_cx p z)) = Some (rdc num rd p z).
  Hypothesis num_rt : forall p x, exact_prec max_precision p = true -> rd p x = x.
  Theorem apply_same_roundtrip_exact : forall (O : Ops) (val : string -> O) (inj : num * num -> O),
    (forall s z, val_cx s = Some z -> val s = inj z) ->
    forall v : container num,
    exact_prec max_precision (v_fprec num v) = true -> exact_prec max_precision (v_dprec num v) = true ->
    wf_container_stored num cls v ->
    exists cals, load save_vline (Some (save_doc num num0 sc_int sc_real sc_cx sc_name sc_type v)) = Ok cals /\
      forall findex m, map (fun l => apply_loaded O val l findex m) cals
                       = map (fun k => apply_stored num num0 O inj k findex m) (live num (v_slots num v)).
  Proof.
    exact (fun O val inj val_inj =>
             apply_same_roundtrip_models num num0 sc_int sc_real sc_cx sc_name sc_type int_rt cx_accepted name_text type_rt
               O val cls val_cx inj val_inj max_precision rd real_rt cx_rt num_rt).
  Qed.
End LegacyVersions.
Print Assumptions legacy_versions.
Print Assumptions legacy_e_matrix_terms.
Print Assumptions apply_same.
Print Assumptions apply_same_roundtrip_exact.

(* "#VNACAL 3.x" is "#VNACal 1.x" for EVERY document, well formed or not (version-line mapping as coded) *)
Theorem v3_documents_load_as_v1 : forall minor3 minor1 d, load (v3_vline minor3) d = load (VNew 1 minor1) d.
Proof. exact v3_is_v1. Qed.
Print Assumptions v3_documents_load_as_v1.

(* the loader model is total on legacy trees: whatever tree follows a "#VNACAL 2.x" line, the answer is
   a classified error or a list of well-formed calibrations (every cell of every frequency defined) *)
Theorem legacy_load_total_wf : forall minor d,
  (exists cals, load (legacy_vline minor) d = Ok cals /\ Forall (fun c => wf_cal c = true) cals) \/
  load (legacy_vline minor) d = Err EBadMsg \/ load (legacy_vline minor) d = Err ESys.
Proof. exact legacy_load_total. Qed.
Print Assumptions legacy_load_total_wf.

(* the hypotheses of legacy_versions are met (toy number type; a container with a hole, an E12 2x1 with a
   property sub-tree and an E12 2x2 with two frequencies; the compat-V2 spelling "sets" without "type") *)
Theorem legacy_versions_satisfiable :
  load (legacy_vline 0) (Some (ToyLegacy.legacy ToyLegacy.old_style)) = load save_vline (Some ToyLegacy.current) /\
  load (v3_vline 7) (Some ToyLegacy.current) = load save_vline (Some ToyLegacy.current) /\
  load save_vline (Some ToyLegacy.current)
    = Ok (map (loaded_cal Toy.num false Toy.sc_real Toy.sc_cx 6 7) [Toy.e12; ToyLegacy.e12b]).
Proof. exact ToyLegacy.oldbox_legacy_versions. Qed.
Print Assumptions legacy_versions_satisfiable.

(* what the old format cannot express is refused, as coded: "type: TE10" under "#VNACAL 2.x", and the
   current document read under the 2.x line (no "e") *)
Theorem legacy_other_type_refused :
  load (legacy_vline 0) (Some ToyLegacy.te10_as_legacy) = Err EBadMsg /\
  load (legacy_vline 0) (Some ToyLegacy.current) = Err EBadMsg.
Proof. exact ToyLegacy.legacy_other_type_refused. Qed.
Print Assumptions legacy_other_type_refused.

(* apply_same is not vacuous: Gaussian rationals as arithmetic, the 2x2 E12 is applied (Filled) *)
Theorem apply_same_satisfiable :
  exists cals2 cals1,
    load (legacy_vline 0) (Some (ToyLegacy.legacy ToyLegacy.old_style)) = Ok cals2 /\
    load save_vline (Some ToyLegacy.current) = Ok cals1 /\
    map (fun c => apply_loaded ToyApply.OQ ToyApply.val c 1 ToyApply.m22) cals2
      = map (fun c => apply_loaded ToyApply.OQ ToyApply.val c 1 ToyApply.m22) cals1 /\
    match map (fun c => apply_loaded ToyApply.OQ ToyApply.val c 1 ToyApply.m22) cals1 with
    | [None; Some (Filled _ _ _)] => True
    | _ => False
    end.
Proof. exact ToyApply.apply_same_versions_satisfiable. Qed.
Print Assumptions apply_same_satisfiable.

(* ------------------------------------------------------------------------------------------------
   Review round 2, finding DJ91 (KNOWN, known_findings.d/C07.json).  save_load_doc / cal_roundtrip /
   legacy_versions assume through wf_container (clause wf_freqs) that the frequencies AS WRITTEN at
   fprecision read back strictly ascending - the loader's own test on the saved text.  The property
   quantifies over every accepted precision, so that clause is part of what has to be shown, and it is
   FALSE of the code: vnacal_save succeeds when two consecutive frequencies get the same text and
   vnacal_load refuses the file (library: T8 1x1, f = 10000000, 10000002, 10000004 at the default
   fprecision 6).  The honest headline, with conditions on the STORED container only: *)
Require Import LV.CalFile.LegacyFreqCollision LV.CalFile.LegacyFreqCollisionEx.
Section RoundTripOrCollision.
  Variable num : Type.
  Variable num0 : num.
  Variable sc_int : Z -> scalar.
  Variable sc_real : Z -> num -> scalar.
  Variable sc_cx : Z -> (num * num) -> scalar.
  Variable sc_name : string -> scalar.
  Variable sc_type : ctype -> scalar.
  Hypothesis int_rt : forall n, - 2147483648 <= n <= 2147483647 -> s_int (sc_int n) = Some n.
  Hypothesis cx_accepted : forall p z, s_cx (sc_cx p z) = true.
  Hypothesis name_text : forall n, s_text (sc_name n) = n.
  Hypothesis type_rt : forall t, s_type (sc_type t) = Some t.
  Variable cls : num -> rclass.
  Variable rd : Z -> num -> num.
  Hypothesis real_rt : forall p x, s_real (sc_real p x) = cls (rd p x).
  (* number-text layer: a non-negative finite or +inf double printed with p digits reads back non-negative or +inf *)
  Hypothesis rd_readable : forall p x, readable (cls x) = true -> readable (cls (rd p x)) = true.

  (* for EVERY container whose STORED content is well formed (wf_container_stored: dimensions, names, property
     sub-trees, stored frequencies non-negative and strictly ascending) and EVERY precisions: the loader model
     returns the used slots in slot order (as in save_load_doc), OR some used calibration has two consecutive
     frequencies whose texts at fprecision do not read back ascending (collides: the second <= the first) *)
  Theorem cal_roundtrip_or_collision : forall v : container num, wf_container_stored num cls v ->
    load save_vline (Some (save_doc num num0 sc_int sc_real sc_cx sc_name sc_type v))
      = Ok (map (loaded_cal num num0 sc_real sc_cx (v_fprec num v) (v_dprec num v)) (live num (v_slots num v)))
    \/ exists c, In c (live num (v_slots num v)) /\ collides num sc_real (v_fprec num v) (k_fvec num c).
  Proof.
    exact (roundtrip_or_collision num num0 sc_int sc_real sc_cx sc_name sc_type int_rt cx_accepted name_text type_rt
             cls rd real_rt rd_readable).
  Qed.
End RoundTripOrCollision.
Print Assumptions cal_roundtrip_or_collision.

(* the unconditional round trip ("every precision the setters accept") is refuted on the faithful models: a
   number type that loses the last digit below 17 digits satisfies every number-text hypothesis; the stored
   container (T8 1x1, 10000000 < 10000002 < 10000004) is well formed, the DEFAULT fprecision is accepted by
   the setter, the saved document is refused (Err EBadMsg), while at 17 digits it loads *)
Theorem cal_roundtrip_fprecision_refuted :
  wf_container_stored Round.num Round.cls (Round.box default_fprecision) /\
  accepts (c_fset save_cfg) default_fprecision = true /\
  load save_vline (Some (save_doc Round.num 0 Round.sc_int Round.sc_real Round.sc_cx Round.sc_name Round.sc_type
                           (Round.box default_fprecision))) = Err EBadMsg /\
  (exists cals, load save_vline (Some (save_doc Round.num 0 Round.sc_int Round.sc_real Round.sc_cx Round.sc_name Round.sc_type
                                         (Round.box 17))) = Ok cals /\ map c_freqs cals = [3]).
Proof. exact (conj (Round.box_stored _) Round.box_refused). Qed.
Print Assumptions cal_roundtrip_fprecision_refuted.

(* the hypotheses of cal_roundtrip_or_collision are met by that instance and the collision disjunct is the
   one that holds; rd really rounds there (rd 6 10000002 = 10000000); without a collision the loaded
   frequencies are the rounded ones, not the stored ones *)
Theorem cal_roundtrip_or_collision_satisfiable :
  (exists c, In c (live Round.num (v_slots Round.num (Round.box default_fprecision))) /\
             collides Round.num Round.sc_real default_fprecision (k_fvec Round.num c)) /\
  (Round.rd 6 10000002 = 10000000 /\ Round.rd 17 10000002 = 10000002).
Proof. exact (conj Round.box_collides Round.rd_rounds). Qed.
Print Assumptions cal_roundtrip_or_collision_satisfiable.

(* ------------------------------------------------------------------------------------------------
   Review round 2, remaining points.
   * "Equal to the saved precision" for p < 17: cal_roundtrip / cal_equiv say WHERE every number of the file
     ends up (name, type, dimensions, positions of z0, of every frequency and of every cell) and that its
     value is rd p of the stored value; rd is constrained only at exact precisions (num_rt).  How close
     rd p x is to x (|rd p x - x| <= 10^(1-p) |x|) is NOT a theorem: it is checked on every number of every
     scenario (L.within).  The instance Round (CalFile/LegacyFreqCollisionEx.v) is one where rd really
     rounds: stored 10000002 < 10000012 < 10000023 at 6 digits load as 10000000 < 10000010 < 10000020. *)
Require Import QArith.
Require Import LV.CalFile.LegacyTerms.
Theorem cal_roundtrip_rounding_regime_example :
  match load save_vline (Some (save_doc Round.num 0 Round.sc_int Round.sc_real Round.sc_cx Round.sc_name Round.sc_type RoundOk.boxb)) with
  | Ok [c] => map fst (c_data c) = [XQ (inject_Z 10000000); XQ (inject_Z 10000010); XQ (inject_Z 10000020)]
  | _ => False
  end.
Proof. exact RoundOk.rounded_frequencies_load. Qed.
Print Assumptions cal_roundtrip_rounding_regime_example.

(* * Shape of the stored error terms.  wf_container puts no constraint on k_terms; e_at answers (num0, num0)
     outside the table, where the C code would read out of bounds.  Under wf_terms (VL_ERROR_TERMS rows of
     cal_frequencies entries, the shape _vnacal_calibration_alloc gives) every cell the theorems speak about -
     0 <= findex < frequencies, 0 <= term < error terms - is a real entry of the table. *)
Theorem saved_terms_in_bounds : forall (num : Type) (num0 : num) (c : scal num) fi j, wf_terms num c ->
  0 <= fi < k_freqs num c -> 0 <= j < l_terms (mk_layout (k_type num c) (k_rows num c) (k_cols num c)) ->
  exists row, nth_error (k_terms num c) (Z.to_nat j) = Some row /\ nth_error row (Z.to_nat fi) = Some (e_at num num0 c fi j).
Proof. exact e_at_in_bounds. Qed.
Print Assumptions saved_terms_in_bounds.

(* * emit_parse_terms / legacy_e_matrix_terms are stated for 0 <= rows, columns; the C code only ever has
     rows, columns >= 1 that fit the type (wf_scal: min_dim = 1, dims_fit): with columns = 0 the packed index
     k / columns is Coq's k / 0 = 0 and the statements hold for an empty term vector only.  Read "all
     dimensions" as "all rows, columns >= 1 that fit the type".
   * apply_same / apply_same_roundtrip_exact are CONGRUENCE corollaries: equal loaded terms are fed to the
     same function (the proofs do not look inside apply_fill).  Under the name that says so: *)
Theorem loaded_terms_feed_apply_equally :
  forall (num : Type) (num0 : num) sc_int sc_real sc_cx sc_name sc_type,
  (forall n, - 2147483648 <= n <= 2147483647 -> s_int (sc_int n) = Some n) ->
  (forall p z, s_cx (sc_cx p z) = true) -> (forall n, s_text (sc_name n) = n) -> (forall t, s_type (sc_type t) = Some t) ->
  forall (O : Ops) (val : string -> O) st minor2 minor3 (v : container num) cals2 cals3 cals1,
    wf_container num sc_real v -> all_e12 num (v_slots num v) ->
    load (legacy_vline minor2) (Some (legacy_doc num num0 sc_int sc_real sc_cx sc_name sc_type st v)) = Ok cals2 ->
    load (v3_vline minor3) (Some (save_doc num num0 sc_int sc_real sc_cx sc_name sc_type v)) = Ok cals3 ->
    load save_vline (Some (save_doc num num0 sc_int sc_real sc_cx sc_name sc_type v)) = Ok cals1 ->
    forall findex m,
      map (fun c => apply_loaded O val c findex m) cals2 = map (fun c => apply_loaded O val c findex m) cals1 /\
      map (fun c => apply_loaded O val c findex m) cals3 = map (fun c => apply_loaded O val c findex m) cals1.
Proof. exact apply_same. Qed.
(*   What vnacal_apply reads from the calibration besides the terms of one frequency - the cal_frequencies == 0
     test, fmin / fmax for the range check, _vnacal_rfi interpolation of every term at a frequency between the
     calibration's - is OUTSIDE apply_loaded.  "Applying the loaded calibration gives the same S-parameters" is
     TESTED ONLY (checks/C07.py, vnacal_apply_m original vs reloaded at knots): bit-exact when both precisions
     are >= 17 or MAX; within 1e3 * 10^(1 - min(dprecision, 16)) relative for nearly ideal terms when both
     precisions are >= 6; not compared below.
   * legacy_versions: ONE new fact (the first conjunct); the second is version_of (VOld 3 _) = Ok 1 by
     computation, the third is save_load_doc verbatim.  legacy_doc is written as the inverse of what the loader
     reads; its only external anchor is tests/compat-V2.vnacal (one file, 2x1) and the independent writer.
   * After fix DJ92 (parse_complex builds the number from its parts) cx_rt and num_rt hold for every double
     that is not a NaN - signed zeros and infinities included; for a NaN up to sign and payload.  Before it they
     failed for a real part -0 and for an infinite imaginary part (finding DJ92).
   * int_rt, real_rt, cx_rt assume the "C" numeric locale (libvna never calls setlocale; a program that sets a
     locale with a decimal comma changes what printf writes and strtod reads). *)
