(* C07 - calibration files round-trip: theorems (statements only; proofs are the named lemmas). *)
Require Import ZArith List Bool String.
Import ListNotations.
Require Import LV.CalFile.NumText LV.CalFile.NumTextProofs LV.CalFile.CalFileModel LV.CalFile.CalFileProofs.
Require Import LV.Gen.SaveBufGen LV.CalFile.SaveBufFacts.
Open Scope Z_scope.

(* cal_buffers_fit: for every precision the setters of the current tree accept, the longest text the
   format in use can produce (plus the NUL) fits the buffer declared in vnacal_save.c: frequencies
   (add_double, vc_fprecision), data and z0 (add_complex, vc_dprecision), integers (add_integer).
   save_cfg is regenerated from the C text on every run (translate/savebuf.py). *)
Theorem cal_buffers_fit :
  (forall p, accepts (c_fset save_cfg) p = true -> fits (c_maxp save_cfg) (c_dbl save_cfg) p = true) /\
  (forall p, accepts (c_dset save_cfg) p = true -> fits (c_maxp save_cfg) (c_cpx save_cfg) p = true) /\
  (forall p, fits (c_maxp save_cfg) (c_int save_cfg) p = true).
Proof. exact save_cfg_fits. Qed.
Print Assumptions cal_buffers_fit.

(* the hypotheses are met: the default precisions, 40 and VNACAL_MAX_PRECISION are accepted *)
Theorem cal_buffers_fit_satisfiable :
  accepts (c_fset save_cfg) default_fprecision = true /\ accepts (c_dset save_cfg) default_dprecision = true /\
  accepts (c_fset save_cfg) 40 = true /\ accepts (c_dset save_cfg) max_precision = true.
Proof. exact save_cfg_accepts. Qed.
Print Assumptions cal_buffers_fit_satisfiable.

(* the text-length model: every shape printf can produce stays within the bound used above, and the
   bound is attained *)
Theorem e_text_length : forall plus p s, 1 <= p -> len_e plus p s <= max_e p.
Proof. exact len_e_le_max. Qed.
Print Assumptions e_text_length.
Theorem e_text_length_attained : forall plus p, 1 <= p -> len_e plus p (EFinite true true) = max_e p.
Proof. exact len_e_max_attained. Qed.
Print Assumptions e_text_length_attained.
Theorem a_text_length : forall plus s, ashape_ok s -> len_a plus s <= 24.
Proof. exact len_a_le_max. Qed.
Print Assumptions a_text_length.

(* the configuration of the tree before the fix of finding D26 is refuted by the same definitions *)
Theorem cal_buffers_fit_unfixed_refuted :
  (exists p, accepts (c_fset unfixed_cfg) p = true /\ fits (c_maxp unfixed_cfg) (c_dbl unfixed_cfg) p = false) /\
  (exists p, accepts (c_dset unfixed_cfg) p = true /\ fits (c_maxp unfixed_cfg) (c_cpx unfixed_cfg) p = false).
Proof. exact unfixed_cfg_refuted. Qed.
Print Assumptions cal_buffers_fit_unfixed_refuted.

(* emit_parse_terms_partial: for every type and all dimensions 1..4 the type allows, the document
   entry written by the emitter from the term vector (cell i labelled i) is parsed back to the same
   vector, every cell defined.  Partial: labelled vectors and dimensions up to 4 (exhaustive
   computation); arbitrary term values follow by parametricity, which is not proved. *)
Theorem emit_parse_terms_partial : forall t mr mc,
  In t all_types -> In (mr, mc) (dims_upto 4) -> dims_fit t mr mc = true -> roundtrip_ok t mr mc = true.
Proof. exact emit_parse_terms_bounded. Qed.
Print Assumptions emit_parse_terms_partial.

Theorem emit_parse_terms_satisfiable : In UE14 all_types /\ In (3, 2) (dims_upto 4) /\ dims_fit UE14 3 2 = true.
Proof. exact ue14_3x2_in_range. Qed.
Print Assumptions emit_parse_terms_satisfiable.
