(* C20: the link between Cal.AddModel.add_common and CountModel.add_std.
   1. Bounded sweep (kernel VM): for every call of DeterminingLinkModel.link_cases (all 8 types x all dimensions
      1..3 the type allows x every entry point, valid and refused calls) the two models agree (link_ok).
   2. Lift to histories (general, induction): for EVERY configuration and EVERY list of calls each of which satisfies
      link_ok (and is inside the count model), the per-system equation counts of the count model equal the lengths of
      AddModel.system_equations over the standards the structural model accepted; hence counts_agree, and the two join
      theorems of C20 without the counts_agree hypothesis. *)
Require Import List ZArith NArith Bool Arith Lia QArith Qcanon.
Require Import LV.Base.CField LV.Base.QcI.
Require Import LV.Gen.LayoutGen LV.Cal.Sym LV.Cal.TermsModel LV.Cal.AddModel LV.Cal.ApplyModel LV.Cal.SolveSimple
               LV.Cal.CalQI LV.Cal.SolveRecovers.
Require LV.SolveCount.CountModel LV.SolveCount.CountProofs.
Require Import LV.SolveCount.DeterminingProofs LV.SolveCount.DeterminingCount LV.SolveCount.DeterminingLinkModel.
Import ListNotations.
Local Open Scope nat_scope.

(* ------------------------------------------------------------------ 1. the sweep *)
Definition sweep_ok : bool :=
  forallb (fun g => forallb (fun cf => forallb (fun a => link_ok cf a) (g cf)) configs) categories.

Lemma sweep_ok_true :
  forallb (fun g => forallb (fun cf => forallb (fun a => link_ok cf a) (g cf)) configs) categories = true.
Proof. vm_compute. reflexivity. Qed.

Lemma forallb_In {A} (p : A -> bool) (l : list A) (x : A) : forallb p l = true -> In x l -> p x = true.
Proof. intros H. rewrite forallb_forall in H. apply H. Qed.

(* bound: types = all 8; (rows, columns) in 1..3 x 1..3 as vnacal_new_alloc accepts them (48 configurations);
   calls = the seven generators of DeterminingLinkModel (see link_case_counts) *)
Lemma sweep_in (gs : list (CM.config -> list CM.add_args)) (cfs : list CM.config) :
  forallb (fun g => forallb (fun cf => forallb (fun a => link_ok cf a) (g cf)) cfs) gs = true ->
  forall x, In x (flat_map (fun g => flat_map (fun cf => map (pair cf) (g cf)) cfs) gs) ->
    link_ok (fst x) (snd x) = true.
Proof.
  intros S x H. apply in_flat_map in H. destruct H as (g & Hg & H).
  apply in_flat_map in H. destruct H as (cf & Hcf & H).
  apply in_map_iff in H. destruct H as (a & E & Ha). subst x.
  pose proof (forallb_In _ _ g S Hg) as S1. cbv beta in S1.
  pose proof (forallb_In _ _ cf S1 Hcf) as S2. cbv beta in S2.
  exact (forallb_In _ _ a S2 Ha).
Qed.

Lemma link_swept_bounded_lemma : forall x, In x link_cases -> link_ok (fst x) (snd x) = true.
Proof.
  intros x H. unfold link_cases in H. unfold cases_of in H.
  exact (sweep_in categories configs sweep_ok_true x H).
Qed.

(* the same with measurement-error modelling on, T16 / U16 (late refusal of an incomplete S: Rejected 16) *)
Definition sweep16_ok : bool := forallb (fun x => link_ok_m (fst x) true (snd x)) link_cases_16.
Lemma sweep16_ok_true : forallb (fun x => link_ok_m (fst x) true (snd x)) link_cases_16 = true.
Proof. vm_compute. reflexivity. Qed.
Lemma link_swept_merr_bounded_lemma : forall x, In x link_cases_16 -> link_ok_m (fst x) true (snd x) = true.
Proof. intros x H. exact (forallb_In _ _ x sweep16_ok_true H). Qed.

Lemma flat_map_len {A B} (f : A -> list B) (l : list A) : length (flat_map f l) = list_sum (map (fun x => length (f x)) l).
Proof. induction l as [|x r IH]; simpl; [reflexivity|]. rewrite app_length, IH. reflexivity. Qed.

Definition count_cat (g : CM.config -> list CM.add_args) : N :=
  N.of_nat (list_sum (map (fun cf => length (g cf)) configs)).
Definition verdict_is (v w : CM.verdict) : bool :=
  match v, w with
  | CM.Accept, CM.Accept | CM.Reject, CM.Reject | CM.Undefined, CM.Undefined => true
  | _, _ => false
  end.
Definition count_verdict (v : CM.verdict) : list N :=
  map (fun g => N.of_nat (list_sum (map (fun cf =>
         length (filter (fun a => verdict_is (CM.check_args cf a) v) (g cf))) configs))) categories.

(* number of swept calls per generator: single reflect, double reflect, through / line, full mapped matrix,
   smaller square mapped matrix, rectangular / out-of-range S dimensions, diagonal on three ports; how many of them
   the count model accepts / refuses (none is Undefined); with error modelling on: calls, accepted by check_args,
   accepted in the end (the others are the late refusal) *)
Lemma link_case_counts :
  length configs = 48 /\
  map count_cat categories = [4122; 30490; 44274; 37376; 9996; 10176; 1920]%N /\
  N.of_nat (length link_cases) = 138354%N /\
  count_verdict CM.Accept = [864; 1840; 6256; 21920; 6132; 384; 1152]%N /\
  count_verdict CM.Reject = [3258; 28650; 38018; 15456; 3864; 9792; 768]%N /\
  count_verdict CM.Undefined = [0; 0; 0; 0; 0; 0; 0]%N /\
  (N.of_nat (length link_cases_16),
   N.of_nat (length (filter (fun x => verdict_is (CM.check_args (fst x) (snd x)) CM.Accept) link_cases_16)),
   N.of_nat (length (filter (fun x => CP.accepted (fst x) true (snd x)) link_cases_16))) = (25346, 7818, 5622)%N.
Proof.
  split; [vm_compute; reflexivity|]. split; [vm_compute; reflexivity|].
  split; [|split; [|split; [|split]]; vm_compute; reflexivity].
  unfold link_cases. rewrite flat_map_len.
  assert (E : forall g, length (cases_of g) = list_sum (map (fun cf => length (g cf)) configs)).
  { intros g. unfold cases_of. rewrite flat_map_len. f_equal. apply map_ext. intros cf. apply map_length. }
  rewrite (map_ext _ _ E). vm_compute. reflexivity.
Qed.

(* ------------------------------------------------------------------ 2. what link_ok says of one call *)
Lemma list_eqb_sound {A} (eqb : A -> A -> bool) :
  (forall x y, eqb x y = true -> x = y) -> forall l1 l2, list_eqb eqb l1 l2 = true -> l1 = l2.
Proof.
  intros He. induction l1 as [|x r IH]; intros [|y r2] H; simpl in H; try discriminate; [reflexivity|].
  apply andb_true_iff in H. destruct H as [H1 H2]. rewrite (He x y H1), (IH r2 H2). reflexivity.
Qed.

Lemma triple_eqb_sound x y : triple_eqb x y = true -> x = y.
Proof.
  destruct x as [a [b c]], y as [a' [b' c']]. unfold triple_eqb. cbn [fst snd]. intros H.
  apply andb_true_iff in H. destruct H as [H H3]. apply andb_true_iff in H. destruct H as [H1 H2].
  apply Nat.eqb_eq in H1, H2, H3. subst. reflexivity.
Qed.

Lemma is_ue14_agree ty : is_ue14 (cty ty) = CM.is_ue14 ty.
Proof. destruct ty; reflexivity. Qed.

Lemma link_accept cf merr a :
  link_ok_m cf merr a = true -> CP.accepted cf merr a = true ->
  exists m, add_common (to_cal_args cf merr a) = Accepted m /\
            cal_triples (cty (CM.cf_ty cf)) m = CM.gen_equations cf a.
Proof.
  unfold link_ok_m. intros H Ha. rewrite Ha in H.
  assert (Hc : CM.check_args cf a = CM.Accept).
  { unfold CP.accepted in Ha. destruct (CM.check_args cf a); [reflexivity | discriminate | discriminate]. }
  rewrite Hc in H.
  destruct (add_common (to_cal_args cf merr a)) as [k | k | m]; try discriminate.
  exists m. split; [reflexivity|].
  apply andb_true_iff in H. destruct H as [H _]. apply andb_true_iff in H. destruct H as [H _].
  exact (list_eqb_sound triple_eqb triple_eqb_sound _ _ H).
Qed.

Lemma link_refuse cf merr a :
  link_ok_m cf merr a = true -> defined cf a = true -> CP.accepted cf merr a = false ->
  forall m, add_common (to_cal_args cf merr a) <> Accepted m.
Proof.
  unfold link_ok_m, defined. intros H Hd Ha m E. rewrite Ha in H. rewrite E in H.
  destruct (CM.check_args cf a); discriminate.
Qed.

(* the number of equations the call adds to system k is the same in the two models *)
Lemma filter_triples_len ty (eqs : list equation) (k : nat) :
  k < CM.systems ty (if CM.is_ue14 ty then S k else 1) ->
  length (filter (fun ke : nat * (nat * nat) => fst ke =? k)
                 (map (fun e => (eq_sys (cty ty) e, (e_row e, e_col e))) eqs)) =
  length (flat_map (fun e => if orb (negb (is_ue14 (cty ty))) (Nat.eqb (e_col e) k) then [e] else []) eqs).
Proof.
  intros Hk. unfold eq_sys. rewrite is_ue14_agree. unfold CM.systems in Hk.
  induction eqs as [|e r IH]; simpl; [reflexivity|].
  destruct (CM.is_ue14 ty); cbn [negb orb].
  - destruct (e_col e =? k); simpl; rewrite IH; reflexivity.
  - assert (k = 0) by lia. subst k. simpl. rewrite IH. reflexivity.
Qed.

Lemma contrib_link cf merr a k :
  link_ok_m cf merr a = true -> defined cf a = true ->
  k < CM.systems (CM.cf_ty cf) (CM.cf_c cf) ->
  CP.contrib cf merr a k = cal_contrib (cty (CM.cf_ty cf)) (to_cal_args cf merr a) k.
Proof.
  intros H Hd Hk. unfold CP.contrib, cal_contrib.
  destruct (CP.accepted cf merr a) eqn:Ha.
  - destruct (link_accept cf merr a H Ha) as (m & Em & Et). rewrite Em. rewrite <- Et. unfold cal_triples.
    apply filter_triples_len. unfold CM.systems in *. destruct (CM.is_ue14 (CM.cf_ty cf)); lia.
  - pose proof (link_refuse cf merr a H Hd Ha) as Hn.
    destruct (add_common (to_cal_args cf merr a)) as [x | x | m]; try reflexivity.
    exfalso. exact (Hn m eq_refl).
Qed.

(* ------------------------------------------------------------------ 3. AddModel.system_equations over a history *)
Lemma combine_seq_snoc {A} (st : list A) (m : A) : forall s,
  combine (seq s (length (st ++ [m]))) (st ++ [m]) = combine (seq s (length st)) st ++ [(s + length st, m)].
Proof.
  induction st as [|x r IH]; intros s; simpl.
  - rewrite Nat.add_0_r. reflexivity.
  - rewrite IH. rewrite Nat.add_succ_r. reflexivity.
Qed.

Lemma tagged_len {A B} (p : A -> bool) (i : B) (l : list A) :
  length (flat_map (fun e => if p e then [(i, e)] else []) l) = length (flat_map (fun e => if p e then [e] else []) l).
Proof. induction l as [|e r IH]; simpl; [reflexivity|]. destruct (p e); simpl; rewrite ?IH; reflexivity. Qed.

Lemma system_equations_snoc_len ty (st : calstate) (m : measurement) (k : nat) :
  length (system_equations ty (st ++ [m]) k) =
  length (system_equations ty st k) +
  length (flat_map (fun e => if orb (negb (is_ue14 ty)) (Nat.eqb (e_col e) k) then [e] else []) (ms_eqs m)).
Proof.
  unfold system_equations. rewrite combine_seq_snoc. rewrite flat_map_app, app_length. f_equal.
  simpl. rewrite app_nil_r. apply tagged_len.
Qed.

Lemma add_step_len ty (st : calstate) (a : add_args) (k : nat) :
  length (system_equations ty (fst (add_step st a)) k) = length (system_equations ty st k) + cal_contrib ty a k.
Proof.
  unfold add_step, cal_contrib. destruct (add_common a) as [x | x | m]; cbn [fst]; try lia.
  apply system_equations_snoc_len.
Qed.

Lemma cal_run_len ty (l : list add_args) : forall (st : calstate) (k : nat),
  length (system_equations ty (cal_run st l) k) =
  length (system_equations ty st k) + list_sum (map (fun a => cal_contrib ty a k) l).
Proof.
  induction l as [|a r IH]; intros st k; simpl; [lia|].
  unfold cal_run in *. simpl. rewrite IH, add_step_len. lia.
Qed.

(* ------------------------------------------------------------------ 4. the lift *)
Definition call_linked (cf : CM.config) (merr : bool) (a : CM.add_args) : Prop :=
  link_ok_m cf merr a = true /\ defined cf a = true.

Lemma sum_contrib_link cf merr (l : list CM.add_args) (k : nat) :
  Forall (call_linked cf merr) l -> k < CM.systems (CM.cf_ty cf) (CM.cf_c cf) ->
  CP.sum_over (fun a => CP.contrib cf merr a k) l =
  list_sum (map (fun a => cal_contrib (cty (CM.cf_ty cf)) a k) (map (to_cal_args cf merr) l)).
Proof.
  intros HF Hk. induction HF as [|a r [H Hd] _ IH]; simpl; [reflexivity|].
  rewrite IH, (contrib_link cf merr a k H Hd Hk). reflexivity.
Qed.

(* from ANY count-model state whose system vector has its allocated length, beside ANY AddModel state *)
Lemma counts_link_from (st : CM.state) (cs : calstate) (l : list CM.add_args) (k : nat) :
  let cf := CM.st_cf st in
  length (CM.st_sys st) = CM.systems (CM.cf_ty cf) (CM.cf_c cf) ->
  Forall (call_linked cf (CM.st_merr st)) l ->
  k < CM.systems (CM.cf_ty cf) (CM.cf_c cf) ->
  CM.sys_count (CP.run_adds st l) k + length (system_equations (cty (CM.cf_ty cf)) cs k) =
  CM.sys_count st k +
  length (system_equations (cty (CM.cf_ty cf)) (cal_run cs (map (to_cal_args cf (CM.st_merr st)) l)) k).
Proof.
  cbv zeta. intros Hlen HF Hk.
  destruct (CP.run_adds_counts l st) as (_ & _ & _ & _ & N). rewrite (N k) by lia.
  rewrite cal_run_len. rewrite (sum_contrib_link _ _ l k HF Hk). lia.
Qed.

(* from the object vnacal_new_alloc creates: the count of every system = the number of equations of that system
   over the standards the structural model accepted *)
Lemma counts_link_lemma (cf : CM.config) (F : nat) (v : bool) (l : list CM.add_args) (k : nat) :
  Forall (fun a => link_ok cf a = true /\ defined cf a = true) l ->
  k < CM.systems (CM.cf_ty cf) (CM.cf_c cf) ->
  CM.sys_count (CP.run_adds (CM.init cf F v) l) k =
  length (system_equations (cty (CM.cf_ty cf)) (cal_run [] (map (to_cal_args cf false) l)) k).
Proof.
  intros HF Hk.
  pose proof (counts_link_from (CM.init cf F v) [] l k) as H. cbv zeta in H.
  change (CM.st_cf (CM.init cf F v)) with cf in H. change (CM.st_merr (CM.init cf F v)) with false in H.
  destruct (CP.init_shape cf F v) as [Hs _].
  specialize (H Hs HF Hk).
  assert (E0 : forall n j, length (nth j (repeat (@nil CM.eqn) n) []) = 0).
  { induction n as [|n IH]; intros j; simpl; [destruct j; reflexivity|]. destruct j; [reflexivity|apply IH]. }
  assert (E1 : CM.sys_count (CM.init cf F v) k = 0) by (unfold CM.sys_count; cbn [CM.init CM.st_sys]; apply E0).
  rewrite E1 in H. simpl in H. lia.
Qed.

(* the number of assembled rows depends on the measurement records only *)
Lemma assemble_length ty r c (ms : list (mvals qops)) (pval : Z -> qi) (k : nat) :
  length (q_assemble ty r c ms pval k) = length (system_equations ty (map (mv_meas qops) ms) k).
Proof. unfold q_assemble, assemble. apply map_length. Qed.

(* counts_agree discharged: the standards of vals f carry the measurement records add_common returned for the
   translated calls (any measured values, any parameter values) *)
Lemma counts_agree_of_link_lemma (cf : CM.config) (F : nat) (l : list CM.add_args)
      (vals : nat -> list (mvals qops)) (pvalf : nat -> Z -> qi) :
  Forall (fun a => link_ok cf a = true /\ defined cf a = true) l ->
  (forall f, f < F -> map (mv_meas qops) (vals f) = cal_run [] (map (to_cal_args cf false) l)) ->
  counts_agree (CP.run_adds (CM.init cf F true) l) vals pvalf.
Proof.
  intros HF Hrec. unfold counts_agree. cbv zeta.
  destruct (CP.run_adds_static l (CM.init cf F true)) as (Ecf & Efr & _).
  rewrite Ecf, Efr. change (CM.st_cf (CM.init cf F true)) with cf. change (CM.st_freqs (CM.init cf F true)) with F.
  intros f k Hf Hk. rewrite assemble_length, (Hrec f Hf). apply counts_link_lemma; assumption.
Qed.

(* ------------------------------------------------------------------ 5. the join theorems without counts_agree *)
Section Linked.
Variables (o : CM.oracle) (cf : CM.config) (F : nat) (l : list CM.add_args).
Variables (vals : nat -> list (mvals qops)) (pvalf : nat -> Z -> qi).
Let st := CP.run_adds (CM.init cf F true) l.
Let ty := cty (CM.cf_ty cf).
Let r := CM.cf_r cf.
Let c := CM.cf_c cf.
Let ns := CM.systems (CM.cf_ty cf) c.

Hypothesis Hlink : Forall (fun a => link_ok cf a = true /\ defined cf a = true) l.
Hypothesis Hrec : forall f, f < F -> map (mv_meas qops) (vals f) = cal_run [] (map (to_cal_args cf false) l).
Hypothesis Hpath : CM.solve_path st = CM.PSimple.
Hypothesis Ho : oracle_is_model o st vals pvalf.

Lemma linked_static : CM.st_cf st = cf /\ CM.st_freqs st = F /\ CM.st_fvalid st = true.
Proof. destruct (CP.run_adds_static l (CM.init cf F true)) as (A & B & C & _). repeat split; assumption. Qed.

Lemma count_and_rank_solve_linked_lemma :
  CM.count_deficient st = false ->
  (forall f k, f < F -> k < ns ->
     kernel_trivial (unknowns ty r c) (q_assemble ty r c (vals f) (pvalf f) k)) ->
  (forall f, f < F -> o (CM.view_of st) f ns = true) ->
  CM.solve o CM.NoFault st = (CP.solved st, CM.Ok).
Proof.
  destruct linked_static as (Ecf & Efr & Efv). intros Hc Hrank Hpost.
  apply (count_and_rank_solve_lemma o st vals pvalf Efv Hpath Ho
           (counts_agree_of_link_lemma cf F l vals pvalf Hlink Hrec) Hc);
    rewrite Ecf, Efr; assumption.
Qed.

Lemma rank_deficient_edom_linked_lemma (f k : nat) :
  f < F -> k < ns ->
  unknowns ty r c <= length (q_assemble ty r c (vals f) (pvalf f) k) ->
  rows_deficient (unknowns ty r c) (q_assemble ty r c (vals f) (pvalf f) k) ->
  CM.solve o CM.NoFault st = (st, CM.Err CM.EDOM).
Proof.
  destruct linked_static as (Ecf & Efr & Efv). intros Hf Hk Hge Hd.
  apply (rank_deficient_edom_lemma o st vals pvalf Efv Hpath Ho f k); rewrite ?Ecf, ?Efr; assumption.
Qed.
End Linked.
