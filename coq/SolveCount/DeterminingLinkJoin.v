(* C20: rank_deficient_edom with the hypothesis "enough assembled rows" replaced by "the count test of the count
   model passes", through the link (counts_agree_of_link_lemma). *)
Require Import List ZArith Bool Arith Lia.
Require Import LV.Cal.SolveSimple LV.Cal.CalQI LV.Cal.SolveRecovers LV.Base.QcI.
Require Import LV.SolveCount.DeterminingProofs LV.SolveCount.DeterminingCount
               LV.SolveCount.DeterminingLinkModel LV.SolveCount.DeterminingLinkProofs.
Local Open Scope nat_scope.

Lemma count_ok_rank_deficient_edom_linked_lemma (o : CM.oracle) (cf : CM.config) (F : nat) (l : list CM.add_args)
      (vals : nat -> list (mvals qops)) (pvalf : nat -> Z -> qi) (f k : nat) :
  let st := CP.run_adds (CM.init cf F true) l in
  let n := unknowns (cty (CM.cf_ty cf)) (CM.cf_r cf) (CM.cf_c cf) in
  Forall (fun a => link_ok cf a = true /\ defined cf a = true) l ->
  (forall f, f < F -> map (mv_meas qops) (vals f) = cal_run nil (map (to_cal_args cf false) l)) ->
  CM.solve_path st = CM.PSimple -> oracle_is_model o st vals pvalf ->
  CM.count_deficient st = false ->
  f < F -> k < CM.systems (CM.cf_ty cf) (CM.cf_c cf) ->
  rows_deficient n (q_assemble (cty (CM.cf_ty cf)) (CM.cf_r cf) (CM.cf_c cf) (vals f) (pvalf f) k) ->
  CM.solve o CM.NoFault st = (st, CM.Err CM.EDOM).
Proof.
  cbv zeta. intros HF HR Hp Ho Hc Hf Hk Hd.
  pose proof (counts_agree_of_link_lemma cf F l vals pvalf HF HR) as Hcnt.
  destruct (CP.run_adds_static l (CM.init cf F true)) as (Ecf & Efr & _).
  change (CM.st_cf (CM.init cf F true)) with cf in Ecf. change (CM.st_freqs (CM.init cf F true)) with F in Efr.
  pose proof (count_ok_rows _ vals pvalf Hp Hcnt Hc f k) as Hge. rewrite Ecf, Efr in Hge.
  exact (rank_deficient_edom_linked_lemma o cf F l vals pvalf Hp Ho f k Hf Hk (Hge Hf Hk) Hd).
Qed.
