(* Non-vacuity of the C20 determining-set theorems (DeterminingProofs.v, DeterminingCount.v): concrete
   one-port T8 calibrations (the examples of Cal/EndToEnd.v: reflects -1, 1, 1/2 [, i/3] measured through
   Ts = 2, Ti = 1/2, Tx = 1/4, Tm = 1): square and determining, tall and determining, square / tall and
   rank deficient (the same reflect entered twice / three times), too few; and the count model joined
   with the numeric model on the same calibrations. *)
Require Import List ZArith Bool Arith Lia QArith Qcanon.
Require Import LV.Base.CField LV.Base.QcI.
Require Import LV.Gen.LayoutGen LV.Cal.Sym LV.Cal.TermsModel LV.Cal.AddModel LV.Cal.ApplyModel LV.Cal.SolveSimple
               LV.Cal.CalQI LV.Cal.SolveRecovers LV.Cal.ApplyRecovers LV.Cal.EndToEnd.
Require Import LV.SolveCount.DeterminingProofs LV.SolveCount.DeterminingCount.
Import ListNotations.
Local Open Scope nat_scope.

Definition ms_of (hs : list Z) : list (mvals qops) :=
  flat_map (fun h => match add_common (ex_args h) with
                     | Accepted m => [mkMV qops m [ex_meas (ex_pval4 h)]]
                     | _ => [] end) hs.

Definition sys_tag (r : sys_res) : nat := match r with SysOk _ _ => 0 | SysInsufficient _ => 1 | SysSingular _ => 2 end.
Lemma sys_tag_ok r : sys_tag r = 0 -> exists rows x, r = SysOk rows x.
Proof. destruct r; cbn; intros H; try discriminate. eexists. eexists. reflexivity. Qed.
Lemma sys_tag_singular r : sys_tag r = 2 -> exists rows, r = SysSingular rows.
Proof. destruct r; cbn; intros H; try discriminate. eexists. reflexivity. Qed.

(* the hypotheses of determining_set_recovers hold for the square (3 reflects) and the tall (4 reflects)
   calibration, and the conclusion is the true terms with the unity term inserted *)
Lemma ex_full_rank (hs : list Z) :
  sys_tag (q_solve_system T8 1 1 (ms_of hs) ex_pval4 0) = 0 ->
  unknowns T8 1 1 <= length (q_assemble T8 1 1 (ms_of hs) ex_pval4 0) /\
  kernel_trivial (unknowns T8 1 1) (q_assemble T8 1 1 (ms_of hs) ex_pval4 0).
Proof.
  intros H. apply (system_ok_iff T8 1 1 (ms_of hs) ex_pval4 0).
  destruct (sys_tag_ok _ H) as (rows & x & E). exists x.
  destruct (system_cases T8 1 1 (ms_of hs) ex_pval4 0) as [(y & Hy) | [[_ Hy] | [_ Hy]]]; rewrite Hy in E; try discriminate.
  injection E as _ <-. exact Hy.
Qed.

Lemma ex_satisfied (hs : list Z) :
  forallb (fun r : list qi * qi => qi_eqb (rdot (unknowns T8 1 1) (fst r) [ex_ts; ex_ti; ex_tx]) (snd r))
          (q_assemble T8 1 1 (ms_of hs) ex_pval4 0) = true ->
  forall r, In r (q_assemble T8 1 1 (ms_of hs) ex_pval4 0) ->
    rdot (unknowns T8 1 1) (fst r) [ex_ts; ex_ti; ex_tx] = snd r.
Proof. intros H r Hr. rewrite forallb_forall in H. apply qi_eqb_eq. exact (H r Hr). Qed.

Lemma determining_set_recovers_hyps (hs : list Z) :
  sys_tag (q_solve_system T8 1 1 (ms_of hs) ex_pval4 0) = 0 ->
  forallb (fun r : list qi * qi => qi_eqb (rdot (unknowns T8 1 1) (fst r) [ex_ts; ex_ti; ex_tx]) (snd r))
          (q_assemble T8 1 1 (ms_of hs) ex_pval4 0) = true ->
  length ex_xs = systems_of T8 1 /\
  (forall sys, sys < systems_of T8 1 ->
     let xt := nth sys ex_xs [] in
     let rows := q_assemble T8 1 1 (ms_of hs) ex_pval4 sys in
     length xt = unknowns T8 1 1 /\ (forall r, In r rows -> rdot (unknowns T8 1 1) (fst r) xt = snd r) /\
     unknowns T8 1 1 <= length rows /\ kernel_trivial (unknowns T8 1 1) rows) /\
  q_error_terms T8 1 1 (ms_of hs) ex_pval4 = Some [ex_ts; ex_ti; ex_tx; qi1].
Proof.
  intros H1 H2.
  assert (Hs : forall sys, sys < systems_of T8 1 ->
     let xt := nth sys ex_xs [] in
     let rows := q_assemble T8 1 1 (ms_of hs) ex_pval4 sys in
     length xt = unknowns T8 1 1 /\ (forall r, In r rows -> rdot (unknowns T8 1 1) (fst r) xt = snd r) /\
     unknowns T8 1 1 <= length rows /\ kernel_trivial (unknowns T8 1 1) rows).
  { intros sys Hs. assert (sys = 0) by (change (systems_of T8 1) with 1 in Hs; lia). subst sys. cbv zeta.
    split; [reflexivity|]. split; [exact (ex_satisfied hs H2)|]. exact (ex_full_rank hs H1). }
  split; [reflexivity|]. split; [exact Hs|].
  rewrite (determining_set_recovers T8 1 1 (ms_of hs) ex_pval4 ex_xs eq_refl Hs).
  apply (f_equal (@Some (list qi))). apply qlist_eqb_sound. vm_compute. reflexivity.
Qed.

Example determining_square_example :
  length (q_assemble T8 1 1 (ms_of [3; 4; 5]%Z) ex_pval4 0) = 3 /\
  length ex_xs = systems_of T8 1 /\
  (forall sys, sys < systems_of T8 1 ->
     let xt := nth sys ex_xs [] in
     let rows := q_assemble T8 1 1 (ms_of [3; 4; 5]%Z) ex_pval4 sys in
     length xt = unknowns T8 1 1 /\ (forall r, In r rows -> rdot (unknowns T8 1 1) (fst r) xt = snd r) /\
     unknowns T8 1 1 <= length rows /\ kernel_trivial (unknowns T8 1 1) rows) /\
  q_error_terms T8 1 1 (ms_of [3; 4; 5]%Z) ex_pval4 = Some [ex_ts; ex_ti; ex_tx; qi1].
Proof.
  split; [vm_compute; reflexivity|].
  apply determining_set_recovers_hyps; vm_compute; reflexivity.
Qed.

Example determining_tall_example :
  length (q_assemble T8 1 1 (ms_of [3; 4; 5; 6]%Z) ex_pval4 0) = 4 /\
  length ex_xs = systems_of T8 1 /\
  (forall sys, sys < systems_of T8 1 ->
     let xt := nth sys ex_xs [] in
     let rows := q_assemble T8 1 1 (ms_of [3; 4; 5; 6]%Z) ex_pval4 sys in
     length xt = unknowns T8 1 1 /\ (forall r, In r rows -> rdot (unknowns T8 1 1) (fst r) xt = snd r) /\
     unknowns T8 1 1 <= length rows /\ kernel_trivial (unknowns T8 1 1) rows) /\
  q_error_terms T8 1 1 (ms_of [3; 4; 5; 6]%Z) ex_pval4 = Some [ex_ts; ex_ti; ex_tx; qi1].
Proof.
  split; [vm_compute; reflexivity|].
  apply determining_set_recovers_hyps; vm_compute; reflexivity.
Qed.

(* rank deficient with enough equations: the short entered twice beside the open (square), three times
   (tall): an explicit kernel vector exists, the verdict is SysSingular, no error terms are produced *)
Lemma deficient_example_of (hs : list Z) :
  sys_tag (q_solve_system T8 1 1 (ms_of hs) ex_pval4 0) = 2 ->
  let rows := q_assemble T8 1 1 (ms_of hs) ex_pval4 0 in
  unknowns T8 1 1 <= length rows /\ rows_deficient (unknowns T8 1 1) rows /\
  q_solve_system T8 1 1 (ms_of hs) ex_pval4 0 = SysSingular rows /\
  q_error_terms T8 1 1 (ms_of hs) ex_pval4 = None.
Proof.
  intros H. cbv zeta. destruct (sys_tag_singular _ H) as (rows & E).
  destruct (system_cases T8 1 1 (ms_of hs) ex_pval4 0) as [(y & Hy) | [[_ Hy] | [Hge Hy]]]; rewrite Hy in E; try discriminate.
  destruct (singular_system_deficient T8 1 1 (ms_of hs) ex_pval4 0 Hy) as [_ Hd].
  split; [exact Hge|]. split; [exact Hd|]. split; [exact Hy|].
  apply (undetermined_set_fails T8 1 1 (ms_of hs) ex_pval4 0); [vm_compute; lia|].
  right. split; assumption.
Qed.

Example deficient_square_example :
  let rows := q_assemble T8 1 1 (ms_of [3; 3; 4]%Z) ex_pval4 0 in
  length rows = 3 /\ unknowns T8 1 1 <= length rows /\ rows_deficient (unknowns T8 1 1) rows /\
  q_solve_system T8 1 1 (ms_of [3; 3; 4]%Z) ex_pval4 0 = SysSingular rows /\
  q_error_terms T8 1 1 (ms_of [3; 3; 4]%Z) ex_pval4 = None.
Proof. cbv zeta. split; [vm_compute; reflexivity|]. apply deficient_example_of. vm_compute. reflexivity. Qed.

Example deficient_tall_example :
  let rows := q_assemble T8 1 1 (ms_of [3; 3; 4; 3]%Z) ex_pval4 0 in
  length rows = 4 /\ unknowns T8 1 1 <= length rows /\ rows_deficient (unknowns T8 1 1) rows /\
  q_solve_system T8 1 1 (ms_of [3; 3; 4; 3]%Z) ex_pval4 0 = SysSingular rows /\
  q_error_terms T8 1 1 (ms_of [3; 3; 4; 3]%Z) ex_pval4 = None.
Proof. cbv zeta. split; [vm_compute; reflexivity|]. apply deficient_example_of. vm_compute. reflexivity. Qed.

Example insufficient_example :
  length (q_assemble T8 1 1 (ms_of [3; 4]%Z) ex_pval4 0) < unknowns T8 1 1 /\
  q_error_terms T8 1 1 (ms_of [3; 4]%Z) ex_pval4 = None.
Proof.
  assert (H : length (q_assemble T8 1 1 (ms_of [3; 4]%Z) ex_pval4 0) < unknowns T8 1 1) by (vm_compute; lia).
  split; [exact H|].
  apply (undetermined_set_fails T8 1 1 (ms_of [3; 4]%Z) ex_pval4 0); [vm_compute; lia|]. left. exact H.
Qed.

(* ---------------------------------------------------------------- the count model joined with the numeric model *)
Definition cm_cf : CM.config := {| CM.cf_ty := CM.T8; CM.cf_r := 1; CM.cf_c := 1; CM.cf_kinds := [] |}.
Definition cm_state (slots : list nat) : CM.state :=
  CP.run_adds (CM.init cm_cf 1 true) (map (fun k => CM.single_reflect 1 1 k 1) slots).

Example count_and_rank_example :
  let st := cm_state [2; 3; 4; 5] in
  let vals := fun _ : nat => ms_of [3; 4; 5; 6]%Z in
  let pvalf := fun _ : nat => ex_pval4 in
  let o := model_oracle vals pvalf in
  CM.st_fvalid st = true /\ CM.solve_path st = CM.PSimple /\ oracle_is_model o st vals pvalf /\
  counts_agree st vals pvalf /\ CM.count_deficient st = false /\
  (forall f k, f < CM.st_freqs st -> k < CM.systems CM.T8 1 ->
     kernel_trivial (unknowns T8 1 1) (q_assemble T8 1 1 (vals f) (pvalf f) k)) /\
  (forall f, f < CM.st_freqs st -> o (CM.view_of st) f (CM.systems CM.T8 1) = true) /\
  CM.solve o CM.NoFault st = (CP.solved st, CM.Ok).
Proof.
  cbv zeta.
  set (st := cm_state [2; 3; 4; 5]). set (vals := fun _ : nat => ms_of [3; 4; 5; 6]%Z).
  set (pvalf := fun _ : nat => ex_pval4).
  assert (Hfv : CM.st_fvalid st = true) by reflexivity.
  assert (Hp : CM.solve_path st = CM.PSimple) by reflexivity.
  assert (Ho : oracle_is_model (model_oracle vals pvalf) st vals pvalf) by apply model_oracle_is_model.
  assert (Hc : counts_agree st vals pvalf).
  { unfold counts_agree. cbv zeta. intros f k Hf Hk. change (CM.st_freqs st) with 1 in Hf.
    change (CM.systems (CM.cf_ty (CM.st_cf st)) (CM.cf_c (CM.st_cf st))) with 1 in Hk.
    assert (k = 0) by lia. subst k. vm_compute. reflexivity. }
  assert (Hd : CM.count_deficient st = false) by reflexivity.
  assert (Hr : forall f k, f < CM.st_freqs st -> k < CM.systems CM.T8 1 ->
     kernel_trivial (unknowns T8 1 1) (q_assemble T8 1 1 (vals f) (pvalf f) k)).
  { intros f k _ Hk. change (CM.systems CM.T8 1) with 1 in Hk. assert (k = 0) by lia. subst k.
    apply (ex_full_rank [3; 4; 5; 6]%Z). vm_compute. reflexivity. }
  assert (Hpost : forall f, f < CM.st_freqs st -> model_oracle vals pvalf (CM.view_of st) f (CM.systems CM.T8 1) = true)
    by (intros f _; reflexivity).
  repeat (split; [assumption|]).
  exact (count_and_rank_solve_lemma (model_oracle vals pvalf) st vals pvalf Hfv Hp Ho Hc Hd Hr Hpost).
Qed.

Example rank_deficient_edom_example :
  let st := cm_state [2; 2; 3; 2] in
  let vals := fun _ : nat => ms_of [3; 3; 4; 3]%Z in
  let pvalf := fun _ : nat => ex_pval4 in
  let o := model_oracle vals pvalf in
  CM.count_deficient st = false /\ counts_agree st vals pvalf /\
  rows_deficient (unknowns T8 1 1) (q_assemble T8 1 1 (vals 0) (pvalf 0) 0) /\
  CM.solve o CM.NoFault st = (st, CM.Err CM.EDOM).
Proof.
  cbv zeta.
  set (st := cm_state [2; 2; 3; 2]). set (vals := fun _ : nat => ms_of [3; 3; 4; 3]%Z).
  set (pvalf := fun _ : nat => ex_pval4).
  assert (Hc : counts_agree st vals pvalf).
  { unfold counts_agree. cbv zeta. intros f k Hf Hk. change (CM.st_freqs st) with 1 in Hf.
    change (CM.systems (CM.cf_ty (CM.st_cf st)) (CM.cf_c (CM.st_cf st))) with 1 in Hk.
    assert (k = 0) by lia. subst k. vm_compute. reflexivity. }
  destruct deficient_tall_example as (_ & Hge & Hdef & _).
  split; [reflexivity|]. split; [exact Hc|]. split; [exact Hdef|].
  apply (rank_deficient_edom_lemma (model_oracle vals pvalf) st vals pvalf eq_refl eq_refl
           (model_oracle_is_model st vals pvalf) 0 0); [vm_compute; lia | vm_compute; lia | exact Hge | exact Hdef].
Qed.
