(* C20: the count model (CountModel: counting, dispatch, re-entrancy of vnacal_new_solve with an
   uninterpreted numeric oracle) joined with the numeric model (CalQI.q_solve_system): when the oracle IS the
   verdict of the numeric model on the system sites, "the count test passes and every system has full column
   rank" makes the solve succeed, and a rank-deficient system makes it fail with EDOM, state unchanged.
   The two models have their own representation of the standards (CountModel keeps what the counting needs,
   Cal.AddModel the cells and terms); they are joined here by the hypothesis that the numbers of equations
   agree (sys_count = number of assembled rows), which the ties of C20 and C01 check against the same C
   counters on every run.  Lemmas; the theorems are in Properties_C20.v. *)
Require Import List ZArith Bool Arith Lia QArith Qcanon.
Require Import LV.Base.CField LV.Base.QcI.
Require Import LV.Gen.LayoutGen LV.Cal.Sym LV.Cal.TermsModel LV.Cal.AddModel LV.Cal.ApplyModel LV.Cal.SolveSimple
               LV.Cal.CalQI LV.Cal.SolveRecovers.
Require LV.SolveCount.CountModel LV.SolveCount.CountProofs.
Require Import LV.SolveCount.DeterminingProofs.
Import ListNotations.
Local Open Scope nat_scope.

Module CM := LV.SolveCount.CountModel.
Module CP := LV.SolveCount.CountProofs.

(* the layout type of a CountModel type (CountModel.E12 stands for _VNACAL_E12_UE14) *)
Definition cty (ty : CM.ctype) : caltype :=
  match ty with
  | CM.T8 => T8 | CM.U8 => U8 | CM.TE10 => TE10 | CM.UE10 => UE10 | CM.T16 => T16 | CM.U16 => U16
  | CM.UE14 => UE14 | CM.E12 => E12_UE14
  end.

Lemma unknowns_agree ty r c : CM.unknowns ty r c = unknowns (cty ty) r c.
Proof.
  unfold CM.unknowns, CM.t_terms, unknowns.
  destruct ty; cbn -[Z.min Z.max Z.mul Z.add Z.to_nat Nat.min Nat.max Nat.mul Nat.add Nat.sub]; f_equal; lia.
Qed.

Lemma systems_agree ty c : CM.systems ty c = systems_of (cty ty) c.
Proof. destruct ty; reflexivity. Qed.

Definition sys_okb (r : sys_res) : bool := match r with SysOk _ _ => true | _ => false end.

(* the oracle agrees with the numeric model on the system sites of state st; vals f / pvalf f = the measured
   standards with their values, and the parameter values, at frequency f *)
Definition oracle_is_model (o : CM.oracle) (st : CM.state)
           (vals : nat -> list (mvals qops)) (pvalf : nat -> Z -> qi) : Prop :=
  let cf := CM.st_cf st in
  forall f k, f < CM.st_freqs st -> k < CM.systems (CM.cf_ty cf) (CM.cf_c cf) ->
    o (CM.view_of st) f k =
    sys_okb (q_solve_system (cty (CM.cf_ty cf)) (CM.cf_r cf) (CM.cf_c cf) (vals f) (pvalf f) k).

(* the numeric model as an oracle (post-processing site: always succeeds) *)
Definition model_oracle (vals : nat -> list (mvals qops)) (pvalf : nat -> Z -> qi) : CM.oracle :=
  fun v f site =>
    let cf := fst (fst v) in
    if Nat.ltb site (CM.systems (CM.cf_ty cf) (CM.cf_c cf))
    then sys_okb (q_solve_system (cty (CM.cf_ty cf)) (CM.cf_r cf) (CM.cf_c cf) (vals f) (pvalf f) site)
    else true.

Lemma model_oracle_is_model st vals pvalf : oracle_is_model (model_oracle vals pvalf) st vals pvalf.
Proof.
  unfold oracle_is_model. cbv zeta. intros f k Hf Hk. unfold model_oracle, CM.view_of. cbn [fst].
  destruct (Nat.ltb_spec k (CM.systems (CM.cf_ty (CM.st_cf st)) (CM.cf_c (CM.st_cf st)))); [reflexivity | lia].
Qed.

(* the two models count the same equations *)
Definition counts_agree (st : CM.state) (vals : nat -> list (mvals qops)) (pvalf : nat -> Z -> qi) : Prop :=
  let cf := CM.st_cf st in
  forall f k, f < CM.st_freqs st -> k < CM.systems (CM.cf_ty cf) (CM.cf_c cf) ->
    CM.sys_count st k = length (q_assemble (cty (CM.cf_ty cf)) (CM.cf_r cf) (CM.cf_c cf) (vals f) (pvalf f) k).

Section Join.
Variables (o : CM.oracle) (st : CM.state) (vals : nat -> list (mvals qops)) (pvalf : nat -> Z -> qi).
Let cf := CM.st_cf st.
Let ty := cty (CM.cf_ty cf).
Let r := CM.cf_r cf.
Let c := CM.cf_c cf.
Let ns := CM.systems (CM.cf_ty cf) c.

Hypothesis Hfv : CM.st_fvalid st = true.
Hypothesis Hpath : CM.solve_path st = CM.PSimple.       (* known standards only, not the TRL shape *)
Hypothesis Ho : oracle_is_model o st vals pvalf.
Hypothesis Hcnt : counts_agree st vals pvalf.

Lemma count_ok_rows : CM.count_deficient st = false ->
  forall f k, f < CM.st_freqs st -> k < ns ->
    unknowns ty r c <= length (q_assemble ty r c (vals f) (pvalf f) k).
Proof.
  intros Hc f k Hf Hk. unfold CM.count_deficient, CM.short_system in Hc. rewrite Hpath in Hc.
  unfold ty, r, ns, c, cf in *.
  pose proof (Hcnt f k Hf Hk) as E. cbv zeta in E. rewrite <- E. rewrite <- unknowns_agree.
  destruct (Nat.le_gt_cases (CM.unknowns (CM.cf_ty (CM.st_cf st)) (CM.cf_r (CM.st_cf st)) (CM.cf_c (CM.st_cf st)))
                            (CM.sys_count st k)) as [H|H]; [exact H|].
  exfalso.
  assert (E' : existsb (fun k0 => CM.sys_count st k0 <?
                           CM.unknowns (CM.cf_ty (CM.st_cf st)) (CM.cf_r (CM.st_cf st)) (CM.cf_c (CM.st_cf st)))
                 (seq 0 (CM.systems (CM.cf_ty (CM.st_cf st)) (CM.cf_c (CM.st_cf st)))) = true).
  { apply existsb_exists. exists k. split; [apply in_seq; lia | apply Nat.ltb_lt; exact H]. }
  rewrite E' in Hc. discriminate.
Qed.

(* count test passes AND every system has full column rank AND the post-processing succeeds => success *)
Theorem count_and_rank_solve_lemma :
  CM.count_deficient st = false ->
  (forall f k, f < CM.st_freqs st -> k < ns ->
     kernel_trivial (unknowns ty r c) (q_assemble ty r c (vals f) (pvalf f) k)) ->
  (forall f, f < CM.st_freqs st -> o (CM.view_of st) f ns = true) ->
  CM.solve o CM.NoFault st = (CP.solved st, CM.Ok).
Proof.
  intros Hc Hrank Hpost. apply CP.solve_ok_nofault. apply CP.solve_ok_iff. split; [exact Hfv|].
  right. split; [exact Hc|]. intros f Hf. unfold CM.numeric_ok. rewrite Hpath.
  pose proof (count_ok_rows Hc f) as Hrows.
  unfold ty, r, ns, c, cf in *.
  rewrite (Hpost f Hf), andb_true_r. apply forallb_forall. intros k Hk. apply in_seq in Hk.
  pose proof (Ho f k Hf ltac:(lia)) as E. cbv zeta in E. rewrite E.
  destruct (determining_system_solves _ _ _ (vals f) (pvalf f) k
              (Hrows k Hf ltac:(lia)) (Hrank f k Hf ltac:(lia))) as (x & ->).
  reflexivity.
Qed.

(* a rank-deficient system at some frequency => EDOM, nothing changed *)
Theorem rank_deficient_edom_lemma (f k : nat) :
  f < CM.st_freqs st -> k < ns ->
  unknowns ty r c <= length (q_assemble ty r c (vals f) (pvalf f) k) ->
  rows_deficient (unknowns ty r c) (q_assemble ty r c (vals f) (pvalf f) k) ->
  CM.solve o CM.NoFault st = (st, CM.Err CM.EDOM).
Proof.
  intros Hf Hk Hge Hd.
  assert (Hno : snd (CM.solve o CM.NoFault st) <> CM.Ok).
  { intro Hok. apply CP.solve_ok_iff in Hok. destruct Hok as [_ [H0 | [_ Hn]]]; [lia|].
    specialize (Hn f Hf). unfold CM.numeric_ok in Hn. rewrite Hpath in Hn.
    unfold ty, r, ns, c, cf in *.
    apply andb_true_iff in Hn. destruct Hn as [Hn _]. rewrite forallb_forall in Hn.
    specialize (Hn k ltac:(apply in_seq; lia)).
    pose proof (Ho f k Hf ltac:(lia)) as E. cbv zeta in E. rewrite E in Hn.
    rewrite (deficient_system_singular _ _ _ (vals f) (pvalf f) k Hge Hd) in Hn. discriminate. }
  revert Hno. unfold CM.solve. rewrite Hfv. cbn [negb].
  destruct (forallb _ _); [|reflexivity].
  pose proof (CP.writeback_nofault (CM.st_freqs st) (CM.st_meas st) (CM.unknown_list st) 0 (CM.st_pv st)) as Hw.
  destruct (CM.writeback _ _ None _ _ _) as [pv [|]]; [|discriminate Hw].
  intros Hno. exfalso. apply Hno. reflexivity.
Qed.
End Join.
