(* C20 (review round 2, M2): from a concrete family of standards to "the set determines the terms".
   One-port short - open - match (the textbook SOL) on T8: for ANY three measured values with m_short <> m_open the
   coefficient matrix assembled as coded has full column rank (kernel_trivial), hence (DeterminingProofs) the model solve
   succeeds and returns the unique solution; in particular for measurements that come from any error box
   Ts, Ti, Tx (Tm = 1) with Ts - Ti Tx <> 0 and 1 - Tx^2 <> 0 the result is that error box.
   Only this family is done; SOLT on two ports and the other types are decided per case by the oracle / the numeric tie. *)
Require Import List ZArith Bool Arith Lia QArith Qcanon.
Require Import LV.Base.CField LV.Base.QcI LV.Lin.MatL LV.Lin.LuGenA LV.Lin.LuNonsing.
Require Import LV.Gen.LayoutGen LV.Cal.Sym LV.Cal.TermsModel LV.Cal.AddModel LV.Cal.ApplyModel LV.Cal.SolveSimple
               LV.Cal.CalQI LV.Cal.SolveRecovers.
Require Import LV.SolveCount.DeterminingProofs.
Import ListNotations.
Local Open Scope nat_scope.

(* short = handle 2 (-1), open = handle 1 (1), match = handle 0 (VNACAL_ZERO) *)
Definition sol_pval (h : Z) : qi := if Z.eqb h 2 then mkqi (-1) 1 0 1 else if Z.eqb h 1 then qi1 else qi0.
Definition sol_args (ty : caltype) (h : Z) : add_args :=
  mkArgs ty 1 1 false (fun _ => true) false 0 0 1 1 [h] 1 1 true (Some [1%Z]).
Definition sol_ms (ty : caltype) (ms mo ml : qi) : list (mvals qops) :=
  flat_map (fun hm => match add_common (sol_args ty (fst hm)) with
                      | Accepted m => [mkMV qops m [snd hm]]
                      | _ => [] end) [(2%Z, ms); (1%Z, mo); (0%Z, ml)].

Section A.
Variable K : CField.
Add Field Kf_sol : (cth K).
Local Open Scope cf_scope.
Lemma div_cancel (n d : K) : d <> 0 -> n / d * d = n.
Proof. intros H. field. exact H. Qed.
End A.

Section S.
Add Field qif_sol : (cth QIF).
Local Open Scope cf_scope.
Notation q0 := (@c0 QIF).

Lemma minus_one : mkqi (-1) 1 0 1 = - (1 : QIF).
Proof. apply qi_eqb_eq. vm_compute. reflexivity. Qed.

Lemma sol_rows (ms mo ml : QIF) :
  q_assemble T8 1 1 (sol_ms T8 ms mo ml) sol_pval 0 =
  [([1; - (1); - ms], - ms); ([- (1); - (1); mo], - mo); ([q0; - (1); q0], - ml)].
Proof.
  unfold q_assemble.
  cbv -[cadd cmul csub copp cdiv cinv c0 c1 F QIF qi0 qi1 mkqi].
  rewrite minus_one. change qi1 with (1 : QIF). change qi0 with (0 : QIF).
  repeat (f_equal; try ring).
Qed.

Theorem sol_t8_full_rank (ms mo ml : QIF) : ms <> mo ->
  length (q_assemble T8 1 1 (sol_ms T8 ms mo ml) sol_pval 0) = 3%nat /\
  unknowns T8 1 1 = 3%nat /\
  kernel_trivial 3 (q_assemble T8 1 1 (sol_ms T8 ms mo ml) sol_pval 0).
Proof.
  intros Hne. rewrite sol_rows. split; [reflexivity|]. split; [reflexivity|].
  intros v Hv.
  pose proof (Hv _ (or_introl eq_refl)) as E1.
  pose proof (Hv _ (or_intror (or_introl eq_refl))) as E2.
  pose proof (Hv _ (or_intror (or_intror (or_introl eq_refl)))) as E3.
  cbn [fst nth LuGenA.sumf] in E1, E2, E3.
  set (a := (v 0%nat : QIF)) in *. set (b := (v 1%nat : QIF)) in *. set (c := (v 2%nat : QIF)) in *.
  change (0 + 1 * a + - (1) * b + - ms * c = 0) in E1.
  change (0 + - (1) * a + - (1) * b + mo * c = 0) in E2.
  change (0 + 0 * a + - (1) * b + 0 * c = 0) in E3.
  assert (V1 : b = 0) by (transitivity (- (0 + 0 * a + - (1) * b + 0 * c)); [ring | rewrite E3; ring]).
  assert (V2 : c = 0).
  { apply (mul_zero_r_nz QIF c (mo - ms)).
    - transitivity ((0 + 1 * a + - (1) * b + - ms * c) + (0 + - (1) * a + - (1) * b + mo * c) + (1 + 1) * b); [ring|].
      rewrite E1, E2, V1. ring.
    - intro Hz. apply Hne. transitivity (mo - (mo - ms)); [ring | rewrite Hz; ring]. }
  assert (V0 : a = 0).
  { transitivity ((0 + 1 * a + - (1) * b + - ms * c) + b + ms * c); [ring|]. rewrite E1, V1, V2. ring. }
  intros k Hk. destruct k as [|[|[|k]]]; [exact V0 | exact V1 | exact V2 | lia].
Qed.

(* hence: SOL on one port is a determining set - the model solve succeeds whatever was measured, provided short and open
   read differently *)
Theorem sol_t8_solves (ms mo ml : QIF) : ms <> mo ->
  exists x, q_solve_system T8 1 1 (sol_ms T8 ms mo ml) sol_pval 0 =
            SysOk (q_assemble T8 1 1 (sol_ms T8 ms mo ml) sol_pval 0) x.
Proof.
  intros Hne. destruct (sol_t8_full_rank ms mo ml Hne) as (L & U & Kt).
  apply (determining_system_solves T8 1 1 (sol_ms T8 ms mo ml) sol_pval 0).
  - rewrite L, U. apply le_n.
  - rewrite U. exact Kt.
Qed.

(* measurements that come from an error box: M = (Ts s + Ti) / (Tx s + 1) *)
Definition box_m (ts ti tx s : QIF) : QIF := (ts * s + ti) / (tx * s + 1).

Theorem sol_t8_recovers_error_box (ts ti tx : QIF) :
  1 - tx <> 0 -> 1 + tx <> 0 -> ts - ti * tx <> 0 ->
  q_solve_system T8 1 1 (sol_ms T8 (box_m ts ti tx (- (1))) (box_m ts ti tx 1) (box_m ts ti tx 0)) sol_pval 0 =
  SysOk (q_assemble T8 1 1 (sol_ms T8 (box_m ts ti tx (- (1))) (box_m ts ti tx 1) (box_m ts ti tx 0)) sol_pval 0) [ts; ti; tx].
Proof.
  intros H1 H2 H3.
  set (ms := box_m ts ti tx (- (1))). set (mo := box_m ts ti tx 1). set (ml := box_m ts ti tx 0).
  assert (D1 : tx * - (1) + 1 <> 0) by (intro Hz; apply H1; rewrite <- Hz; ring).
  assert (D2 : tx * 1 + 1 <> 0) by (intro Hz; apply H2; rewrite <- Hz; ring).
  assert (D3 : tx * 0 + 1 <> 0) by (intro Hz; apply (F_1_neq_0 (cth QIF)); rewrite <- Hz; ring).
  pose proof (div_cancel QIF (ts * - (1) + ti) _ D1) as M1. fold (box_m ts ti tx (- (1))) in M1. fold ms in M1.
  pose proof (div_cancel QIF (ts * 1 + ti) _ D2) as M2. fold (box_m ts ti tx 1) in M2. fold mo in M2.
  pose proof (div_cancel QIF (ts * 0 + ti) _ D3) as M3. fold (box_m ts ti tx 0) in M3. fold ml in M3.
  assert (Hne : ms <> mo).
  { intro E. apply H3. rewrite E in M1.
    apply (mul_zero_r_nz QIF _ (1 + 1)).
    - transitivity ((ts * 1 + ti) * (tx * - (1) + 1) - (ts * - (1) + ti) * (tx * 1 + 1)); [ring|].
      rewrite <- M1, <- M2. ring.
    - intro Hz. apply qi_eqb_eq in Hz. vm_compute in Hz. discriminate. }
  destruct (sol_t8_full_rank ms mo ml Hne) as (L & U & Kt).
  apply (determining_system_recovers T8 1 1 (sol_ms T8 ms mo ml) sol_pval 0 [ts; ti; tx]).
  - rewrite L, U. apply le_n.
  - rewrite U. exact Kt.
  - rewrite U. reflexivity.
  - rewrite U. rewrite sol_rows. intros r [<-|[<-|[<-|[]]]]; unfold rdot; cbn [fst snd nth LuGenA.sumf].
    + change (0 + 1 * ts + - (1) * ti + - ms * tx = - ms).
      transitivity (- ms + (ms * (tx * - (1) + 1) - (ts * - (1) + ti))); [ring | rewrite M1; ring].
    + change (0 + - (1) * ts + - (1) * ti + mo * tx = - mo).
      transitivity (- mo + (mo * (tx * 1 + 1) - (ts * 1 + ti))); [ring | rewrite M2; ring].
    + change (0 + 0 * ts + - (1) * ti + 0 * tx = - ml).
      transitivity (- ml + (ml * (tx * 0 + 1) - (ts * 0 + ti))); [ring | rewrite M3; ring].
Qed.
End S.

(* the premises of sol_t8_recovers_error_box can be met: the error box of the other examples *)
Example sol_t8_recovers_error_box_example :
  let ts : QIF := mkqi 2 1 0 1 in let ti : QIF := mkqi 1 2 0 1 in let tx : QIF := mkqi 1 4 0 1 in
  csub (@c1 QIF) tx <> @c0 QIF /\ cadd (@c1 QIF) tx <> @c0 QIF /\ csub ts (cmul ti tx) <> @c0 QIF.
Proof. cbv zeta. repeat split; apply qi_neqb; vm_compute; reflexivity. Qed.
