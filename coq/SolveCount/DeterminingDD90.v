(* DD90: with unknown parameters _vnacal_new_solve_auto tested only the TOTAL number of equations
   (vn_equations + correlated < x_length + p_length); for the types with one linear system per column (UE14, E12) a
   column can be short of equations while the total passes, and the solve then "succeeded" with invented terms.
   The repaired code (fixes/DD90) refuses every system with fewer equations than error terms first; CountModel.count_deficient
   follows the repaired code, CountModel.count_deficient_before_DD90 is the old reading.
   Here: the history-level EDOM theorem for the repaired reading and the witness that refutes it for the old one. *)
Require Import List Arith Bool Lia.
Import ListNotations.
Require Import LV.SolveCount.CountModel LV.SolveCount.CountProofs.

Lemma underdetermined_auto_short_system_edom_l (o : oracle) (cf : config) (F : nat) (stds : list add_args) (k : nat) :
  let st := run_adds (init cf F true) stds in
  0 < F -> st_unknown st <> 0 -> is_trl st = false ->
  k < systems (cf_ty cf) (cf_c cf) ->
  sys_count st k < unknowns (cf_ty cf) (cf_r cf) (cf_c cf) ->
  solve o NoFault st = (st, Err EDOM).
Proof.
  intros st HF Hu Ht Hk Hc.
  destruct (run_adds_static stds (init cf F true)) as (Cf & Fr & Fv & _). fold st in Cf, Fr, Fv.
  simpl in Cf, Fr, Fv.
  apply deficient_edom.
  - rewrite Fv. reflexivity.
  - rewrite Fr. exact HF.
  - apply (auto_short_system_deficient st k Hu Ht); rewrite Cf; assumption.
Qed.

(* UE14 2x2: a through, six reflects on port 1 (slot 3 an unknown parameter), a short on port 2 *)
Definition dd90_cf := {| cf_ty := UE14; cf_r := 2; cf_c := 2; cf_kinds := [(3, PUnknown)] |}.
Definition dd90_stds : list add_args :=
  [through 2 2 1 2; single_reflect 2 2 2 1; single_reflect 2 2 1 1; single_reflect 2 2 0 1;
   single_reflect 2 2 3 1; single_reflect 2 2 4 1; single_reflect 2 2 5 1; single_reflect 2 2 2 2].
Definition dd90_st := run_adds (init dd90_cf 1 true) dd90_stds.

Lemma dd90_witness :
  alloc_ok UE14 2 2 = true /\ solve_path dd90_st = PAuto /\ st_unknown dd90_st = 1 /\ is_trl dd90_st = false /\
  unknowns UE14 2 2 = 5 /\ sys_count dd90_st 0 = 8 /\ sys_count dd90_st 1 = 3 /\
  st_equations dd90_st + st_corr dd90_st >= x_length dd90_st + st_unknown dd90_st /\
  count_deficient_before_DD90 dd90_st = false /\ count_deficient dd90_st = true /\
  (forall o, solve o NoFault dd90_st = (dd90_st, Err EDOM)).
Proof.
  repeat (split; [vm_compute; try reflexivity; try lia|]).
  intros o. apply (underdetermined_auto_short_system_edom_l o dd90_cf 1 dd90_stds 1).
  - lia.
  - vm_compute. discriminate.
  - reflexivity.
  - vm_compute. lia.
  - vm_compute. lia.
Qed.

(* the old reading: "fewer equations than unknowns in some system => the count test refuses" is false *)
Lemma short_system_refused_refuted_before_DD90 :
  exists st k, st_fvalid st = true /\ 0 < st_freqs st /\ st_unknown st <> 0 /\ is_trl st = false /\
    k < systems (cf_ty (st_cf st)) (cf_c (st_cf st)) /\
    sys_count st k < unknowns (cf_ty (st_cf st)) (cf_r (st_cf st)) (cf_c (st_cf st)) /\
    count_deficient_before_DD90 st = false.
Proof.
  exists dd90_st, 1. repeat (split; [vm_compute; try reflexivity; try lia; try discriminate|]). reflexivity.
Qed.
