(* C20: executable model of the counting / dispatch / re-entrancy logic of
     vnacal_new_alloc, _vnacal_new_add_common (vnacal_new_add_common.c),
     _vnacal_new_get_parameter (vnacal_new_parameter.c), vnacal_new_set_m_error,
     _vnacal_new_solve_internal, _vnacal_new_solve_simple, _vnacal_new_solve_auto,
     _vnacal_new_solve_is_trl and vnacal_add_calibration,
   as coded at the current head of the repository (which includes the repairs D14, D15, D19, D21, D22
   and the refusal of measurement matrices larger than the calibration / of abbreviated matrices whose
   ports have no row or column, D63: rectangular S only with T16 / U16, D17: parameters are
   registered only after every argument check has passed).
   No proofs in this file.  The numeric part of a solve (LU / QR rank decisions, iteration,
   p-value, UE14->E12 conversion) is an uninterpreted oracle.  Allocation failure is modelled for
   vnacal_new_solve only (an injected fault, `afault`): it is the one way in which a failing solve can
   leave the object changed (the parameter write-back precedes the last allocation of the call).
   D69: classify_standard answers TRL_NONE for a standard that leaves a cell of the 2x2 S matrix unset.

   Indices are 0-based except the port numbers of a port map, which are 1-based as in the API. *)
Require Import List Arith Bool PeanoNat.
Import ListNotations.

(* ------------------------------------------------------------------ types, layout *)
Inductive ctype := T8 | U8 | TE10 | UE10 | T16 | U16 | UE14 | E12.
(* E12 stands for _VNACAL_E12_UE14, by which vnacal_new_alloc replaces VNACAL_E12 *)

Definition is_t (ty : ctype) : bool := match ty with T8 | TE10 | T16 => true | _ => false end.
Definition is_ue14 (ty : ctype) : bool := match ty with UE14 | E12 => true | _ => false end.
Definition is_16 (ty : ctype) : bool := match ty with T16 | U16 => true | _ => false end.

(* vl_t_terms of _vnacal_layout (s_rows = s_columns = ports = max rows columns) *)
Definition t_terms (ty : ctype) (r c : nat) : nat :=
  let p := Nat.max r c in
  match ty with
  | T16 => r * p + r * p + c * p + c * p
  | T8 | TE10 => Nat.min r p + Nat.min r p + Nat.min c p + Nat.min c p
  | U16 => p * r + p * c + p * r + p * c
  | U8 | UE10 => Nat.min p r + Nat.min p c + Nat.min p r + Nat.min p c
  | UE14 | E12 => Nat.min p r + 1 + Nat.min p r + 1
  end.
Definition unknowns (ty : ctype) (r c : nat) : nat := t_terms ty r c - 1.   (* one unity term per system *)
Definition systems (ty : ctype) (c : nat) : nat := if is_ue14 ty then c else 1.
Definition alloc_ok (ty : ctype) (r c : nat) : bool :=
  (1 <=? r) && (1 <=? c) && (if is_t ty then r <=? c else c <=? r).

(* ------------------------------------------------------------------ parameters *)
Inductive pkind := PKnown | PUnknown | PCorrelated (other : nat).
(* slot 0 is VNACAL_ZERO (= VNACAL_MATCH): the only handle the library treats as "known zero";
   slot 1 is VNACAL_ONE (= VNACAL_OPEN) *)

Fixpoint kind_of (kinds : list (nat * pkind)) (k : nat) : pkind :=
  match kinds with
  | [] => PKnown
  | (k', x) :: rest => if k' =? k then x else kind_of rest k
  end.

Definition mem (k : nat) (l : list nat) : bool := existsb (Nat.eqb k) l.

(* _vnacal_new_get_parameter: hash look-up, else (correlated: get the correlate first) create,
   count unknown / correlated.  acc = (seen, unknown, correlated) *)
Fixpoint reg_slot (fuel : nat) (kinds : list (nat * pkind)) (acc : list nat * nat * nat) (k : nat)
  : list nat * nat * nat :=
  let '(seen, unk, cor) := acc in
  if mem k seen then acc else
  match kind_of kinds k with
  | PKnown => (k :: seen, unk, cor)
  | PUnknown => (k :: seen, S unk, cor)
  | PCorrelated o =>
    match fuel with
    | 0 => (k :: seen, S unk, S cor)
    | S f =>
      let '(seen', unk', cor') := reg_slot f kinds acc o in
      if mem k seen' then (seen', unk', cor') else (k :: seen', S unk', S cor')
    end
  end.

(* ------------------------------------------------------------------ add arguments *)
Record add_args := {
  a_brows : nat; a_bcols : nat;           (* dimensions of the measurement matrix given *)
  a_srows : nat; a_scols : nat;           (* dimensions of the S matrix given *)
  a_sdiag : bool;                         (* vnaa_s_is_diagonal: only the diagonal of S is given *)
  a_cells : list nat;                     (* parameter slots, row-major (or the diagonal) *)
  a_map : option (list nat)               (* s_port_map, 1-based; None = NULL *)
}.

Inductive errno := EDOM | EINVAL | ENOMEM.
Inductive outcome := Ok | Err (e : errno) | OutOfModel.
(* OutOfModel: the C code would index an automatic array out of bounds, dereference NULL or trip
   an assert() on these arguments; the model makes no prediction and the harness never sends them. *)

(* the API wrappers *)
Definition single_reflect (br bc s11 port : nat) : add_args :=
  {| a_brows := br; a_bcols := bc; a_srows := 1; a_scols := 1; a_sdiag := true; a_cells := [s11]; a_map := Some [port] |}.
Definition double_reflect (br bc s11 s22 p1 p2 : nat) : add_args :=
  {| a_brows := br; a_bcols := bc; a_srows := 2; a_scols := 2; a_sdiag := true; a_cells := [s11; s22]; a_map := Some [p1; p2] |}.
Definition line (br bc s11 s12 s21 s22 p1 p2 : nat) : add_args :=
  {| a_brows := br; a_bcols := bc; a_srows := 2; a_scols := 2; a_sdiag := false; a_cells := [s11; s12; s21; s22]; a_map := Some [p1; p2] |}.
Definition through (br bc p1 p2 : nat) : add_args := line br bc 0 1 1 0 p1 p2.
Definition mapped_matrix (br bc sr sc : nat) (cells : list nat) (map : option (list nat)) : add_args :=
  {| a_brows := br; a_bcols := bc; a_srows := sr; a_scols := sc; a_sdiag := false; a_cells := cells; a_map := map |}.

(* ------------------------------------------------------------------ small list helpers *)
Fixpoint insert_sorted (x : nat) (l : list nat) : list nat :=
  match l with
  | [] => [x]
  | y :: r => if x <=? y then x :: l else y :: insert_sorted x r
  end.
Definition sort (l : list nat) : list nat := fold_right insert_sorted [] l.

Definition bmat := list (list bool).
Definition mk_bmat (n : nat) (f : nat -> nat -> bool) : bmat :=
  map (fun i => map (fun j => f i j) (seq 0 n)) (seq 0 n).
Definition bget (m : bmat) (i j : nat) : bool := nth j (nth i m []) false.

Definition smat := list (list (option nat)).
Definition sget (m : smat) (i j : nat) : option nat := nth j (nth i m []) None.

(* position of VNA port index i (0-based) among the first n entries of the map *)
Fixpoint find_port (map : list nat) (n : nat) (i : nat) (pos : nat) : option nat :=
  match n, map with
  | S n', p :: rest => if p =? S i then Some pos else find_port rest n' i (S pos)
  | _, _ => None
  end.

Fixpoint has_dup (l : list nat) : bool :=
  match l with
  | [] => false
  | x :: r => mem x r || has_dup r
  end.

(* ------------------------------------------------------------------ static configuration of a calibration *)
Record config := {
  cf_ty : ctype; cf_r : nat; cf_c : nat;
  cf_kinds : list (nat * pkind)
}.
Definition cf_p (cf : config) : nat := Nat.max (cf_r cf) (cf_c cf).

(* ------------------------------------------------------------------ _vnacal_new_add_common: argument checks *)
Definition min_brows (cf : config) (a : add_args) : nat :=
  let s_ports := Nat.max (a_srows a) (a_scols a) in
  match cf_ty cf with
  | T16 => a_srows a
  | U16 => cf_r cf
  | _ => s_ports
  end.
Definition min_bcols (cf : config) (a : add_args) : nat :=
  let s_ports := Nat.max (a_srows a) (a_scols a) in
  match cf_ty cf with
  | T16 => cf_c cf
  | U16 => a_scols a
  | _ => s_ports
  end.

(* the port-map loop: port < 1, running maximum against the bounds, duplicates *)
Fixpoint map_ok (P : nat) (seen : list nat) (l : list nat) : bool :=
  match l with
  | [] => true
  | p :: rest => (1 <=? p) && (p <=? P) && negb (mem p seen) && map_ok P (p :: seen) rest
  end.

Inductive verdict := Accept | Reject | Undefined.

Definition check_args (cf : config) (a : add_args) : verdict :=
  let P := cf_p cf in
  let r := cf_r cf in let c := cf_c cf in
  let sr := a_srows a in let sc := a_scols a in
  let s_ports := Nat.max sr sc in
  let tt := is_t (cf_ty cf) in
  if negb ((1 <=? sr) && (sr <=? P)) then Reject
  else if negb ((1 <=? sc) && (sc <=? P)) then Reject
  else if (sr <? sc) && negb (sr =? P) && tt then Reject
  else if (sc <? sr) && negb (sc =? P) && negb tt then Reject
  else if (match a_map a with None => negb ((sr =? P) && (sc =? P)) | Some _ => false end) then Reject
  else if negb ((a_brows a =? min_brows cf a) || (a_brows a =? r)) then Reject
  else if negb ((a_bcols a =? min_bcols cf a) || (a_bcols a =? c)) then Reject
  else if (r <? a_brows a) || (c <? a_bcols a) then Reject        (* larger than the calibration matrix *)
  else if negb (is_16 (cf_ty cf)) && negb (sr =? sc) then Reject    (* partially known S: T16 / U16 only *)
  else
    match a_map a with
    | Some m =>
      if length m <? s_ports then Undefined                     (* the C code would read past the caller's array *)
      else if existsb (fun p => ((a_brows a <? r) && (r <? p)) || ((a_bcols a <? c) && (c <? p))) (firstn s_ports m)
      then Reject                                               (* abbreviated matrix, port without a row / column *)
      else if negb (map_ok P [] (firstn s_ports m)) then Reject
      else if negb (length (a_cells a) =? (if a_sdiag a then Nat.min sr sc else sr * sc)) then Undefined
      else Accept
    | None =>
      if negb (length (a_cells a) =? (if a_sdiag a then Nat.min sr sc else sr * sc)) then Undefined
      else Accept
    end.

(* ------------------------------------------------------------------ which rows / columns were given *)
Definition port_connected (cf : config) (a : add_args) (i : nat) : bool :=
  match a_map a with
  | None => true
  | Some m => mem (S i) (firstn (Nat.max (a_srows a) (a_scols a)) m)
  end.

Definition m_row_given (cf : config) (a : add_args) (i : nat) : bool :=
  match a_map a with
  | Some m =>
    if a_brows a <? cf_r cf
    then mem (S i) (firstn (a_brows a) (sort (firstn (Nat.max (a_srows a) (a_scols a)) m)))
    else i <? a_brows a
  | None => i <? a_brows a
  end.
Definition m_col_given (cf : config) (a : add_args) (j : nat) : bool :=
  match a_map a with
  | Some m =>
    if a_bcols a <? cf_c cf
    then mem (S j) (firstn (a_bcols a) (sort (firstn (Nat.max (a_srows a) (a_scols a)) m)))
    else j <? a_bcols a
  | None => j <? a_bcols a          (* loop bound b_columns (repair D14) *)
  end.
Definition s_row_given (cf : config) (a : add_args) (i : nat) : bool :=
  let n := if a_sdiag a then Nat.min (a_srows a) (a_scols a) else a_srows a in
  match a_map a with
  | Some m => mem (S i) (firstn n m)
  | None => i <? n
  end.
Definition s_col_given (cf : config) (a : add_args) (j : nat) : bool :=
  let n := if a_sdiag a then Nat.min (a_srows a) (a_scols a) else a_scols a in
  match a_map a with
  | Some m => mem (S j) (firstn n m)
  | None => j <? n
  end.

(* ------------------------------------------------------------------ the full S matrix of the measurement (vnm_s_matrix) *)
Definition given_cell (cf : config) (a : add_args) (i j : nat) : option nat :=
  match a_map a with
  | Some m =>
    if a_sdiag a then
      if i =? j then
        match find_port m (Nat.min (a_srows a) (a_scols a)) i 0 with
        | Some d => nth_error (a_cells a) d
        | None => None
        end
      else None
    else
      match find_port m (a_srows a) i 0, find_port m (a_scols a) j 0 with
      | Some x, Some y => nth_error (a_cells a) (x * a_scols a + y)
      | _, _ => None
      end
  | None =>
    if a_sdiag a then
      if (i =? j) && (i <? Nat.min (a_srows a) (a_scols a)) then nth_error (a_cells a) i else None
    else
      if (i <? a_srows a) && (j <? a_scols a) then nth_error (a_cells a) (i * a_scols a + j) else None
  end.

Definition full_cell (cf : config) (a : add_args) (i j : nat) : option nat :=
  match given_cell cf a i j with
  | Some k => Some k
  | None =>
    if a_sdiag a && negb (i =? j) && port_connected cf a i && port_connected cf a j then Some 0
    else if (match a_map a with Some _ => true | None => false end)
            && xorb (port_connected cf a i) (port_connected cf a j) then Some 0
    else None
  end.

Definition full_s (cf : config) (a : add_args) : smat :=
  let P := cf_p cf in
  map (fun i => map (fun j => full_cell cf a i j) (seq 0 P)) (seq 0 P).

Definition is_zero_cell (x : option nat) : bool := match x with Some 0 => true | _ => false end.
Definition s_complete (P : nat) (s : smat) : bool :=
  forallb (fun i => forallb (fun j => match sget s i j with Some _ => true | None => false end) (seq 0 P)) (seq 0 P).

(* build_connectivity_matrix: classes of the relation "an off-diagonal cell between the two ports
   is not the known zero" (union-find in C; reflexive-transitive closure here) *)
Definition conn_step (P : nat) (m : bmat) : bmat :=
  mk_bmat P (fun i j => existsb (fun k => bget m i k && bget m k j) (seq 0 P)).
Definition connectivity (P : nat) (s : smat) : bmat :=
  let base := mk_bmat P (fun i j => (i =? j) || negb (is_zero_cell (sget s i j)) || negb (is_zero_cell (sget s j i))) in
  Nat.iter P (conn_step P) base.

(* ------------------------------------------------------------------ the equations one standard contributes: (system, row, column), in generation order *)
Definition pairs (n m : nat) : list (nat * nat) :=
  flat_map (fun i => map (fun j => (i, j)) (seq 0 m)) (seq 0 n).

Definition gen_equations (cf : config) (a : add_args) : list (nat * (nat * nat)) :=
  let P := cf_p cf in
  let r := cf_r cf in let c := cf_c cf in
  let s := full_s cf a in
  let ty := cf_ty cf in
  let cm := connectivity P s in
  let conn i j := if is_16 ty then true else bget cm i j in
  if is_ue14 ty then
    (* for eq_column, for eq_row *)
    flat_map (fun '(col, row) =>
      if s_row_given cf a row && m_col_given cf a col && conn row col then [(col, (row, col))] else [])
      (pairs c P)
  else if is_t ty then
    flat_map (fun '(row, col) =>
      if m_row_given cf a row && s_col_given cf a col && conn row col then [(0, (row, col))] else [])
      (pairs r P)
  else
    flat_map (fun '(row, col) =>
      if s_row_given cf a row && m_col_given cf a col && conn row col then [(0, (row, col))] else [])
      (pairs P c).

(* ------------------------------------------------------------------ state of a vnacal_new_t *)
Record meas := { ms_args : add_args; ms_s : smat }.
Definition eqn := (nat * (nat * nat))%type.       (* measurement index, (row, column) *)

(* the value part of an unknown / correlated parameter, which lives in the vnacal_t:
   vpmr_frequencies (= length of vpmr_frequency_vector) and vpmr_gamma_vector (NULL until a solve has
   stored a solution; abstractly: the standards that solution was computed from) *)
Record pval := { pv_freqs : nat; pv_gamma : option (list meas) }.
Definition pv_init : pval := {| pv_freqs := 0; pv_gamma := None |}.   (* vnacal_make_unknown/correlated_parameter *)
Definition pvals := list (nat * pval).                                 (* by parameter slot; absent = pv_init *)
Fixpoint pv_get (pv : pvals) (k : nat) : pval :=
  match pv with
  | [] => pv_init
  | (k', v) :: r => if k' =? k then v else pv_get r k
  end.
Fixpoint pv_set (pv : pvals) (k : nat) (v : pval) : pvals :=
  match pv with
  | [] => [(k, v)]
  | (k', v') :: r => if k' =? k then (k, v) :: r else (k', v') :: pv_set r k v
  end.

Record state := {
  st_cf : config;
  st_freqs : nat;                  (* vn_frequencies *)
  st_fvalid : bool;                (* vn_frequencies_valid *)
  st_merr : bool;                  (* vn_m_error_vector != NULL *)
  st_seen : list nat;              (* parameter hash *)
  st_unknown : nat;                (* vn_unknown_parameters *)
  st_corr : nat;                   (* vn_correlated_parameters *)
  st_meas : list meas;             (* vn_measurement_list, in order *)
  st_sys : list (list eqn);        (* vn_system_vector[k].vns_equation_list *)
  st_equations : nat;              (* vn_equations *)
  st_max : nat;                    (* vn_max_equations *)
  st_cal : option (list meas);     (* vn_calibration: abstractly, the standards it was solved from *)
  st_pv : pvals                    (* solved values of the unknown parameters (stored in the vnacal_t) *)
}.

Definition init (cf : config) (freqs : nat) (fvalid : bool) : state :=
  {| st_cf := cf; st_freqs := freqs; st_fvalid := fvalid; st_merr := false;
     st_seen := [0]; st_unknown := 0; st_corr := 0;       (* vn_zero is looked up by vnacal_new_alloc *)
     st_meas := []; st_sys := repeat [] (systems (cf_ty cf) (cf_c cf));
     st_equations := 0; st_max := 0; st_cal := None; st_pv := [] |}.

Definition sys_count (st : state) (k : nat) : nat := length (nth k (st_sys st) []).

(* "link the equations onto their respective systems": append, ++vns_equation_count,
   vn_max_equations = running maximum, ++vn_equations; one equation at a time, as in the C loop *)
Fixpoint append_at (k : nat) (e : eqn) (l : list (list eqn)) : list (list eqn) :=
  match l, k with
  | [], _ => []
  | x :: rest, 0 => (x ++ [e]) :: rest
  | x :: rest, S k' => x :: append_at k' e rest
  end.

Definition link_one (acc : list (list eqn) * nat * nat) (ke : nat * eqn) : list (list eqn) * nat * nat :=
  let '(sys, total, mx) := acc in
  let sys' := append_at (fst ke) (snd ke) sys in
  let cnt := length (nth (fst ke) sys' []) in
  (sys', S total, if mx <? cnt then cnt else mx).

Definition set_params (st : state) (x : list nat * nat * nat) : state :=
  {| st_cf := st_cf st; st_freqs := st_freqs st; st_fvalid := st_fvalid st; st_merr := st_merr st;
     st_seen := fst (fst x); st_unknown := snd (fst x); st_corr := snd x;
     st_meas := st_meas st; st_sys := st_sys st; st_equations := st_equations st; st_max := st_max st;
     st_cal := st_cal st; st_pv := st_pv st |}.

Definition add_std (st : state) (a : add_args) : state * outcome :=
  let cf := st_cf st in
  match check_args cf a with
  | Reject => (st, Err EINVAL)
  | Undefined => (st, OutOfModel)
  | Accept =>
    let s := full_s cf a in
    if st_merr st && is_16 (cf_ty cf) && negb (s_complete (cf_p cf) s) then (st, Err EINVAL)
    else
      (* all argument checks have passed: the S handles are looked up and unknown parameters counted *)
      let regd := fold_left (reg_slot (length (cf_kinds cf)) (cf_kinds cf)) (a_cells a)
                            (st_seen st, st_unknown st, st_corr st) in
      let st1 := set_params st regd in
      let idx := length (st_meas st) in
      let new := map (fun '(k, rc) => (k, (idx, rc))) (gen_equations cf a) in
      let '(sys, total, mx) := fold_left link_one new (st_sys st, st_equations st, st_max st) in
      ({| st_cf := cf; st_freqs := st_freqs st; st_fvalid := st_fvalid st; st_merr := st_merr st;
          st_seen := st_seen st1; st_unknown := st_unknown st1; st_corr := st_corr st1;
          st_meas := st_meas st ++ [{| ms_args := a; ms_s := s |}];
          st_sys := sys; st_equations := total; st_max := mx; st_cal := st_cal st; st_pv := st_pv st |}, Ok)
  end.

(* ------------------------------------------------------------------ vnacal_new_set_m_error (one sigma for all frequencies / reset) *)
Definition set_merr_field (st : state) (b : bool) : state :=
  {| st_cf := st_cf st; st_freqs := st_freqs st; st_fvalid := st_fvalid st; st_merr := b;
     st_seen := st_seen st; st_unknown := st_unknown st; st_corr := st_corr st;
     st_meas := st_meas st; st_sys := st_sys st; st_equations := st_equations st; st_max := st_max st;
     st_cal := st_cal st; st_pv := st_pv st |}.

Definition set_m_error (st : state) (on : bool) : state * outcome :=
  if negb on then (set_merr_field st false, Ok)
  else if negb (st_fvalid st) then (st, Err EINVAL)
  else if is_16 (cf_ty (st_cf st)) && negb (forallb (fun m => s_complete (cf_p (st_cf st)) (ms_s m)) (st_meas st))
  then (st, Err EINVAL)
  else (set_merr_field st true, Ok).

(* ------------------------------------------------------------------ solve: dispatch *)
Inductive trl_class := TRL_T | TRL_R | TRL_L | TRL_NONE.

Definition slot_is (x : option nat) (k : nat) : bool := match x with Some k' => k' =? k | None => false end.
Definition slot_eq (x y : option nat) : bool :=
  match x, y with Some a, Some b => a =? b | None, None => true | _, _ => false end.
Definition slot_unknown (kinds : list (nat * pkind)) (x : option nat) : bool :=
  match x with Some k => match kind_of kinds k with PUnknown => true | _ => false end | None => false end.
Definition is_some (x : option nat) : bool := match x with Some _ => true | None => false end.

(* classify_standard on the 2x2 vnm_s_matrix s[0..3]; since D69 a standard with an unset (NULL) cell
   is TRL_NONE before any cell is read *)
Definition classify (kinds : list (nat * pkind)) (s : smat) : trl_class :=
  let s0 := sget s 0 0 in let s1 := sget s 0 1 in let s2 := sget s 1 0 in let s3 := sget s 1 1 in
  if negb (is_some s0 && is_some s1 && is_some s2 && is_some s3) then TRL_NONE
  else if slot_is s1 1 then
    (if slot_is s2 1 && slot_is s0 0 && slot_is s3 0 then TRL_T else TRL_NONE)
  else if slot_is s1 0 then
    (if slot_unknown kinds s0 && slot_eq s3 s0 && slot_is s2 0 then TRL_R else TRL_NONE)
  else if slot_is s0 0 && slot_is s3 0 && slot_unknown kinds s1 && slot_eq s2 s1 then TRL_L else TRL_NONE.

(* the loop of _vnacal_new_solve_is_trl over the measured standards: acc = (t, r, l seen) *)
Fixpoint trl_loop (kinds : list (nat * pkind)) (ms : list meas) (t r l : bool) : bool :=
  match ms with
  | [] => true
  | m :: rest =>
    match classify kinds (ms_s m) with
    | TRL_T => if t then false else trl_loop kinds rest true r l
    | TRL_R => if r then false else trl_loop kinds rest t true l
    | TRL_L => if l then false else trl_loop kinds rest t r true
    | TRL_NONE => false
    end
  end.

Inductive path := PTrl | PSimple | PAuto.

Definition is_8_10 (ty : ctype) : bool := match ty with T8 | TE10 | U8 | UE10 => true | _ => false end.

Definition is_trl (st : state) : bool :=
  let cf := st_cf st in
  if negb ((cf_r cf =? 2) && (cf_c cf =? 2) && is_8_10 (cf_ty cf)) then false
  else if negb (length (st_meas st) =? 3) then false
  else if negb (st_unknown st =? 2) then false
  else if negb (st_corr st =? 0) then false
  else if st_merr st then false
  else trl_loop (cf_kinds cf) (st_meas st) false false false.

Definition solve_path (st : state) : path :=
  if is_trl st then PTrl else if st_unknown st =? 0 then PSimple else PAuto.

Definition x_length (st : state) : nat :=
  systems (cf_ty (st_cf st)) (cf_c (st_cf st)) * unknowns (cf_ty (st_cf st)) (cf_r (st_cf st)) (cf_c (st_cf st)).

(* the tests "equations < unknowns" as coded:
   simple: per system (vns_equation_count < vl_t_terms - 1);
   auto:   (DD90) per system as in simple, then vn_equations + correlated < x_length + p_length;
   trl:    none *)
Definition short_system (st : state) : bool :=
  let cf := st_cf st in
  existsb (fun k => sys_count st k <? unknowns (cf_ty cf) (cf_r cf) (cf_c cf))
          (seq 0 (systems (cf_ty cf) (cf_c cf))).

(* since DD90 the iterative solver also refuses a system with fewer equations than error terms (per system, first),
   then makes its test on the totals *)
Definition count_deficient (st : state) : bool :=
  match solve_path st with
  | PSimple => short_system st
  | PAuto => short_system st || (st_equations st + st_corr st <? x_length st + st_unknown st)
  | PTrl => false
  end.

(* the reading of _vnacal_new_solve_auto before DD90: the totals only (model_variant_before_DD90) *)
Definition count_deficient_before_DD90 (st : state) : bool :=
  match solve_path st with
  | PSimple => short_system st
  | PAuto => st_equations st + st_corr st <? x_length st + st_unknown st
  | PTrl => false
  end.

(* what the numeric code can depend on: configuration, error modelling, measured standards *)
Definition view := (config * bool * list meas)%type.
Definition view_of (st : state) : view := (st_cf st, st_merr st, st_meas st).

(* oracle v findex site: the numeric steps at this frequency succeed.  site k < systems: system k
   of the simple path; site = systems: everything after the linear solve (p-value, E12 conversion),
   and the whole auto / TRL computation *)
Definition oracle := view -> nat -> nat -> bool.

Definition solve_frequency (o : oracle) (st : state) (f : nat) : bool :=
  let cf := st_cf st in
  let ns := systems (cf_ty cf) (cf_c cf) in
  let unk := unknowns (cf_ty cf) (cf_r cf) (cf_c cf) in
  let v := view_of st in
  match solve_path st with
  | PTrl => o v f ns
  | PSimple =>
    forallb (fun k => if sys_count st k <? unk then false else o v f k) (seq 0 ns) && o v f ns
  | PAuto =>
    if existsb (fun k => sys_count st k <? unk) (seq 0 ns) then false
    else if st_equations st + st_corr st <? x_length st + st_unknown st then false else o v f ns
  end.

(* the numeric verdict alone (every site the dispatched solver consults at frequency f) *)
Definition numeric_ok (o : oracle) (st : state) (f : nat) : bool :=
  let ns := systems (cf_ty (st_cf st)) (cf_c (st_cf st)) in
  match solve_path st with
  | PSimple => forallb (fun k => o (view_of st) f k) (seq 0 ns) && o (view_of st) f ns
  | _ => o (view_of st) f ns
  end.

Definition set_cal (st : state) (c : option (list meas)) : state :=
  {| st_cf := st_cf st; st_freqs := st_freqs st; st_fvalid := st_fvalid st; st_merr := st_merr st;
     st_seen := st_seen st; st_unknown := st_unknown st; st_corr := st_corr st;
     st_meas := st_meas st; st_sys := st_sys st; st_equations := st_equations st; st_max := st_max st;
     st_cal := c; st_pv := st_pv st |}.
Definition set_pv (st : state) (pv : pvals) : state :=
  {| st_cf := st_cf st; st_freqs := st_freqs st; st_fvalid := st_fvalid st; st_merr := st_merr st;
     st_seen := st_seen st; st_unknown := st_unknown st; st_corr := st_corr st;
     st_meas := st_meas st; st_sys := st_sys st; st_equations := st_equations st; st_max := st_max st;
     st_cal := st_cal st; st_pv := pv |}.

(* vn_unknown_parameter_list: the registered parameters of kind unknown / correlated in the order of
   their registration (vnpr_unknown_index); st_seen is newest first *)
Definition is_unk_kind (x : pkind) : bool := match x with PKnown => false | _ => true end.
Definition unknown_list (st : state) : list nat :=
  filter (fun k => is_unk_kind (kind_of (cf_kinds (st_cf st)) k)) (rev (st_seen st)).

(* an injected allocation failure inside vnacal_new_solve:
   FaultEarly       a request before the parameter write-back fails (vs_init, _vnacal_calibration_alloc, the
                    TRL index block, the work areas of the numeric solvers);
   FaultWriteback j the j-th (0-based) calloc of a frequency vector executed by the write-back loop fails *)
Inductive afault := NoFault | FaultEarly | FaultWriteback (j : nat).

(* "If we solved for unknown parameters, store them into the corresponding parameter structures":
   for each entry of vn_unknown_parameter_list, in order:
     free(vpmr_gamma_vector); vpmr_gamma_vector = NULL;
     if (vpmr_frequencies != frequencies) { free(vpmr_frequency_vector); vpmr_frequencies = 0;
                                            calloc -- on failure goto out --; vpmr_frequencies = frequencies; }
     copy the frequencies; vpmr_gamma_vector = the solved vector.
   nc = number of callocs executed so far; result = (parameter values, completed) *)
Fixpoint writeback_before_DI92 (F : nat) (tag : list meas) (fail_at : option nat) (nc : nat) (ps : list nat) (pv : pvals)
  : pvals * bool :=
  match ps with
  | [] => (pv, true)
  | k :: rest =>
    let done := {| pv_freqs := F; pv_gamma := Some tag |} in
    if pv_freqs (pv_get pv k) =? F then writeback_before_DI92 F tag fail_at nc rest (pv_set pv k done)
    else if (match fail_at with Some j => j =? nc | None => false end)
         then (pv_set pv k pv_init, false)
         else writeback_before_DI92 F tag fail_at (S nc) rest (pv_set pv k done)
  end.


(* since DI92 the write-back is all or nothing: a first loop allocates the new frequency vector of every parameter whose
   number of frequencies changes (an injected failure at the j-th of these callocs frees what was allocated and leaves through
   "out:" with NOTHING written), a second loop that cannot fail commits.  wb_allocs = the callocs of the first loop. *)
Definition wb_allocs (F : nat) (ps : list nat) (pv : pvals) : nat :=
  if F =? 0 then 0 else length (filter (fun k => negb (pv_freqs (pv_get pv k) =? F)) ps).
Definition writeback (F : nat) (tag : list meas) (fail_at : option nat) (nc : nat) (ps : list nat) (pv : pvals)
  : pvals * bool :=
  match fail_at with
  | Some j => if j <? wb_allocs F ps pv then (pv, false) else writeback_before_DI92 F tag None nc ps pv
  | None => writeback_before_DI92 F tag None nc ps pv
  end.
Arguments writeback : simpl never.

(* _vnacal_new_solve_internal, in the order of its effects:
   1. no frequency vector: EINVAL (nothing was allocated);
   2. the solve state (vs_init), the new calibration structure and the TRL index block are locals,
      built from scratch on every call and released on every exit ("out:");
   3. the frequency loop: every failure is VNAERR_MATH (EDOM) and leaves through "out:" - the
      vnacal_new_t and the parameters have not been written yet; the loop does not run when there are
      no frequencies;
   4. the write-back of the solved unknown parameters into the vnacal_t (can fail in calloc: "out:"
      with the parameters written so far changed and the calibration NOT replaced);
   5. only then the previous vn_calibration is freed and the new one installed. *)
Definition solve (o : oracle) (af : afault) (st : state) : state * outcome :=
  if negb (st_fvalid st) then (st, Err EINVAL)
  else match af with
       | FaultEarly => (st, Err ENOMEM)
       | _ =>
         if forallb (solve_frequency o st) (seq 0 (st_freqs st))
         then
           let '(pv, completed) :=
               writeback (st_freqs st) (st_meas st) (match af with FaultWriteback j => Some j | _ => None end)
                         0 (unknown_list st) (st_pv st) in
           if completed then (set_cal (set_pv st pv) (Some (st_meas st)), Ok)
           else (set_pv st pv, Err ENOMEM)
         else (st, Err EDOM)
       end.

(* model_variant_before_DI92: the write-back as it was (parameters written one by one, a failed calloc leaves the earlier ones
   with the new solution) *)
Definition solve_before_DI92 (o : oracle) (af : afault) (st : state) : state * outcome :=
  if negb (st_fvalid st) then (st, Err EINVAL)
  else match af with
       | FaultEarly => (st, Err ENOMEM)
       | _ =>
         if forallb (solve_frequency o st) (seq 0 (st_freqs st))
         then
           let '(pv, completed) :=
               writeback_before_DI92 (st_freqs st) (st_meas st) (match af with FaultWriteback j => Some j | _ => None end)
                         0 (unknown_list st) (st_pv st) in
           if completed then (set_cal (set_pv st pv) (Some (st_meas st)), Ok)
           else (set_pv st pv, Err ENOMEM)
         else (st, Err EDOM)
       end.

(* vnacal_add_calibration: the solved calibration moves to the vnacal_t *)
Definition take_cal (st : state) : state * outcome :=
  match st_cal st with
  | None => (st, Err EINVAL)
  | Some _ => (set_cal st None, Ok)
  end.

(* vnacal_new_alloc + vnacal_new_set_frequency_vector: refused unless the dimensions fit the type *)
Definition new_alloc (cf : config) (F : nat) : option state :=
  if alloc_ok (cf_ty cf) (cf_r cf) (cf_c cf) then Some (init cf F true) else None.

(* ------------------------------------------------------------------ histories *)
Inductive op := OpAdd (a : add_args) | OpSolve (af : afault) | OpMerr (on : bool) | OpTakeCal.

Definition step (o : oracle) (st : state) (x : op) : state * outcome :=
  match x with
  | OpAdd a => add_std st a
  | OpSolve af => solve o af st
  | OpMerr b => set_m_error st b
  | OpTakeCal => take_cal st
  end.

Fixpoint run (o : oracle) (st : state) (ops : list op) : state * list outcome :=
  match ops with
  | [] => (st, [])
  | x :: rest =>
    let '(st1, out) := step o st x in
    let '(st2, outs) := run o st1 rest in
    (st2, out :: outs)
  end.

Definition is_solve (x : op) : bool := match x with OpSolve _ => true | _ => false end.
Definition remove_solves (ops : list op) : list op := filter (fun x => negb (is_solve x)) ops.
