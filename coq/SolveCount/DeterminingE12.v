(* C20 (review round 2, M4 and witnesses): determining_set_solves for E12 with the failure exit of convert_ue14_to_e12.
   SolveSimple.convert_ue14_to_e12 is total (a division by a zero um term yields 0 in the model's field) whereas the C function
   returns EDOM when um[m_row] == 0 (vnacal_new_solve.c:690).  EndToEndE12Check.convert_ue14_to_e12_checked models that exit;
   here: under the determining-set hypotheses AND um <> 0 for every column / row of the solved UE14 vector, the solve model
   returns the E12 terms and the checked conversion takes its success path with the same result.
   Witness: a one-port E12 calibration (UE14 terms um = 2, ui = 1/2, ux = 1/3, us = 1 normalised by um), i.e. a witness that
   exercises the E12 conversion (the others are one-port T8). *)
Require Import List ZArith Bool Arith Lia QArith Qcanon.
Require Import LV.Base.CField LV.Base.QcI.
Require Import LV.Gen.LayoutGen LV.Cal.Sym LV.Cal.TermsModel LV.Cal.AddModel LV.Cal.ApplyModel LV.Cal.SolveSimple
               LV.Cal.CalQI LV.Cal.SolveRecovers LV.Cal.ApplyRecovers LV.Cal.EndToEnd LV.Cal.EndToEndE12Check LV.Cal.RenumberE12Ue14.
Require Import LV.SolveCount.DeterminingProofs.
Import ListNotations.
Local Open Scope nat_scope.

Lemma qi_eqb_false_of_neq (a b : qi) : a <> b -> qi_eqb a b = false.
Proof. intros H. destruct (qi_eqb a b) eqn:E; [|reflexivity]. exfalso. apply H. apply qi_eqb_eq. exact E. Qed.

Theorem determining_set_solves_e12_checked_lemma mr mc (ms : list (mvals qops)) (pval : Z -> qi) (xs_true : list (list qi)) :
  let n := unknowns E12_UE14 mr mc in
  let nsys := systems_of E12_UE14 mc in
  let e14 := e_vector qops E12_UE14 mr mc ms xs_true in
  length xs_true = nsys ->
  (forall sys, sys < nsys ->
     let xt := nth sys xs_true [] in
     let rows := q_assemble E12_UE14 mr mc ms pval sys in
     length xt = n /\ (forall r, In r rows -> rdot n (fst r) xt = snd r) /\
     n <= length rows /\ kernel_trivial n rows) ->
  (forall c r, c < mc -> r < mr -> um_of qops mr mc e14 c r <> qi0) ->
  q_error_terms E12_UE14 mr mc ms pval = Some (convert_ue14_to_e12 qops mr mc e14) /\
  q_convert_checked mr mc e14 = Some (convert_ue14_to_e12 qops mr mc e14).
Proof.
  intros n nsys e14 Hl Hs Hu. split.
  - exact (determining_set_recovers E12_UE14 mr mc ms pval xs_true Hl Hs).
  - apply (convert_checked_ok qops q_is0 mr mc e14). intros c r Hc Hr. apply qi_eqb_false_of_neq. apply Hu; assumption.
Qed.

(* witness: the one-port calibration of RenumberE12Ue14 solved as E12 *)
Definition e12_ms : list (mvals qops) :=
  flat_map (fun h => match add_common (mkArgs E12_UE14 1 1 false (fun _ => true) false 0 0 1 1 [h] 1 1 false (Some [1%Z])) with
                     | Accepted m => [mkMV qops m [x_meas (x_pval h)]]
                     | _ => [] end) [3%Z; 4%Z; 5%Z].
Definition e12_xs : list (list qi) := [[qi_div x_ui x_um; qi_div x_ux x_um; qi_div qi1 x_um]].

Example determining_set_solves_e12_example :
  length e12_xs = systems_of E12_UE14 1 /\
  (forall sys, sys < systems_of E12_UE14 1 ->
     let xt := nth sys e12_xs [] in
     let rows := q_assemble E12_UE14 1 1 e12_ms x_pval sys in
     length xt = unknowns E12_UE14 1 1 /\ (forall r, In r rows -> rdot (unknowns E12_UE14 1 1) (fst r) xt = snd r) /\
     unknowns E12_UE14 1 1 <= length rows /\ kernel_trivial (unknowns E12_UE14 1 1) rows) /\
  (forall c r, c < 1 -> r < 1 -> um_of qops 1 1 (e_vector qops E12_UE14 1 1 e12_ms e12_xs) c r <> qi0) /\
  q_error_terms E12_UE14 1 1 e12_ms x_pval = Some (convert_ue14_to_e12 qops 1 1 (e_vector qops E12_UE14 1 1 e12_ms e12_xs)) /\
  convert_ue14_to_e12 qops 1 1 (e_vector qops E12_UE14 1 1 e12_ms e12_xs) =
    [mkqi (-1) 4 0 1; mkqi 11 24 0 1; mkqi 1 6 0 1].
Proof.
  assert (Hs : forall sys, sys < systems_of E12_UE14 1 ->
     let xt := nth sys e12_xs [] in
     let rows := q_assemble E12_UE14 1 1 e12_ms x_pval sys in
     length xt = unknowns E12_UE14 1 1 /\ (forall r, In r rows -> rdot (unknowns E12_UE14 1 1) (fst r) xt = snd r) /\
     unknowns E12_UE14 1 1 <= length rows /\ kernel_trivial (unknowns E12_UE14 1 1) rows).
  { intros sys Hsys. assert (sys = 0) by (change (systems_of E12_UE14 1) with 1 in Hsys; lia). subst sys. cbv zeta.
    split; [reflexivity|]. split.
    - assert (H : forallb (fun r : list qi * qi => qi_eqb (rdot (unknowns E12_UE14 1 1) (fst r) (nth 0 e12_xs [])) (snd r))
                          (q_assemble E12_UE14 1 1 e12_ms x_pval 0) = true) by (vm_compute; reflexivity).
      rewrite forallb_forall in H. intros r Hr. apply qi_eqb_eq. exact (H r Hr).
    - apply (system_ok_iff E12_UE14 1 1 e12_ms x_pval 0).
      destruct (system_cases E12_UE14 1 1 e12_ms x_pval 0) as [Hok | [[_ Hy] | [_ Hy]]]; [exact Hok | |];
        exfalso; assert (T : match q_solve_system E12_UE14 1 1 e12_ms x_pval 0 with SysOk _ _ => true | _ => false end = true)
          by (vm_compute; reflexivity); rewrite Hy in T; discriminate. }
  split; [reflexivity|]. split; [exact Hs|].
  assert (Hu : forall c r, c < 1 -> r < 1 -> um_of qops 1 1 (e_vector qops E12_UE14 1 1 e12_ms e12_xs) c r <> qi0).
  { intros c r Hc Hr. assert (c = 0) by lia. assert (r = 0) by lia. subst. apply qi_neqb. vm_compute. reflexivity. }
  split; [exact Hu|].
  split; [exact (proj1 (determining_set_solves_e12_checked_lemma 1 1 e12_ms x_pval e12_xs eq_refl Hs Hu))|].
  apply qlist_eqb_sound. vm_compute. reflexivity.
Qed.
