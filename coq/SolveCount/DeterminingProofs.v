(* C20 determining_set_solves on the executable model of one frequency of the non-iterative solve
   (CalQI.q_solve_system / q_error_terms: SolveSimple.assemble as coded, then the LU model for square systems
   and the normal-equation least-squares model for tall ones), over the Gaussian rationals:

     system_verdict           the verdict of a system is decided by the count and the rank of the assembled
                              coefficient matrix alone: fewer rows than unknowns -> SysInsufficient; otherwise
                              SysOk exactly when the matrix has full column rank (A v = 0 only for v = 0),
                              SysSingular exactly when some non-zero v has A v = 0
     determining_system_solves / deficient_system_singular   the two directions separately
     determining_set_recovers  every system has enough rows, full column rank, and is satisfied by the true
                              terms  ->  q_error_terms returns exactly the (normalised) true terms
     deficient_set_fails      some system has enough rows but is rank deficient -> q_error_terms = None
   For EVERY type, all dimensions, every list of standards, every value of the parameters.
   Ingredients: C19's LuNonsing (non-zero pivots <-> trivial kernel, every n), LsLuProofs.normal_kernel
   (A^H A v = 0 -> A v = 0 over Q[i]) and DeterminingGj (Gauss-Jordan answers <-> trivial kernel). *)
Require Import List ZArith Bool Arith Lia QArith Qcanon.
Require Import LV.Base.CField LV.Base.QcI LV.Lin.MatL LV.Lin.LuModel LV.Lin.LuPartial LV.Lin.LuQI LV.Lin.LuQI2 LV.Lin.LuGenA
               LV.Lin.LuProofs LV.Lin.LuPivot LV.Lin.LuNonsing LV.Lin.LuNonsingQI LV.Lin.LsSpec LV.Lin.LsProofs LV.Lin.LsLuProofs.
Require Import LV.Gen.LayoutGen LV.Cal.Sym LV.Cal.TermsModel LV.Cal.AddModel LV.Cal.ApplyModel LV.Cal.SolveSimple
               LV.Cal.LinUnique LV.Cal.CalQI LV.Cal.SolveRecovers.
Require Import LV.SolveCount.DeterminingGj.
Import ListNotations.
Local Open Scope nat_scope.

(* the assembled coefficient matrix is rank deficient: a non-zero vector is annihilated by every row *)
Definition rows_deficient (n : nat) (rows : list (list qi * qi)) : Prop :=
  exists v : nat -> qi,
    (forall r, In r rows -> @sumf QIF n (fun k => qmul (nth k (fst r) q0) (v k)) = q0) /\
    exists k, k < n /\ v k <> q0.

Lemma deficient_not_full n rows : rows_deficient n rows -> ~ kernel_trivial n rows.
Proof. intros (v & Hv & k & Hk & Hnz) Ht. exact (Hnz (Ht v Hv k Hk)). Qed.

(* ---------------------------------------------------------------- rows <-> matrices *)
Lemma rows_sat_iff (n : nat) (rows : list (list qi * qi)) (v : nat -> qi) :
  (forall r, In r rows -> @sumf QIF n (fun k => qmul (nth k (fst r) q0) (v k)) = q0) <->
  (forall i, i < length rows -> @sumf QIF n (fun k => qmul (mget QIF (map fst rows) i k) (v k)) = q0).
Proof.
  split.
  - intros H i Hi. etransitivity; [|exact (H (nth i rows ([], q0)) (nth_In _ _ Hi))].
    apply sumf_ext. intros k _. rewrite mget_rows by exact Hi. reflexivity.
  - intros H r Hr. destruct (In_nth _ _ ([], q0) Hr) as (i & Hi & <-).
    etransitivity; [|exact (H i Hi)]. apply sumf_ext. intros k _. rewrite mget_rows by exact Hi. reflexivity.
Qed.

Lemma full_rank_of_rows n rows : kernel_trivial n rows <-> full_col_rank (length rows) n (map fst rows).
Proof.
  split; intros H v Hv k Hk.
  - apply (H v); [|exact Hk]. apply rows_sat_iff. exact Hv.
  - apply (H v); [|exact Hk]. apply rows_sat_iff. exact Hv.
Qed.

(* A v = 0 -> A^H A v = 0 *)
Lemma kernel_to_normal m n (a : mat QIF) (v : nat -> QIF) :
  (forall i, i < m -> sumf n (fun k => cmul (mget QIF a i k) (v k)) = @c0 QIF) ->
  in_kernel QIF (normal_mat QIF m n a) n v.
Proof.
  intros Hv j Hj. unfold normal_mat.
  rewrite (sumf_ext QIF n _ (fun t => cmul (sumf m (fun i => cmul (cj (mget QIF a i j)) (mget QIF a i t))) (v t))).
  2:{ intros t Ht. rewrite mget_mmul by auto. f_equal. apply sumf_ext. intros i Hi.
      unfold mherm. rewrite mget_mbuild by auto. reflexivity. }
  rewrite (sumf_ext QIF n _ (fun t => sumf m (fun i => cmul (cj (mget QIF a i j)) (cmul (mget QIF a i t) (v t))))).
  2:{ intros t Ht. rewrite sumf_scale_r. apply sumf_ext. intros i Hi. apply qi_eq; simpl; ring. }
  rewrite sumf_exchange. apply sumf_zero. intros i Hi.
  rewrite <- sumf_scale_l. rewrite (Hv i Hi). apply qi_mul_0_r.
Qed.

Lemma normal_trivial_iff_full_rank m n (a : mat QIF) :
  ker_trivial QIF n (normal_mat QIF m n a) <-> full_col_rank m n a.
Proof.
  split.
  - intros H v Hv k Hk. apply (H v); [|exact Hk]. exact (kernel_to_normal m n a v Hv).
  - intros H v Hv. exact (full_rank_normal_trivial m n a H v Hv).
Qed.

(* the least-squares model of the tall branch answers exactly on full column rank *)
Theorem ls_solve_answers_iff_full_rank m n o (a b : mat QIF) :
  (exists x, q2_ls_solve m n o a b = Some x) <-> full_col_rank m n a.
Proof.
  unfold q2_ls_solve. rewrite (ls_solve_some_iff QIF qi_isz qi_isz_spec m n o a b).
  apply normal_trivial_iff_full_rank.
Qed.

(* the determinant the LU model reports for a square system is non-zero exactly on a trivial kernel *)
Lemma q_lu_d_nonzero_iff n (a : mat QIF) : wf n n a ->
  (lu_d QIF Qc (q_lu a n) <> q0 <-> LuNonsing.kernel_trivial QIF a n).
Proof.
  intros Hw. split.
  - intros Hd. unfold LuNonsing.kernel_trivial.
    apply (lu_kernel_trivial QIF Qc qi_nrm Qcmult Qc_ltb 0%Qc row_scale_of_max a n Hw).
    apply det_nonzero_pivots; assumption.
  - intros Hk.
    exact (proj2 (proj2 (proj2 (lu_solves_nonsingular QIF Qc qi_nrm Qcmult Qc_ltb 0%Qc scale_recip
              qc_ltM_irrefl qc_ltM_trans qc_ltM_cotrans qc_mulM_pos qc_mulM_zero_r qi_nrm2_zero
              qi_nrm2_pos qc_scale_pos qi_zero_dec n a Hw Hk)))).
Qed.

Lemma square_kernel_iff n (rows : list (list qi * qi)) : length rows = n ->
  (LuNonsing.kernel_trivial QIF (map fst rows) n <-> kernel_trivial n rows).
Proof.
  intros E. rewrite full_rank_of_rows, E. unfold LuNonsing.kernel_trivial, full_col_rank, in_kernel. reflexivity.
Qed.

(* ---------------------------------------------------------------- one system: the verdict *)
Section OneSystem.
Variables (ty : caltype) (mr mc : nat) (ms : list (mvals qops)) (pval : Z -> qi) (sys : nat).
Let rows := q_assemble ty mr mc ms pval sys.
Let n := unknowns ty mr mc.

Lemma rows_len r : In r rows -> length (fst r) = n.
Proof. exact (assemble_rows_length qops ty mr mc pval ms sys r). Qed.

Lemma insufficient_system : length rows < n -> q_solve_system ty mr mc ms pval sys = SysInsufficient rows.
Proof.
  intros H. unfold q_solve_system. fold rows. fold n.
  change (assemble qops ty mr mc pval ms sys) with rows.
  destruct (Nat.ltb_spec (length rows) n); [reflexivity | lia].
Qed.

(* SysOk exactly when: enough rows and full column rank *)
Theorem system_ok_iff :
  (exists x, q_solve_system ty mr mc ms pval sys = SysOk rows x) <-> (n <= length rows /\ kernel_trivial n rows).
Proof.
  unfold q_solve_system. change (assemble qops ty mr mc pval ms sys) with rows. fold n.
  change (map (fun r : list qops * qops => [snd r]) rows) with (map (fun r : list qi * qi => [snd r]) rows).
  set (A := map fst rows). set (B := map (fun r : list qi * qi => [snd r]) rows).
  destruct (Nat.ltb_spec (length rows) n) as [Hlt|Hge].
  { split; [intros (x & H); discriminate | intros [H _]; lia]. }
  destruct (Nat.eqb_spec (length rows) n) as [E|E].
  - assert (HwA : wf n n A) by (unfold A; rewrite <- E at 1; apply wf_rows; exact rows_len).
    destruct (q_mldivide A B n 1) as [X d] eqn:EX.
    assert (Ed : d = lu_d QIF Qc (q_lu A n)) by (change d with (snd (X, d)); rewrite <- EX; reflexivity).
    assert (Hiff : d <> q0 <-> kernel_trivial n rows).
    { rewrite Ed. rewrite (q_lu_d_nonzero_iff n A HwA). exact (square_kernel_iff n rows E). }
    destruct (qi_eqb d qi0) eqn:Ez.
    + apply qi_eqb_eq in Ez. split; [intros (x & H); discriminate | intros [_ H]; apply Hiff in H; contradiction].
    + split; [intros _; split; [exact Hge | apply Hiff; apply qi_neqb; exact Ez] | intros _; eexists; reflexivity].
  - assert (Hiff : (exists x, q2_ls_solve (length rows) n 1 A B = Some x) <-> kernel_trivial n rows).
    { rewrite (ls_solve_answers_iff_full_rank (length rows) n 1 A B). symmetry. exact (full_rank_of_rows n rows). }
    destruct (q2_ls_solve (length rows) n 1 A B) as [X|].
    + split; [intros _; split; [exact Hge | apply Hiff; eexists; reflexivity] | intros _; eexists; reflexivity].
    + split; [intros (x & H); discriminate | intros [_ H]; apply Hiff in H; destruct H as (x & H); discriminate].
Qed.

Theorem determining_system_solves :
  n <= length rows -> kernel_trivial n rows -> exists x, q_solve_system ty mr mc ms pval sys = SysOk rows x.
Proof. intros H1 H2. apply system_ok_iff. split; assumption. Qed.

(* the three verdicts are the only ones and each carries the assembled rows *)
Lemma system_cases :
  (exists x, q_solve_system ty mr mc ms pval sys = SysOk rows x) \/
  (length rows < n /\ q_solve_system ty mr mc ms pval sys = SysInsufficient rows) \/
  (n <= length rows /\ q_solve_system ty mr mc ms pval sys = SysSingular rows).
Proof.
  unfold q_solve_system. change (assemble qops ty mr mc pval ms sys) with rows. fold n.
  destruct (Nat.ltb_spec (length rows) n); [right; left; split; [assumption | reflexivity]|].
  destruct (Nat.eqb (length rows) n).
  - destruct (q_mldivide _ _ n 1) as [X d]. destruct (qi_eqb d qi0); [right; right; split; [assumption | reflexivity]|].
    left. eexists. reflexivity.
  - destruct (q2_ls_solve _ _ _ _ _); [left; eexists; reflexivity | right; right; split; [assumption | reflexivity]].
Qed.

Theorem deficient_system_singular :
  n <= length rows -> rows_deficient n rows -> q_solve_system ty mr mc ms pval sys = SysSingular rows.
Proof.
  intros Hge Hd. destruct system_cases as [Hok | [[Hlt _] | [_ Hs]]]; [| |exact Hs].
  - exfalso. apply (deficient_not_full n rows Hd). apply system_ok_iff. exact Hok.
  - exfalso. exact (Nat.lt_irrefl _ (Nat.lt_le_trans _ _ _ Hlt Hge)).
Qed.

(* the singular verdict is never a false alarm: it exhibits a non-zero vector that every row annihilates *)
Theorem singular_system_deficient :
  q_solve_system ty mr mc ms pval sys = SysSingular rows -> n <= length rows /\ rows_deficient n rows.
Proof.
  intros Hs. unfold q_solve_system in Hs. change (assemble qops ty mr mc pval ms sys) with rows in Hs. fold n in Hs.
  change (map (fun r : list qops * qops => [snd r]) rows) with (map (fun r : list qi * qi => [snd r]) rows) in Hs.
  set (A := map fst rows) in *. set (B := map (fun r : list qi * qi => [snd r]) rows) in *.
  destruct (Nat.ltb_spec (length rows) n) as [Hlt|Hge]; [discriminate|]. split; [exact Hge|].
  destruct (Nat.eqb_spec (length rows) n) as [E|E].
  - assert (HwA : wf n n A) by (unfold A; rewrite <- E at 1; apply wf_rows; exact rows_len).
    destruct (q_mldivide A B n 1) as [X d] eqn:EX.
    assert (Ed : d = lu_d QIF Qc (q_lu A n)) by (change d with (snd (X, d)); rewrite <- EX; reflexivity).
    destruct (qi_eqb d qi0) eqn:Ez; [|discriminate]. apply qi_eqb_eq in Ez.
    destruct (q_lu_c_outcome A n HwA) as [(_ & _ & _ & Hd)|[((v & Hv & Hnz) & _)|((v & Hv & Hnz) & _)]].
    + exfalso. apply Hd. transitivity d; [rewrite Ed; reflexivity | exact Ez].
    + exists v. split; [|exact Hnz]. apply (proj2 (rows_sat_iff n rows v)). intros i Hi. apply Hv. exact (eq_ind _ (fun z => i < z) Hi _ E).
    + exists v. split; [|exact Hnz]. apply (proj2 (rows_sat_iff n rows v)). intros i Hi. apply Hv. exact (eq_ind _ (fun z => i < z) Hi _ E).
  - destruct (q2_ls_solve (length rows) n 1 A B) as [X|] eqn:EX; [discriminate|].
    (* the LU-based oracle of C19 cannot answer either (it answers exactly on full rank) and its None
       comes with a kernel vector *)
    destruct (q2_ls_lu (length rows) n 1 A B) as [Y|] eqn:EY.
    + exfalso.
      assert (Hf : full_col_rank (length rows) n A) by (apply (ls_lu_some_iff_full_rank _ n 1 A B); exists Y; exact EY).
      apply (ls_solve_answers_iff_full_rank (length rows) n 1 A B) in Hf. destruct Hf as (x & Hx). congruence.
    + destruct (ls_lu_none (length rows) n 1 A B EY) as (v & Hv & Hnz).
      exists v. split; [|exact Hnz]. apply (proj2 (rows_sat_iff n rows v)). exact Hv.
Qed.

(* count and rank decide the verdict *)
Theorem system_verdict :
  (length rows < n /\ q_solve_system ty mr mc ms pval sys = SysInsufficient rows) \/
  (n <= length rows /\ kernel_trivial n rows /\ exists x, q_solve_system ty mr mc ms pval sys = SysOk rows x) \/
  (n <= length rows /\ rows_deficient n rows /\ q_solve_system ty mr mc ms pval sys = SysSingular rows).
Proof.
  destruct (Nat.lt_ge_cases (length rows) n) as [H|H]; [left; split; [exact H | apply insufficient_system; exact H]|].
  right. destruct system_cases as [Hok | [[Hlt _] | [_ Hs]]].
  - left. split; [exact H|]. split; [apply system_ok_iff; exact Hok | exact Hok].
  - exfalso. exact (Nat.lt_irrefl _ (Nat.lt_le_trans _ _ _ Hlt H)).
  - right. split; [exact H|]. split; [apply singular_system_deficient; exact Hs | exact Hs].
Qed.

(* a determining system returns THE solution: whatever satisfies the rows *)
Theorem determining_system_recovers (xt : list qi) :
  n <= length rows -> kernel_trivial n rows -> length xt = n ->
  (forall r, In r rows -> rdot n (fst r) xt = snd r) ->
  q_solve_system ty mr mc ms pval sys = SysOk rows xt.
Proof.
  intros H1 H2 H3 H4. destruct (determining_system_solves H1 H2) as (x & Hx).
  destruct (solve_system_recovers_lemma ty mr mc ms pval sys rows x xt Hx H3 H4 (fun _ => H2)) as [_ ->].
  exact Hx.
Qed.
End OneSystem.

(* ---------------------------------------------------------------- all systems *)
Theorem determining_set_recovers ty mr mc (ms : list (mvals qops)) (pval : Z -> qi) (xs_true : list (list qi)) :
  let n := unknowns ty mr mc in
  let nsys := systems_of ty mc in
  length xs_true = nsys ->
  (forall sys, sys < nsys ->
     let xt := nth sys xs_true [] in
     let rows := q_assemble ty mr mc ms pval sys in
     length xt = n /\ (forall r, In r rows -> rdot n (fst r) xt = snd r) /\
     n <= length rows /\ kernel_trivial n rows) ->
  q_error_terms ty mr mc ms pval =
  Some (if caltype_eqb ty E12_UE14 then convert_ue14_to_e12 qops mr mc (e_vector qops ty mr mc ms xs_true)
        else e_vector qops ty mr mc ms xs_true).
Proof.
  intros n nsys Hl Hsys.
  destruct (q_error_terms ty mr mc ms pval) as [e|] eqn:Eq.
  - apply (f_equal (@Some (list qi))). apply (error_terms_recover_lemma ty mr mc ms pval xs_true e Hl); [|exact Eq].
    intros sys Hs. destruct (Hsys sys Hs) as (H1 & H2 & H3 & H4). split; [exact H1|]. split; [exact H2|].
    intros _. exact H4.
  - exfalso. unfold q_error_terms in Eq. fold nsys in Eq.
    destruct (forallb _ _) eqn:Hall; [discriminate|].
    assert (Hc : forallb (fun r : sys_res => match r with SysOk _ _ => true | _ => false end)
                   (map (q_solve_system ty mr mc ms pval) (seq 0 nsys)) = true).
    { apply forallb_forall. intros r Hr. apply in_map_iff in Hr. destruct Hr as (sys & <- & Hin).
      apply in_seq in Hin. destruct (Hsys sys ltac:(lia)) as (_ & _ & H3 & H4).
      destruct (determining_system_solves ty mr mc ms pval sys H3 H4) as (x & ->). reflexivity. }
    rewrite Hc in Hall. discriminate.
Qed.

Theorem undetermined_set_fails ty mr mc (ms : list (mvals qops)) (pval : Z -> qi) (sys : nat) :
  let n := unknowns ty mr mc in
  let rows := q_assemble ty mr mc ms pval sys in
  sys < systems_of ty mc ->
  (length rows < n \/ (n <= length rows /\ rows_deficient n rows)) ->
  q_error_terms ty mr mc ms pval = None.
Proof.
  intros n rows Hs Hd. unfold q_error_terms.
  destruct (forallb _ _) eqn:Hall; [|reflexivity]. exfalso.
  rewrite forallb_forall in Hall.
  specialize (Hall (q_solve_system ty mr mc ms pval sys)
                   (in_map _ _ _ (proj2 (in_seq (systems_of ty mc) 0 sys) (conj (Nat.le_0_l _) Hs)))).
  destruct Hd as [Hd | [Hge Hd]].
  - rewrite (insufficient_system ty mr mc ms pval sys Hd) in Hall. discriminate.
  - rewrite (deficient_system_singular ty mr mc ms pval sys Hge Hd) in Hall. discriminate.
Qed.

(* success of the model = every system has enough rows and full column rank *)
Theorem error_terms_some_iff ty mr mc (ms : list (mvals qops)) (pval : Z -> qi) :
  (exists e, q_error_terms ty mr mc ms pval = Some e) <->
  (forall sys, sys < systems_of ty mc ->
     unknowns ty mr mc <= length (q_assemble ty mr mc ms pval sys) /\
     kernel_trivial (unknowns ty mr mc) (q_assemble ty mr mc ms pval sys)).
Proof.
  unfold q_error_terms. split.
  - intros (e & H) sys Hs. destruct (forallb _ _) eqn:Hall; [|discriminate].
    rewrite forallb_forall in Hall.
    specialize (Hall (q_solve_system ty mr mc ms pval sys)
                     (in_map _ _ _ (proj2 (in_seq (systems_of ty mc) 0 sys) (conj (Nat.le_0_l _) Hs)))).
    apply (system_ok_iff ty mr mc ms pval sys).
    destruct (system_cases ty mr mc ms pval sys) as [Hok | [[_ Hi] | [_ Hsg]]]; [exact Hok | |].
    + rewrite Hi in Hall. discriminate.
    + rewrite Hsg in Hall. discriminate.
  - intros H.
    assert (Hc : forallb (fun r : sys_res => match r with SysOk _ _ => true | _ => false end)
                   (map (q_solve_system ty mr mc ms pval) (seq 0 (systems_of ty mc))) = true).
    { apply forallb_forall. intros r Hr. apply in_map_iff in Hr. destruct Hr as (sys & <- & Hin).
      apply in_seq in Hin. destruct (H sys ltac:(lia)) as (H3 & H4).
      destruct (determining_system_solves ty mr mc ms pval sys H3 H4) as (x & ->). reflexivity. }
    rewrite Hc. eexists. reflexivity.
Qed.
