(* C20: link between the two Coq models of _vnacal_new_add_common:
     Cal.AddModel.add_common   (cells, terms, union-find connectivity; arguments with Z handles) and
     CountModel.check_args / full_s / connectivity / gen_equations / add_std (nat slots, closure by iteration).
   Definitions only: the translation of the arguments, the boolean checker `link_ok` that compares what the two
   models make of ONE call, the histories on the AddModel side, and the explicit list of swept calls
   (all 8 types x all dimensions 1..3 the type allows x every entry point).  Proofs: DeterminingLinkProofs.v. *)
Require Import List ZArith Bool Arith.
Require Import LV.Gen.LayoutGen LV.Cal.TermsModel LV.Cal.AddModel.
Require LV.SolveCount.CountModel LV.SolveCount.CountProofs.
Require Import LV.SolveCount.DeterminingCount.
Import ListNotations.
Local Open Scope nat_scope.

(* ------------------------------------------------------------------ translation of one call *)
(* slot k of the count model = handle Z.of_nat k; slot 0 = VNACAL_ZERO = handle 0, which is how
   AddModel.add_common recognises the known zero (Z.eqb h 0 -> SZero).  No `a` matrix; every handle is live
   (the count model has no invalid handles). *)
Definition to_cal_args (cf : CM.config) (merr : bool) (a : CM.add_args) : add_args :=
  mkArgs (cty (CM.cf_ty cf)) (CM.cf_r cf) (CM.cf_c cf) merr (fun _ => true)
         false 0%Z 0%Z
         (Z.of_nat (CM.a_brows a)) (Z.of_nat (CM.a_bcols a))
         (map Z.of_nat (CM.a_cells a))
         (Z.of_nat (CM.a_srows a)) (Z.of_nat (CM.a_scols a))
         (CM.a_sdiag a)
         (option_map (map Z.of_nat) (CM.a_map a)).

(* ------------------------------------------------------------------ comparison of the results *)
(* the linear system AddModel.system_equations puts an equation in *)
Definition eq_sys (ty : caltype) (e : equation) : nat := if is_ue14 ty then e_col e else 0.

(* (system, (row, column)) of the equations of a measurement record, in list order *)
Definition cal_triples (ty : caltype) (m : measurement) : list (nat * (nat * nat)) :=
  map (fun e => (eq_sys ty e, (e_row e, e_col e))) (ms_eqs m).

Definition triple_eqb (x y : nat * (nat * nat)) : bool :=
  Nat.eqb (fst x) (fst y) && Nat.eqb (fst (snd x)) (fst (snd y)) && Nat.eqb (snd (snd x)) (snd (snd y)).

Fixpoint list_eqb {A} (eqb : A -> A -> bool) (l1 l2 : list A) : bool :=
  match l1, l2 with
  | [], [] => true
  | x :: r1, y :: r2 => eqb x y && list_eqb eqb r1 r2
  | _, _ => false
  end.

(* the full S matrix and the connectivity matrix of the count model, flattened by rows, in AddModel's terms *)
Definition cell_of_slot (x : option nat) : scell :=
  match x with None => SNull | Some 0 => SZero | Some k => SParam (Z.of_nat k) end.
Definition scell_eqb (x y : scell) : bool :=
  match x, y with
  | SNull, SNull => true | SZero, SZero => true | SParam h, SParam k => Z.eqb h k | _, _ => false
  end.
Definition cm_s_flat (cf : CM.config) (a : CM.add_args) : list scell :=
  flat_map (map cell_of_slot) (CM.full_s cf a).
Definition cm_conn_flat (cf : CM.config) (a : CM.add_args) : list bool :=
  concat (CM.connectivity (CM.cf_p cf) (CM.full_s cf a)).

(* what the two models make of the call (cf, merr, a):
     check_args = Undefined             no claim (the C code would read past an array of the caller);
     check_args = Reject                add_common refuses (Rejected _); the one exception is a diagonal S with
                                        s_rows <> s_columns, where the C code trips an assert before the check the count
                                        model reports (AddModel: Aborts 1) - no entry point builds such a call;
     check_args = Accept, late refusal  (error modelling on, T16/U16, S incomplete): Rejected 16;
     check_args = Accept, accepted      add_common = Accepted m and
         - the equations of m as (system, (row, column)) = gen_equations cf a, IN THE SAME ORDER (system = e_col for
           UE14 / E12, 0 otherwise: the system AddModel.system_equations files the equation under),
         - vnm_s_matrix of m = full_s cf a, cell by cell,
         - vnm_connectivity_matrix of m = connectivity (cf_p cf) (full_s cf a) cell by cell (absent for T16 / U16). *)
Definition link_ok_m (cf : CM.config) (merr : bool) (a : CM.add_args) : bool :=
  let ca := to_cal_args cf merr a in
  match CM.check_args cf a with
  | CM.Undefined => true
  | CM.Reject =>
    match add_common ca with
    | Rejected _ => true
    | Aborts 1 => CM.a_sdiag a && negb (CM.a_srows a =? CM.a_scols a)
    | _ => false
    end
  | CM.Accept =>
    if CP.accepted cf merr a then
      match add_common ca with
      | Accepted m =>
        list_eqb triple_eqb (cal_triples (aa_ty ca) m) (CM.gen_equations cf a)
        && list_eqb scell_eqb (ms_s m) (cm_s_flat cf a)
        && match ms_conn m with
           | None => CM.is_16 (CM.cf_ty cf)
           | Some cm => negb (CM.is_16 (CM.cf_ty cf)) && list_eqb Bool.eqb cm (cm_conn_flat cf a)
           end
      | _ => false
      end
    else match add_common ca with Rejected 16 => true | _ => false end
  end.

(* without measurement-error modelling (the state vnacal_new_alloc creates) *)
Definition link_ok (cf : CM.config) (a : CM.add_args) : bool := link_ok_m cf false a.

(* the call is inside the count model *)
Definition defined (cf : CM.config) (a : CM.add_args) : bool :=
  match CM.check_args cf a with CM.Undefined => false | _ => true end.

(* ------------------------------------------------------------------ histories on the AddModel side *)
Definition cal_run (st : calstate) (l : list add_args) : calstate :=
  fold_left (fun s a => fst (add_step s a)) l st.

(* the number of equations one translated call adds to system k *)
Definition cal_contrib (ty : caltype) (a : add_args) (k : nat) : nat :=
  match add_common a with
  | Accepted m =>
    length (flat_map (fun e => if orb (negb (is_ue14 ty)) (Nat.eqb (e_col e) k) then [e] else []) (ms_eqs m))
  | _ => 0
  end.

(* ------------------------------------------------------------------ the swept calls *)
Definition all_ctypes : list CM.ctype := [CM.T8; CM.U8; CM.TE10; CM.UE10; CM.T16; CM.U16; CM.UE14; CM.E12].
Definition max_dim : nat := 3.

Definition mkcf (ty : CM.ctype) (r c : nat) : CM.config :=
  {| CM.cf_ty := ty; CM.cf_r := r; CM.cf_c := c; CM.cf_kinds := [] |}.

(* every type x every (rows, columns) in 1..3 x 1..3 vnacal_new_alloc accepts: 8 x 6 *)
Definition configs : list CM.config :=
  flat_map (fun ty =>
    flat_map (fun r => flat_map (fun c => if CM.alloc_ok ty r c then [mkcf ty r c] else [])
                                (seq 1 max_dim)) (seq 1 max_dim)) all_ctypes.

Definition pair_eqb (x y : nat * nat) : bool := Nat.eqb (fst x) (fst y) && Nat.eqb (snd x) (snd y).
Fixpoint dedupe (l : list (nat * nat)) : list (nat * nat) :=
  match l with
  | [] => []
  | x :: r => if existsb (pair_eqb x) r then dedupe r else x :: dedupe r
  end.

Definition shape (sr sc : nat) : CM.add_args := CM.mapped_matrix 0 0 sr sc [] None.

(* dimensions of the measurement matrix: every combination of minimum (abbreviated) / full *)
Definition b_valid (cf : CM.config) (sr sc : nat) : list (nat * nat) :=
  let mb := CM.min_brows cf (shape sr sc) in let mc := CM.min_bcols cf (shape sr sc) in
  dedupe [(mb, mc); (mb, CM.cf_c cf); (CM.cf_r cf, mc); (CM.cf_r cf, CM.cf_c cf)].
(* wrong dimensions *)
Definition b_invalid (cf : CM.config) : list (nat * nat) :=
  [(S (CM.cf_r cf), CM.cf_c cf); (CM.cf_r cf, S (CM.cf_c cf)); (0, CM.cf_c cf); (CM.cf_r cf, 0)].
Definition b_all (cf : CM.config) (sr sc : nat) : list (nat * nat) := b_valid cf sr sc ++ b_invalid cf.

(* all lists of length k over l *)
Fixpoint tuples (k : nat) (l : list nat) : list (list nat) :=
  match k with
  | 0 => [[]]
  | S k' => flat_map (fun x => map (cons x) (tuples k' l)) l
  end.
(* ordered selections of k distinct ports of 1..P *)
Definition arrangements (k P : nat) : list (list nat) :=
  filter (fun t => negb (CM.has_dup t)) (tuples k (seq 1 P)).

(* zero / non-zero patterns of n cells: cell i is the known zero (slot 0) or the distinct parameter slot i + 2 *)
Fixpoint patterns (n : nat) : list (list bool) :=
  match n with
  | 0 => [[]]
  | S k => flat_map (fun p => [true :: p; false :: p]) (patterns k)
  end.
Fixpoint cells_from (i : nat) (p : list bool) : list nat :=
  match p with
  | [] => []
  | b :: r => (if b then i + 2 else 0) :: cells_from (S i) r
  end.
Definition cells_of (p : list bool) : list nat := cells_from 0 p.

(* patterns of an n x n matrix whose diagonal is all non-zero or all zero (the off-diagonal cells run through
   every zero pattern: these decide the port classes) *)
Definition diag_uniform (n : nat) (p : list bool) : bool :=
  let d := map (fun i => nth (i * n + i) p false) (seq 0 n) in
  forallb (fun b => b) d || forallb negb d.

Definition with_b (bs : list (nat * nat)) (f : nat -> nat -> CM.add_args) : list CM.add_args :=
  map (fun b => f (fst b) (snd b)) bs.

(* 1. single reflect: every port 0 .. P+1 (0 and P+1 are refused), slots zero / one / another, every b shape *)
Definition gen_single (cf : CM.config) : list CM.add_args :=
  let P := CM.cf_p cf in
  flat_map (fun port => flat_map (fun s =>
    with_b (b_all cf 1 1) (fun br bc => CM.single_reflect br bc s port)) [0; 1; 2]) (seq 0 (P + 2)).

(* 2. double reflect: every ordered pair of 0 .. P+1 (bad ports and duplicates included) *)
Definition gen_double (cf : CM.config) : list CM.add_args :=
  let P := CM.cf_p cf in
  flat_map (fun p1 => flat_map (fun p2 => flat_map (fun ss =>
    with_b (b_all cf 2 2) (fun br bc => CM.double_reflect br bc (fst ss) (snd ss) p1 p2))
      [(0, 0); (2, 3); (0, 2); (2, 0); (2, 2)]) (seq 0 (P + 2))) (seq 0 (P + 2)).

(* 3. through / line: every ordered pair of 0 .. P+1, every zero pattern of the four cells + the through *)
Definition gen_line (cf : CM.config) : list CM.add_args :=
  let P := CM.cf_p cf in
  flat_map (fun p1 => flat_map (fun p2 =>
    with_b (b_all cf 2 2) (fun br bc => CM.through br bc p1 p2) ++
    flat_map (fun pat =>
      with_b (b_valid cf 2 2) (fun br bc =>
        match cells_of pat with
        | [s11; s12; s21; s22] => CM.line br bc s11 s12 s21 s22 p1 p2
        | _ => CM.through br bc p1 p2
        end)) (patterns 4)) (seq 0 (P + 2))) (seq 0 (P + 2)).

(* 4. mapped matrix, full P x P: NULL map and every permutation of 1..P as map; P <= 2: every zero pattern,
      P = 3: every zero pattern with a uniform diagonal (128 of 512) *)
Definition gen_full (cf : CM.config) : list CM.add_args :=
  let P := CM.cf_p cf in
  let maps := None :: map (@Some _) (arrangements P P) in
  flat_map (fun pat => flat_map (fun mp =>
    with_b (b_valid cf P P) (fun br bc => CM.mapped_matrix br bc P P (cells_of pat) mp)) maps)
    (filter (diag_uniform P) (patterns (P * P)))
  ++ flat_map (fun mp =>
       with_b (b_invalid cf) (fun br bc => CM.mapped_matrix br bc P P (cells_of (repeat true (P * P))) mp)) maps.

(* 5. mapped matrix, square k x k with k < P: every ordered selection of k ports, NULL map (refused), a map with
      a bad port; k = 1: both patterns, k = 2: every zero pattern *)
Definition gen_sub (cf : CM.config) : list CM.add_args :=
  let P := CM.cf_p cf in
  flat_map (fun k =>
    let maps := None :: Some (seq P k) :: map (@Some _) (arrangements k P) in
    flat_map (fun pat => flat_map (fun mp =>
      with_b (b_valid cf k k) (fun br bc => CM.mapped_matrix br bc k k (cells_of pat) mp)) maps)
      (patterns (k * k))) (seq 1 (P - 1)).

(* 6. rectangular (and out-of-range) S dimensions, every (s_rows, s_columns) in 0..P+1 squared with
      s_rows <> s_columns or outside 1..P: T16 / U16 take some of them, the others refuse all; maps = every ordered
      selection of max(s_rows, s_columns) ports (1 2 .. when that exceeds P), and NULL; cells all distinct non-zero,
      alternating zeros, all zero *)
Definition gen_rect (cf : CM.config) : list CM.add_args :=
  let P := CM.cf_p cf in
  let rich := CM.is_16 (CM.cf_ty cf) in
  flat_map (fun sr => flat_map (fun sc =>
    if (sr =? sc) && (1 <=? sr) && (sr <=? P) then [] else
    let n := Nat.max sr sc in
    let maps := if rich && (1 <=? n) && (n <=? P) then None :: map (@Some _) (arrangements n P)
                else [None; Some (seq 1 n)] in
    let cellss := if rich then [cells_of (repeat true (sr * sc));
                                map (fun i => if Nat.even i then i + 2 else 0) (seq 0 (sr * sc));
                                repeat 0 (sr * sc)]
                  else [cells_of (repeat true (sr * sc))] in
    flat_map (fun cells => flat_map (fun mp =>
      with_b (if rich then b_valid cf sr sc ++ [(S (CM.cf_r cf), CM.cf_c cf)] else b_valid cf sr sc)
             (fun br bc => CM.mapped_matrix br bc sr sc cells mp)) maps) cellss)
    (seq 0 (P + 2))) (seq 0 (P + 2)).

(* 7. diagonal S on all three ports (no entry point, both models take it): every permutation as map *)
Definition gen_diag3 (cf : CM.config) : list CM.add_args :=
  let P := CM.cf_p cf in
  if P =? 3 then
    flat_map (fun pat => flat_map (fun mp => with_b (b_valid cf 3 3) (fun br bc =>
      {| CM.a_brows := br; CM.a_bcols := bc; CM.a_srows := 3; CM.a_scols := 3; CM.a_sdiag := true;
         CM.a_cells := cells_of pat; CM.a_map := Some mp |})) (arrangements 3 3)) (patterns 3)
  else [].

Definition categories : list (CM.config -> list CM.add_args) :=
  [gen_single; gen_double; gen_line; gen_full; gen_sub; gen_rect; gen_diag3].

Definition cases_of (g : CM.config -> list CM.add_args) : list (CM.config * CM.add_args) :=
  flat_map (fun cf => map (pair cf) (g cf)) configs.

Definition link_cases : list (CM.config * CM.add_args) := flat_map cases_of categories.

(* the same calls with measurement-error modelling on (late refusal of an incomplete S for T16 / U16) *)
Definition link_cases_16 : list (CM.config * CM.add_args) :=
  filter (fun x => CM.is_16 (CM.cf_ty (fst x)))
         (cases_of gen_rect ++ cases_of gen_sub ++ cases_of gen_single ++ cases_of gen_line ++ cases_of gen_full).
