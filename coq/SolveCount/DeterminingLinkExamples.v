(* C20: the linked join theorem applied (non-vacuity): the one-port T8 calibration of DeterminingExamples.v with
   four reflects, slots 3..6 of the count model = handles 3..6 of the structural model (to_cal_args). *)
Require Import List ZArith Bool Arith Lia QArith Qcanon.
Require Import LV.Base.CField LV.Base.QcI.
Require Import LV.Gen.LayoutGen LV.Cal.Sym LV.Cal.TermsModel LV.Cal.AddModel LV.Cal.ApplyModel LV.Cal.SolveSimple
               LV.Cal.CalQI LV.Cal.SolveRecovers LV.Cal.EndToEnd.
Require Import LV.SolveCount.DeterminingProofs LV.SolveCount.DeterminingCount LV.SolveCount.DeterminingExamples
               LV.SolveCount.DeterminingLinkModel LV.SolveCount.DeterminingLinkProofs.
Import ListNotations.
Local Open Scope nat_scope.

Definition lk_calls : list CM.add_args := map (fun k => CM.single_reflect 1 1 k 1) [3; 4; 5; 6].

Example count_and_rank_linked_example :
  let st := CP.run_adds (CM.init cm_cf 1 true) lk_calls in
  let vals := fun _ : nat => ms_of [3; 4; 5; 6]%Z in
  let pvalf := fun _ : nat => ex_pval4 in
  let o := model_oracle vals pvalf in
  Forall (fun a => link_ok cm_cf a = true /\ defined cm_cf a = true) lk_calls /\
  (forall f, f < 1 -> map (mv_meas qops) (vals f) = cal_run [] (map (to_cal_args cm_cf false) lk_calls)) /\
  counts_agree st vals pvalf /\
  CM.solve o CM.NoFault st = (CP.solved st, CM.Ok).
Proof.
  cbv zeta.
  set (vals := fun _ : nat => ms_of [3; 4; 5; 6]%Z). set (pvalf := fun _ : nat => ex_pval4).
  assert (HF : Forall (fun a => link_ok cm_cf a = true /\ defined cm_cf a = true) lk_calls).
  { unfold lk_calls. simpl map. repeat constructor; vm_compute; reflexivity. }
  assert (HR : forall f, f < 1 -> map (mv_meas qops) (vals f) = cal_run [] (map (to_cal_args cm_cf false) lk_calls)).
  { intros f _. vm_compute. reflexivity. }
  split; [exact HF|]. split; [exact HR|].
  split; [exact (counts_agree_of_link_lemma cm_cf 1 lk_calls vals pvalf HF HR)|].
  apply (count_and_rank_solve_linked_lemma (model_oracle vals pvalf) cm_cf 1 lk_calls vals pvalf HF HR).
  - reflexivity.
  - apply model_oracle_is_model.
  - reflexivity.
  - intros f k _ Hk. change (CM.systems (CM.cf_ty cm_cf) (CM.cf_c cm_cf)) with 1 in Hk.
    assert (k = 0) by lia. subst k. apply (ex_full_rank [3; 4; 5; 6]%Z). vm_compute. reflexivity.
  - intros f _. reflexivity.
Qed.
