(* C20: lemmas about the counting model (CountModel.v). *)
Require Import List Arith Bool PeanoNat Lia Permutation.
Import ListNotations.
Require Import LV.SolveCount.CountModel.

(* ------------------------------------------------------------------ solve: failure changes nothing, success swaps the calibration *)
Lemma solve_cases (o : oracle) (st : state) :
  solve o st = (st, Err EINVAL) \/ solve o st = (st, OutOfModel) \/ solve o st = (st, Err EDOM)
  \/ solve o st = (set_cal st (Some (st_meas st)), Ok).
Proof.
  unfold solve. destruct (negb (st_fvalid st)); auto.
  destruct (solve_path st); auto;
    destruct (forallb (solve_frequency o st) (seq 0 (st_freqs st))); auto.
Qed.

Lemma solve_fail_unchanged (o : oracle) (st : state) :
  snd (solve o st) <> Ok -> fst (solve o st) = st.
Proof.
  destruct (solve_cases o st) as [H | [H | [H | H]]]; rewrite H; simpl; auto. congruence.
Qed.

Lemma solve_ok_swaps (o : oracle) (st : state) :
  snd (solve o st) = Ok -> fst (solve o st) = set_cal st (Some (st_meas st)).
Proof.
  destruct (solve_cases o st) as [H | [H | [H | H]]]; rewrite H; simpl; auto; discriminate.
Qed.

(* everything but the calibration is untouched by any solve *)
Definition same_but_cal (a b : state) : Prop :=
  st_cf a = st_cf b /\ st_freqs a = st_freqs b /\ st_fvalid a = st_fvalid b /\ st_merr a = st_merr b /\
  st_seen a = st_seen b /\ st_unknown a = st_unknown b /\ st_corr a = st_corr b /\ st_meas a = st_meas b /\
  st_sys a = st_sys b /\ st_equations a = st_equations b /\ st_max a = st_max b.

Lemma solve_keeps_standards (o : oracle) (st : state) : same_but_cal (fst (solve o st)) st.
Proof.
  destruct (solve_cases o st) as [H | [H | [H | H]]]; rewrite H; simpl; unfold same_but_cal; simpl; tauto.
Qed.

Lemma same_but_cal_sym (a b : state) : same_but_cal a b -> same_but_cal b a.
Proof. unfold same_but_cal. intuition. Qed.

Lemma same_but_cal_trans (a b c : state) : same_but_cal a b -> same_but_cal b c -> same_but_cal a c.
Proof. unfold same_but_cal. intuition congruence. Qed.

Lemma set_cal_same (st : state) (c : option (list meas)) : same_but_cal (set_cal st c) st.
Proof. unfold same_but_cal. simpl. tauto. Qed.

(* the solve state is rebuilt on every call: the outcome does not depend on the previous calibration *)
Lemma path_ignores_cal (st : state) (c : option (list meas)) : solve_path (set_cal st c) = solve_path st.
Proof. reflexivity. Qed.

Lemma solve_ignores_cal (o : oracle) (st : state) (c : option (list meas)) :
  snd (solve o (set_cal st c)) = snd (solve o st).
Proof.
  unfold solve. rewrite path_ignores_cal. simpl st_fvalid. simpl st_freqs.
  destruct (negb (st_fvalid st)); auto.
  change (solve_frequency o (set_cal st c)) with (solve_frequency o st).
  destruct (solve_path st); auto; destruct (forallb (solve_frequency o st) (seq 0 (st_freqs st))); auto.
Qed.

(* ------------------------------------------------------------------ underdetermined => EDOM *)
Lemma existsb_forallb_false {A} (p q : A -> bool) (l : list A) :
  existsb p l = true -> (forall x, p x = true -> q x = false) -> forallb q l = false.
Proof.
  induction l as [| x l IH]; simpl; intros He Hq; [discriminate |].
  destruct (p x) eqn:Hp.
  - rewrite (Hq x Hp). reflexivity.
  - simpl in He. rewrite (IH He Hq). apply andb_false_r.
Qed.

Lemma deficient_frequency_fails (o : oracle) (st : state) (f : nat) :
  count_deficient st = true -> solve_frequency o st f = false.
Proof.
  unfold count_deficient, solve_frequency.
  destruct (solve_path st); try discriminate; intros H.
  - rewrite (existsb_forallb_false _ _ _ H); [reflexivity |].
    intros k Hk. rewrite Hk. reflexivity.
  - rewrite H. reflexivity.
Qed.

Lemma deficient_edom (o : oracle) (st : state) :
  st_fvalid st = true -> 0 < st_freqs st -> count_deficient st = true ->
  solve o st = (st, Err EDOM).
Proof.
  intros Hv Hf Hd. unfold solve. rewrite Hv. simpl.
  destruct (st_freqs st) as [| n] eqn:En; [lia |].
  simpl seq. simpl forallb. rewrite (deficient_frequency_fails o st 0 Hd). simpl.
  unfold count_deficient in Hd. destruct (solve_path st); try discriminate; reflexivity.
Qed.

(* with known standards only the simple path is taken *)
Lemma known_path_simple (st : state) : st_unknown st = 0 -> solve_path st = PSimple.
Proof.
  intros H. unfold solve_path. rewrite H. simpl.
  destruct (negb ((cf_r (st_cf st) =? 2) && (cf_c (st_cf st) =? 2) && is_8_10 (cf_ty (st_cf st)))); auto.
  destruct (negb (length (st_meas st) =? 3)); auto.
Qed.

Lemma short_system_deficient (st : state) (k : nat) :
  st_unknown st = 0 ->
  k < systems (cf_ty (st_cf st)) (cf_c (st_cf st)) ->
  sys_count st k < unknowns (cf_ty (st_cf st)) (cf_r (st_cf st)) (cf_c (st_cf st)) ->
  count_deficient st = true.
Proof.
  intros Hu Hk Hc. unfold count_deficient. rewrite (known_path_simple st Hu).
  apply existsb_exists. exists k. split.
  - apply in_seq. lia.
  - apply Nat.ltb_lt. exact Hc.
Qed.

Lemma auto_total_deficient (st : state) :
  solve_path st = PAuto ->
  st_equations st + st_corr st < x_length st + st_unknown st ->
  count_deficient st = true.
Proof.
  intros Hp Hc. unfold count_deficient. rewrite Hp. apply Nat.ltb_lt. exact Hc.
Qed.

(* ------------------------------------------------------------------ adding standards *)
Definition run_adds (st : state) (l : list add_args) : state :=
  fold_left (fun s a => fst (add_std s a)) l st.

Lemma add_static (st : state) (a : add_args) :
  let st' := fst (add_std st a) in
  st_cf st' = st_cf st /\ st_freqs st' = st_freqs st /\ st_fvalid st' = st_fvalid st /\
  st_merr st' = st_merr st /\ st_cal st' = st_cal st.
Proof.
  unfold add_std. destruct (check_args (st_cf st) a); simpl; try tauto.
  destruct (st_merr st && is_16 (cf_ty (st_cf st)) && negb (s_complete (cf_p (st_cf st)) (full_s (st_cf st) a)));
    simpl; try tauto.
  destruct (fold_left link_one _ _) as [[sys total] mx]. simpl. tauto.
Qed.

Lemma run_adds_static (l : list add_args) (st : state) :
  let st' := run_adds st l in
  st_cf st' = st_cf st /\ st_freqs st' = st_freqs st /\ st_fvalid st' = st_fvalid st /\
  st_merr st' = st_merr st /\ st_cal st' = st_cal st.
Proof.
  revert st. induction l as [| a l IH]; intros st; simpl; [tauto |].
  destruct (IH (fst (add_std st a))) as (A & B & C & D & E).
  destruct (add_static st a) as (A' & B' & C' & D' & E').
  unfold run_adds in *. simpl. rewrite A, B, C, D, E. tauto.
Qed.

(* linking equations *)
Lemma append_at_length (k : nat) (e : eqn) (l : list (list eqn)) : length (append_at k e l) = length l.
Proof.
  revert k. induction l as [| x l IH]; intros k; simpl; [destruct k; reflexivity |].
  destruct k; simpl; [reflexivity | rewrite IH; reflexivity].
Qed.

Lemma append_at_nth (k : nat) (e : eqn) (l : list (list eqn)) (j : nat) :
  length (nth j (append_at k e l) []) =
  length (nth j l []) + (if (j =? k) && (j <? length l) then 1 else 0).
Proof.
  revert k j. induction l as [| x l IH]; intros k j; simpl.
  - destruct k; destruct j; simpl; rewrite ?andb_false_r; reflexivity.
  - destruct k; destruct j; simpl.
    + rewrite app_length. simpl. reflexivity.
    + lia.
    + lia.
    + rewrite IH. replace (S j <? S (length l)) with (j <? length l) by reflexivity. reflexivity.
Qed.

Definition sys_lengths (sys : list (list eqn)) (k : nat) : nat := length (nth k sys []).

Definition hits (new : list (nat * eqn)) (k : nat) : nat :=
  length (filter (fun ke => fst ke =? k) new).

Lemma link_fold (new : list (nat * eqn)) (sys : list (list eqn)) (total mx : nat) :
  let '(sys', total', mx') := fold_left link_one new (sys, total, mx) in
  length sys' = length sys /\ total' = total + length new /\ mx <= mx' /\
  forall k, k < length sys -> sys_lengths sys' k = sys_lengths sys k + hits new k.
Proof.
  revert sys total mx. induction new as [| ke new IH]; intros sys total mx; simpl.
  - repeat split; auto; try lia; intros k _; unfold hits; simpl; lia.
  - specialize (IH (append_at (fst ke) (snd ke) sys) (S total)
                   (if mx <? length (nth (fst ke) (append_at (fst ke) (snd ke) sys) [])
                    then length (nth (fst ke) (append_at (fst ke) (snd ke) sys) []) else mx)).
    destruct (fold_left link_one new _) as [[sys' total'] mx'].
    destruct IH as (L & T & M & N). rewrite append_at_length in L.
    repeat split; auto; try lia.
    + destruct (mx <? _) eqn:E; [apply Nat.ltb_lt in E |]; lia.
    + intros k Hk. rewrite append_at_length in N. rewrite (N k Hk).
      unfold sys_lengths. rewrite append_at_nth. unfold hits. simpl.
      destruct (fst ke =? k) eqn:E1.
      * apply Nat.eqb_eq in E1. subst k. rewrite Nat.eqb_refl.
        assert (E2 : (fst ke <? length sys) = true) by (apply Nat.ltb_lt; exact Hk).
        rewrite E2. simpl. lia.
      * rewrite Nat.eqb_sym in E1. rewrite E1. simpl. lia.
Qed.

(* the invariant vn_max_equations = largest per-system count *)
Definition max_len (sys : list (list eqn)) : nat := fold_right (fun x m => Nat.max (length x) m) 0 sys.

Lemma max_len_append_at (k : nat) (e : eqn) (l : list (list eqn)) :
  max_len (append_at k e l) = Nat.max (max_len l) (length (nth k (append_at k e l) [])).
Proof.
  revert k. induction l as [| x l IH]; intros k; simpl.
  - destruct k; reflexivity.
  - destruct k; simpl.
    + rewrite app_length. simpl. lia.
    + rewrite IH. lia.
Qed.

Lemma link_fold_max (new : list (nat * eqn)) (sys : list (list eqn)) (total mx : nat) :
  mx = max_len sys ->
  let '(sys', _, mx') := fold_left link_one new (sys, total, mx) in mx' = max_len sys'.
Proof.
  revert sys total mx. induction new as [| ke new IH]; intros sys total mx H; simpl; [exact H |].
  apply IH. rewrite max_len_append_at. rewrite <- H.
  destruct (mx <? _) eqn:E; [apply Nat.ltb_lt in E | apply Nat.ltb_ge in E]; lia.
Qed.

(* the contribution of one standard depends on the static configuration only *)
Definition accepted (cf : config) (merr : bool) (a : add_args) : bool :=
  match check_args cf a with
  | Accept => negb (merr && is_16 (cf_ty cf) && negb (s_complete (cf_p cf) (full_s cf a)))
  | _ => false
  end.

Definition contrib (cf : config) (merr : bool) (a : add_args) (k : nat) : nat :=
  if accepted cf merr a then length (filter (fun ke => fst ke =? k) (gen_equations cf a)) else 0.

Definition contrib_total (cf : config) (merr : bool) (a : add_args) : nat :=
  if accepted cf merr a then length (gen_equations cf a) else 0.

Lemma hits_map (idx : nat) (g : list (nat * (nat * nat))) (k : nat) :
  hits (map (fun '(s, rc) => (s, (idx, rc))) g) k = length (filter (fun ke => fst ke =? k) g).
Proof.
  unfold hits. induction g as [| [s rc] g IH]; simpl; [reflexivity |].
  destruct (s =? k); simpl; rewrite IH; reflexivity.
Qed.

Lemma add_effect (st : state) (a : add_args) :
  let st' := fst (add_std st a) in
  length (st_sys st') = length (st_sys st) /\
  st_equations st' = st_equations st + contrib_total (st_cf st) (st_merr st) a /\
  st_max st <= st_max st' /\
  (st_max st = max_len (st_sys st) -> st_max st' = max_len (st_sys st')) /\
  length (st_meas st') = length (st_meas st) + (if accepted (st_cf st) (st_merr st) a then 1 else 0) /\
  forall k, k < length (st_sys st) ->
       sys_count st' k = sys_count st k + contrib (st_cf st) (st_merr st) a k.
Proof.
  unfold add_std, contrib, contrib_total, accepted, sys_count.
  destruct (check_args (st_cf st) a); simpl; try (repeat split; auto; intros; lia).
  destruct (st_merr st && is_16 (cf_ty (st_cf st)) && negb (s_complete (cf_p (st_cf st)) (full_s (st_cf st) a)));
    simpl; try (repeat split; auto; intros; lia).
  set (new := map (fun '(k, rc) => (k, (length (st_meas st), rc))) (gen_equations (st_cf st) a)).
  pose proof (link_fold new (st_sys st) (st_equations st) (st_max st)) as LF.
  pose proof (link_fold_max new (st_sys st) (st_equations st) (st_max st)) as LM.
  destruct (fold_left link_one new _) as [[sys total] mx]. simpl.
  destruct LF as (L & T & M & N).
  repeat split; auto.
  - rewrite T. unfold new. rewrite map_length. reflexivity.
  - rewrite app_length. simpl. reflexivity.
  - intros k Hk. specialize (N k Hk). unfold sys_lengths in N. rewrite N.
    unfold new. rewrite hits_map. reflexivity.
Qed.

(* ------------------------------------------------------------------ adding a standard never decreases a count *)
Lemma add_monotone (st : state) (a : add_args) (k : nat) :
  sys_count st k <= sys_count (fst (add_std st a)) k /\
  st_equations st <= st_equations (fst (add_std st a)) /\
  st_max st <= st_max (fst (add_std st a)).
Proof.
  destruct (add_effect st a) as (L & T & M & _ & _ & N).
  repeat split; try lia.
  destruct (Nat.lt_ge_cases k (length (st_sys st))) as [Hk | Hk].
  - rewrite (N k Hk). lia.
  - unfold sys_count. rewrite (nth_overflow (st_sys st)) by lia. simpl. lia.
Qed.

(* ------------------------------------------------------------------ sums over a list of standards; permutations *)
Fixpoint sum_over (f : add_args -> nat) (l : list add_args) : nat :=
  match l with [] => 0 | a :: r => f a + sum_over f r end.

Lemma sum_over_perm (f : add_args -> nat) (l l' : list add_args) :
  Permutation l l' -> sum_over f l = sum_over f l'.
Proof. induction 1; simpl; lia. Qed.

Lemma run_adds_counts (l : list add_args) (st : state) :
  let st' := run_adds st l in
  length (st_sys st') = length (st_sys st) /\
  st_equations st' = st_equations st + sum_over (contrib_total (st_cf st) (st_merr st)) l /\
  (st_max st = max_len (st_sys st) -> st_max st' = max_len (st_sys st')) /\
  length (st_meas st') = length (st_meas st) + sum_over (fun a => if accepted (st_cf st) (st_merr st) a then 1 else 0) l /\
  forall k, k < length (st_sys st) ->
       sys_count st' k = sys_count st k + sum_over (fun a => contrib (st_cf st) (st_merr st) a k) l.
Proof.
  revert st. induction l as [| a l IH]; intros st; simpl.
  - repeat split; auto; intros; lia.
  - destruct (add_effect st a) as (L & T & _ & Mx & Ms & N).
    destruct (add_static st a) as (Cf & _ & _ & Me & _).
    specialize (IH (fst (add_std st a))). simpl in IH.
    destruct IH as (L' & T' & Mx' & Ms' & N').
    unfold run_adds in *. simpl.
    rewrite Cf, Me in *.
    repeat split.
    + lia.
    + lia.
    + auto.
    + lia.
    + intros k Hk. rewrite N' by lia. rewrite N by lia. lia.
Qed.

Lemma max_len_ext (a b : list (list eqn)) :
  length a = length b -> (forall k, k < length a -> length (nth k a []) = length (nth k b [])) ->
  max_len a = max_len b.
Proof.
  revert b. induction a as [| x a IH]; intros [| y b] L H; simpl in *; try discriminate; auto.
  rewrite (IH b).
  - specialize (H 0 (Nat.lt_0_succ _)). simpl in H. lia.
  - lia.
  - intros k Hk. apply (H (S k)). lia.
Qed.

Lemma init_shape (cf : config) (F : nat) (v : bool) :
  length (st_sys (init cf F v)) = systems (cf_ty cf) (cf_c cf) /\
  st_max (init cf F v) = max_len (st_sys (init cf F v)).
Proof.
  simpl. rewrite repeat_length. split; [reflexivity |].
  induction (systems (cf_ty cf) (cf_c cf)); simpl; auto.
Qed.

(* all the counters of two objects that were given the same standards in different orders agree *)
Lemma order_irrelevant (st : state) (l l' : list add_args) :
  Permutation l l' -> st_max st = max_len (st_sys st) ->
  let a := run_adds st l in let b := run_adds st l' in
  (forall k, sys_count a k = sys_count b k) /\
  st_equations a = st_equations b /\ st_max a = st_max b /\ length (st_meas a) = length (st_meas b).
Proof.
  intros P Hm a b.
  destruct (run_adds_counts l st) as (La & Ta & Ma & Sa & Na).
  destruct (run_adds_counts l' st) as (Lb & Tb & Mb & Sb & Nb).
  fold a in La, Ta, Ma, Sa, Na. fold b in Lb, Tb, Mb, Sb, Nb.
  assert (C : forall k, sys_count a k = sys_count b k).
  { intros k. destruct (Nat.lt_ge_cases k (length (st_sys st))) as [Hk | Hk].
    - rewrite Na, Nb by exact Hk. rewrite (sum_over_perm _ _ _ P). reflexivity.
    - unfold sys_count. rewrite !nth_overflow by lia. reflexivity. }
  repeat split.
  - exact C.
  - rewrite Ta, Tb. rewrite (sum_over_perm _ _ _ P). reflexivity.
  - rewrite (Ma Hm), (Mb Hm). apply max_len_ext; [lia |]. intros k _. apply C.
  - rewrite Sa, Sb. rewrite (sum_over_perm _ _ _ P). reflexivity.
Qed.

(* known parameters only: no unknown is ever counted *)
Lemma reg_known (fuel : nat) (acc : list nat * nat * nat) (k : nat) :
  snd (fst (reg_slot fuel [] acc k)) = snd (fst acc) /\ snd (reg_slot fuel [] acc k) = snd acc.
Proof.
  destruct acc as [[seen unk] cor]. destruct fuel; simpl; destruct (mem k seen); simpl; auto.
Qed.

Lemma reg_known_fold (fuel : nat) (cells : list nat) (acc : list nat * nat * nat) :
  snd (fst (fold_left (reg_slot fuel []) cells acc)) = snd (fst acc) /\
  snd (fold_left (reg_slot fuel []) cells acc) = snd acc.
Proof.
  revert acc. induction cells as [| k cells IH]; intros acc; simpl; [auto |].
  destruct (IH (reg_slot fuel [] acc k)) as (A & B).
  destruct (reg_known fuel acc k) as (C & D). rewrite A, B, C, D. auto.
Qed.

Lemma add_known (st : state) (a : add_args) :
  cf_kinds (st_cf st) = [] ->
  st_unknown (fst (add_std st a)) = st_unknown st /\ st_corr (fst (add_std st a)) = st_corr st.
Proof.
  intros K. unfold add_std. destruct (check_args (st_cf st) a); simpl; auto.
  rewrite K. simpl length.
  destruct (reg_known_fold 0 (a_cells a) (st_seen st, st_unknown st, st_corr st)) as (A & B). simpl in A, B.
  destruct (st_merr st && is_16 (cf_ty (st_cf st)) && negb (s_complete (cf_p (st_cf st)) (full_s (st_cf st) a)));
    simpl; auto.
  destruct (fold_left link_one _ _) as [[sys total] mx]. simpl. auto.
Qed.

Lemma run_adds_known (l : list add_args) (st : state) :
  cf_kinds (st_cf st) = [] ->
  st_unknown (run_adds st l) = st_unknown st /\ st_corr (run_adds st l) = st_corr st.
Proof.
  revert st. induction l as [| a l IH]; intros st K; simpl; [auto |].
  destruct (add_static st a) as (Cf & _).
  destruct (add_known st a K) as (A & B).
  unfold run_adds in *. simpl.
  destruct (IH (fst (add_std st a))) as (A' & B'); [rewrite Cf; exact K |].
  rewrite A', B', A, B. auto.
Qed.

Lemma existsb_pointwise {A} (p q : A -> bool) (l : list A) :
  (forall x, p x = q x) -> existsb p l = existsb q l.
Proof. intros H. induction l as [| x l IH]; simpl; [reflexivity | rewrite H, IH; reflexivity]. Qed.

Lemma known_deficient_by_counts (a b : state) :
  st_cf a = st_cf b -> st_unknown a = 0 -> st_unknown b = 0 ->
  (forall k, sys_count a k = sys_count b k) ->
  count_deficient a = count_deficient b.
Proof.
  intros Cf Ua Ub C. unfold count_deficient.
  rewrite (known_path_simple a Ua), (known_path_simple b Ub). rewrite Cf.
  apply existsb_pointwise. intros k. rewrite C. reflexivity.
Qed.

(* ------------------------------------------------------------------ histories: failed solves are invisible *)
Fixpoint all_solves_fail (o : oracle) (st : state) (ops : list op) : Prop :=
  match ops with
  | [] => True
  | OpSolve :: rest => snd (solve o st) <> Ok /\ all_solves_fail o (fst (solve o st)) rest
  | x :: rest => all_solves_fail o (fst (step o st x)) rest
  end.

Lemma run_cons (o : oracle) (st : state) (x : op) (rest : list op) :
  fst (run o st (x :: rest)) = fst (run o (fst (step o st x)) rest).
Proof.
  simpl. destruct (step o st x) as [st1 out]. simpl. destruct (run o st1 rest). reflexivity.
Qed.

Lemma failed_solves_invisible (o : oracle) (ops : list op) (st : state) :
  all_solves_fail o st ops -> fst (run o st ops) = fst (run o st (remove_solves ops)).
Proof.
  revert st. induction ops as [| x ops IH]; intros st H; [reflexivity |].
  destruct x; simpl remove_solves; simpl in H.
  - rewrite !run_cons. apply IH. exact H.
  - destruct H as [Hf Hr]. rewrite run_cons. simpl step.
    rewrite (solve_fail_unchanged o st Hf) in *. apply IH. exact Hr.
  - rewrite !run_cons. apply IH. exact H.
  - rewrite !run_cons. apply IH. exact H.
Qed.

Lemma run_app (o : oracle) (a b : list op) (st : state) :
  run o st (a ++ b) = (fst (run o (fst (run o st a)) b), snd (run o st a) ++ snd (run o (fst (run o st a)) b)).
Proof.
  revert st. induction a as [| x a IH]; intros st; simpl.
  - destruct (run o st b). reflexivity.
  - destruct (step o st x) as [st1 out]. rewrite IH.
    destruct (run o st1 a) as [st2 outs]. simpl. reflexivity.
Qed.

Lemma retry (o : oracle) (st : state) (ops more : list op) :
  all_solves_fail o st ops ->
  run o (fst (run o st ops)) (more ++ [OpSolve]) = run o (fst (run o st (remove_solves ops))) (more ++ [OpSolve]).
Proof. intros H. rewrite (failed_solves_invisible o ops st H). reflexivity. Qed.

(* even successful solves only replace the calibration: what a later solve reports is the same *)
Lemma step_same_but_cal (o : oracle) (a b : state) (x : op) :
  same_but_cal a b -> x <> OpTakeCal ->
  same_but_cal (fst (step o a x)) (fst (step o b x)) /\ snd (step o a x) = snd (step o b x).
Proof.
  intros S Hx. unfold same_but_cal in S.
  destruct S as (E1 & E2 & E3 & E4 & E5 & E6 & E7 & E8 & E9 & E10 & E11).
  destruct a as [cf fr fv me se un co ms sy eq mx ca], b as [cf' fr' fv' me' se' un' co' ms' sy' eq' mx' ca'].
  simpl in *. subst cf' fr' fv' me' se' un' co' ms' sy' eq' mx'.
  destruct x; try congruence.
  - (* add *) simpl step. unfold add_std. simpl.
    destruct (check_args cf a); simpl; unfold same_but_cal; simpl; try tauto.
    destruct (me && is_16 (cf_ty cf) && negb (s_complete (cf_p cf) (full_s cf a))); simpl; try tauto.
    destruct (fold_left link_one _ _) as [[sys total] m']. simpl. tauto.
  - (* solve *) simpl step.
    change {| st_cf := cf; st_freqs := fr; st_fvalid := fv; st_merr := me; st_seen := se; st_unknown := un;
              st_corr := co; st_meas := ms; st_sys := sy; st_equations := eq; st_max := mx; st_cal := ca |}
      with (set_cal {| st_cf := cf; st_freqs := fr; st_fvalid := fv; st_merr := me; st_seen := se; st_unknown := un;
              st_corr := co; st_meas := ms; st_sys := sy; st_equations := eq; st_max := mx; st_cal := ca' |} ca).
    set (b := {| st_cf := cf; st_freqs := fr; st_fvalid := fv; st_merr := me; st_seen := se; st_unknown := un;
              st_corr := co; st_meas := ms; st_sys := sy; st_equations := eq; st_max := mx; st_cal := ca' |}).
    split; [| apply solve_ignores_cal].
    pose proof (solve_keeps_standards o (set_cal b ca)) as A.
    pose proof (solve_keeps_standards o b) as B.
    apply (same_but_cal_trans _ _ _ A).
    apply (same_but_cal_trans _ _ _ (set_cal_same b ca)).
    apply same_but_cal_sym. exact B.
  - (* merr *) simpl step. unfold set_m_error. simpl.
    destruct (negb on); simpl; unfold same_but_cal; simpl; try tauto.
    destruct (negb fv); simpl; try tauto.
    destruct (is_16 (cf_ty cf) && negb (forallb (fun m => s_complete (cf_p cf) (ms_s m)) ms)); simpl; tauto.
Qed.

(* ------------------------------------------------------------------ the statements of Properties_C20.v *)
Lemma underdetermined_edom_l (o : oracle) (cf : config) (F : nat) (stds : list add_args) (k : nat) :
  let st := run_adds (init cf F true) stds in
  0 < F -> st_unknown st = 0 -> k < systems (cf_ty cf) (cf_c cf) ->
  sys_count st k < unknowns (cf_ty cf) (cf_r cf) (cf_c cf) ->
  solve o st = (st, Err EDOM).
Proof.
  intros st HF Hu Hk Hc.
  destruct (run_adds_static stds (init cf F true)) as (Cf & Fr & Fv & _ & _). fold st in Cf, Fr, Fv.
  simpl in Cf, Fr, Fv.
  apply deficient_edom.
  - rewrite Fv. reflexivity.
  - rewrite Fr. exact HF.
  - apply (short_system_deficient st k Hu); rewrite Cf; assumption.
Qed.

Lemma order_irrelevant_init (cf : config) (F : nat) (v : bool) (l l' : list add_args) :
  Permutation l l' ->
  let a := run_adds (init cf F v) l in let b := run_adds (init cf F v) l' in
  (forall k, sys_count a k = sys_count b k) /\
  st_equations a = st_equations b /\ st_max a = st_max b /\ length (st_meas a) = length (st_meas b).
Proof.
  intros P. apply order_irrelevant; [exact P |]. apply (proj2 (init_shape cf F v)).
Qed.

Lemma order_irrelevant_decision_known_l (cf : config) (F : nat) (v : bool) (l l' : list add_args) :
  cf_kinds cf = [] -> Permutation l l' ->
  count_deficient (run_adds (init cf F v) l) = count_deficient (run_adds (init cf F v) l').
Proof.
  intros K P.
  destruct (run_adds_static l (init cf F v)) as (Ca & _).
  destruct (run_adds_static l' (init cf F v)) as (Cb & _).
  destruct (run_adds_known l (init cf F v) K) as (Ua & _).
  destruct (run_adds_known l' (init cf F v) K) as (Ub & _).
  apply known_deficient_by_counts.
  - rewrite Ca, Cb. reflexivity.
  - rewrite Ua. reflexivity.
  - rewrite Ub. reflexivity.
  - apply (order_irrelevant_init cf F v l l' P).
Qed.

(* a failed solve leaves the whole state, previous calibration included, as it was *)
Lemma failed_solve_unchanged_l (o : oracle) (st : state) (e : errno) :
  snd (solve o st) = Err e -> solve o st = (st, Err e).
Proof.
  intros H. destruct (solve_cases o st) as [A | [A | [A | A]]]; rewrite A in *; simpl in H; congruence.
Qed.

(* a computable sufficient condition for all_solves_fail (used for the non-vacuity examples):
   at every solve of the history the count test is not met *)
Fixpoint solves_deficient (st : state) (ops : list op) : bool :=
  match ops with
  | [] => true
  | OpSolve :: rest =>
    st_fvalid st && (0 <? st_freqs st) && count_deficient st && solves_deficient st rest
  | x :: rest => solves_deficient (fst (step (fun _ _ _ => true) st x)) rest
  end.

Lemma solves_deficient_fail (o : oracle) (ops : list op) (st : state) :
  solves_deficient st ops = true -> all_solves_fail o st ops.
Proof.
  revert st. induction ops as [| x ops IH]; intros st H; simpl; [exact I |].
  destruct x; simpl in H.
  - apply IH. exact H.
  - apply andb_prop in H. destruct H as [H Hr]. apply andb_prop in H. destruct H as [H Hd].
    apply andb_prop in H. destruct H as [Hv Hf]. apply Nat.ltb_lt in Hf.
    rewrite (deficient_edom o st Hv Hf Hd). simpl. split; [discriminate | apply IH; exact Hr].
  - apply IH. exact H.
  - apply IH. exact H.
Qed.
