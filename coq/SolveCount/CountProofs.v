(* C20: lemmas about the counting model (CountModel.v). *)
Require Import List Arith Bool PeanoNat Lia Permutation.
Import ListNotations.
Require Import LV.SolveCount.CountModel.

(* ------------------------------------------------------------------ layout: the unity term *)
(* for every configuration vnacal_new_alloc accepts there is at least one term per system, so
   "unknowns = t_terms - 1" is the number of terms without the unity term (no truncated subtraction) *)
Lemma t_terms_unity (ty : ctype) (r c : nat) :
  alloc_ok ty r c = true -> t_terms ty r c = S (unknowns ty r c).
Proof.
  unfold alloc_ok, unknowns. intros H.
  apply andb_prop in H. destruct H as [H _]. apply andb_prop in H. destruct H as [Hr Hc].
  apply Nat.leb_le in Hr. apply Nat.leb_le in Hc.
  assert (P : 1 <= Nat.max r c) by lia.
  destruct ty; simpl; try (pose proof (Nat.min_spec r (Nat.max r c)); pose proof (Nat.min_spec (Nat.max r c) r); lia).
  all: assert (1 <= r * Nat.max r c) by (apply (Nat.le_trans _ (1 * 1)); [lia | apply Nat.mul_le_mono; lia]);
       assert (1 <= Nat.max r c * r) by (rewrite Nat.mul_comm; assumption); lia.
Qed.

(* ------------------------------------------------------------------ parameter values *)
Lemma pv_get_set_same (pv : pvals) (k : nat) (v : pval) : pv_get (pv_set pv k v) k = v.
Proof.
  induction pv as [| [k' v'] r IH]; simpl; [rewrite Nat.eqb_refl; reflexivity |].
  destruct (k' =? k) eqn:E; simpl; [rewrite Nat.eqb_refl; reflexivity | rewrite E; exact IH].
Qed.

Lemma pv_get_set_other (pv : pvals) (k k0 : nat) (v : pval) : k0 <> k -> pv_get (pv_set pv k v) k0 = pv_get pv k0.
Proof.
  intros N. induction pv as [| [k' v'] r IH]; simpl.
  - destruct (k =? k0) eqn:E; [apply Nat.eqb_eq in E; congruence | reflexivity].
  - destruct (k' =? k) eqn:E; simpl.
    + apply Nat.eqb_eq in E. subst k'. destruct (k =? k0) eqn:E2; [apply Nat.eqb_eq in E2; congruence | reflexivity].
    + destruct (k' =? k0); [reflexivity | exact IH].
Qed.

(* the write-back loop as it was before DI92: without an injected fault it completes *)
Lemma writeback_old_nofault (F : nat) (tag : list meas) (ps : list nat) (nc : nat) (pv : pvals) :
  snd (writeback_before_DI92 F tag None nc ps pv) = true.
Proof.
  revert nc pv. induction ps as [| k ps IH]; intros nc pv; simpl; [reflexivity |].
  destruct (pv_freqs (pv_get pv k) =? F); apply IH.
Qed.

Lemma writeback_old_frame (F : nat) (tag : list meas) (fa : option nat) (ps : list nat) (nc : nat) (pv : pvals) (k0 : nat) :
  ~ In k0 ps -> pv_get (fst (writeback_before_DI92 F tag fa nc ps pv)) k0 = pv_get pv k0.
Proof.
  revert nc pv. induction ps as [| k ps IH]; intros nc pv N; simpl; [reflexivity |].
  assert (N1 : k0 <> k) by (intros E; apply N; left; congruence).
  assert (N2 : ~ In k0 ps) by (intros E; apply N; right; exact E).
  destruct (pv_freqs (pv_get pv k) =? F).
  - rewrite IH by exact N2. apply pv_get_set_other. exact N1.
  - destruct (match fa with Some j => j =? nc | None => false end); simpl.
    + apply pv_get_set_other. exact N1.
    + rewrite IH by exact N2. apply pv_get_set_other. exact N1.
Qed.

Lemma writeback_old_done (F : nat) (tag : list meas) (fa : option nat) (ps : list nat) (nc : nat) (pv : pvals) (k0 : nat) :
  snd (writeback_before_DI92 F tag fa nc ps pv) = true -> In k0 ps ->
  pv_get (fst (writeback_before_DI92 F tag fa nc ps pv)) k0 = {| pv_freqs := F; pv_gamma := Some tag |}.
Proof.
  revert nc pv. induction ps as [| k ps IH]; intros nc pv C I; simpl in *; [contradiction |].
  destruct (in_dec Nat.eq_dec k0 ps) as [I2 | N2].
  - destruct (pv_freqs (pv_get pv k) =? F); [apply IH; assumption |].
    destruct (match fa with Some j => j =? nc | None => false end); [discriminate | apply IH; assumption].
  - destruct I as [E | I]; [subst k0 | contradiction].
    destruct (pv_freqs (pv_get pv k) =? F).
    + rewrite writeback_old_frame by exact N2. apply pv_get_set_same.
    + destruct (match fa with Some j => j =? nc | None => false end); [discriminate |].
      rewrite writeback_old_frame by exact N2. apply pv_get_set_same.
Qed.

(* the write-back since DI92 (all or nothing) *)
Lemma writeback_nofault (F : nat) (tag : list meas) (ps : list nat) (nc : nat) (pv : pvals) :
  snd (writeback F tag None nc ps pv) = true.
Proof. exact (writeback_old_nofault F tag ps nc pv). Qed.

Lemma writeback_failed_unchanged (F : nat) (tag : list meas) (fa : option nat) (ps : list nat) (nc : nat) (pv : pvals) :
  snd (writeback F tag fa nc ps pv) = false -> fst (writeback F tag fa nc ps pv) = pv.
Proof.
  unfold writeback. destruct fa as [j|].
  - destruct (j <? wb_allocs F ps pv); [reflexivity |]. rewrite writeback_old_nofault. discriminate.
  - rewrite writeback_old_nofault. discriminate.
Qed.

Lemma writeback_frame (F : nat) (tag : list meas) (fa : option nat) (ps : list nat) (nc : nat) (pv : pvals) (k0 : nat) :
  ~ In k0 ps -> pv_get (fst (writeback F tag fa nc ps pv)) k0 = pv_get pv k0.
Proof.
  intros N. unfold writeback. destruct fa as [j|].
  - destruct (j <? wb_allocs F ps pv); [reflexivity | apply writeback_old_frame; exact N].
  - apply writeback_old_frame; exact N.
Qed.

Lemma writeback_done (F : nat) (tag : list meas) (fa : option nat) (ps : list nat) (nc : nat) (pv : pvals) (k0 : nat) :
  snd (writeback F tag fa nc ps pv) = true -> In k0 ps ->
  pv_get (fst (writeback F tag fa nc ps pv)) k0 = {| pv_freqs := F; pv_gamma := Some tag |}.
Proof.
  unfold writeback. destruct fa as [j|].
  - destruct (j <? wb_allocs F ps pv); [discriminate | apply writeback_old_done].
  - apply writeback_old_done.
Qed.

(* ------------------------------------------------------------------ solve: what each exit leaves behind *)
Definition wb_fault (af : afault) : bool := match af with FaultWriteback _ => true | _ => false end.
Definition fail_at (af : afault) : option nat := match af with FaultWriteback j => Some j | _ => None end.

Definition wb (af : afault) (st : state) : pvals * bool :=
  writeback (st_freqs st) (st_meas st) (fail_at af) 0 (unknown_list st) (st_pv st).

Definition solved (st : state) : state :=
  set_cal (set_pv st (fst (wb NoFault st))) (Some (st_meas st)).

Lemma solve_cases (o : oracle) (af : afault) (st : state) :
  solve o af st = (st, Err EINVAL) \/ solve o af st = (st, Err ENOMEM) \/ solve o af st = (st, Err EDOM)
  \/ (solve o af st = (set_cal (set_pv st (fst (wb af st))) (Some (st_meas st)), Ok) /\ snd (wb af st) = true)
  \/ (solve o af st = (set_pv st (fst (wb af st)), Err ENOMEM) /\ snd (wb af st) = false /\ wb_fault af = true).
Proof.
  unfold solve. destruct (negb (st_fvalid st)); auto.
  destruct af; auto;
    destruct (forallb (solve_frequency o st) (seq 0 (st_freqs st))); auto.
  - right. right. right. left. unfold wb. simpl fail_at.
    pose proof (writeback_nofault (st_freqs st) (st_meas st) (unknown_list st) 0 (st_pv st)) as W.
    destruct (writeback _ _ None _ _ _) as [pv c]. simpl in W. subst c. simpl. auto.
  - unfold wb. simpl fail_at.
    destruct (writeback _ _ (Some j) _ _ _) as [pv c]. destruct c; simpl; auto 10.
Qed.

(* a failing solve that did not lose an allocation inside the write-back returns the state it was given:
   measurements, equations, counters, the previous calibration and every parameter value *)
Lemma solve_fail_unchanged (o : oracle) (af : afault) (st : state) :
  wb_fault af = false -> snd (solve o af st) <> Ok -> fst (solve o af st) = st.
Proof.
  intros W. destruct (solve_cases o af st) as [H | [H | [H | [[H _] | [H [_ C]]]]]]; rewrite H; simpl; auto; congruence.
Qed.

Lemma set_pv_same (st : state) : set_pv st (st_pv st) = st.
Proof. destruct st; reflexivity. Qed.

(* DI92: EVERY failing solve, an allocation failure inside the write-back included, returns the state it was given *)
Lemma solve_fail_unchanged_all (o : oracle) (af : afault) (st : state) :
  snd (solve o af st) <> Ok -> fst (solve o af st) = st.
Proof.
  destruct (solve_cases o af st) as [H | [H | [H | [[H _] | [H [C _]]]]]]; rewrite H; simpl; auto; try congruence.
  intros _. unfold wb in *. rewrite (writeback_failed_unchanged _ _ _ _ _ _ C). apply set_pv_same.
Qed.

(* everything but the parameter values *)
Definition same_but_pv (a b : state) : Prop :=
  st_cf a = st_cf b /\ st_freqs a = st_freqs b /\ st_fvalid a = st_fvalid b /\ st_merr a = st_merr b /\
  st_seen a = st_seen b /\ st_unknown a = st_unknown b /\ st_corr a = st_corr b /\ st_meas a = st_meas b /\
  st_sys a = st_sys b /\ st_equations a = st_equations b /\ st_max a = st_max b /\ st_cal a = st_cal b.

(* every failing solve, the write-back fault included, keeps the standards, the counters and the
   previous calibration, and every parameter that is not an unknown of this calibration *)
Lemma solve_fail_keeps (o : oracle) (af : afault) (st : state) :
  snd (solve o af st) <> Ok ->
  same_but_pv (fst (solve o af st)) st /\
  forall k, ~ In k (unknown_list st) -> pv_get (st_pv (fst (solve o af st))) k = pv_get (st_pv st) k.
Proof.
  destruct (solve_cases o af st) as [H | [H | [H | [[H _] | [H _]]]]]; rewrite H; simpl; intros N;
    try (split; [unfold same_but_pv; tauto | reflexivity]); try congruence.
  split; [unfold same_but_pv; simpl; tauto |].
  intros k Hk. unfold wb. apply writeback_frame. exact Hk.
Qed.

(* everything but the calibration and the parameter values is untouched by any solve *)
Definition same_but_results (a b : state) : Prop :=
  st_cf a = st_cf b /\ st_freqs a = st_freqs b /\ st_fvalid a = st_fvalid b /\ st_merr a = st_merr b /\
  st_seen a = st_seen b /\ st_unknown a = st_unknown b /\ st_corr a = st_corr b /\ st_meas a = st_meas b /\
  st_sys a = st_sys b /\ st_equations a = st_equations b /\ st_max a = st_max b.

Lemma solve_keeps_standards (o : oracle) (af : afault) (st : state) : same_but_results (fst (solve o af st)) st.
Proof.
  destruct (solve_cases o af st) as [H | [H | [H | [[H _] | [H _]]]]]; rewrite H; simpl;
    unfold same_but_results; simpl; tauto.
Qed.

Lemma same_but_results_sym (a b : state) : same_but_results a b -> same_but_results b a.
Proof. unfold same_but_results. intuition. Qed.

Lemma same_but_results_trans (a b c : state) : same_but_results a b -> same_but_results b c -> same_but_results a c.
Proof. unfold same_but_results. intuition congruence. Qed.

(* a successful solve: the calibration is replaced, every unknown parameter of this calibration holds
   the new solution on the calibration's frequency grid, nothing else changes *)
Lemma solve_ok_state (o : oracle) (af : afault) (st : state) :
  snd (solve o af st) = Ok ->
  let st' := fst (solve o af st) in
  same_but_results st' st /\ st_cal st' = Some (st_meas st) /\
  (forall k, In k (unknown_list st) ->
        pv_get (st_pv st') k = {| pv_freqs := st_freqs st; pv_gamma := Some (st_meas st) |}) /\
  (forall k, ~ In k (unknown_list st) -> pv_get (st_pv st') k = pv_get (st_pv st) k).
Proof.
  destruct (solve_cases o af st) as [H | [H | [H | [[H C] | [H _]]]]]; rewrite H; simpl; try discriminate.
  intros _. split; [unfold same_but_results; simpl; tauto |]. split; [reflexivity |]. split.
  - intros k Hk. unfold wb in *. apply writeback_done; assumption.
  - intros k Hk. unfold wb. apply writeback_frame. exact Hk.
Qed.

Lemma solve_ok_nofault (o : oracle) (st : state) :
  snd (solve o NoFault st) = Ok -> solve o NoFault st = (solved st, Ok).
Proof.
  destruct (solve_cases o NoFault st) as [H | [H | [H | [[H C] | [H [_ C]]]]]]; rewrite H; simpl; try discriminate.
  reflexivity.
Qed.

(* ------------------------------------------------------------------ the verdict of a solve *)
Lemma forallb_split {A} (d q : A -> bool) (l : list A) :
  forallb (fun k => if d k then false else q k) l = negb (existsb d l) && forallb q l.
Proof.
  induction l as [| x l IH]; simpl; [reflexivity |].
  rewrite IH. destruct (d x); simpl; [reflexivity |]. destruct (q x); simpl; [reflexivity |].
  rewrite andb_false_r. reflexivity.
Qed.

(* at each frequency: the count test of the dispatched solver, then the numeric verdict *)
Lemma solve_frequency_char (o : oracle) (st : state) (f : nat) :
  solve_frequency o st f = negb (count_deficient st) && numeric_ok o st f.
Proof.
  unfold solve_frequency, count_deficient, short_system, numeric_ok. destruct (solve_path st).
  - reflexivity.
  - rewrite forallb_split. rewrite andb_assoc. reflexivity.
  - destruct (existsb _ _); [reflexivity|]. destruct (_ <? _); reflexivity.
Qed.

Lemma forallb_seq_ext (p q : nat -> bool) (a n : nat) :
  (forall f, a <= f < a + n -> p f = q f) -> forallb p (seq a n) = forallb q (seq a n).
Proof.
  revert a. induction n as [| n IH]; intros a H; simpl; [reflexivity |].
  rewrite H by lia. rewrite IH; [reflexivity |]. intros f Hf. apply H. lia.
Qed.

(* the exact condition under which a solve without allocation failure succeeds *)
Lemma solve_ok_iff (o : oracle) (st : state) :
  snd (solve o NoFault st) = Ok <->
  st_fvalid st = true /\
  (st_freqs st = 0 \/ (count_deficient st = false /\ forall f, f < st_freqs st -> numeric_ok o st f = true)).
Proof.
  unfold solve. destruct (st_fvalid st); simpl; [| split; [discriminate | intros [H _]; discriminate]].
  destruct (forallb (solve_frequency o st) (seq 0 (st_freqs st))) eqn:E.
  - pose proof (writeback_nofault (st_freqs st) (st_meas st) (unknown_list st) 0 (st_pv st)) as W.
    destruct (writeback _ _ None _ _ _) as [pv c]. simpl in W. subst c. simpl.
    split; [| reflexivity]. intros _. split; [reflexivity |].
    destruct (st_freqs st) as [| n] eqn:En; [left; reflexivity | right].
    rewrite forallb_forall in E.
    assert (E0 : solve_frequency o st 0 = true) by (apply E; apply in_seq; lia).
    rewrite solve_frequency_char in E0. apply andb_prop in E0. destruct E0 as [D _].
    apply negb_true_iff in D. split; [exact D |].
    intros f Hf. assert (Ef : solve_frequency o st f = true) by (apply E; apply in_seq; lia).
    rewrite solve_frequency_char in Ef. apply andb_prop in Ef. tauto.
  - simpl. split; [discriminate |]. intros [_ [Z | [D N]]].
    + rewrite Z in E. discriminate.
    + assert (T : forallb (solve_frequency o st) (seq 0 (st_freqs st)) = true).
      { apply forallb_forall. intros f Hf. apply in_seq in Hf. rewrite solve_frequency_char, D. simpl. apply N. lia. }
      congruence.
Qed.

(* the solve state is rebuilt on every call: the verdict does not depend on the results of earlier
   solves (previous calibration, parameter values) *)
Lemma path_same (a b : state) : same_but_results a b -> solve_path a = solve_path b.
Proof.
  unfold same_but_results. intros (E1 & E2 & E3 & E4 & E5 & E6 & E7 & E8 & _).
  unfold solve_path, is_trl. rewrite E1, E4, E6, E7, E8. reflexivity.
Qed.

Lemma solve_frequency_same (o : oracle) (a b : state) (f : nat) :
  same_but_results a b -> solve_frequency o a f = solve_frequency o b f.
Proof.
  intros S. pose proof (path_same a b S) as P.
  unfold same_but_results in S. destruct S as (E1 & E2 & E3 & E4 & E5 & E6 & E7 & E8 & E9 & E10 & E11).
  unfold solve_frequency, view_of, x_length, sys_count. rewrite P, E1, E4, E6, E7, E8, E9, E10. reflexivity.
Qed.

Lemma solve_verdict_same (o : oracle) (a b : state) :
  same_but_results a b -> (snd (solve o NoFault a) = Ok <-> snd (solve o NoFault b) = Ok).
Proof.
  intros S. assert (T : forallb (solve_frequency o a) (seq 0 (st_freqs a)) = forallb (solve_frequency o b) (seq 0 (st_freqs b))).
  { destruct S as (E1 & E2 & R). rewrite E2. apply forallb_seq_ext. intros f _. apply solve_frequency_same.
    unfold same_but_results. tauto. }
  destruct S as (_ & _ & E3 & _).
  unfold solve. rewrite E3, T. destruct (negb (st_fvalid b)); simpl; [tauto |].
  destruct (forallb (solve_frequency o b) (seq 0 (st_freqs b))); simpl; [| tauto].
  pose proof (writeback_nofault (st_freqs a) (st_meas a) (unknown_list a) 0 (st_pv a)) as Wa.
  pose proof (writeback_nofault (st_freqs b) (st_meas b) (unknown_list b) 0 (st_pv b)) as Wb.
  destruct (writeback _ _ None _ _ (st_pv a)) as [pa ca]. destruct (writeback _ _ None _ _ (st_pv b)) as [pb cb].
  simpl in *. subst. simpl. tauto.
Qed.

(* ------------------------------------------------------------------ underdetermined => EDOM *)
Lemma deficient_frequency_fails (o : oracle) (st : state) (f : nat) :
  count_deficient st = true -> solve_frequency o st f = false.
Proof. intros H. rewrite solve_frequency_char, H. reflexivity. Qed.

Lemma deficient_edom (o : oracle) (st : state) :
  st_fvalid st = true -> 0 < st_freqs st -> count_deficient st = true ->
  solve o NoFault st = (st, Err EDOM).
Proof.
  intros Hv Hf Hd. unfold solve. rewrite Hv. simpl.
  destruct (st_freqs st) as [| n] eqn:En; [lia |].
  simpl seq. simpl forallb. rewrite (deficient_frequency_fails o st 0 Hd). reflexivity.
Qed.

(* with known standards only the simple path is taken *)
Lemma trl_needs_two_unknowns (st : state) : is_trl st = true -> st_unknown st = 2.
Proof.
  unfold is_trl.
  destruct (negb ((cf_r (st_cf st) =? 2) && (cf_c (st_cf st) =? 2) && is_8_10 (cf_ty (st_cf st)))); [discriminate |].
  destruct (negb (length (st_meas st) =? 3)); [discriminate |].
  destruct (st_unknown st =? 2) eqn:E; simpl; [intros _; apply Nat.eqb_eq; exact E | discriminate].
Qed.

(* the analytic TRL path is taken only for the exact shape: 2x2, T8/U8/TE10/UE10, three standards,
   two unknown parameters, no correlated parameter, no measurement-error model *)
Lemma trl_shape (st : state) :
  solve_path st = PTrl ->
  cf_r (st_cf st) = 2 /\ cf_c (st_cf st) = 2 /\ is_8_10 (cf_ty (st_cf st)) = true /\ length (st_meas st) = 3 /\
  st_unknown st = 2 /\ st_corr st = 0 /\ st_merr st = false.
Proof.
  unfold solve_path. destruct (is_trl st) eqn:T; [intros _ | destruct (st_unknown st =? 0); discriminate].
  unfold is_trl in T.
  destruct ((cf_r (st_cf st) =? 2) && (cf_c (st_cf st) =? 2) && is_8_10 (cf_ty (st_cf st))) eqn:A; simpl in T; [| discriminate].
  destruct (length (st_meas st) =? 3) eqn:B; simpl in T; [| discriminate].
  destruct (st_unknown st =? 2) eqn:C; simpl in T; [| discriminate].
  destruct (st_corr st =? 0) eqn:D; simpl in T; [| discriminate].
  destruct (st_merr st) eqn:M; [discriminate |].
  apply andb_prop in A. destruct A as [A A3]. apply andb_prop in A. destruct A as [A1 A2].
  apply Nat.eqb_eq in A1, A2, B, C, D. tauto.
Qed.

Lemma known_path_simple (st : state) : st_unknown st = 0 -> solve_path st = PSimple.
Proof.
  intros H. unfold solve_path. destruct (is_trl st) eqn:T.
  - apply trl_needs_two_unknowns in T. lia.
  - rewrite H. reflexivity.
Qed.

Lemma unknown_path_auto (st : state) : st_unknown st <> 0 -> is_trl st = false -> solve_path st = PAuto.
Proof.
  intros H T. unfold solve_path. rewrite T. destruct (st_unknown st =? 0) eqn:E; [apply Nat.eqb_eq in E; lia | reflexivity].
Qed.

Lemma short_system_deficient (st : state) (k : nat) :
  st_unknown st = 0 ->
  k < systems (cf_ty (st_cf st)) (cf_c (st_cf st)) ->
  sys_count st k < unknowns (cf_ty (st_cf st)) (cf_r (st_cf st)) (cf_c (st_cf st)) ->
  count_deficient st = true.
Proof.
  intros Hu Hk Hc. unfold count_deficient, short_system. rewrite (known_path_simple st Hu).
  apply existsb_exists. exists k. split.
  - apply in_seq. lia.
  - apply Nat.ltb_lt. exact Hc.
Qed.

Lemma auto_total_deficient (st : state) :
  st_unknown st <> 0 -> is_trl st = false ->
  st_equations st + st_corr st < x_length st + st_unknown st ->
  count_deficient st = true.
Proof.
  intros Hu Ht Hc. unfold count_deficient. rewrite (unknown_path_auto st Hu Ht).
  apply orb_true_iff. right. apply Nat.ltb_lt. exact Hc.
Qed.

(* DD90: with unknown parameters too, a system with fewer equations than error terms is refused *)
Lemma auto_short_system_deficient (st : state) (k : nat) :
  st_unknown st <> 0 -> is_trl st = false ->
  k < systems (cf_ty (st_cf st)) (cf_c (st_cf st)) ->
  sys_count st k < unknowns (cf_ty (st_cf st)) (cf_r (st_cf st)) (cf_c (st_cf st)) ->
  count_deficient st = true.
Proof.
  intros Hu Ht Hk Hc. unfold count_deficient, short_system. rewrite (unknown_path_auto st Hu Ht).
  apply orb_true_iff. left. apply existsb_exists. exists k. split.
  - apply in_seq. lia.
  - apply Nat.ltb_lt. exact Hc.
Qed.

(* ------------------------------------------------------------------ adding standards *)
Definition run_adds (st : state) (l : list add_args) : state :=
  fold_left (fun s a => fst (add_std s a)) l st.

Lemma add_static (st : state) (a : add_args) :
  let st' := fst (add_std st a) in
  st_cf st' = st_cf st /\ st_freqs st' = st_freqs st /\ st_fvalid st' = st_fvalid st /\
  st_merr st' = st_merr st /\ st_cal st' = st_cal st /\ st_pv st' = st_pv st.
Proof.
  unfold add_std. destruct (check_args (st_cf st) a); simpl; try tauto.
  destruct (st_merr st && is_16 (cf_ty (st_cf st)) && negb (s_complete (cf_p (st_cf st)) (full_s (st_cf st) a)));
    simpl; try tauto.
  destruct (fold_left link_one _ _) as [[sys total] mx]. simpl. tauto.
Qed.

Lemma run_adds_static (l : list add_args) (st : state) :
  let st' := run_adds st l in
  st_cf st' = st_cf st /\ st_freqs st' = st_freqs st /\ st_fvalid st' = st_fvalid st /\
  st_merr st' = st_merr st /\ st_cal st' = st_cal st /\ st_pv st' = st_pv st.
Proof.
  revert st. induction l as [| a l IH]; intros st; simpl; [tauto |].
  destruct (IH (fst (add_std st a))) as (A & B & C & D & E & G).
  destruct (add_static st a) as (A' & B' & C' & D' & E' & G').
  unfold run_adds in *. simpl. rewrite A, B, C, D, E, G. tauto.
Qed.

(* linking equations *)
Lemma append_at_length (k : nat) (e : eqn) (l : list (list eqn)) : length (append_at k e l) = length l.
Proof.
  revert k. induction l as [| x l IH]; intros k; simpl; [destruct k; reflexivity |].
  destruct k; simpl; [reflexivity | rewrite IH; reflexivity].
Qed.

Lemma append_at_nth (k : nat) (e : eqn) (l : list (list eqn)) (j : nat) :
  length (nth j (append_at k e l) []) =
  length (nth j l []) + (if (j =? k) && (j <? length l) then 1 else 0).
Proof.
  revert k j. induction l as [| x l IH]; intros k j; simpl.
  - destruct k; destruct j; simpl; rewrite ?andb_false_r; reflexivity.
  - destruct k; destruct j; simpl.
    + rewrite app_length. simpl. reflexivity.
    + lia.
    + lia.
    + rewrite IH. replace (S j <? S (length l)) with (j <? length l) by reflexivity. reflexivity.
Qed.

Definition sys_lengths (sys : list (list eqn)) (k : nat) : nat := length (nth k sys []).

Definition hits (new : list (nat * eqn)) (k : nat) : nat :=
  length (filter (fun ke => fst ke =? k) new).

Lemma link_fold (new : list (nat * eqn)) (sys : list (list eqn)) (total mx : nat) :
  let '(sys', total', mx') := fold_left link_one new (sys, total, mx) in
  length sys' = length sys /\ total' = total + length new /\ mx <= mx' /\
  forall k, k < length sys -> sys_lengths sys' k = sys_lengths sys k + hits new k.
Proof.
  revert sys total mx. induction new as [| ke new IH]; intros sys total mx; simpl.
  - repeat split; auto; try lia; intros k _; unfold hits; simpl; lia.
  - specialize (IH (append_at (fst ke) (snd ke) sys) (S total)
                   (if mx <? length (nth (fst ke) (append_at (fst ke) (snd ke) sys) [])
                    then length (nth (fst ke) (append_at (fst ke) (snd ke) sys) []) else mx)).
    destruct (fold_left link_one new _) as [[sys' total'] mx'].
    destruct IH as (L & T & M & N). rewrite append_at_length in L.
    repeat split; auto; try lia.
    + destruct (mx <? _) eqn:E; [apply Nat.ltb_lt in E |]; lia.
    + intros k Hk. rewrite append_at_length in N. rewrite (N k Hk).
      unfold sys_lengths. rewrite append_at_nth. unfold hits. simpl.
      destruct (fst ke =? k) eqn:E1.
      * apply Nat.eqb_eq in E1. subst k. rewrite Nat.eqb_refl.
        assert (E2 : (fst ke <? length sys) = true) by (apply Nat.ltb_lt; exact Hk).
        rewrite E2. simpl. lia.
      * rewrite Nat.eqb_sym in E1. rewrite E1. simpl. lia.
Qed.

(* the invariant vn_max_equations = largest per-system count *)
Definition max_len (sys : list (list eqn)) : nat := fold_right (fun x m => Nat.max (length x) m) 0 sys.

Lemma max_len_append_at (k : nat) (e : eqn) (l : list (list eqn)) :
  max_len (append_at k e l) = Nat.max (max_len l) (length (nth k (append_at k e l) [])).
Proof.
  revert k. induction l as [| x l IH]; intros k; simpl.
  - destruct k; reflexivity.
  - destruct k; simpl.
    + rewrite app_length. simpl. lia.
    + rewrite IH. lia.
Qed.

Lemma link_fold_max (new : list (nat * eqn)) (sys : list (list eqn)) (total mx : nat) :
  mx = max_len sys ->
  let '(sys', _, mx') := fold_left link_one new (sys, total, mx) in mx' = max_len sys'.
Proof.
  revert sys total mx. induction new as [| ke new IH]; intros sys total mx H; simpl; [exact H |].
  apply IH. rewrite max_len_append_at. rewrite <- H.
  destruct (mx <? _) eqn:E; [apply Nat.ltb_lt in E | apply Nat.ltb_ge in E]; lia.
Qed.

(* the contribution of one standard depends on the static configuration only *)
Definition accepted (cf : config) (merr : bool) (a : add_args) : bool :=
  match check_args cf a with
  | Accept => negb (merr && is_16 (cf_ty cf) && negb (s_complete (cf_p cf) (full_s cf a)))
  | _ => false
  end.

Definition contrib (cf : config) (merr : bool) (a : add_args) (k : nat) : nat :=
  if accepted cf merr a then length (filter (fun ke => fst ke =? k) (gen_equations cf a)) else 0.

Definition contrib_total (cf : config) (merr : bool) (a : add_args) : nat :=
  if accepted cf merr a then length (gen_equations cf a) else 0.

Lemma hits_map (idx : nat) (g : list (nat * (nat * nat))) (k : nat) :
  hits (map (fun '(s, rc) => (s, (idx, rc))) g) k = length (filter (fun ke => fst ke =? k) g).
Proof.
  unfold hits. induction g as [| [s rc] g IH]; simpl; [reflexivity |].
  destruct (s =? k); simpl; rewrite IH; reflexivity.
Qed.

Lemma add_effect (st : state) (a : add_args) :
  let st' := fst (add_std st a) in
  length (st_sys st') = length (st_sys st) /\
  st_equations st' = st_equations st + contrib_total (st_cf st) (st_merr st) a /\
  st_max st <= st_max st' /\
  (st_max st = max_len (st_sys st) -> st_max st' = max_len (st_sys st')) /\
  length (st_meas st') = length (st_meas st) + (if accepted (st_cf st) (st_merr st) a then 1 else 0) /\
  forall k, k < length (st_sys st) ->
       sys_count st' k = sys_count st k + contrib (st_cf st) (st_merr st) a k.
Proof.
  unfold add_std, contrib, contrib_total, accepted, sys_count.
  destruct (check_args (st_cf st) a); simpl; try (repeat split; auto; intros; lia).
  destruct (st_merr st && is_16 (cf_ty (st_cf st)) && negb (s_complete (cf_p (st_cf st)) (full_s (st_cf st) a)));
    simpl; try (repeat split; auto; intros; lia).
  set (new := map (fun '(k, rc) => (k, (length (st_meas st), rc))) (gen_equations (st_cf st) a)).
  pose proof (link_fold new (st_sys st) (st_equations st) (st_max st)) as LF.
  pose proof (link_fold_max new (st_sys st) (st_equations st) (st_max st)) as LM.
  destruct (fold_left link_one new _) as [[sys total] mx]. simpl.
  destruct LF as (L & T & M & N).
  repeat split; auto.
  - rewrite T. unfold new. rewrite map_length. reflexivity.
  - rewrite app_length. simpl. reflexivity.
  - intros k Hk. specialize (N k Hk). unfold sys_lengths in N. rewrite N.
    unfold new. rewrite hits_map. reflexivity.
Qed.

(* ------------------------------------------------------------------ adding a standard never decreases a count *)
Lemma add_monotone (st : state) (a : add_args) (k : nat) :
  sys_count st k <= sys_count (fst (add_std st a)) k /\
  st_equations st <= st_equations (fst (add_std st a)) /\
  st_max st <= st_max (fst (add_std st a)).
Proof.
  destruct (add_effect st a) as (L & T & M & _ & _ & N).
  repeat split; try lia.
  destruct (Nat.lt_ge_cases k (length (st_sys st))) as [Hk | Hk].
  - rewrite (N k Hk). lia.
  - unfold sys_count. rewrite (nth_overflow (st_sys st)) by lia. simpl. lia.
Qed.

(* ------------------------------------------------------------------ sums over a list of standards; permutations *)
Fixpoint sum_over (f : add_args -> nat) (l : list add_args) : nat :=
  match l with [] => 0 | a :: r => f a + sum_over f r end.

Lemma sum_over_perm (f : add_args -> nat) (l l' : list add_args) :
  Permutation l l' -> sum_over f l = sum_over f l'.
Proof. induction 1; simpl; lia. Qed.

Lemma run_adds_counts (l : list add_args) (st : state) :
  let st' := run_adds st l in
  length (st_sys st') = length (st_sys st) /\
  st_equations st' = st_equations st + sum_over (contrib_total (st_cf st) (st_merr st)) l /\
  (st_max st = max_len (st_sys st) -> st_max st' = max_len (st_sys st')) /\
  length (st_meas st') = length (st_meas st) + sum_over (fun a => if accepted (st_cf st) (st_merr st) a then 1 else 0) l /\
  forall k, k < length (st_sys st) ->
       sys_count st' k = sys_count st k + sum_over (fun a => contrib (st_cf st) (st_merr st) a k) l.
Proof.
  revert st. induction l as [| a l IH]; intros st; simpl.
  - repeat split; auto; intros; lia.
  - destruct (add_effect st a) as (L & T & _ & Mx & Ms & N).
    destruct (add_static st a) as (Cf & _ & _ & Me & _).
    specialize (IH (fst (add_std st a))). simpl in IH.
    destruct IH as (L' & T' & Mx' & Ms' & N').
    unfold run_adds in *. simpl.
    rewrite Cf, Me in *.
    repeat split.
    + lia.
    + lia.
    + auto.
    + lia.
    + intros k Hk. rewrite N' by lia. rewrite N by lia. lia.
Qed.

Lemma max_len_ext (a b : list (list eqn)) :
  length a = length b -> (forall k, k < length a -> length (nth k a []) = length (nth k b [])) ->
  max_len a = max_len b.
Proof.
  revert b. induction a as [| x a IH]; intros [| y b] L H; simpl in *; try discriminate; auto.
  rewrite (IH b).
  - specialize (H 0 (Nat.lt_0_succ _)). simpl in H. lia.
  - lia.
  - intros k Hk. apply (H (S k)). lia.
Qed.

Lemma init_shape (cf : config) (F : nat) (v : bool) :
  length (st_sys (init cf F v)) = systems (cf_ty cf) (cf_c cf) /\
  st_max (init cf F v) = max_len (st_sys (init cf F v)).
Proof.
  simpl. rewrite repeat_length. split; [reflexivity |].
  induction (systems (cf_ty cf) (cf_c cf)); simpl; auto.
Qed.

(* all the counters of two objects that were given the same standards in different orders agree *)
Lemma order_irrelevant (st : state) (l l' : list add_args) :
  Permutation l l' -> st_max st = max_len (st_sys st) ->
  let a := run_adds st l in let b := run_adds st l' in
  (forall k, sys_count a k = sys_count b k) /\
  st_equations a = st_equations b /\ st_max a = st_max b /\ length (st_meas a) = length (st_meas b).
Proof.
  intros P Hm a b.
  destruct (run_adds_counts l st) as (La & Ta & Ma & Sa & Na).
  destruct (run_adds_counts l' st) as (Lb & Tb & Mb & Sb & Nb).
  fold a in La, Ta, Ma, Sa, Na. fold b in Lb, Tb, Mb, Sb, Nb.
  assert (C : forall k, sys_count a k = sys_count b k).
  { intros k. destruct (Nat.lt_ge_cases k (length (st_sys st))) as [Hk | Hk].
    - rewrite Na, Nb by exact Hk. rewrite (sum_over_perm _ _ _ P). reflexivity.
    - unfold sys_count. rewrite !nth_overflow by lia. reflexivity. }
  repeat split.
  - exact C.
  - rewrite Ta, Tb. rewrite (sum_over_perm _ _ _ P). reflexivity.
  - rewrite (Ma Hm), (Mb Hm). apply max_len_ext; [lia |]. intros k _. apply C.
  - rewrite Sa, Sb. rewrite (sum_over_perm _ _ _ P). reflexivity.
Qed.

(* known parameters only: no unknown is ever counted *)
Lemma reg_known (fuel : nat) (acc : list nat * nat * nat) (k : nat) :
  snd (fst (reg_slot fuel [] acc k)) = snd (fst acc) /\ snd (reg_slot fuel [] acc k) = snd acc.
Proof.
  destruct acc as [[seen unk] cor]. destruct fuel; simpl; destruct (mem k seen); simpl; auto.
Qed.

Lemma reg_known_fold (fuel : nat) (cells : list nat) (acc : list nat * nat * nat) :
  snd (fst (fold_left (reg_slot fuel []) cells acc)) = snd (fst acc) /\
  snd (fold_left (reg_slot fuel []) cells acc) = snd acc.
Proof.
  revert acc. induction cells as [| k cells IH]; intros acc; simpl; [auto |].
  destruct (IH (reg_slot fuel [] acc k)) as (A & B).
  destruct (reg_known fuel acc k) as (C & D). rewrite A, B, C, D. auto.
Qed.

Lemma add_known (st : state) (a : add_args) :
  cf_kinds (st_cf st) = [] ->
  st_unknown (fst (add_std st a)) = st_unknown st /\ st_corr (fst (add_std st a)) = st_corr st.
Proof.
  intros K. unfold add_std. destruct (check_args (st_cf st) a); simpl; auto.
  rewrite K. simpl length.
  destruct (reg_known_fold 0 (a_cells a) (st_seen st, st_unknown st, st_corr st)) as (A & B). simpl in A, B.
  destruct (st_merr st && is_16 (cf_ty (st_cf st)) && negb (s_complete (cf_p (st_cf st)) (full_s (st_cf st) a)));
    simpl; auto.
  destruct (fold_left link_one _ _) as [[sys total] mx]. simpl. auto.
Qed.

Lemma run_adds_known (l : list add_args) (st : state) :
  cf_kinds (st_cf st) = [] ->
  st_unknown (run_adds st l) = st_unknown st /\ st_corr (run_adds st l) = st_corr st.
Proof.
  revert st. induction l as [| a l IH]; intros st K; simpl; [auto |].
  destruct (add_static st a) as (Cf & _).
  destruct (add_known st a K) as (A & B).
  unfold run_adds in *. simpl.
  destruct (IH (fst (add_std st a))) as (A' & B'); [rewrite Cf; exact K |].
  rewrite A', B', A, B. auto.
Qed.

Lemma existsb_pointwise {A} (p q : A -> bool) (l : list A) :
  (forall x, p x = q x) -> existsb p l = existsb q l.
Proof. intros H. induction l as [| x l IH]; simpl; [reflexivity | rewrite H, IH; reflexivity]. Qed.

Lemma known_deficient_by_counts (a b : state) :
  st_cf a = st_cf b -> st_unknown a = 0 -> st_unknown b = 0 ->
  (forall k, sys_count a k = sys_count b k) ->
  count_deficient a = count_deficient b.
Proof.
  intros Cf Ua Ub C. unfold count_deficient, short_system.
  rewrite (known_path_simple a Ua), (known_path_simple b Ub). rewrite Cf.
  apply existsb_pointwise. intros k. rewrite C. reflexivity.
Qed.

(* ------------------------------------------------------------------ the list of unknown parameters *)
Definition unk_of (kinds : list (nat * pkind)) (k : nat) : bool := is_unk_kind (kind_of kinds k).
Definition count_unk (kinds : list (nat * pkind)) (seen : list nat) : nat := length (filter (unk_of kinds) seen).

(* _vnacal_new_get_parameter counts exactly the registered parameters of kind unknown / correlated *)
Lemma reg_slot_counts (kinds : list (nat * pkind)) (fuel : nat) (acc : list nat * nat * nat) (k : nat) :
  snd (fst acc) = count_unk kinds (fst (fst acc)) ->
  snd (fst (reg_slot fuel kinds acc k)) = count_unk kinds (fst (fst (reg_slot fuel kinds acc k))).
Proof.
  revert acc k. induction fuel as [| f IH]; intros [[seen unk] cor] k H; simpl in *.
  - destruct (mem k seen); simpl; [exact H |].
    unfold count_unk, unk_of. destruct (kind_of kinds k) eqn:K; simpl; rewrite K; simpl; subst unk; reflexivity.
  - destruct (mem k seen); simpl; [exact H |].
    destruct (kind_of kinds k) eqn:K; simpl.
    + unfold count_unk, unk_of. simpl. rewrite K. simpl. exact H.
    + unfold count_unk, unk_of. simpl. rewrite K. simpl. subst unk. reflexivity.
    + specialize (IH (seen, unk, cor) other H).
      destruct (reg_slot f kinds (seen, unk, cor) other) as [[seen' unk'] cor']. simpl in IH.
      destruct (mem k seen'); simpl; [exact IH |].
      unfold count_unk, unk_of. simpl. rewrite K. simpl. subst unk'. reflexivity.
Qed.

Lemma reg_fold_counts (kinds : list (nat * pkind)) (fuel : nat) (cells : list nat) (acc : list nat * nat * nat) :
  snd (fst acc) = count_unk kinds (fst (fst acc)) ->
  snd (fst (fold_left (reg_slot fuel kinds) cells acc)) =
  count_unk kinds (fst (fst (fold_left (reg_slot fuel kinds) cells acc))).
Proof.
  revert acc. induction cells as [| k cells IH]; intros acc H; simpl; [exact H |].
  apply IH. apply reg_slot_counts. exact H.
Qed.

Definition unk_inv (st : state) : Prop := st_unknown st = count_unk (cf_kinds (st_cf st)) (st_seen st).

Lemma unknown_list_length (st : state) : unk_inv st -> length (unknown_list st) = st_unknown st.
Proof.
  unfold unk_inv, unknown_list, count_unk, unk_of. intros H. rewrite H.
  generalize (st_seen st). intros l. induction l as [| x l IH]; simpl; [reflexivity |].
  rewrite filter_app, app_length. simpl. rewrite IH.
  destruct (is_unk_kind (kind_of (cf_kinds (st_cf st)) x)); simpl; lia.
Qed.

Lemma add_unk_inv (st : state) (a : add_args) : unk_inv st -> unk_inv (fst (add_std st a)).
Proof.
  unfold unk_inv, add_std. intros H. destruct (check_args (st_cf st) a); simpl; auto.
  destruct (st_merr st && is_16 (cf_ty (st_cf st)) && negb (s_complete (cf_p (st_cf st)) (full_s (st_cf st) a)));
    simpl; auto.
  destruct (fold_left link_one _ _) as [[sys total] mx]. simpl.
  apply (reg_fold_counts (cf_kinds (st_cf st)) (length (cf_kinds (st_cf st))) (a_cells a)
                         (st_seen st, st_unknown st, st_corr st)). exact H.
Qed.

Lemma init_unk_inv (cf : config) (F : nat) (v : bool) : kind_of (cf_kinds cf) 0 = PKnown -> unk_inv (init cf F v).
Proof. unfold unk_inv, count_unk, unk_of. simpl. intros H. rewrite H. reflexivity. Qed.

Lemma step_unk_inv (o : oracle) (st : state) (x : op) : unk_inv st -> unk_inv (fst (step o st x)).
Proof.
  intros H. destruct x; simpl.
  - apply add_unk_inv. exact H.
  - destruct (solve_keeps_standards o af st) as (E1 & _ & _ & _ & E5 & E6 & _). unfold unk_inv. rewrite E1, E5, E6. exact H.
  - unfold set_m_error. destruct (negb on); [exact H |]. destruct (negb (st_fvalid st)); [exact H |].
    destruct (_ && _); exact H.
  - unfold take_cal. destruct (st_cal st); exact H.
Qed.

Lemma run_cons (o : oracle) (st : state) (x : op) (rest : list op) :
  fst (run o st (x :: rest)) = fst (run o (fst (step o st x)) rest).
Proof.
  simpl. destruct (step o st x) as [st1 out]. simpl. destruct (run o st1 rest). reflexivity.
Qed.

(* along every history the counter vn_unknown_parameters is the length of the unknown-parameter list *)
Lemma run_unk_inv (o : oracle) (ops : list op) (st : state) : unk_inv st -> unk_inv (fst (run o st ops)).
Proof.
  revert st. induction ops as [| x ops IH]; intros st H; [exact H |].
  rewrite run_cons. apply IH. apply step_unk_inv. exact H.
Qed.

Lemma unknown_counter_is_list_length_l (o : oracle) (cf : config) (F : nat) (v : bool) (ops : list op) :
  kind_of (cf_kinds cf) 0 = PKnown ->
  let st := fst (run o (init cf F v) ops) in length (unknown_list st) = st_unknown st.
Proof.
  intros K. apply unknown_list_length. apply run_unk_inv. apply init_unk_inv. exact K.
Qed.

(* ------------------------------------------------------------------ histories: failed solves are invisible *)
(* every solve of the history fails, none of them by an allocation failure inside the write-back *)
Fixpoint all_solves_fail (o : oracle) (st : state) (ops : list op) : Prop :=
  match ops with
  | [] => True
  | OpSolve af :: rest =>
    wb_fault af = false /\ snd (solve o af st) <> Ok /\ all_solves_fail o (fst (solve o af st)) rest
  | x :: rest => all_solves_fail o (fst (step o st x)) rest
  end.

Lemma failed_solves_invisible (o : oracle) (ops : list op) (st : state) :
  all_solves_fail o st ops -> fst (run o st ops) = fst (run o st (remove_solves ops)).
Proof.
  revert st. induction ops as [| x ops IH]; intros st H; [reflexivity |].
  destruct x; simpl remove_solves; simpl in H.
  - rewrite !run_cons. apply IH. exact H.
  - destruct H as [Hw [Hf Hr]]. rewrite run_cons. simpl step.
    rewrite (solve_fail_unchanged o af st Hw Hf) in *. apply IH. exact Hr.
  - rewrite !run_cons. apply IH. exact H.
  - rewrite !run_cons. apply IH. exact H.
Qed.

Lemma run_app (o : oracle) (a b : list op) (st : state) :
  run o st (a ++ b) = (fst (run o (fst (run o st a)) b), snd (run o st a) ++ snd (run o (fst (run o st a)) b)).
Proof.
  revert st. induction a as [| x a IH]; intros st; simpl.
  - destruct (run o st b). reflexivity.
  - destruct (step o st x) as [st1 out]. rewrite IH.
    destruct (run o st1 a) as [st2 outs]. simpl. reflexivity.
Qed.

(* a history without solves is the list of its adds / set_m_error / add_calibration calls *)
Lemma run_adds_as_run (o : oracle) (l : list add_args) (st : state) :
  fst (run o st (map OpAdd l)) = run_adds st l.
Proof.
  revert st. induction l as [| a l IH]; intros st; [reflexivity |].
  simpl map. rewrite run_cons. simpl step. rewrite IH. reflexivity.
Qed.

(* retry: after any number of failed attempts, the solve succeeds as soon as the count test of the
   dispatched solver is met and the numeric verdict is positive - and it then leaves exactly the state
   that the history without the failed attempts would have left *)
Lemma retry_succeeds (o : oracle) (st : state) (ops : list op) :
  all_solves_fail o st ops ->
  let st' := fst (run o st (remove_solves ops)) in
  st_fvalid st' = true -> count_deficient st' = false ->
  (forall f, f < st_freqs st' -> numeric_ok o st' f = true) ->
  run o st (ops ++ [OpSolve NoFault]) = (solved st', snd (run o st ops) ++ [Ok]).
Proof.
  intros H st' Hv Hd Hn. rewrite run_app. rewrite (failed_solves_invisible o ops st H). fold st'.
  simpl run.
  assert (K : snd (solve o NoFault st') = Ok) by (apply solve_ok_iff; auto).
  rewrite (solve_ok_nofault o st' K). reflexivity.
Qed.

(* ... and conversely it keeps failing with EDOM, unchanged, while the count test is not met *)
Lemma retry_still_deficient (o : oracle) (st : state) (ops : list op) :
  all_solves_fail o st ops ->
  let st' := fst (run o st (remove_solves ops)) in
  st_fvalid st' = true -> 0 < st_freqs st' -> count_deficient st' = true ->
  run o st (ops ++ [OpSolve NoFault]) = (st', snd (run o st ops) ++ [Err EDOM]).
Proof.
  intros H st' Hv Hf Hd. rewrite run_app. rewrite (failed_solves_invisible o ops st H). fold st'.
  simpl run. rewrite (deficient_edom o st' Hv Hf Hd). reflexivity.
Qed.

(* the documented flow: solve fails for want of standards; add standards; solve again *)
Lemma add_until_determined (o : oracle) (st : state) (more : list add_args) :
  st_fvalid st = true -> 0 < st_freqs st -> count_deficient st = true ->
  let st1 := fst (solve o NoFault st) in
  let st2 := run_adds st1 more in
  count_deficient st2 = false -> (forall f, f < st_freqs st2 -> numeric_ok o st2 f = true) ->
  solve o NoFault st = (st, Err EDOM) /\ st2 = run_adds st more /\ solve o NoFault st2 = (solved st2, Ok).
Proof.
  intros Hv Hf Hd st1 st2 Hd2 Hn.
  pose proof (deficient_edom o st Hv Hf Hd) as E.
  assert (E1 : st1 = st) by (unfold st1; rewrite E; reflexivity).
  split; [exact E |]. split; [unfold st2; rewrite E1; reflexivity |].
  apply solve_ok_nofault. apply solve_ok_iff. split.
  - unfold st2. destruct (run_adds_static more st1) as (_ & _ & Fv & _). rewrite Fv, E1. exact Hv.
  - right. split; assumption.
Qed.

(* even successful solves only replace the results: what a later solve reports is the same *)
Lemma step_same_but_results (o : oracle) (a b : state) (x : op) :
  same_but_results a b -> x <> OpTakeCal -> is_solve x = false ->
  same_but_results (fst (step o a x)) (fst (step o b x)) /\ snd (step o a x) = snd (step o b x).
Proof.
  intros S Hx Hs. unfold same_but_results in S.
  destruct S as (E1 & E2 & E3 & E4 & E5 & E6 & E7 & E8 & E9 & E10 & E11).
  destruct a as [cf fr fv me se un co ms sy eq mx ca pa], b as [cf' fr' fv' me' se' un' co' ms' sy' eq' mx' ca' pa'].
  simpl in *. subst cf' fr' fv' me' se' un' co' ms' sy' eq' mx'.
  destruct x; try congruence; try discriminate.
  - (* add *) simpl step. unfold add_std. simpl.
    destruct (check_args cf a); simpl; unfold same_but_results; simpl; try tauto.
    destruct (me && is_16 (cf_ty cf) && negb (s_complete (cf_p cf) (full_s cf a))); simpl; try tauto.
    destruct (fold_left link_one _ _) as [[sys total] m']. simpl. tauto.
  - (* merr *) simpl step. unfold set_m_error. simpl.
    destruct (negb on); simpl; unfold same_but_results; simpl; try tauto.
    destruct (negb fv); simpl; try tauto.
    destruct (is_16 (cf_ty cf) && negb (forallb (fun m => s_complete (cf_p cf) (ms_s m)) ms)); simpl; tauto.
Qed.

(* ------------------------------------------------------------------ the statements of Properties_C20.v *)
Lemma underdetermined_edom_l (o : oracle) (cf : config) (F : nat) (stds : list add_args) (k : nat) :
  let st := run_adds (init cf F true) stds in
  0 < F -> st_unknown st = 0 -> k < systems (cf_ty cf) (cf_c cf) ->
  sys_count st k < unknowns (cf_ty cf) (cf_r cf) (cf_c cf) ->
  solve o NoFault st = (st, Err EDOM).
Proof.
  intros st HF Hu Hk Hc.
  destruct (run_adds_static stds (init cf F true)) as (Cf & Fr & Fv & _). fold st in Cf, Fr, Fv.
  simpl in Cf, Fr, Fv.
  apply deficient_edom.
  - rewrite Fv. reflexivity.
  - rewrite Fr. exact HF.
  - apply (short_system_deficient st k Hu); rewrite Cf; assumption.
Qed.

(* unknown parameters, iterative solver: equations + correlated < error terms + unknown parameters *)
Lemma underdetermined_auto_edom_l (o : oracle) (cf : config) (F : nat) (stds : list add_args) :
  let st := run_adds (init cf F true) stds in
  0 < F -> st_unknown st <> 0 -> is_trl st = false ->
  st_equations st + st_corr st <
    systems (cf_ty cf) (cf_c cf) * unknowns (cf_ty cf) (cf_r cf) (cf_c cf) + st_unknown st ->
  solve o NoFault st = (st, Err EDOM).
Proof.
  intros st HF Hu Ht Hc.
  destruct (run_adds_static stds (init cf F true)) as (Cf & Fr & Fv & _). fold st in Cf, Fr, Fv.
  simpl in Cf, Fr, Fv.
  apply deficient_edom.
  - rewrite Fv. reflexivity.
  - rewrite Fr. exact HF.
  - apply (auto_total_deficient st Hu Ht). unfold x_length. rewrite Cf. exact Hc.
Qed.

(* no frequencies: the loop does not run, the solve succeeds whatever was added (as coded) *)
Lemma zero_frequencies_ok_l (o : oracle) (st : state) :
  st_fvalid st = true -> st_freqs st = 0 -> solve o NoFault st = (solved st, Ok).
Proof. intros Hv Hf. apply solve_ok_nofault. apply solve_ok_iff. auto. Qed.

Lemma order_irrelevant_init (cf : config) (F : nat) (v : bool) (l l' : list add_args) :
  Permutation l l' ->
  let a := run_adds (init cf F v) l in let b := run_adds (init cf F v) l' in
  (forall k, sys_count a k = sys_count b k) /\
  st_equations a = st_equations b /\ st_max a = st_max b /\ length (st_meas a) = length (st_meas b).
Proof.
  intros P. apply order_irrelevant; [exact P |]. apply (proj2 (init_shape cf F v)).
Qed.

Lemma order_irrelevant_count_test_known_l (cf : config) (F : nat) (v : bool) (l l' : list add_args) :
  cf_kinds cf = [] -> Permutation l l' ->
  count_deficient (run_adds (init cf F v) l) = count_deficient (run_adds (init cf F v) l').
Proof.
  intros K P.
  destruct (run_adds_static l (init cf F v)) as (Ca & _).
  destruct (run_adds_static l' (init cf F v)) as (Cb & _).
  destruct (run_adds_known l (init cf F v) K) as (Ua & _).
  destruct (run_adds_known l' (init cf F v) K) as (Ub & _).
  apply known_deficient_by_counts.
  - rewrite Ca, Cb. reflexivity.
  - rewrite Ua. reflexivity.
  - rewrite Ub. reflexivity.
  - apply (order_irrelevant_init cf F v l l' P).
Qed.

(* hence, for known standards and at least one frequency, too few standards are reported in every order *)
Lemma order_irrelevant_edom_known_l (o : oracle) (cf : config) (F : nat) (l l' : list add_args) :
  cf_kinds cf = [] -> Permutation l l' -> 0 < F ->
  count_deficient (run_adds (init cf F true) l) = true ->
  solve o NoFault (run_adds (init cf F true) l') = (run_adds (init cf F true) l', Err EDOM).
Proof.
  intros K P HF D.
  destruct (run_adds_static l' (init cf F true)) as (_ & Fb & Vb & _). simpl in *.
  apply deficient_edom; [rewrite Vb; reflexivity | rewrite Fb; exact HF |].
  rewrite <- (order_irrelevant_count_test_known_l cf F true l l' K P). exact D.
Qed.

(* a computable sufficient condition for all_solves_fail (used for the non-vacuity examples):
   at every solve of the history the count test is not met *)
Fixpoint solves_deficient (st : state) (ops : list op) : bool :=
  match ops with
  | [] => true
  | OpSolve af :: rest =>
    negb (wb_fault af) && st_fvalid st && (0 <? st_freqs st) && count_deficient st && solves_deficient st rest
  | x :: rest => solves_deficient (fst (step (fun _ _ _ => true) st x)) rest
  end.

Lemma solve_deficient_any_fault (o : oracle) (af : afault) (st : state) :
  wb_fault af = false -> st_fvalid st = true -> 0 < st_freqs st -> count_deficient st = true ->
  fst (solve o af st) = st /\ snd (solve o af st) <> Ok.
Proof.
  intros W Hv Hf Hd. destruct af; try discriminate.
  - rewrite (deficient_edom o st Hv Hf Hd). simpl. split; [reflexivity | discriminate].
  - unfold solve. rewrite Hv. simpl. split; [reflexivity | discriminate].
Qed.

Lemma solves_deficient_fail (o : oracle) (ops : list op) (st : state) :
  solves_deficient st ops = true -> all_solves_fail o st ops.
Proof.
  revert st. induction ops as [| x ops IH]; intros st H; simpl; [exact I |].
  destruct x; simpl in H.
  - apply IH. exact H.
  - apply andb_prop in H. destruct H as [H Hr]. apply andb_prop in H. destruct H as [H Hd].
    apply andb_prop in H. destruct H as [H Hf]. apply andb_prop in H. destruct H as [Hw Hv].
    apply Nat.ltb_lt in Hf. apply negb_true_iff in Hw.
    destruct (solve_deficient_any_fault o af st Hw Hv Hf Hd) as [E N].
    split; [exact Hw |]. split; [exact N |]. rewrite E. apply IH. exact Hr.
  - apply IH. exact H.
  - apply IH. exact H.
Qed.
