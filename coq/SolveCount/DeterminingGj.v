(* Both directions for the Gauss-Jordan elimination of LsSpec.gj_solve (the solver the tall branch of
   CalQI.q_solve_system runs on the normal equations), over any field with a correct zero test:
     gj_solve_complete : N has only the zero vector in its kernel  ->  gj_solve n o N c = Some X and N X = c
     gj_solve_some_trivial : gj_solve n o N c = Some X             ->  N has only the zero vector in its kernel
   for EVERY n, o.  Invariant: every step replaces the augmented rows [N | c] by rows with the same
   solution set {v : sum_k row_k v_k = 0 for every row} (the row operations are invertible) and makes one
   more column of the left block a unit column; when no pivot is found in column t the vector
   (-S(0,t), .., -S(t-1,t), 1, 0, ..) is in the kernel.
   Lemmas only; used by DeterminingProofs.v. *)
Require Import List Arith Lia Bool.
Import ListNotations.
Require Import LV.Base.CField LV.Lin.MatL LV.Lin.LuGenA LV.Lin.LsSpec.
Local Open Scope cf_scope.

Section Gj.
Variable K : CField.
Variable isz : K -> bool.
Hypothesis isz_spec : forall x, isz x = true <-> x = 0.
Add Field KfGj : (cth K).

Notation mat := (mat K).

(* sum_k row_k v_k over the W columns of an augmented row *)
Definition rdotv (W : nat) (r : list K) (v : nat -> K) : K := sumf W (fun k => nth k r 0 * v k).
Definition sat (n W : nat) (S : list (list K)) (v : nat -> K) : Prop :=
  forall i, i < n -> rdotv W (nth i S []) v = 0.
Definition unit_cols (n t : nat) (S : list (list K)) : Prop :=
  forall i j, i < n -> j < t -> nth j (nth i S []) 0 = (if Nat.eqb i j then 1 else 0).

Lemma nth_map_lt {A B} (f : A -> B) (l : list A) (d : A) (d' : B) (i : nat) :
  i < length l -> nth i (map f l) d' = f (nth i l d).
Proof.
  revert i. induction l as [|y l IH]; intros i H; cbn in H; [lia|].
  destruct i as [|i]; cbn; [reflexivity | apply IH; lia].
Qed.

Lemma nth_combine_lt {A B} (l1 : list A) (l2 : list B) d1 d2 i :
  i < length l1 -> i < length l2 -> nth i (combine l1 l2) (d1, d2) = (nth i l1 d1, nth i l2 d2).
Proof.
  revert l2 i. induction l1 as [|x l1 IH]; intros [|y l2] i H1 H2; cbn in *; try lia.
  destruct i as [|i]; [reflexivity | apply IH; lia].
Qed.

Lemma wf_nth_length n W (S : list (list K)) i : wf n W S -> i < n -> length (nth i S []) = W.
Proof. intros Hw Hi. exact (wf_row K n W S i Hw Hi). Qed.

Lemma find_some_seq (f : nat -> bool) a len p :
  find f (seq a len) = Some p -> a <= p < a + len /\ f p = true.
Proof.
  intros H. apply find_some in H. destruct H as [Hin Hf]. apply in_seq in Hin. split; [lia | exact Hf].
Qed.

Lemma find_none_seq (f : nat -> bool) a len :
  find f (seq a len) = None -> forall p, a <= p < a + len -> f p = false.
Proof. intros H p Hp. apply (find_none _ _ H). apply in_seq. lia. Qed.

(* ---------------------------------------------------------------- one step that finds a pivot *)
Section Step.
Variables (n W : nat) (S S' : list (list K)) (col : nat).
Hypothesis HW : n <= W.
Hypothesis Hw : wf n W S.
Hypothesis Hc : col < n.
Hypothesis Hs : gj_step K isz n (Some S) col = Some S'.

Lemma step_shape :
  exists p pv, col <= p < n /\ pv = nth col (nth p S []) 0 /\ pv <> 0 /\
    forall i, i < n ->
      nth i S' [] =
      (if Nat.eqb i col then map (fun x => x / pv) (nth p S [])
       else let r := nth (if Nat.eqb i p then col else i) S [] in
            map (fun xy => snd xy - nth col r 0 * fst xy) (combine (map (fun x => x / pv) (nth p S [])) r)).
Proof.
  cbn [gj_step] in Hs.
  destruct (find _ _) as [p|] eqn:Ef; [|discriminate].
  apply find_some_seq in Ef. destruct Ef as [Hp Hz].
  assert (Hpn : col <= p < n) by lia.
  destruct Hw as [Hl _].
  exists p, (nth col (nth p S []) 0). split; [exact Hpn|]. split; [reflexivity|].
  assert (Hpv : nth col (nth p S []) 0 <> 0).
  { intro E. apply isz_spec in E. rewrite E in Hz. discriminate. }
  split; [exact Hpv|].
  injection Hs as <-. intros i Hi. rewrite (nth_map_seq _ n i []) by exact Hi.
  assert (E1 : nth col (swap_rows [] S p col) [] = nth p S []).
  { rewrite nth_swap_rows by lia. rewrite Nat.eqb_refl. reflexivity. }
  rewrite E1.
  destruct (Nat.eqb_spec i col) as [->|Hic]; [reflexivity|].
  cbv zeta. rewrite nth_swap_rows by lia.
  destruct (Nat.eqb_spec i col) as [|_]; [contradiction|].
  destruct (Nat.eqb_spec i p) as [->|Hip]; reflexivity.
Qed.

Lemma step_wf : wf n W S'.
Proof.
  destruct step_shape as (p & pv & Hp & _ & _ & Hrows).
  assert (Hl' : length S' = n).
  { cbn [gj_step] in Hs. destruct (find _ _); [|discriminate]. injection Hs as <-.
    rewrite map_length, seq_length. reflexivity. }
  split; [exact Hl'|].
  apply Forall_forall. intros r Hr. destruct (In_nth _ _ [] Hr) as (i & Hi & <-).
  rewrite Hl' in Hi. rewrite (Hrows i Hi).
  destruct (Nat.eqb i col).
  - rewrite map_length. apply wf_nth_length with (n := n); [exact Hw | lia].
  - cbv zeta. rewrite map_length, combine_length, map_length.
    rewrite !(wf_nth_length n W S) by (try exact Hw; destruct (Nat.eqb i p); lia). lia.
Qed.

(* entries of the new rows *)
Lemma step_entries :
  exists p pv, col <= p < n /\ pv = nth col (nth p S []) 0 /\ pv <> 0 /\
    forall i k, i < n -> k < W ->
      nth k (nth i S' []) 0 =
      (if Nat.eqb i col then nth k (nth p S []) 0 / pv
       else let r := nth (if Nat.eqb i p then col else i) S [] in
            nth k r 0 - nth col r 0 * (nth k (nth p S []) 0 / pv)).
Proof.
  destruct step_shape as (p & pv & Hp & Epv & Hpv & Hrows).
  exists p, pv. split; [exact Hp|]. split; [exact Epv|]. split; [exact Hpv|].
  intros i k Hi Hk. rewrite (Hrows i Hi).
  assert (Lp : length (nth p S []) = W) by (apply wf_nth_length with (n := n); [exact Hw | lia]).
  destruct (Nat.eqb i col).
  - rewrite (nth_map_lt _ _ 0) by lia. reflexivity.
  - cbv zeta. set (r := nth (if Nat.eqb i p then col else i) S []).
    assert (Lr : length r = W) by (apply wf_nth_length with (n := n); [exact Hw | destruct (Nat.eqb i p); lia]).
    rewrite (nth_map_lt _ _ (0, 0)) by (rewrite combine_length, map_length; lia).
    rewrite nth_combine_lt by (rewrite ?map_length; lia). cbn [fst snd].
    rewrite (nth_map_lt _ _ 0) by lia. reflexivity.
Qed.

Lemma step_sat (v : nat -> K) : sat n W S' v <-> sat n W S v.
Proof.
  destruct step_entries as (p & pv & Hp & Epv & Hpv & He).
  (* the dot products of the new rows *)
  assert (Dcol : rdotv W (nth col S' []) v = rdotv W (nth p S []) v / pv).
  { unfold rdotv.
    transitivity (sumf W (fun k => nth k (nth p S []) 0 * v k) * (1 / pv)).
    2:{ field. exact Hpv. }
    rewrite sumf_scale_r. apply sumf_ext. intros k Hk. rewrite (He col k Hc Hk), Nat.eqb_refl.
    field. exact Hpv. }
  assert (Dother : forall i, i < n -> i <> col ->
            rdotv W (nth i S' []) v =
            rdotv W (nth (if Nat.eqb i p then col else i) S []) v -
            nth col (nth (if Nat.eqb i p then col else i) S []) 0 * (rdotv W (nth p S []) v / pv)).
  { intros i Hi Hic. unfold rdotv.
    set (r := nth (if Nat.eqb i p then col else i) S []).
    transitivity (sumf W (fun k => nth k r 0 * v k + (- (nth col r 0 / pv)) * (nth k (nth p S []) 0 * v k))).
    { apply sumf_ext. intros k Hk. rewrite (He i k Hi Hk).
      destruct (Nat.eqb_spec i col); [contradiction|]. cbv zeta. fold r. field. exact Hpv. }
    rewrite sumf_add, <- sumf_scale_l. field. exact Hpv. }
  split; intros H i Hi.
  - (* old rows from new rows *)
    assert (Zp : rdotv W (nth p S []) v = 0).
    { pose proof (H col Hc) as E. rewrite Dcol in E.
      transitivity (rdotv W (nth p S []) v / pv * pv); [field; exact Hpv | rewrite E; ring]. }
    destruct (Nat.eq_dec i p) as [->|Hip]; [exact Zp|].
    destruct (Nat.eq_dec i col) as [->|Hic].
    + (* row col of S is row p of the swapped matrix *)
      assert (Hpc : p <> col) by congruence.
      pose proof (H p ltac:(lia)) as E. rewrite (Dother p ltac:(lia) Hpc) in E.
      rewrite Nat.eqb_refl in E. rewrite Zp in E.
      transitivity (rdotv W (nth col S []) v - nth col (nth col S []) 0 * (0 / pv)); [field; exact Hpv | exact E].
    + pose proof (H i Hi) as E. rewrite (Dother i Hi Hic) in E.
      destruct (Nat.eqb_spec i p); [contradiction|]. rewrite Zp in E.
      transitivity (rdotv W (nth i S []) v - nth col (nth i S []) 0 * (0 / pv)); [field; exact Hpv | exact E].
  - destruct (Nat.eq_dec i col) as [->|Hic].
    + rewrite Dcol, (H p ltac:(lia)). field. exact Hpv.
    + rewrite (Dother i Hi Hic), (H p ltac:(lia)).
      rewrite (H (if Nat.eqb i p then col else i)) by (destruct (Nat.eqb i p); lia).
      field. exact Hpv.
Qed.

Lemma step_unit : unit_cols n col S -> unit_cols n (Datatypes.S col) S'.
Proof.
  intros Hu. destruct step_entries as (p & pv & Hp & Epv & Hpv & He).
  intros i j Hi Hj. rewrite (He i j Hi ltac:(lia)).
  destruct (Nat.eq_dec j col) as [->|Hjc].
  - (* the pivot column *)
    rewrite <- Epv. destruct (Nat.eqb_spec i col) as [->|Hic]; [field; exact Hpv|].
    cbv zeta. field. exact Hpv.
  - assert (Hjl : j < col) by lia.
    assert (Zp : nth j (nth p S []) 0 = 0).
    { rewrite (Hu p j ltac:(lia) Hjl). destruct (Nat.eqb_spec p j); [lia | reflexivity]. }
    rewrite Zp. destruct (Nat.eqb_spec i col) as [->|Hic].
    + destruct (Nat.eqb_spec col j); [lia|]. field. exact Hpv.
    + cbv zeta. destruct (Nat.eqb_spec i p) as [->|Hip].
      * rewrite (Hu col j Hc Hjl). destruct (Nat.eqb_spec col j); [lia|].
        destruct (Nat.eqb_spec p j); [lia|]. field. exact Hpv.
      * rewrite (Hu i j Hi Hjl). field. exact Hpv.
Qed.
End Step.

(* ---------------------------------------------------------------- a step that finds no pivot *)
Lemma step_none_kernel n W (S : list (list K)) col :
  n <= W -> wf n W S -> col < n -> unit_cols n col S -> gj_step K isz n (Some S) col = None ->
  exists v, sat n W S v /\ v col = 1 /\ forall k, col < k -> v k = 0.
Proof.
  intros HW Hw Hc Hu Hs. cbn [gj_step] in Hs.
  destruct (find _ _) as [p|] eqn:Ef; [discriminate|].
  pose proof (find_none_seq _ _ _ Ef) as Hz.
  assert (Hzero : forall i, col <= i < n -> nth col (nth i S []) 0 = 0).
  { intros i Hi. specialize (Hz i ltac:(lia)). apply negb_false_iff in Hz. apply isz_spec. exact Hz. }
  set (v := fun k => if Nat.eqb k col then (1 : K) else if Nat.ltb k col then - nth col (nth k S []) 0 else 0).
  exists v. split; [|split].
  - intros i Hi. unfold rdotv.
    replace W with (col + (1 + (W - col - 1)))%nat by lia.
    rewrite sumf_split, sumf_split.
    assert (E3 : sumf (W - col - 1) (fun k => nth (col + (1 + k)) (nth i S []) 0 * v (col + (1 + k))%nat) = 0).
    { apply sumf_zero. intros k _. unfold v.
      destruct (Nat.eqb_spec (col + (1 + k)) col); [lia|].
      destruct (Nat.ltb_spec (col + (1 + k)) col); [lia|]. ring. }
    rewrite E3. cbn [LuGenA.sumf]. rewrite Nat.add_0_r.
    assert (E2 : v col = 1) by (unfold v; rewrite Nat.eqb_refl; reflexivity).
    rewrite E2.
    assert (E1 : sumf col (fun k => nth k (nth i S []) 0 * v k) =
                 if Nat.ltb i col then - nth col (nth i S []) 0 else 0).
    { rewrite (sumf_ext K col _ (fun k => if Nat.eqb k i then - nth col (nth k S []) 0 else 0)).
      - destruct (Nat.ltb_spec i col) as [Hl|Hl]; [apply (sumf_single K col i (fun k => - nth col (nth k S []) 0) Hl)|].
        apply sumf_zero. intros k Hk. destruct (Nat.eqb_spec k i); [lia | reflexivity].
      - intros k Hk. rewrite (Hu i k Hi Hk). unfold v.
        destruct (Nat.eqb_spec k col); [lia|]. destruct (Nat.ltb_spec k col); [|lia].
        destruct (Nat.eqb_spec i k) as [Ea|Ea]; destruct (Nat.eqb_spec k i) as [Eb|Eb]; try lia; try (exfalso; congruence); ring. }
    rewrite E1. destruct (Nat.ltb_spec i col) as [Hl|Hl]; [ring|].
    rewrite (Hzero i ltac:(lia)). ring.
  - unfold v. rewrite Nat.eqb_refl. reflexivity.
  - intros k Hk. unfold v. destruct (Nat.eqb_spec k col); [lia|]. destruct (Nat.ltb_spec k col); [lia | reflexivity].
Qed.

(* ---------------------------------------------------------------- the sweep *)
Definition gj_upto (n : nat) (S0 : list (list K)) (t : nat) : option (list (list K)) :=
  fold_left (gj_step K isz n) (seq 0 t) (Some S0).

Lemma gj_upto_S n S0 t : gj_upto n S0 (Datatypes.S t) = gj_step K isz n (gj_upto n S0 t) t.
Proof. unfold gj_upto. rewrite seq_S, fold_left_app. reflexivity. Qed.

Lemma gj_upto_inv n W S0 : n <= W -> wf n W S0 -> forall t, t <= n ->
  match gj_upto n S0 t with
  | Some R => wf n W R /\ (forall v, sat n W R v <-> sat n W S0 v) /\ unit_cols n t R
  | None => exists v k, sat n W S0 v /\ k < n /\ v k = 1 /\ forall j, k < j -> v j = 0
  end.
Proof.
  intros HW Hw. induction t as [|t IH]; intros Ht.
  - cbn. split; [exact Hw|]. split; [intros v; reflexivity|]. intros i j _ Hj. lia.
  - specialize (IH ltac:(lia)). rewrite gj_upto_S.
    destruct (gj_upto n S0 t) as [S|]; [|exact IH].
    destruct IH as (HwS & Hsat & Hu).
    destruct (gj_step K isz n (Some S) t) as [S'|] eqn:Es.
    + split; [exact (step_wf n W S S' t HW HwS ltac:(lia) Es)|]. split.
      * intros v. rewrite (step_sat n W S S' t HW HwS ltac:(lia) Es v). apply Hsat.
      * exact (step_unit n W S S' t HW HwS ltac:(lia) Es Hu).
    + destruct (step_none_kernel n W S t HW HwS ltac:(lia) Hu Es) as (v & Hv & H1 & H0).
      exists v, t. split; [apply Hsat; exact Hv|]. split; [lia|]. split; assumption.
Qed.

(* ---------------------------------------------------------------- the augmented matrix of gj_solve *)
Definition aug_of (n o : nat) (N c : mat) : list (list K) :=
  map (fun i => firstn n (mrow K N i ++ repeat 0 n) ++ firstn o (mrow K c i ++ repeat 0 o)) (seq 0 n).

Lemma firstn_pad_length (l : list K) n : length (firstn n (l ++ repeat 0 n)) = n.
Proof. rewrite firstn_length, app_length, repeat_length. lia. Qed.

Lemma nth_firstn_lt {A} (l : list A) (d : A) n k : k < n -> nth k (firstn n l) d = nth k l d.
Proof.
  revert l k. induction n as [|n IH]; intros l k Hk; [lia|].
  destruct l as [|x l]; [reflexivity|]. destruct k as [|k]; [reflexivity|]. cbn. apply IH. lia.
Qed.

Lemma nth_skipn_add {A} (l : list A) (d : A) n k : nth k (skipn n l) d = nth (n + k) l d.
Proof.
  revert l. induction n as [|n IH]; intros l; [reflexivity|].
  destruct l as [|x l]; [destruct k; reflexivity|]. cbn. apply IH.
Qed.

Lemma nth_firstn_pad (l : list K) n k : k < n -> nth k (firstn n (l ++ repeat 0 n)) 0 = nth k l 0.
Proof.
  intros Hk. rewrite nth_firstn_lt by exact Hk.
  destruct (Nat.lt_ge_cases k (length l)) as [H|H].
  - apply app_nth1. exact H.
  - rewrite app_nth2 by exact H. rewrite nth_repeat. symmetry. apply nth_overflow. exact H.
Qed.

Lemma aug_wf n o N c : wf n (n + o) (aug_of n o N c).
Proof.
  split; [unfold aug_of; rewrite map_length, seq_length; reflexivity|].
  apply Forall_forall. intros r Hr. unfold aug_of in Hr. apply in_map_iff in Hr. destruct Hr as (i & <- & _).
  rewrite app_length, !firstn_pad_length. reflexivity.
Qed.

Lemma aug_entry_l n o N c i k : i < n -> k < n -> nth k (nth i (aug_of n o N c) []) 0 = mget K N i k.
Proof.
  intros Hi Hk. unfold aug_of. rewrite (nth_map_seq _ n i []) by exact Hi.
  rewrite app_nth1 by (rewrite firstn_pad_length; exact Hk). apply nth_firstn_pad. exact Hk.
Qed.

Lemma aug_entry_r n o N c i j : i < n -> j < o -> nth (n + j) (nth i (aug_of n o N c) []) 0 = mget K c i j.
Proof.
  intros Hi Hj. unfold aug_of. rewrite (nth_map_seq _ n i []) by exact Hi.
  rewrite app_nth2 by (rewrite firstn_pad_length; lia). rewrite firstn_pad_length.
  replace (n + j - n)%nat with j by lia. apply nth_firstn_pad. exact Hj.
Qed.

Lemma aug_rdotv n o N c i v : i < n ->
  rdotv (n + o) (nth i (aug_of n o N c) []) v =
  sumf n (fun k => mget K N i k * v k) + sumf o (fun j => mget K c i j * v (n + j)%nat).
Proof.
  intros Hi. unfold rdotv. rewrite sumf_split. f_equal; apply sumf_ext; intros k Hk.
  - rewrite aug_entry_l by assumption. reflexivity.
  - rewrite aug_entry_r by assumption. reflexivity.
Qed.

Definition ker_trivial (n : nat) (N : mat) : Prop :=
  forall v : nat -> K, (forall i, i < n -> sumf n (fun k => mget K N i k * v k) = 0) -> forall k, k < n -> v k = 0.

Lemma gj_solve_unfold n o N c :
  gj_solve K isz n o N c =
  match gj_upto n (aug_of n o N c) n with None => None | Some rows => Some (map (fun r => skipn n r) rows) end.
Proof. reflexivity. Qed.

(* completeness: a trivial kernel makes every step find a pivot, and the result solves N X = c *)
Theorem gj_solve_complete n o N c : ker_trivial n N ->
  exists X, gj_solve K isz n o N c = Some X /\
    forall i j, i < n -> j < o -> sumf n (fun k => mget K N i k * mget K X k j) = mget K c i j.
Proof.
  intros Hk. rewrite gj_solve_unfold.
  pose proof (gj_upto_inv n (n + o) (aug_of n o N c) ltac:(lia) (aug_wf n o N c) n (le_n n)) as Hinv.
  destruct (gj_upto n (aug_of n o N c) n) as [S|].
  - destruct Hinv as (HwS & Hsat & Hu).
    eexists. split; [reflexivity|]. intros i j Hi Hj.
    (* v = (column j of X ; -e_j) satisfies the final rows *)
    set (v := fun k => if Nat.ltb k n then nth (n + j) (nth k S []) 0
                       else if Nat.eqb k (n + j) then - (1) else (0 : K)).
    assert (Hv : sat n (n + o) S v).
    { intros r Hr. unfold rdotv. rewrite sumf_split.
      rewrite (sumf_ext K n _ (fun k => if Nat.eqb k r then nth (n + j) (nth k S []) 0 else 0)).
      2:{ intros k Hk'. rewrite (Hu r k Hr Hk'). unfold v. destruct (Nat.ltb_spec k n); [|lia].
          destruct (Nat.eqb_spec r k) as [Ea|Ea]; destruct (Nat.eqb_spec k r) as [Eb|Eb]; try lia; try (exfalso; congruence); ring. }
      rewrite (sumf_single K n r (fun k => nth (n + j) (nth k S []) 0) Hr).
      rewrite (sumf_ext K o _ (fun k => if Nat.eqb k j then - nth (n + k) (nth r S []) 0 else 0)).
      2:{ intros k Hk'. unfold v. destruct (Nat.ltb_spec (n + k) n); [lia|].
          destruct (Nat.eqb_spec (n + k) (n + j)); destruct (Nat.eqb_spec k j); try lia; ring. }
      rewrite (sumf_single K o j (fun k => - nth (n + k) (nth r S []) 0) Hj). ring. }
    apply Hsat in Hv. specialize (Hv i Hi). rewrite aug_rdotv in Hv by exact Hi.
    rewrite (sumf_ext K o _ (fun k => if Nat.eqb k j then - mget K c i k else 0)) in Hv.
    2:{ intros k Hk'. unfold v. destruct (Nat.ltb_spec (n + k) n); [lia|].
        destruct (Nat.eqb_spec (n + k) (n + j)); destruct (Nat.eqb_spec k j); try lia; ring. }
    rewrite (sumf_single K o j (fun k => - mget K c i k) Hj) in Hv.
    rewrite (sumf_ext K n _ (fun k => mget K N i k * v k)).
    + transitivity (sumf n (fun k => mget K N i k * v k) + - mget K c i j + mget K c i j); [ring|].
      rewrite Hv. ring.
    + intros k Hk'. unfold v. destruct (Nat.ltb_spec k n); [|lia]. f_equal.
      unfold mget, mrow. rewrite (nth_map_lt _ S []) by (destruct HwS as [-> _]; exact Hk').
      rewrite nth_skipn_add. reflexivity.
  - exfalso. destruct Hinv as (v & k & Hv & Hkn & H1 & H0).
    assert (E : v k = 0).
    { apply Hk; [|exact Hkn]. intros i Hi. specialize (Hv i Hi). rewrite aug_rdotv in Hv by exact Hi.
      rewrite (sumf_zero K o) in Hv by (intros j _; rewrite H0 by lia; ring).
      rewrite <- Hv. ring. }
    rewrite H1 in E. apply (F_1_neq_0 (cth K)). exact E.
Qed.

(* an answer means that the left block was reduced to the identity: the kernel is trivial *)
Theorem gj_solve_some_trivial n o N c X : gj_solve K isz n o N c = Some X -> ker_trivial n N.
Proof.
  rewrite gj_solve_unfold. intros H.
  pose proof (gj_upto_inv n (n + o) (aug_of n o N c) ltac:(lia) (aug_wf n o N c) n (le_n n)) as Hinv.
  destruct (gj_upto n (aug_of n o N c) n) as [S|]; [|discriminate].
  destruct Hinv as (HwS & Hsat & Hu).
  intros v Hv k Hk.
  set (v' := fun t => if Nat.ltb t n then v t else 0).
  assert (H0 : sat n (n + o) (aug_of n o N c) v').
  { intros i Hi. rewrite aug_rdotv by exact Hi.
    rewrite (sumf_zero K o) by (intros j _; unfold v'; destruct (Nat.ltb_spec (n + j) n); [lia | ring]).
    rewrite (sumf_ext K n _ (fun t => mget K N i t * v t))
      by (intros t Ht; unfold v'; destruct (Nat.ltb_spec t n); [reflexivity | lia]).
    rewrite (Hv i Hi). ring. }
  apply Hsat in H0. specialize (H0 k Hk). unfold rdotv in H0. rewrite sumf_split in H0.
  rewrite (sumf_zero K o) in H0 by (intros j _; unfold v'; destruct (Nat.ltb_spec (n + j) n); [lia | ring]).
  rewrite (sumf_ext K n _ (fun t => if Nat.eqb t k then v t else 0)) in H0.
  2:{ intros t Ht. rewrite (Hu k t Hk Ht). unfold v'. destruct (Nat.ltb_spec t n); [|lia].
      destruct (Nat.eqb_spec k t) as [Ea|Ea]; destruct (Nat.eqb_spec t k) as [Eb|Eb]; try lia; try (exfalso; congruence); ring. }
  rewrite (sumf_single K n k v Hk) in H0. rewrite <- H0. ring.
Qed.

(* ---------------------------------------------------------------- ls_solve *)
Lemma mat_eqb_refl_of_eq r c (a b : mat) :
  (forall i j, i < r -> j < c -> mget K a i j = mget K b i j) -> mat_eqb K isz r c a b = true.
Proof.
  intros H. unfold mat_eqb. apply forallb_forall. intros i Hi. apply in_seq in Hi.
  apply forallb_forall. intros j Hj. apply in_seq in Hj.
  apply isz_spec. rewrite H by lia. ring.
Qed.

Theorem ls_solve_some_iff m n o (a b : mat) :
  (exists x, ls_solve K isz m n o a b = Some x) <-> ker_trivial n (normal_mat K m n a).
Proof.
  unfold ls_solve. split.
  - intros (x & H). destruct (gj_solve K isz n o _ _) as [y|] eqn:E; [|discriminate].
    exact (gj_solve_some_trivial n o _ _ y E).
  - intros Hk. destruct (gj_solve_complete n o (normal_mat K m n a) (normal_rhs K m n o a b) Hk) as (X & -> & HX).
    exists X. rewrite mat_eqb_refl_of_eq; [reflexivity|].
    intros i j Hi Hj. rewrite mget_mmul by assumption. apply HX; assumption.
Qed.
End Gj.
