(* Property C20: too few standards are reported; every determining set of standards solves.
   Theorems only.  They are about coq/SolveCount/CountModel.v, the executable model of the counting,
   dispatch and re-entrancy logic of vnacal_new_add_* / vnacal_new_solve, which checks/C20.py ties to
   the library on every run (white-box comparison of equation lists, counters, decisions and the
   calibration swap on generated add/solve histories).

   The numeric part of a solve is an uninterpreted oracle `o`; every theorem holds for all oracles.
   NOT proved here: determining_set_solves ("full column rank of the exact system => success and exact
   correction").  It is decided per case, on every run, by the exact-rank oracle of lib/solvecount.py
   against the real library (support, not proof); the linear-algebra half is C01 / C19. *)
Require Import List Arith Permutation.
Import ListNotations.
Require Import LV.SolveCount.CountModel LV.SolveCount.CountProofs.

(* 1. Known standards, any type / dimensions / list of add calls (accepted or not), a frequency vector
      with at least one point: if some linear system has fewer equations than unknowns, solve reports
      EDOM and the object - measurements, equations, counters, previous calibration - is unchanged. *)
Theorem underdetermined_edom (o : oracle) (cf : config) (F : nat) (stds : list add_args) (k : nat) :
  let st := run_adds (init cf F true) stds in
  0 < F -> st_unknown st = 0 -> k < systems (cf_ty cf) (cf_c cf) ->
  sys_count st k < unknowns (cf_ty cf) (cf_r cf) (cf_c cf) ->
  solve o st = (st, Err EDOM).
Proof. exact (underdetermined_edom_l o cf F stds k). Qed.
Print Assumptions underdetermined_edom.

(* ... and for an arbitrary state (unknown parameters included) whenever the count test that the
   dispatched solver performs is not met: per system on the simple path, in total
   (equations + correlated < error terms + unknown parameters) on the iterative path. *)
Theorem count_deficient_edom (o : oracle) (st : state) :
  st_fvalid st = true -> 0 < st_freqs st -> count_deficient st = true -> solve o st = (st, Err EDOM).
Proof. exact (deficient_edom o st). Qed.
Print Assumptions count_deficient_edom.

Theorem unknown_parameters_total_deficient (st : state) :
  solve_path st = PAuto -> st_equations st + st_corr st < x_length st + st_unknown st ->
  count_deficient st = true.
Proof. exact (auto_total_deficient st). Qed.
Print Assumptions unknown_parameters_total_deficient.

(* the hypotheses are met: 1x1 T8 with short and open only (2 equations, 3 unknowns);
   2x2 UE14 where only port 1 was calibrated (system 2 has no equation) *)
Definition cf_t8_11 := {| cf_ty := T8; cf_r := 1; cf_c := 1; cf_kinds := [] |}.
Definition cf_ue14_22 := {| cf_ty := UE14; cf_r := 2; cf_c := 2; cf_kinds := [] |}.

Example underdetermined_edom_satisfiable :
  let st := run_adds (init cf_t8_11 1 true) [single_reflect 1 1 2 1; single_reflect 1 1 1 1] in
  st_unknown st = 0 /\ sys_count st 0 = 2 /\ unknowns T8 1 1 = 3.
Proof. vm_compute. auto. Qed.

Example underdetermined_second_system :
  let st := run_adds (init cf_ue14_22 1 true)
              [single_reflect 2 2 2 1; single_reflect 2 2 1 1; single_reflect 2 2 0 1; single_reflect 2 2 3 1;
               single_reflect 2 2 4 1] in
  st_unknown st = 0 /\ sys_count st 0 = 5 /\ sys_count st 1 = 0 /\ unknowns UE14 2 2 = 5 /\
  forall o, solve o st = (st, Err EDOM).
Proof.
  split; [reflexivity |]. split; [reflexivity |]. split; [reflexivity |]. split; [reflexivity |].
  intros o. apply count_deficient_edom; [reflexivity | apply Nat.lt_0_1 | reflexivity].
Qed.

(* 2. Adding a standard (accepted or rejected) never decreases any system's equation count, the total
      or the running maximum. *)
Theorem count_monotone (st : state) (a : add_args) (k : nat) :
  sys_count st k <= sys_count (fst (add_std st a)) k /\
  st_equations st <= st_equations (fst (add_std st a)) /\
  st_max st <= st_max (fst (add_std st a)).
Proof. exact (add_monotone st a k). Qed.
Print Assumptions count_monotone.

(* 3. Re-entrancy.  A solve that fails returns the state it was given ... *)
Theorem failed_solve_unchanged (o : oracle) (st : state) (e : errno) :
  snd (solve o st) = Err e -> solve o st = (st, Err e).
Proof. exact (failed_solve_unchanged_l o st e). Qed.
Print Assumptions failed_solve_unchanged.

(* ... a successful one replaces the calibration and nothing else ... *)
Theorem successful_solve_swaps_calibration (o : oracle) (st : state) :
  snd (solve o st) = Ok -> fst (solve o st) = set_cal st (Some (st_meas st)).
Proof. exact (solve_ok_swaps o st). Qed.
Print Assumptions successful_solve_swaps_calibration.

(* ... the verdict of a solve does not depend on the calibration left by earlier solves ... *)
Theorem solve_independent_of_previous_calibration (o : oracle) (st : state) (c : option (list meas)) :
  snd (solve o (set_cal st c)) = snd (solve o st).
Proof. exact (solve_ignores_cal o st c). Qed.
Print Assumptions solve_independent_of_previous_calibration.

(* ... hence: any history (adds, solves, set_m_error, add_calibration) in which every solve failed,
   followed by more operations and a solve, ends in the same state and reports the same outcomes as the
   history with the failed attempts removed - in particular as a fresh object (st = init ...) that was
   given the same standards. *)
Theorem retry_after_failure (o : oracle) (st : state) (ops more : list op) :
  all_solves_fail o st ops ->
  run o (fst (run o st ops)) (more ++ [OpSolve]) =
  run o (fst (run o st (remove_solves ops))) (more ++ [OpSolve]).
Proof. exact (retry o st ops more). Qed.
Print Assumptions retry_after_failure.

Example retry_after_failure_satisfiable :
  forall o, all_solves_fail o (init cf_t8_11 1 true)
    [OpSolve; OpAdd (single_reflect 1 1 2 1); OpSolve; OpSolve; OpAdd (single_reflect 1 1 1 1); OpSolve].
Proof. intros o. apply solves_deficient_fail. vm_compute. reflexivity. Qed.

(* after the two failures of the example, the third reflect makes the solve succeed exactly when
   the numeric oracle does, and the calibration appears *)
Example retry_then_success :
  let o : oracle := fun _ _ _ => true in
  let r := run o (init cf_t8_11 1 true)
    [OpAdd (single_reflect 1 1 2 1); OpSolve; OpAdd (single_reflect 1 1 1 1); OpSolve;
     OpAdd (single_reflect 1 1 0 1); OpSolve] in
  snd r = [Ok; Err EDOM; Ok; Err EDOM; Ok; Ok] /\ st_cal (fst r) = Some (st_meas (fst r)).
Proof. vm_compute. auto. Qed.

(* a failure after a success keeps the earlier calibration (here: the numeric oracle fails once a
   fourth standard is present) *)
Example failure_keeps_previous_calibration :
  let o : oracle := fun v _ _ => Nat.leb (length (snd v)) 3 in
  let r := run o (init cf_t8_11 1 true)
    [OpAdd (single_reflect 1 1 2 1); OpAdd (single_reflect 1 1 1 1); OpAdd (single_reflect 1 1 0 1); OpSolve;
     OpAdd (single_reflect 1 1 3 1); OpSolve] in
  snd r = [Ok; Ok; Ok; Ok; Ok; Err EDOM] /\
  option_map (@length meas) (st_cal (fst r)) = Some 3 /\ length (st_meas (fst r)) = 4.
Proof. vm_compute. auto. Qed.

(* 4. The order in which the standards were added is irrelevant for every counter ... *)
Theorem order_irrelevant_count (cf : config) (F : nat) (v : bool) (l l' : list add_args) :
  Permutation l l' ->
  let a := run_adds (init cf F v) l in let b := run_adds (init cf F v) l' in
  (forall k, sys_count a k = sys_count b k) /\
  st_equations a = st_equations b /\ st_max a = st_max b /\ length (st_meas a) = length (st_meas b).
Proof. exact (order_irrelevant_init cf F v l l'). Qed.
Print Assumptions order_irrelevant_count.

(* ... and, for known standards, for the EDOM decision.
   (partial: with unknown parameters the decision also involves the number of distinct unknown
   parameters registered; its independence of the order is tied by the correspondence, not proved.) *)
Theorem order_irrelevant_decision_known (cf : config) (F : nat) (v : bool) (l l' : list add_args) :
  cf_kinds cf = [] -> Permutation l l' ->
  count_deficient (run_adds (init cf F v) l) = count_deficient (run_adds (init cf F v) l').
Proof. exact (order_irrelevant_decision_known_l cf F v l l'). Qed.
Print Assumptions order_irrelevant_decision_known.

Example order_irrelevant_satisfiable :
  Permutation [single_reflect 2 2 2 1; through 2 2 1 2; double_reflect 2 2 2 1 1 2]
              [double_reflect 2 2 2 1 1 2; single_reflect 2 2 2 1; through 2 2 1 2] /\
  sys_count (run_adds (init {| cf_ty := TE10; cf_r := 2; cf_c := 2; cf_kinds := [] |} 1 true)
               [single_reflect 2 2 2 1; through 2 2 1 2; double_reflect 2 2 2 1 1 2]) 0 = 7.
Proof.
  split; [| reflexivity].
  apply Permutation_sym. apply (Permutation_cons_app [_; _] []). simpl. apply Permutation_refl.
Qed.
