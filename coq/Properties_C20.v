(* Property C20: too few standards are reported; every determining set of standards solves.
   Theorems only.  They are about coq/SolveCount/CountModel.v, the executable model of the counting,
   dispatch and re-entrancy logic of vnacal_new_add_* / vnacal_new_solve, which checks/C20.py ties to
   the library on every run (white-box comparison of equation lists, counters, dispatch, decisions, the
   calibration swap, the write-back of the unknown parameters and the injected allocation failures on
   generated add/solve histories).

   The numeric part of a solve is an uninterpreted oracle `o`; every theorem holds for all oracles.
   A theorem whose name ends in `_by_construction` restates a branch of the model's definition: its
   content is the tie, not the proof.

   Sessions 5: determining_set_solves and the rank verdicts are proved on the exact NUMERIC model (sections 6, 7 below) and
   joined with this count model; every theorem of sections 7 / 8 whose name ends in _if_numeric_verdict_exact assumes that the
   oracle IS the exact verdict (oracle_is_model) - binary64 rank decisions are best effort, and on sets with enough equations
   that do not determine the terms the library legitimately may answer differently (the property claims nothing there).
   NOT proved here (see docs/design_C20.md "Not proved / tested only"):
   - anything about binary64 rounding; the leakage terms outside the linear systems (a never-measured leakage term is 0);
   - anything about the TRL path beyond its dispatch condition (it performs no count test);
   - order-independence of the number of registered unknown parameters. *)
Require Import List Arith Permutation.
Import ListNotations.
Require Import LV.SolveCount.CountModel LV.SolveCount.CountProofs.

(* 0. For every configuration vnacal_new_alloc accepts, every system has the unity term: the number of
      unknowns per system, t_terms - 1, is not a truncated subtraction. *)
Theorem layout_unity_term (ty : ctype) (r c : nat) :
  alloc_ok ty r c = true -> t_terms ty r c = S (unknowns ty r c).
Proof. exact (t_terms_unity ty r c). Qed.
Print Assumptions layout_unity_term.

(* 1. Known standards, any type / dimensions / list of add calls (accepted or not), a frequency vector
      with at least one point: if some linear system has fewer equations than unknowns, solve reports
      EDOM and the object - measurements, equations, counters, previous calibration, parameter values -
      is unchanged.  (The premise 0 < F is needed: see zero_frequencies_solve_succeeds_as_coded.) *)
Theorem underdetermined_edom (o : oracle) (cf : config) (F : nat) (stds : list add_args) (k : nat) :
  let st := run_adds (init cf F true) stds in
  0 < F -> st_unknown st = 0 -> k < systems (cf_ty cf) (cf_c cf) ->
  sys_count st k < unknowns (cf_ty cf) (cf_r cf) (cf_c cf) ->
  solve o NoFault st = (st, Err EDOM).
Proof. exact (underdetermined_edom_l o cf F stds k). Qed.
Print Assumptions underdetermined_edom.

(* the hypotheses are met: 1x1 T8 with short and open only (2 equations, 3 unknowns);
   2x2 UE14 where only port 1 was calibrated (system 2 has no equation) *)
Definition cf_t8_11 := {| cf_ty := T8; cf_r := 1; cf_c := 1; cf_kinds := [] |}.
Definition cf_ue14_22 := {| cf_ty := UE14; cf_r := 2; cf_c := 2; cf_kinds := [] |}.

Example underdetermined_edom_satisfiable :
  let st := run_adds (init cf_t8_11 1 true) [single_reflect 1 1 2 1; single_reflect 1 1 1 1] in
  alloc_ok T8 1 1 = true /\ st_unknown st = 0 /\ sys_count st 0 = 2 /\ unknowns T8 1 1 = 3 /\
  forall o, solve o NoFault st = (st, Err EDOM).
Proof.
  split; [reflexivity |]. split; [reflexivity |]. split; [reflexivity |]. split; [reflexivity |].
  intros o. apply (underdetermined_edom o cf_t8_11 1 [single_reflect 1 1 2 1; single_reflect 1 1 1 1] 0).
  - apply Nat.lt_0_1.
  - reflexivity.
  - apply Nat.lt_0_1.
  - vm_compute. apply le_n.
Qed.

Example underdetermined_second_system :
  let stds := [single_reflect 2 2 2 1; single_reflect 2 2 1 1; single_reflect 2 2 0 1; single_reflect 2 2 3 1;
               single_reflect 2 2 4 1] in
  let st := run_adds (init cf_ue14_22 1 true) stds in
  alloc_ok UE14 2 2 = true /\
  st_unknown st = 0 /\ sys_count st 0 = 5 /\ sys_count st 1 = 0 /\ unknowns UE14 2 2 = 5 /\
  forall o, solve o NoFault st = (st, Err EDOM).
Proof.
  split; [reflexivity |]. split; [reflexivity |]. split; [reflexivity |]. split; [reflexivity |].
  split; [reflexivity |].
  intros o. apply (underdetermined_edom o cf_ue14_22 1 _ 1).
  - apply Nat.lt_0_1.
  - reflexivity.
  - vm_compute. apply le_n.
  - vm_compute. apply le_n_S, Nat.le_0_l.
Qed.

(* 1b. Unknown standard parameters (the iterative solver), same quantifiers: if the equations of all
       systems plus the correlated parameters are fewer than the error terms plus the unknown
       parameters, solve reports EDOM and the object is unchanged.  `is_trl st = false`: the history
       does not have the exact TRL shape (trl_path_only_for_exact_shape), whose solver has no count test. *)
Theorem underdetermined_edom_unknown_parameters (o : oracle) (cf : config) (F : nat) (stds : list add_args) :
  let st := run_adds (init cf F true) stds in
  0 < F -> st_unknown st <> 0 -> is_trl st = false ->
  st_equations st + st_corr st <
    systems (cf_ty cf) (cf_c cf) * unknowns (cf_ty cf) (cf_r cf) (cf_c cf) + st_unknown st ->
  solve o NoFault st = (st, Err EDOM).
Proof. exact (underdetermined_auto_edom_l o cf F stds). Qed.
Print Assumptions underdetermined_edom_unknown_parameters.

(* the hypotheses are met (iterative path): 1x1 T8, slot 3 an unknown parameter, short + open + the
   unknown reflect: 3 equations < 3 error terms + 1 unknown parameter *)
Definition cf_t8_11_unk := {| cf_ty := T8; cf_r := 1; cf_c := 1; cf_kinds := [(3, PUnknown)] |}.

Example underdetermined_edom_unknown_parameters_satisfiable :
  let stds := [single_reflect 1 1 2 1; single_reflect 1 1 1 1; single_reflect 1 1 3 1] in
  let st := run_adds (init cf_t8_11_unk 1 true) stds in
  alloc_ok T8 1 1 = true /\ solve_path st = PAuto /\ st_unknown st = 1 /\ st_equations st = 3 /\
  unknown_list st = [3] /\
  forall o, solve o NoFault st = (st, Err EDOM).
Proof.
  split; [reflexivity |]. split; [reflexivity |]. split; [reflexivity |]. split; [reflexivity |].
  split; [reflexivity |].
  intros o. apply (underdetermined_edom_unknown_parameters o cf_t8_11_unk 1).
  - apply Nat.lt_0_1.
  - vm_compute. discriminate.
  - reflexivity.
  - vm_compute. apply le_n.
Qed.

(* ... and with a correlated parameter: each correlated parameter is one more unknown and contributes one
   correlation equation (credited once).  Slot 5 is correlated with slot 3; short + the reflects 3, 4, 5:
   4 equations + 1 correlation equation < 3 error terms + 3 unknown parameters - exactly one short. *)
Definition cf_t8_11_cor :=
  {| cf_ty := T8; cf_r := 1; cf_c := 1; cf_kinds := [(3, PUnknown); (4, PUnknown); (5, PCorrelated 3)] |}.

Example underdetermined_edom_correlated_one_short :
  let stds := [single_reflect 1 1 2 1; single_reflect 1 1 3 1; single_reflect 1 1 4 1; single_reflect 1 1 5 1] in
  let st := run_adds (init cf_t8_11_cor 1 true) stds in
  solve_path st = PAuto /\ st_unknown st = 3 /\ st_corr st = 1 /\ st_equations st = 4 /\
  st_equations st + st_corr st + 1 = x_length st + st_unknown st /\ unknown_list st = [3; 4; 5] /\
  (forall o, solve o NoFault st = (st, Err EDOM)) /\
  (* one more known standard: the count test passes *)
  count_deficient (run_adds st [single_reflect 1 1 1 1]) = false.
Proof.
  split; [reflexivity |]. split; [reflexivity |]. split; [reflexivity |]. split; [reflexivity |].
  split; [reflexivity |]. split; [reflexivity |]. split; [| reflexivity].
  intros o. apply (underdetermined_edom_unknown_parameters o cf_t8_11_cor 1).
  - apply Nat.lt_0_1.
  - vm_compute. discriminate.
  - reflexivity.
  - vm_compute. apply le_n.
Qed.

(* 1c. The same for an arbitrary state, by the definition of `solve` (count_deficient is the test the
       dispatched solver performs; the model's EDOM branch is that test).  Content: the tie. *)
Theorem count_deficient_edom_by_construction (o : oracle) (st : state) :
  st_fvalid st = true -> 0 < st_freqs st -> count_deficient st = true ->
  solve o NoFault st = (st, Err EDOM).
Proof. exact (deficient_edom o st). Qed.
Print Assumptions count_deficient_edom_by_construction.

(* 1d. The analytic TRL solver (no count test) is dispatched only for the exact shape: 2x2 T8 / U8 /
       TE10 / UE10, exactly three standards, exactly two unknown parameters, no correlated parameter,
       no measurement-error model. *)
Theorem trl_path_only_for_exact_shape (st : state) :
  solve_path st = PTrl ->
  cf_r (st_cf st) = 2 /\ cf_c (st_cf st) = 2 /\ is_8_10 (cf_ty (st_cf st)) = true /\ length (st_meas st) = 3 /\
  st_unknown st = 2 /\ st_corr st = 0 /\ st_merr st = false.
Proof. exact (trl_shape st). Qed.
Print Assumptions trl_path_only_for_exact_shape.

Definition cf_t8_22_trl := {| cf_ty := T8; cf_r := 2; cf_c := 2; cf_kinds := [(3, PUnknown); (4, PUnknown)] |}.

(* through, reflect (unknown 3 on both ports), line (unknown 4): the TRL path; with the reflect given
   as a single reflect (cells of the 2x2 S matrix unset, D69) it is not *)
Example trl_path_satisfiable :
  solve_path (run_adds (init cf_t8_22_trl 1 true)
                [through 2 2 1 2; line 2 2 3 0 0 3 1 2; line 2 2 0 4 4 0 1 2]) = PTrl /\
  solve_path (run_adds (init cf_t8_22_trl 1 true)
                [through 2 2 1 2; single_reflect 2 2 3 2; line 2 2 0 4 4 0 1 2]) = PAuto.
Proof. split; reflexivity. Qed.

(* 1e. As coded: with a frequency vector of length 0 the loop over the frequencies does not run, no
       count test is made and the solve succeeds whatever was added (a calibration with no
       frequencies).  This is why 1, 1b, 1c need 0 < F. *)
Theorem zero_frequencies_solve_succeeds_as_coded (o : oracle) (st : state) :
  st_fvalid st = true -> st_freqs st = 0 -> solve o NoFault st = (solved st, Ok).
Proof. exact (zero_frequencies_ok_l o st). Qed.
Print Assumptions zero_frequencies_solve_succeeds_as_coded.

Example zero_frequencies_satisfiable :
  count_deficient (init cf_t8_11 0 true) = true /\
  forall o, snd (solve o NoFault (init cf_t8_11 0 true)) = Ok.
Proof.
  split; [reflexivity |]. intros o.
  rewrite (zero_frequencies_solve_succeeds_as_coded o (init cf_t8_11 0 true)); reflexivity.
Qed.

(* 2. Adding a standard (accepted or rejected) never decreases any system's equation count, the total
      or the running maximum. *)
Theorem count_monotone (st : state) (a : add_args) (k : nat) :
  sys_count st k <= sys_count (fst (add_std st a)) k /\
  st_equations st <= st_equations (fst (add_std st a)) /\
  st_max st <= st_max (fst (add_std st a)).
Proof. exact (add_monotone st a k). Qed.
Print Assumptions count_monotone.

(* 3. Re-entrancy.  The model's solve follows the order of effects of _vnacal_new_solve_internal:
      frequency-vector test; locals (solve state, new calibration, TRL indices); frequency loop (every
      failure = EDOM through "out:"); write-back of the solved unknown parameters into the vnacal_t (a
      calloc per parameter whose frequency count differs, which can fail); only then the swap of the
      calibration.  `af` is an injected allocation failure.

   3a. A solve that fails - for want of a frequency vector, by the count test, numerically, or by an
       allocation failure before the write-back - returns the state it was given: measurements,
       equations, counters, previous calibration and every parameter value. *)
Theorem failed_solve_unchanged (o : oracle) (af : afault) (st : state) :
  snd (solve o af st) <> Ok -> fst (solve o af st) = st.
Proof. exact (solve_fail_unchanged_all o af st). Qed.
Print Assumptions failed_solve_unchanged.
(* (since fix DI92 without the premise `wb_fault af = false`: the write-back allocates every new frequency vector in a first
   loop and commits in a second loop that cannot fail, so an allocation failure INSIDE the write-back also leaves every
   parameter as it was; the injected failure `FaultWriteback j` is the j-th calloc of that first loop) *)

(* 3b. model_variant_before_DI92 (solve_before_DI92: the parameters written one by one): there the statement was false
       without the premise `wb_fault af = false` - when the calloc of the second unknown parameter's frequency vector failed, the
       first parameter already held the new solution and the second had lost its vectors, although the solve reported ENOMEM. *)
Definition cf_t8_11_unk2 := {| cf_ty := T8; cf_r := 1; cf_c := 1; cf_kinds := [(3, PUnknown); (4, PUnknown)] |}.
Definition st_two_unknowns :=
  run_adds (init cf_t8_11_unk2 1 true)
    [single_reflect 1 1 2 1; single_reflect 1 1 1 1; single_reflect 1 1 0 1; single_reflect 1 1 3 1;
     single_reflect 1 1 4 1].

Theorem failed_solve_unchanged_refuted_for_writeback_fault_before_DI92 :
  exists (o : oracle) (af : afault) (st : state),
    snd (solve_before_DI92 o af st) = Err ENOMEM /\ fst (solve_before_DI92 o af st) <> st /\
    pv_get (st_pv (fst (solve_before_DI92 o af st))) 3 = {| pv_freqs := 1; pv_gamma := Some (st_meas st) |} /\
    pv_get (st_pv st) 3 = pv_init /\
    solve o af st = (st, Err ENOMEM).
Proof.
  exists (fun _ _ _ => true), (FaultWriteback 1), st_two_unknowns.
  split; [reflexivity |]. split; [| split; [reflexivity | split; [reflexivity |]]].
  - intros E. apply (f_equal st_pv) in E. vm_compute in E. discriminate.
  - vm_compute. reflexivity.
Qed.
Print Assumptions failed_solve_unchanged_refuted_for_writeback_fault_before_DI92.

(* 3c. What EVERY failing solve keeps, that one included: the standards, equations and counters, the
       previous calibration, and the value of every parameter that is not an unknown of this
       calibration. *)
Theorem failed_solve_keeps_standards_and_calibration (o : oracle) (af : afault) (st : state) :
  snd (solve o af st) <> Ok ->
  same_but_pv (fst (solve o af st)) st /\
  forall k, ~ In k (unknown_list st) -> pv_get (st_pv (fst (solve o af st))) k = pv_get (st_pv st) k.
Proof. exact (solve_fail_keeps o af st). Qed.
Print Assumptions failed_solve_keeps_standards_and_calibration.

(* 3d. A successful solve replaces the calibration, leaves every unknown parameter of this calibration
       with the new solution on the calibration's frequency grid, and changes nothing else (no other
       parameter, no standard, no counter). *)
Theorem successful_solve_state (o : oracle) (af : afault) (st : state) :
  snd (solve o af st) = Ok ->
  let st' := fst (solve o af st) in
  same_but_results st' st /\ st_cal st' = Some (st_meas st) /\
  (forall k, In k (unknown_list st) ->
        pv_get (st_pv st') k = {| pv_freqs := st_freqs st; pv_gamma := Some (st_meas st) |}) /\
  (forall k, ~ In k (unknown_list st) -> pv_get (st_pv st') k = pv_get (st_pv st) k).
Proof. exact (solve_ok_state o af st). Qed.
Print Assumptions successful_solve_state.

Example successful_solve_state_satisfiable :
  let o : oracle := fun _ _ _ => true in
  snd (solve o NoFault st_two_unknowns) = Ok /\ unknown_list st_two_unknowns = [3; 4] /\
  st_unknown st_two_unknowns = 2 /\ solve_path st_two_unknowns = PAuto.
Proof. vm_compute. auto. Qed.

(* the list walked by the write-back has as many entries as the counter vn_unknown_parameters, along
   every history from a new object (slot 0, VNACAL_ZERO, is a known parameter) *)
Theorem unknown_counter_is_list_length (o : oracle) (cf : config) (F : nat) (v : bool) (ops : list op) :
  kind_of (cf_kinds cf) 0 = PKnown ->
  let st := fst (run o (init cf F v) ops) in length (unknown_list st) = st_unknown st.
Proof. exact (unknown_counter_is_list_length_l o cf F v ops). Qed.
Print Assumptions unknown_counter_is_list_length.

(* 3e. The exact condition under which a solve (no allocation failure) succeeds: a frequency vector,
       and - unless it is empty - the count test of the dispatched solver passes and the numeric verdict
       is positive at every frequency. *)
Theorem solve_succeeds_iff (o : oracle) (st : state) :
  snd (solve o NoFault st) = Ok <->
  st_fvalid st = true /\
  (st_freqs st = 0 \/ (count_deficient st = false /\ forall f, f < st_freqs st -> numeric_ok o st f = true)).
Proof. exact (solve_ok_iff o st). Qed.
Print Assumptions solve_succeeds_iff.

(* 3f. The verdict does not depend on what earlier solves left behind (calibration, parameter values):
       by construction of the model - `solve` reads neither field for its verdict (the C solve state is
       a local rebuilt by vs_init on every call).  Content: the tie. *)
Theorem solve_verdict_ignores_previous_results_by_construction (o : oracle) (a b : state) :
  same_but_results a b -> (snd (solve o NoFault a) = Ok <-> snd (solve o NoFault b) = Ok).
Proof. exact (solve_verdict_same o a b). Qed.
Print Assumptions solve_verdict_ignores_previous_results_by_construction.

(* 4. Retry.  For every oracle, every state and every history `ops` (adds, solves with or without
      allocation failures outside the write-back, set_m_error, add_calibration) in which every solve
      failed: let st' be the state reached by the same history WITHOUT the failed attempts (in
      particular: a fresh object given the same standards).  If st' has a frequency vector, the count
      test of its dispatched solver passes and the numeric verdict is positive at every frequency, then
      one more solve succeeds and leaves exactly `solved st'` - the failed attempts are invisible. *)
Theorem retry_after_failure (o : oracle) (st : state) (ops : list op) :
  all_solves_fail o st ops ->
  let st' := fst (run o st (remove_solves ops)) in
  st_fvalid st' = true -> count_deficient st' = false ->
  (forall f, f < st_freqs st' -> numeric_ok o st' f = true) ->
  run o st (ops ++ [OpSolve NoFault]) = (solved st', snd (run o st ops) ++ [Ok]).
Proof. exact (retry_succeeds o st ops). Qed.
Print Assumptions retry_after_failure.

(* ... and while the count test is still not met it keeps reporting EDOM, state unchanged *)
Theorem retry_still_too_few_standards (o : oracle) (st : state) (ops : list op) :
  all_solves_fail o st ops ->
  let st' := fst (run o st (remove_solves ops)) in
  st_fvalid st' = true -> 0 < st_freqs st' -> count_deficient st' = true ->
  run o st (ops ++ [OpSolve NoFault]) = (st', snd (run o st ops) ++ [Err EDOM]).
Proof. exact (retry_still_deficient o st ops). Qed.
Print Assumptions retry_still_too_few_standards.

(* 4b. The documented flow: the solve fails because there are too few standards; standards are added
       until the count test passes; if the numeric verdict is then positive the solve succeeds, and the
       object is the one a user who never made the failed attempt would have. *)
Theorem add_standards_until_determined (o : oracle) (st : state) (more : list add_args) :
  st_fvalid st = true -> 0 < st_freqs st -> count_deficient st = true ->
  let st1 := fst (solve o NoFault st) in
  let st2 := run_adds st1 more in
  count_deficient st2 = false -> (forall f, f < st_freqs st2 -> numeric_ok o st2 f = true) ->
  solve o NoFault st = (st, Err EDOM) /\ st2 = run_adds st more /\ solve o NoFault st2 = (solved st2, Ok).
Proof. exact (add_until_determined o st more). Qed.
Print Assumptions add_standards_until_determined.

(* non-vacuity: an oracle that is NOT constant (numerically singular as long as fewer than three
   standards are present, and at a fourth), a history with four failed attempts - two by the count
   test, one without... *)
Definition o_three : oracle := fun v _ _ => Nat.eqb (length (snd v)) 3.
Definition retry_ops : list op :=
  [OpSolve NoFault; OpAdd (single_reflect 1 1 2 1); OpSolve NoFault; OpSolve FaultEarly;
   OpAdd (single_reflect 1 1 1 1); OpSolve NoFault; OpAdd (single_reflect 1 1 0 1)].

Example retry_after_failure_satisfiable :
  all_solves_fail o_three (init cf_t8_11 2 true) retry_ops /\
  (let st' := fst (run o_three (init cf_t8_11 2 true) (remove_solves retry_ops)) in
   st_fvalid st' = true /\ count_deficient st' = false /\
   (forall f, f < st_freqs st' -> numeric_ok o_three st' f = true) /\
   st' = run_adds (init cf_t8_11 2 true) [single_reflect 1 1 2 1; single_reflect 1 1 1 1; single_reflect 1 1 0 1]) /\
  snd (run o_three (init cf_t8_11 2 true) (retry_ops ++ [OpSolve NoFault])) =
    [Err EDOM; Ok; Err EDOM; Err ENOMEM; Ok; Err EDOM; Ok; Ok].
Proof.
  split; [apply solves_deficient_fail; reflexivity |].
  split; [| reflexivity].
  split; [reflexivity |]. split; [reflexivity |]. split; [| reflexivity].
  intros f Hf. destruct f as [| [| f]]; [reflexivity | reflexivity |].
  exfalso. vm_compute in Hf. apply le_S_n, le_S_n in Hf. inversion Hf.
Qed.

Example add_standards_until_determined_satisfiable :
  let st := run_adds (init cf_t8_11 1 true) [single_reflect 1 1 2 1] in
  let more := [single_reflect 1 1 1 1; single_reflect 1 1 0 1] in
  st_fvalid st = true /\ 0 < st_freqs st /\ count_deficient st = true /\
  count_deficient (run_adds (fst (solve o_three NoFault st)) more) = false /\
  (forall f, f < 1 -> numeric_ok o_three (run_adds (fst (solve o_three NoFault st)) more) f = true) /\
  st_cal (fst (solve o_three NoFault (run_adds (fst (solve o_three NoFault st)) more))) <> None.
Proof.
  split; [reflexivity |]. split; [apply Nat.lt_0_1 |]. split; [reflexivity |]. split; [reflexivity |].
  split; [| vm_compute; discriminate].
  intros f Hf. destruct f; [reflexivity | inversion Hf; match goal with H : S _ <= 0 |- _ => inversion H end].
Qed.

(* a failure after a success keeps the earlier calibration (o_three fails once a fourth standard is
   present) *)
Example failure_keeps_previous_calibration :
  let r := run o_three (init cf_t8_11 1 true)
    [OpAdd (single_reflect 1 1 2 1); OpAdd (single_reflect 1 1 1 1); OpAdd (single_reflect 1 1 0 1); OpSolve NoFault;
     OpAdd (single_reflect 1 1 3 1); OpSolve NoFault] in
  snd r = [Ok; Ok; Ok; Ok; Ok; Err EDOM] /\
  option_map (@length meas) (st_cal (fst r)) = Some 3 /\ length (st_meas (fst r)) = 4.
Proof. vm_compute. auto. Qed.

(* 5. The order in which the standards were added is irrelevant for every counter ... *)
Theorem order_irrelevant_count (cf : config) (F : nat) (v : bool) (l l' : list add_args) :
  Permutation l l' ->
  let a := run_adds (init cf F v) l in let b := run_adds (init cf F v) l' in
  (forall k, sys_count a k = sys_count b k) /\
  st_equations a = st_equations b /\ st_max a = st_max b /\ length (st_meas a) = length (st_meas b).
Proof. exact (order_irrelevant_init cf F v l l'). Qed.
Print Assumptions order_irrelevant_count.

(* ... and, for known standards, for the COUNT TEST (not for the whole verdict: the numeric oracle is
   given the standards in their order; with unknown parameters the test also involves the number of
   distinct unknown parameters registered, whose independence of the order is tied, not proved) ... *)
Theorem order_irrelevant_count_test_known (cf : config) (F : nat) (v : bool) (l l' : list add_args) :
  cf_kinds cf = [] -> Permutation l l' ->
  count_deficient (run_adds (init cf F v) l) = count_deficient (run_adds (init cf F v) l').
Proof. exact (order_irrelevant_count_test_known_l cf F v l l'). Qed.
Print Assumptions order_irrelevant_count_test_known.

(* ... hence too few known standards are reported with EDOM in whatever order they were added *)
Theorem order_irrelevant_edom_known (o : oracle) (cf : config) (F : nat) (l l' : list add_args) :
  cf_kinds cf = [] -> Permutation l l' -> 0 < F ->
  count_deficient (run_adds (init cf F true) l) = true ->
  solve o NoFault (run_adds (init cf F true) l') = (run_adds (init cf F true) l', Err EDOM).
Proof. exact (order_irrelevant_edom_known_l o cf F l l'). Qed.
Print Assumptions order_irrelevant_edom_known.

Example order_irrelevant_satisfiable :
  let cf := {| cf_ty := TE10; cf_r := 2; cf_c := 2; cf_kinds := [] |} in
  let l := [single_reflect 2 2 2 1; through 2 2 1 2; double_reflect 2 2 2 1 1 2] in
  let l' := [double_reflect 2 2 2 1 1 2; single_reflect 2 2 2 1; through 2 2 1 2] in
  Permutation l l' /\ sys_count (run_adds (init cf 1 true) l) 0 = 7 /\
  count_deficient (run_adds (init cf 1 true) [single_reflect 2 2 2 1; through 2 2 1 2]) = true /\
  Permutation [single_reflect 2 2 2 1; through 2 2 1 2] [through 2 2 1 2; single_reflect 2 2 2 1].
Proof.
  split; [| split; [reflexivity | split; [reflexivity | apply perm_swap]]].
  apply Permutation_sym. apply (Permutation_cons_app [_; _] []). simpl. apply Permutation_refl.
Qed.

(* ==================================================================================================
   Session 5: determining_set_solves, on the executable numeric model of one frequency of the non-iterative
   solve (Cal/SolveSimple.assemble as coded; CalQI.q_solve_system: the LU model of _vnacommon_mldivide for a
   square system, the normal-equation least-squares model for a tall one; q_error_terms: unity terms, leakage
   terms, E12 conversion), over the Gaussian rationals.  "Full column rank" of the assembled coefficient matrix
   is SolveRecovers.kernel_trivial (A v = 0 only for v = 0; a left inverse implies it:
   LuNonsing.left_inverse_kernel_trivial); "rank deficient" is DeterminingProofs.rows_deficient (an explicit
   non-zero v with A v = 0).  Every theorem: EVERY type, all dimensions, every list of measured standards,
   every value of the parameters; no bound.
   Outside these theorems: rounding (binary64 rank decisions are best effort, as the property says), the
   Householder QR code as coded (C19 has its model and rank theorem, premised on computed sqrt laws; the tall
   branch here is the normal-equation model that C19 compares with _vnacommon_qrsolve), unknown parameters
   (auto / TRL paths), measurement-error weighting. *)
Require Import ZArith.
Require Import LV.Base.QcI LV.Gen.LayoutGen LV.Cal.AddModel LV.Cal.SolveSimple LV.Cal.CalQI LV.Cal.SolveRecovers.
Require Import LV.SolveCount.DeterminingGj LV.SolveCount.DeterminingProofs LV.SolveCount.DeterminingCount
               LV.SolveCount.DeterminingExamples.

(* 6a. The verdict of a system is decided by the count and the rank alone: fewer assembled equations than
       unknowns -> insufficient; otherwise solved exactly when the coefficient matrix has full column rank
       and singular exactly when it is rank deficient (and one of the two always holds). *)
Theorem system_verdict_by_count_and_rank ty mr mc (ms : list (mvals qops)) (pval : Z -> qi) (sys : nat) :
  let rows := q_assemble ty mr mc ms pval sys in
  let n := SolveSimple.unknowns ty mr mc in
  (length rows < n /\ q_solve_system ty mr mc ms pval sys = SysInsufficient rows) \/
  (n <= length rows /\ kernel_trivial n rows /\ exists x, q_solve_system ty mr mc ms pval sys = SysOk rows x) \/
  (n <= length rows /\ rows_deficient n rows /\ q_solve_system ty mr mc ms pval sys = SysSingular rows).
Proof. exact (system_verdict ty mr mc ms pval sys). Qed.
Print Assumptions system_verdict_by_count_and_rank.

(* 6b. Full column rank and enough equations => the model solve of the system succeeds ... *)
Theorem determining_system_solves ty mr mc (ms : list (mvals qops)) (pval : Z -> qi) (sys : nat) :
  let rows := q_assemble ty mr mc ms pval sys in
  let n := SolveSimple.unknowns ty mr mc in
  n <= length rows -> kernel_trivial n rows -> exists x, q_solve_system ty mr mc ms pval sys = SysOk rows x.
Proof. exact (DeterminingProofs.determining_system_solves ty mr mc ms pval sys). Qed.
Print Assumptions determining_system_solves.

(* ... and conversely success means full column rank (so the solution is the unique one) *)
Theorem system_solved_iff_determining ty mr mc (ms : list (mvals qops)) (pval : Z -> qi) (sys : nat) :
  let rows := q_assemble ty mr mc ms pval sys in
  let n := SolveSimple.unknowns ty mr mc in
  (exists x, q_solve_system ty mr mc ms pval sys = SysOk rows x) <-> (n <= length rows /\ kernel_trivial n rows).
Proof. exact (system_ok_iff ty mr mc ms pval sys). Qed.
Print Assumptions system_solved_iff_determining.

(* 6c. Rank deficient with enough equations => the singular outcome (the branch that reports EDOM); and the
       singular outcome is never a false alarm in exact arithmetic. *)
Theorem rank_deficient_system_singular ty mr mc (ms : list (mvals qops)) (pval : Z -> qi) (sys : nat) :
  let rows := q_assemble ty mr mc ms pval sys in
  let n := SolveSimple.unknowns ty mr mc in
  n <= length rows -> rows_deficient n rows -> q_solve_system ty mr mc ms pval sys = SysSingular rows.
Proof. exact (deficient_system_singular ty mr mc ms pval sys). Qed.
Print Assumptions rank_deficient_system_singular.

Theorem singular_outcome_means_rank_deficient ty mr mc (ms : list (mvals qops)) (pval : Z -> qi) (sys : nat) :
  let rows := q_assemble ty mr mc ms pval sys in
  let n := SolveSimple.unknowns ty mr mc in
  q_solve_system ty mr mc ms pval sys = SysSingular rows -> n <= length rows /\ rows_deficient n rows.
Proof. exact (singular_system_deficient ty mr mc ms pval sys). Qed.
Print Assumptions singular_outcome_means_rank_deficient.

(* 6d. determining_set_solves: every system has enough equations, full column rank, and the measurements come
       from error terms xs_true (they satisfy every assembled equation) => the model solve succeeds and returns
       exactly those terms (unity terms inserted, leakage terms appended, E12 conversion applied). *)
Theorem determining_set_solves ty mr mc (ms : list (mvals qops)) (pval : Z -> qi) (xs_true : list (list qi)) :
  let n := SolveSimple.unknowns ty mr mc in
  let nsys := systems_of ty mc in
  length xs_true = nsys ->
  (forall sys, sys < nsys ->
     let xt := nth sys xs_true [] in
     let rows := q_assemble ty mr mc ms pval sys in
     length xt = n /\ (forall r, In r rows -> rdot n (fst r) xt = snd r) /\
     n <= length rows /\ kernel_trivial n rows) ->
  q_error_terms ty mr mc ms pval =
  Some (if caltype_eqb ty E12_UE14 then convert_ue14_to_e12 qops mr mc (e_vector qops ty mr mc ms xs_true)
        else e_vector qops ty mr mc ms xs_true).
Proof. exact (determining_set_recovers ty mr mc ms pval xs_true). Qed.
Print Assumptions determining_set_solves.

(* non-vacuity: one-port T8, reflects -1, 1, 1/2 (square, LU) and a fourth reflect i/3 (tall, least squares)
   measured through Ts = 2, Ti = 1/2, Tx = 1/4, Tm = 1: every hypothesis holds, the result is the true terms *)
Example determining_set_solves_square_satisfiable :
  length (q_assemble LayoutGen.T8 1 1 (ms_of [3; 4; 5]%Z) EndToEnd.ex_pval4 0) = 3 /\
  length EndToEnd.ex_xs = systems_of LayoutGen.T8 1 /\
  (forall sys, sys < systems_of LayoutGen.T8 1 ->
     let xt := nth sys EndToEnd.ex_xs [] in
     let rows := q_assemble LayoutGen.T8 1 1 (ms_of [3; 4; 5]%Z) EndToEnd.ex_pval4 sys in
     length xt = SolveSimple.unknowns LayoutGen.T8 1 1 /\
     (forall r, In r rows -> rdot (SolveSimple.unknowns LayoutGen.T8 1 1) (fst r) xt = snd r) /\
     SolveSimple.unknowns LayoutGen.T8 1 1 <= length rows /\ kernel_trivial (SolveSimple.unknowns LayoutGen.T8 1 1) rows) /\
  q_error_terms LayoutGen.T8 1 1 (ms_of [3; 4; 5]%Z) EndToEnd.ex_pval4 =
  Some [EndToEnd.ex_ts; EndToEnd.ex_ti; EndToEnd.ex_tx; qi1].
Proof. exact determining_square_example. Qed.

Example determining_set_solves_tall_satisfiable :
  length (q_assemble LayoutGen.T8 1 1 (ms_of [3; 4; 5; 6]%Z) EndToEnd.ex_pval4 0) = 4 /\
  length EndToEnd.ex_xs = systems_of LayoutGen.T8 1 /\
  (forall sys, sys < systems_of LayoutGen.T8 1 ->
     let xt := nth sys EndToEnd.ex_xs [] in
     let rows := q_assemble LayoutGen.T8 1 1 (ms_of [3; 4; 5; 6]%Z) EndToEnd.ex_pval4 sys in
     length xt = SolveSimple.unknowns LayoutGen.T8 1 1 /\
     (forall r, In r rows -> rdot (SolveSimple.unknowns LayoutGen.T8 1 1) (fst r) xt = snd r) /\
     SolveSimple.unknowns LayoutGen.T8 1 1 <= length rows /\ kernel_trivial (SolveSimple.unknowns LayoutGen.T8 1 1) rows) /\
  q_error_terms LayoutGen.T8 1 1 (ms_of [3; 4; 5; 6]%Z) EndToEnd.ex_pval4 =
  Some [EndToEnd.ex_ts; EndToEnd.ex_ti; EndToEnd.ex_tx; qi1].
Proof. exact determining_tall_example. Qed.

(* 6e. Conversely: some system has too few equations, or enough but is rank deficient => no error terms. *)
Theorem undetermined_set_not_solved ty mr mc (ms : list (mvals qops)) (pval : Z -> qi) (sys : nat) :
  let n := SolveSimple.unknowns ty mr mc in
  let rows := q_assemble ty mr mc ms pval sys in
  sys < systems_of ty mc ->
  (length rows < n \/ (n <= length rows /\ rows_deficient n rows)) ->
  q_error_terms ty mr mc ms pval = None.
Proof. exact (undetermined_set_fails ty mr mc ms pval sys). Qed.
Print Assumptions undetermined_set_not_solved.

Theorem model_solve_succeeds_iff_all_systems_determining ty mr mc (ms : list (mvals qops)) (pval : Z -> qi) :
  (exists e, q_error_terms ty mr mc ms pval = Some e) <->
  (forall sys, sys < systems_of ty mc ->
     SolveSimple.unknowns ty mr mc <= length (q_assemble ty mr mc ms pval sys) /\
     kernel_trivial (SolveSimple.unknowns ty mr mc) (q_assemble ty mr mc ms pval sys)).
Proof. exact (error_terms_some_iff ty mr mc ms pval). Qed.
Print Assumptions model_solve_succeeds_iff_all_systems_determining.

(* non-vacuity: the short entered twice beside the open (square), three times (tall): enough equations, an
   explicit kernel vector, SysSingular, no error terms; two standards: too few *)
Example rank_deficient_square_satisfiable :
  let rows := q_assemble LayoutGen.T8 1 1 (ms_of [3; 3; 4]%Z) EndToEnd.ex_pval4 0 in
  length rows = 3 /\ SolveSimple.unknowns LayoutGen.T8 1 1 <= length rows /\
  rows_deficient (SolveSimple.unknowns LayoutGen.T8 1 1) rows /\
  q_solve_system LayoutGen.T8 1 1 (ms_of [3; 3; 4]%Z) EndToEnd.ex_pval4 0 = SysSingular rows /\
  q_error_terms LayoutGen.T8 1 1 (ms_of [3; 3; 4]%Z) EndToEnd.ex_pval4 = None.
Proof. exact deficient_square_example. Qed.

Example rank_deficient_tall_satisfiable :
  let rows := q_assemble LayoutGen.T8 1 1 (ms_of [3; 3; 4; 3]%Z) EndToEnd.ex_pval4 0 in
  length rows = 4 /\ SolveSimple.unknowns LayoutGen.T8 1 1 <= length rows /\
  rows_deficient (SolveSimple.unknowns LayoutGen.T8 1 1) rows /\
  q_solve_system LayoutGen.T8 1 1 (ms_of [3; 3; 4; 3]%Z) EndToEnd.ex_pval4 0 = SysSingular rows /\
  q_error_terms LayoutGen.T8 1 1 (ms_of [3; 3; 4; 3]%Z) EndToEnd.ex_pval4 = None.
Proof. exact deficient_tall_example. Qed.

Example too_few_equations_satisfiable :
  length (q_assemble LayoutGen.T8 1 1 (ms_of [3; 4]%Z) EndToEnd.ex_pval4 0) < SolveSimple.unknowns LayoutGen.T8 1 1 /\
  q_error_terms LayoutGen.T8 1 1 (ms_of [3; 4]%Z) EndToEnd.ex_pval4 = None.
Proof. exact insufficient_example. Qed.

(* 6f. The least-squares model of the tall branch (Gauss-Jordan on the normal equations + a posteriori check)
       answers exactly on full column rank, every m, n, o (completes C19's c19_ls_gj_oracle_sound_by_construction,
       which had the soundness direction only). *)
Theorem ls_model_answers_iff_full_rank m n o (a b : MatL.mat QIF) :
  (exists x, LuQI2.q2_ls_solve m n o a b = Some x) <-> LsLuProofs.full_col_rank m n a.
Proof. exact (ls_solve_answers_iff_full_rank m n o a b). Qed.
Print Assumptions ls_model_answers_iff_full_rank.

(* 7. The count model joined with the numeric model.  o = any oracle that agrees with the numeric model on the
      system sites of this state (oracle_is_model; DeterminingCount.model_oracle is one), counts_agree = the
      two models count the same equations per system (both are compared with vns_equation_count of the
      library on every run; no theorem links Cal.AddModel.add_common with CountModel.add_std).  Known
      standards (simple path), any number of frequencies:
        count test passes AND every system has full column rank at every frequency AND the post-processing
        site answers (E12 conversion: the leading reflection-tracking terms are non-zero)  =>  vnacal_new_solve
        succeeds: (solved st, Ok);
        some system at some frequency has enough equations but is rank deficient  =>  EDOM, state unchanged. *)
Theorem count_test_and_full_rank_solve_if_numeric_verdict_exact (o : CM.oracle) (st : CM.state)
        (vals : nat -> list (mvals qops)) (pvalf : nat -> Z -> qi) :
  let cf := CM.st_cf st in
  let ty := cty (CM.cf_ty cf) in
  let ns := CM.systems (CM.cf_ty cf) (CM.cf_c cf) in
  CM.st_fvalid st = true -> CM.solve_path st = CM.PSimple ->
  oracle_is_model o st vals pvalf -> counts_agree st vals pvalf ->
  CM.count_deficient st = false ->
  (forall f k, f < CM.st_freqs st -> k < ns ->
     kernel_trivial (SolveSimple.unknowns ty (CM.cf_r cf) (CM.cf_c cf))
                    (q_assemble ty (CM.cf_r cf) (CM.cf_c cf) (vals f) (pvalf f) k)) ->
  (forall f, f < CM.st_freqs st -> o (CM.view_of st) f ns = true) ->
  CM.solve o CM.NoFault st = (CP.solved st, CM.Ok).
Proof. exact (count_and_rank_solve_lemma o st vals pvalf). Qed.
Print Assumptions count_test_and_full_rank_solve_if_numeric_verdict_exact.

Theorem rank_deficient_edom_if_numeric_verdict_exact (o : CM.oracle) (st : CM.state)
        (vals : nat -> list (mvals qops)) (pvalf : nat -> Z -> qi) (f k : nat) :
  let cf := CM.st_cf st in
  let ty := cty (CM.cf_ty cf) in
  let n := SolveSimple.unknowns ty (CM.cf_r cf) (CM.cf_c cf) in
  let rows := q_assemble ty (CM.cf_r cf) (CM.cf_c cf) (vals f) (pvalf f) k in
  CM.st_fvalid st = true -> CM.solve_path st = CM.PSimple ->
  oracle_is_model o st vals pvalf ->
  f < CM.st_freqs st -> k < CM.systems (CM.cf_ty cf) (CM.cf_c cf) ->
  n <= length rows -> rows_deficient n rows ->
  CM.solve o CM.NoFault st = (st, CM.Err CM.EDOM).
Proof. exact (fun Hfv Hp Ho => rank_deficient_edom_lemma o st vals pvalf Hfv Hp Ho f k). Qed.
Print Assumptions rank_deficient_edom_if_numeric_verdict_exact.

(* the two models use the same number of unknowns and systems (every type, all dimensions) *)
Theorem count_model_layout_agrees (ty : CM.ctype) (r c : nat) :
  CM.unknowns ty r c = SolveSimple.unknowns (cty ty) r c /\ CM.systems ty c = systems_of (cty ty) c.
Proof. exact (conj (unknowns_agree ty r c) (systems_agree ty c)). Qed.
Print Assumptions count_model_layout_agrees.

Example count_test_and_full_rank_solve_if_numeric_verdict_exact_satisfiable :
  let st := cm_state [2; 3; 4; 5] in
  let vals := fun _ : nat => ms_of [3; 4; 5; 6]%Z in
  let pvalf := fun _ : nat => EndToEnd.ex_pval4 in
  let o := model_oracle vals pvalf in
  CM.st_fvalid st = true /\ CM.solve_path st = CM.PSimple /\ oracle_is_model o st vals pvalf /\
  counts_agree st vals pvalf /\ CM.count_deficient st = false /\
  (forall f k, f < CM.st_freqs st -> k < CM.systems CM.T8 1 ->
     kernel_trivial (SolveSimple.unknowns LayoutGen.T8 1 1) (q_assemble LayoutGen.T8 1 1 (vals f) (pvalf f) k)) /\
  (forall f, f < CM.st_freqs st -> o (CM.view_of st) f (CM.systems CM.T8 1) = true) /\
  CM.solve o CM.NoFault st = (CP.solved st, CM.Ok).
Proof. exact count_and_rank_example. Qed.

Example rank_deficient_edom_if_numeric_verdict_exact_satisfiable :
  let st := cm_state [2; 2; 3; 2] in
  let vals := fun _ : nat => ms_of [3; 3; 4; 3]%Z in
  let pvalf := fun _ : nat => EndToEnd.ex_pval4 in
  let o := model_oracle vals pvalf in
  CM.count_deficient st = false /\ counts_agree st vals pvalf /\
  rows_deficient (SolveSimple.unknowns LayoutGen.T8 1 1) (q_assemble LayoutGen.T8 1 1 (vals 0) (pvalf 0) 0) /\
  CM.solve o CM.NoFault st = (st, CM.Err CM.EDOM).
Proof. exact rank_deficient_edom_example. Qed.

(* ==================================================================================================
   Session 5, second part: the link between the two models of _vnacal_new_add_common (coq/SolveCount/DeterminingLink*.v),
   which discharges the hypothesis counts_agree of the join theorems.
   to_cal_args translates a call of the count model into a call of Cal.AddModel (slot k = handle k, slot 0 = VNACAL_ZERO).
   link_ok cf a: where CountModel.check_args accepts, AddModel.add_common returns Accepted m with the SAME equations
   (system, row, column) IN THE SAME ORDER as CountModel.gen_equations, the same full S matrix and the same connectivity
   matrix; where it rejects, add_common returns Rejected; Undefined: no claim.
   PROVED IN GENERAL (every configuration, every history): if every call of a history satisfies link_ok, the two models count
   the same equations per system after the history (counts_link), hence counts_agree (counts_agree_of_link) and the join
   theorems without that hypothesis (count_and_rank_solve_linked_if_numeric_verdict_exact, rank_deficient_edom_linked_if_numeric_verdict_exact).
   BOUNDED: link_ok itself is decided by the kernel VM on an explicit sweep - all 8 types x dimensions 1..3 x 1..3 that
   vnacal_new_alloc accepts (48 configurations) x seven call generators: 138354 calls (link_sweep_counts), and 25346 calls
   with error modelling on T16/U16 - not proved for all arguments (argument checks, sorted port map, zero fill,
   iterated closure = union-find closure, build_terms never asserts: see docs/design_C20.md).  For a concrete history the
   hypothesis is decidable by vm_compute. *)
Require Import NArith.
Require Import LV.SolveCount.DeterminingLinkModel LV.SolveCount.DeterminingLinkProofs LV.SolveCount.DeterminingLinkJoin LV.SolveCount.DeterminingLinkExamples.

Theorem link_swept_bounded : forall x, In x link_cases -> link_ok (fst x) (snd x) = true.
Proof. exact link_swept_bounded_lemma. Qed.
Print Assumptions link_swept_bounded.

Theorem link_swept_merr_bounded : forall x, In x link_cases_16 -> link_ok_m (fst x) true (snd x) = true.
Proof. exact link_swept_merr_bounded_lemma. Qed.
Print Assumptions link_swept_merr_bounded.

(* the bound: categories = single reflect, double reflect, through/line, full P x P mapped matrix, smaller square mapped
   matrix, rectangular / out-of-range S dimensions, diagonal on 3 ports *)
Theorem link_sweep_counts :
  length configs = 48 /\
  map count_cat categories = [4122; 30490; 44274; 37376; 9996; 10176; 1920]%N /\
  N.of_nat (length link_cases) = 138354%N /\
  count_verdict CM.Accept = [864; 1840; 6256; 21920; 6132; 384; 1152]%N /\
  count_verdict CM.Reject = [3258; 28650; 38018; 15456; 3864; 9792; 768]%N /\
  count_verdict CM.Undefined = [0; 0; 0; 0; 0; 0; 0]%N /\
  (N.of_nat (length link_cases_16),
   N.of_nat (length (filter (fun x => verdict_is (CM.check_args (fst x) (snd x)) CM.Accept) link_cases_16)),
   N.of_nat (length (filter (fun x => CP.accepted (fst x) true (snd x)) link_cases_16))) = (25346, 7818, 5622)%N.
Proof. exact link_case_counts. Qed.
Print Assumptions link_sweep_counts.

(* general: every configuration, every history *)
Theorem counts_link (cf : CM.config) (F : nat) (v : bool) (l : list CM.add_args) (k : nat) :
  Forall (fun a => link_ok cf a = true /\ defined cf a = true) l ->
  k < CM.systems (CM.cf_ty cf) (CM.cf_c cf) ->
  CM.sys_count (CP.run_adds (CM.init cf F v) l) k =
  length (system_equations (cty (CM.cf_ty cf)) (cal_run [] (map (to_cal_args cf false) l)) k).
Proof. exact (counts_link_lemma cf F v l k). Qed.
Print Assumptions counts_link.

Theorem counts_agree_of_link (cf : CM.config) (F : nat) (l : list CM.add_args)
      (vals : nat -> list (mvals qops)) (pvalf : nat -> Z -> qi) :
  Forall (fun a => link_ok cf a = true /\ defined cf a = true) l ->
  (forall f, f < F -> map (mv_meas qops) (vals f) = cal_run [] (map (to_cal_args cf false) l)) ->
  counts_agree (CP.run_adds (CM.init cf F true) l) vals pvalf.
Proof. exact (counts_agree_of_link_lemma cf F l vals pvalf). Qed.
Print Assumptions counts_agree_of_link.

Theorem count_and_rank_solve_linked_if_numeric_verdict_exact (o : CM.oracle) (cf : CM.config) (F : nat) (l : list CM.add_args)
      (vals : nat -> list (mvals qops)) (pvalf : nat -> Z -> qi) :
  let st := CP.run_adds (CM.init cf F true) l in
  let ty := cty (CM.cf_ty cf) in
  let ns := CM.systems (CM.cf_ty cf) (CM.cf_c cf) in
  Forall (fun a => link_ok cf a = true /\ defined cf a = true) l ->
  (forall f, f < F -> map (mv_meas qops) (vals f) = cal_run [] (map (to_cal_args cf false) l)) ->
  CM.solve_path st = CM.PSimple -> oracle_is_model o st vals pvalf ->
  CM.count_deficient st = false ->
  (forall f k, f < F -> k < ns ->
     kernel_trivial (SolveSimple.unknowns ty (CM.cf_r cf) (CM.cf_c cf))
                    (q_assemble ty (CM.cf_r cf) (CM.cf_c cf) (vals f) (pvalf f) k)) ->
  (forall f, f < F -> o (CM.view_of st) f ns = true) ->
  CM.solve o CM.NoFault st = (CP.solved st, CM.Ok).
Proof. exact (count_and_rank_solve_linked_lemma o cf F l vals pvalf). Qed.
Print Assumptions count_and_rank_solve_linked_if_numeric_verdict_exact.

(* "enough equations" is now the count test of the count model, through the link *)
Theorem rank_deficient_edom_linked_if_numeric_verdict_exact (o : CM.oracle) (cf : CM.config) (F : nat) (l : list CM.add_args)
      (vals : nat -> list (mvals qops)) (pvalf : nat -> Z -> qi) (f k : nat) :
  let st := CP.run_adds (CM.init cf F true) l in
  let n := SolveSimple.unknowns (cty (CM.cf_ty cf)) (CM.cf_r cf) (CM.cf_c cf) in
  Forall (fun a => link_ok cf a = true /\ defined cf a = true) l ->
  (forall f, f < F -> map (mv_meas qops) (vals f) = cal_run nil (map (to_cal_args cf false) l)) ->
  CM.solve_path st = CM.PSimple -> oracle_is_model o st vals pvalf ->
  CM.count_deficient st = false ->
  f < F -> k < CM.systems (CM.cf_ty cf) (CM.cf_c cf) ->
  rows_deficient n (q_assemble (cty (CM.cf_ty cf)) (CM.cf_r cf) (CM.cf_c cf) (vals f) (pvalf f) k) ->
  CM.solve o CM.NoFault st = (st, CM.Err CM.EDOM).
Proof. exact (count_ok_rank_deficient_edom_linked_lemma o cf F l vals pvalf f k). Qed.
Print Assumptions rank_deficient_edom_linked_if_numeric_verdict_exact.

Example count_and_rank_solve_linked_if_numeric_verdict_exact_satisfiable :
  let st := CP.run_adds (CM.init cm_cf 1 true) lk_calls in
  let vals := fun _ : nat => ms_of [3; 4; 5; 6]%Z in
  let pvalf := fun _ : nat => EndToEnd.ex_pval4 in
  let o := model_oracle vals pvalf in
  Forall (fun a => link_ok cm_cf a = true /\ defined cm_cf a = true) lk_calls /\
  (forall f, f < 1 -> map (mv_meas qops) (vals f) = cal_run [] (map (to_cal_args cm_cf false) lk_calls)) /\
  counts_agree st vals pvalf /\
  CM.solve o CM.NoFault st = (CP.solved st, CM.Ok).
Proof. exact count_and_rank_linked_example. Qed.


(* ==================================================================================================
   DD90 (review round 2, H1).  With unknown parameters _vnacal_new_solve_auto compared only the TOTALS
   (vn_equations + correlated < x_length + p_length); for UE14 / E12 (one linear system per column) a column could have fewer
   equations than error terms while the total passed, and vnacal_new_solve returned 0 with invented terms.  fixes/DD90 adds the
   per-system test of the simple path; CountModel.count_deficient follows the repaired code (short_system || totals),
   CountModel.count_deficient_before_DD90 is the old reading (model_variant_before_DD90). *)
Require Import LV.SolveCount.DeterminingDD90.

(* every type, dimensions, history, >= 1 frequency: unknown parameters, not the TRL shape, SOME system has fewer equations than
   error terms => EDOM, object unchanged (whatever the totals) *)
Theorem underdetermined_edom_unknown_parameters_short_system (o : CM.oracle) (cf : CM.config) (F : nat)
        (stds : list CM.add_args) (k : nat) :
  let st := CP.run_adds (CM.init cf F true) stds in
  0 < F -> CM.st_unknown st <> 0 -> CM.is_trl st = false ->
  k < CM.systems (CM.cf_ty cf) (CM.cf_c cf) ->
  CM.sys_count st k < CM.unknowns (CM.cf_ty cf) (CM.cf_r cf) (CM.cf_c cf) ->
  CM.solve o CM.NoFault st = (st, CM.Err CM.EDOM).
Proof. exact (underdetermined_auto_short_system_edom_l o cf F stds k). Qed.
Print Assumptions underdetermined_edom_unknown_parameters_short_system.

(* the reviewer's calibration: UE14 2x2, a through, six reflects on port 1 (one an unknown parameter), a short on port 2:
   column 1 has 3 equations for 5 error terms, the totals pass (11 >= 10 + 1) *)
Example underdetermined_edom_unknown_parameters_short_system_satisfiable :
  CM.alloc_ok CM.UE14 2 2 = true /\ CM.solve_path dd90_st = CM.PAuto /\ CM.st_unknown dd90_st = 1 /\ CM.is_trl dd90_st = false /\
  CM.unknowns CM.UE14 2 2 = 5 /\ CM.sys_count dd90_st 0 = 8 /\ CM.sys_count dd90_st 1 = 3 /\
  CM.st_equations dd90_st + CM.st_corr dd90_st >= CM.x_length dd90_st + CM.st_unknown dd90_st /\
  CM.count_deficient_before_DD90 dd90_st = false /\ CM.count_deficient dd90_st = true /\
  (forall o, CM.solve o CM.NoFault dd90_st = (dd90_st, CM.Err CM.EDOM)).
Proof. exact dd90_witness. Qed.

(* for the code before DD90 the statement "a system short of equations is refused by the count test" is false *)
Theorem short_system_refused_refuted_for_model_variant_before_DD90 :
  exists st k, CM.st_fvalid st = true /\ 0 < CM.st_freqs st /\ CM.st_unknown st <> 0 /\ CM.is_trl st = false /\
    k < CM.systems (CM.cf_ty (CM.st_cf st)) (CM.cf_c (CM.st_cf st)) /\
    CM.sys_count st k < CM.unknowns (CM.cf_ty (CM.st_cf st)) (CM.cf_r (CM.st_cf st)) (CM.cf_c (CM.st_cf st)) /\
    CM.count_deficient_before_DD90 st = false.
Proof. exact short_system_refused_refuted_before_DD90. Qed.
Print Assumptions short_system_refused_refuted_for_model_variant_before_DD90.

(* ==================================================================================================
   Review round 2, M2: from a concrete family of standards to "the set determines the terms" (coq/SolveCount/DeterminingSol.v).
   The textbook one-port short - open - match on T8, standards entered through add_common as coded: for ANY three measured values
   with m_short <> m_open the assembled coefficient matrix has full column rank, so the model solve succeeds; for measurements
   that come from ANY error box Ts, Ti, Tx (Tm = 1) with 1 - Tx <> 0, 1 + Tx <> 0 (the measurements exist) and Ts - Ti Tx <> 0
   (the box is invertible) the result is exactly that box.  Only this family; two-port SOLT and the other types are decided
   per case by the exact-rank oracle and the numeric-model tie of checks/C20.py. *)
Require Import LV.SolveCount.DeterminingSol LV.SolveCount.DeterminingE12.

Theorem sol_one_port_t8_determines (ms mo ml : CField.F QcI.QIF) : ms <> mo ->
  length (q_assemble LayoutGen.T8 1 1 (sol_ms LayoutGen.T8 ms mo ml) sol_pval 0) = 3 /\
  SolveSimple.unknowns LayoutGen.T8 1 1 = 3 /\
  kernel_trivial 3 (q_assemble LayoutGen.T8 1 1 (sol_ms LayoutGen.T8 ms mo ml) sol_pval 0).
Proof. exact (sol_t8_full_rank ms mo ml). Qed.
Print Assumptions sol_one_port_t8_determines.

Theorem sol_one_port_t8_solves (ms mo ml : CField.F QcI.QIF) : ms <> mo ->
  exists x, q_solve_system LayoutGen.T8 1 1 (sol_ms LayoutGen.T8 ms mo ml) sol_pval 0 =
            SysOk (q_assemble LayoutGen.T8 1 1 (sol_ms LayoutGen.T8 ms mo ml) sol_pval 0) x.
Proof. exact (sol_t8_solves ms mo ml). Qed.
Print Assumptions sol_one_port_t8_solves.

Theorem sol_one_port_t8_recovers_error_box (ts ti tx : CField.F QcI.QIF) :
  CField.csub CField.c1 tx <> CField.c0 -> CField.cadd CField.c1 tx <> CField.c0 ->
  CField.csub ts (CField.cmul ti tx) <> CField.c0 ->
  q_solve_system LayoutGen.T8 1 1
    (sol_ms LayoutGen.T8 (box_m ts ti tx (CField.copp CField.c1)) (box_m ts ti tx CField.c1) (box_m ts ti tx CField.c0)) sol_pval 0 =
  SysOk (q_assemble LayoutGen.T8 1 1
           (sol_ms LayoutGen.T8 (box_m ts ti tx (CField.copp CField.c1)) (box_m ts ti tx CField.c1) (box_m ts ti tx CField.c0)) sol_pval 0)
        [ts; ti; tx].
Proof. exact (sol_t8_recovers_error_box ts ti tx). Qed.
Print Assumptions sol_one_port_t8_recovers_error_box.

Example sol_one_port_t8_recovers_error_box_satisfiable :
  let ts : CField.F QcI.QIF := mkqi 2 1 0 1 in let ti : CField.F QcI.QIF := mkqi 1 2 0 1 in let tx : CField.F QcI.QIF := mkqi 1 4 0 1 in
  CField.csub (@CField.c1 QcI.QIF) tx <> @CField.c0 QcI.QIF /\ CField.cadd (@CField.c1 QcI.QIF) tx <> @CField.c0 QcI.QIF /\
  CField.csub ts (CField.cmul ti tx) <> @CField.c0 QcI.QIF.
Proof. exact sol_t8_recovers_error_box_example. Qed.

(* Review round 2, M4: E12.  SolveSimple.convert_ue14_to_e12 is total (x / 0 = 0 in the model's field) whereas the C function
   returns EDOM when a um term is zero (vnacal_new_solve.c:690; modelled by EndToEndE12Check.convert_ue14_to_e12_checked).  With
   the premise "every um term of the solved vector is non-zero" the checked conversion takes its success path and returns what
   determining_set_solves states; without it determining_set_solves (section 6d) says nothing about the C outcome for E12. *)
Theorem determining_set_solves_e12_checked mr mc (ms : list (mvals qops)) (pval : Z -> qi) (xs_true : list (list qi)) :
  let n := SolveSimple.unknowns E12_UE14 mr mc in
  let nsys := systems_of E12_UE14 mc in
  let e14 := e_vector qops E12_UE14 mr mc ms xs_true in
  length xs_true = nsys ->
  (forall sys, sys < nsys ->
     let xt := nth sys xs_true [] in
     let rows := q_assemble E12_UE14 mr mc ms pval sys in
     length xt = n /\ (forall r, In r rows -> rdot n (fst r) xt = snd r) /\
     n <= length rows /\ kernel_trivial n rows) ->
  (forall c r, c < mc -> r < mr -> EndToEndE12Check.um_of qops mr mc e14 c r <> qi0) ->
  q_error_terms E12_UE14 mr mc ms pval = Some (convert_ue14_to_e12 qops mr mc e14) /\
  EndToEndE12Check.q_convert_checked mr mc e14 = Some (convert_ue14_to_e12 qops mr mc e14).
Proof. exact (determining_set_solves_e12_checked_lemma mr mc ms pval xs_true). Qed.
Print Assumptions determining_set_solves_e12_checked.

(* a witness that exercises the E12 conversion (one-port E12: el = -1/4, er = 11/24, em = 1/6) *)
Example determining_set_solves_e12_checked_satisfiable :
  ltac:(let T := type of determining_set_solves_e12_example in exact T).
Proof. exact determining_set_solves_e12_example. Qed.
