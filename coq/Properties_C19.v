(* Property C19 (linear systems): theorems only.  Every statement is about the executable model
   LV.Lin.LuModel of src/vnacommon_lu.c / _mldivide.c / _mrdivide.c / _minverse.c (tied to the
   code by checks/C19.py on every run, the row-scale variant being read from the C text) and about
   the least-squares specification LV.Lin.LsSpec of _vnacommon_qrsolve / _qr + _qrsolve2.
   Exact field arithmetic stands for binary64: backward stability in binary64 and numerical rank
   decisions are NOT proved here (named in the manifest). *)
Require Import List Arith Bool.
Require Import QArith Qcanon.
Require Import LV.Base.CField LV.Base.QcI LV.Lin.MatL LV.Lin.LuModel LV.Lin.LuQI LV.Lin.LsSpec LV.Lin.LuQI2.
Require Import LV.Lin.LuGen LV.Lin.LuPivot LV.Lin.LuDet3 LV.Lin.LuProofs LV.Lin.LsProofs.
Local Open Scope nat_scope.

(* ---- lu_solves, every n.  If every pivot met is nonzero then A (A \ B) = B, (B / A) A = B,
   A A^-1 = I, and the determinant returned is (-1)^(row exchanges) * product of the pivots.
   No hypothesis on the pivot choice (M, ltM, scale_of_max arbitrary). *)
Theorem c19_lu_solves (K : CField) (M : Type) (nrm2 : K -> M) (mulM : M -> M -> M) (ltM : M -> M -> bool)
    (zeroM : M) (scale_of_max : M -> M) (n : nat) (a : mat K) :
  wf n n a -> pivots_nonzero K M nrm2 mulM ltM zeroM scale_of_max a n ->
  (forall m (b : mat K), wf n m b -> forall i k, i < n -> k < m ->
      mget K (mmul K n n m a (fst (mldivide K M nrm2 mulM ltM zeroM scale_of_max a b n m))) i k = mget K b i k) /\
  (forall m (b : mat K), wf m n b -> forall i k, i < m -> k < n ->
      mget K (mmul K m n n (fst (mrdivide K M nrm2 mulM ltM zeroM scale_of_max b a m n)) a) i k = mget K b i k) /\
  (forall i k, i < n -> k < n ->
      mget K (mmul K n n n a (fst (minverse K M nrm2 mulM ltM zeroM scale_of_max a n))) i k
      = (if Nat.eqb i k then c1 else c0)) /\
  lu_d K M (lu K M nrm2 mulM ltM zeroM scale_of_max a n)
  = cmul (pm1 K (swap_count K M nrm2 mulM ltM zeroM scale_of_max a n n))
         (prodf K n (fun j => mget K (lu_a K M (lu K M nrm2 mulM ltM zeroM scale_of_max a n)) j j)).
Proof. exact (lu_solves K M nrm2 mulM ltM zeroM scale_of_max n a). Qed.
Print Assumptions c19_lu_solves.

(* the three solvers return exactly that determinant *)
Theorem c19_solvers_return_lu_d (K : CField) (M : Type) nrm2 mulM ltM zeroM scale_of_max (a b : mat K) n m :
  snd (mldivide K M nrm2 mulM ltM zeroM scale_of_max a b n m) = lu_d K M (lu K M nrm2 mulM ltM zeroM scale_of_max a n) /\
  snd (mrdivide K M nrm2 mulM ltM zeroM scale_of_max b a m n) = lu_d K M (lu K M nrm2 mulM ltM zeroM scale_of_max a n) /\
  snd (minverse K M nrm2 mulM ltM zeroM scale_of_max a n) = lu_d K M (lu K M nrm2 mulM ltM zeroM scale_of_max a n).
Proof. exact (solvers_return_lu_d K M nrm2 mulM ltM zeroM scale_of_max a b n m). Qed.
Print Assumptions c19_solvers_return_lu_d.

(* P A = L U entrywise (Crout invariant at the end of the run), every n *)
Theorem c19_lu_PA_eq_LU (K : CField) (M : Type) nrm2 mulM ltM zeroM scale_of_max (a : mat K) n :
  wf n n a -> (forall j, j < n -> mget K (lu_a K M (lu K M nrm2 mulM ltM zeroM scale_of_max a n)) j j <> c0) ->
  forall i c, i < n -> c < n ->
    mget K a (nth i (lu_ri K M (lu K M nrm2 mulM ltM zeroM scale_of_max a n)) O) c =
    sumf n (fun k => cmul (Lf K (mget K (lu_a K M (lu K M nrm2 mulM ltM zeroM scale_of_max a n))) i k)
                          (Uf K (mget K (lu_a K M (lu K M nrm2 mulM ltM zeroM scale_of_max a n))) k c)).
Proof. exact (lu_PA_eq_LU K M nrm2 mulM ltM zeroM scale_of_max a n). Qed.
Print Assumptions c19_lu_PA_eq_LU.

(* row_index is a permutation and is the sequence of pivot rows *)
Theorem c19_lu_ri_perm (K : CField) (M : Type) nrm2 mulM ltM zeroM scale_of_max (a : mat K) n :
  wf n n a -> Permutation.Permutation (lu_ri K M (lu K M nrm2 mulM ltM zeroM scale_of_max a n)) (seq 0 n).
Proof. exact (lu_ri_perm K M nrm2 mulM ltM zeroM scale_of_max a n). Qed.
Print Assumptions c19_lu_ri_perm.

Theorem c19_lu_pivots_eq_ri (K : CField) (M : Type) nrm2 mulM ltM zeroM scale_of_max (a : mat K) n :
  wf n n a -> lu_pivots K M (lu K M nrm2 mulM ltM zeroM scale_of_max a n) = lu_ri K M (lu K M nrm2 mulM ltM zeroM scale_of_max a n).
Proof. exact (lu_pivots_eq_ri K M nrm2 mulM ltM zeroM scale_of_max a n). Qed.
Print Assumptions c19_lu_pivots_eq_ri.

(* the returned determinant IS det A, for n <= 3 only (bounded: explicit determinant formulas), for
   every pivot order *)
Theorem c19_lu_det_le3 (K : CField) (M : Type) nrm2 mulM ltM zeroM scale_of_max n (a : mat K) :
  n <= 3 -> wf n n a ->
  (forall j, j < n -> mget K (lu_a K M (lu K M nrm2 mulM ltM zeroM scale_of_max a n)) j j <> c0) ->
  lu_d K M (lu K M nrm2 mulM ltM zeroM scale_of_max a n) = detn K n a.
Proof. exact (lu_det_le3 K M nrm2 mulM ltM zeroM scale_of_max n a). Qed.
Print Assumptions c19_lu_det_le3.

(* ---- pivot_nonzero_if_any: the pivot search of one column returns a candidate of maximal and
   nonzero metric whenever a candidate with nonzero metric exists, and the pivot is then nonzero.
   Order hypotheses on the magnitude type M are premises. *)
Theorem c19_pivot_nonzero_if_any (K : CField) (M : Type) (nrm2 : K -> M) (mulM : M -> M -> M)
    (ltM : M -> M -> bool) (zeroM : M) :
  (forall x, ltM x x = false) ->
  (forall x y z, ltM x y = true -> ltM y z = true -> ltM x z = true) ->
  (forall x, mulM x zeroM = zeroM) ->
  nrm2 c0 = zeroM ->
  forall n (st : lu_state K M) j, wf n n (lu_a K M st) -> j < n ->
  (exists i, j <= i < n /\ ltM zeroM (cand_metric K M nrm2 mulM zeroM n st j i) = true) ->
  let bi := col_bi K M nrm2 mulM ltM zeroM n st j in
  j <= bi < n /\ ltM zeroM (cand_metric K M nrm2 mulM zeroM n st j bi) = true /\
  (forall i, j <= i < n ->
     ltM (cand_metric K M nrm2 mulM zeroM n st j bi) (cand_metric K M nrm2 mulM zeroM n st j i) = false) /\
  mget K (lu_a K M (lu_column K M nrm2 mulM ltM zeroM n st j)) j j <> c0.
Proof. exact (pivot_nonzero_if_any K M nrm2 mulM ltM zeroM). Qed.
Print Assumptions c19_pivot_nonzero_if_any.

(* same, from a candidate value s_i <> 0 in a row with positive row scale *)
Theorem c19_pivot_nonzero_if_any_s (K : CField) (M : Type) (nrm2 : K -> M) (mulM : M -> M -> M)
    (ltM : M -> M -> bool) (zeroM : M) :
  (forall x, ltM x x = false) ->
  (forall x y z, ltM x y = true -> ltM y z = true -> ltM x z = true) ->
  (forall x y, ltM zeroM x = true -> ltM zeroM y = true -> ltM zeroM (mulM x y) = true) ->
  (forall x, mulM x zeroM = zeroM) ->
  nrm2 c0 = zeroM ->
  (forall x : K, x <> c0 -> ltM zeroM (nrm2 x) = true) ->
  forall n (st : lu_state K M) j, wf n n (lu_a K M st) -> j < n ->
  (exists i, j <= i < n /\ cand_s K M n st j i <> c0 /\ ltM zeroM (nth i (lu_rs K M st) zeroM) = true) ->
  let bi := col_bi K M nrm2 mulM ltM zeroM n st j in
  j <= bi < n /\ ltM zeroM (cand_metric K M nrm2 mulM zeroM n st j bi) = true /\
  (forall i, j <= i < n ->
     ltM (cand_metric K M nrm2 mulM zeroM n st j bi) (cand_metric K M nrm2 mulM zeroM n st j i) = false) /\
  mget K (lu_a K M (lu_column K M nrm2 mulM ltM zeroM n st j)) j j <> c0.
Proof. exact (pivot_nonzero_if_any_s K M nrm2 mulM ltM zeroM). Qed.
Print Assumptions c19_pivot_nonzero_if_any_s.

(* ---- lu_singular_flagged, every n: a matrix with a nonzero kernel vector meets a zero pivot and
   the determinant returned is 0 (what the call sites test).  K needs a decidable zero test. *)
Theorem c19_lu_singular_flagged (K : CField) (M : Type) nrm2 mulM ltM zeroM scale_of_max :
  (forall x : K, x = c0 \/ x <> c0) ->
  forall (a : mat K) n, wf n n a ->
  (exists v, in_kernel K a n v /\ exists k, k < n /\ v k <> c0) ->
  (exists j, j < n /\ mget K (lu_a K M (lu K M nrm2 mulM ltM zeroM scale_of_max a n)) j j = c0) /\
  lu_d K M (lu K M nrm2 mulM ltM zeroM scale_of_max a n) = c0.
Proof. exact (lu_singular_flagged K M nrm2 mulM ltM zeroM scale_of_max). Qed.
Print Assumptions c19_lu_singular_flagged.

Theorem c19_lu_kernel_trivial (K : CField) (M : Type) nrm2 mulM ltM zeroM scale_of_max (a : mat K) n :
  wf n n a -> pivots_nonzero K M nrm2 mulM ltM zeroM scale_of_max a n ->
  forall v, in_kernel K a n v -> forall k, k < n -> v k = c0.
Proof. exact (lu_kernel_trivial K M nrm2 mulM ltM zeroM scale_of_max a n). Qed.
Print Assumptions c19_lu_kernel_trivial.

(* ---- pivot_scale_invariant, whole run, every n, for the coded metric |s_i| / rowmax_i
   (scale_of_max = reciprocal): multiplying the rows of a nonsingular A by nonzero factors does not
   change the sequence of original rows chosen as pivots.  M is an ordered-field-like structure
   (premises). *)
Theorem c19_pivot_scale_invariant (K : CField) (M : Type) (nrm2 : K -> M) (mulM : M -> M -> M)
    (ltM : M -> M -> bool) (zeroM : M) :
  (forall x, mulM x zeroM = zeroM) ->
  (forall x : K, x <> c0 -> ltM zeroM (nrm2 x) = true) ->
  forall (oneM : M) (invM : M -> M),
  (forall x y, mulM x y = mulM y x) ->
  (forall x y z, mulM x (mulM y z) = mulM (mulM x y) z) ->
  (forall x, mulM oneM x = x) ->
  (forall x, ltM zeroM x = true -> mulM (invM x) x = oneM) ->
  (forall x y, invM (mulM x y) = mulM (invM x) (invM y)) ->
  (forall d x y, ltM zeroM d = true -> ltM (mulM d x) (mulM d y) = ltM x y) ->
  (forall x y : K, nrm2 (cmul x y) = mulM (nrm2 x) (nrm2 y)) ->
  forall (a : mat K) n (d : nat -> K), wf n n a -> (forall i, i < n -> d i <> c0) ->
  (forall j, j < n -> mget K (lu_a K M (lu K M nrm2 mulM ltM zeroM invM a n)) j j <> c0) ->
  lu_pivots K M (lu K M nrm2 mulM ltM zeroM invM (scale_rows K d a n) n)
  = lu_pivots K M (lu K M nrm2 mulM ltM zeroM invM a n).
Proof. exact (pivot_scale_invariant K M nrm2 mulM ltM zeroM). Qed.
Print Assumptions c19_pivot_scale_invariant.

(* its instance at the Gaussian rationals, i.e. for the model the correspondence runs
   (qp_lu = LuModel at Q[i] with the reciprocal row scale): no premises on M left *)
Theorem c19_pivot_scale_invariant_QI (a : mat QIF) n (d : nat -> QIF) :
  wf n n a -> (forall i, i < n -> d i <> c0) ->
  (forall j, j < n -> mget QIF (lu_a QIF Qc (qp_lu a n)) j j <> c0) ->
  lu_pivots QIF Qc (qp_lu (scale_rows QIF d a n) n) = lu_pivots QIF Qc (qp_lu a n).
Proof. exact (q_pivot_scale_invariant a n d). Qed.
Print Assumptions c19_pivot_scale_invariant_QI.

(* regression witness for defect D25 (repaired in /repo): with the row scale equal to the row
   maximum itself (metric |s_i| * rowmax_i, the statement the code had) scaling one row of a 2x2
   dyadic matrix by 4 changes the pivot rows *)
Theorem c19_pivot_scale_invariant_refuted_for_max_metric :
  exists (a : mat QIF) (n i : nat) (d : QIF), wf n n a /\ i < n /\ d <> c0 /\
    lu_pivots QIF Qc (q2_lu_max (scale_row a n i d) n) <> lu_pivots QIF Qc (q2_lu_max a n).
Proof. exact pivot_scale_invariant_refuted. Qed.
Print Assumptions c19_pivot_scale_invariant_refuted_for_max_metric.

(* ---- least squares: the normal-equation specification *)
Theorem c19_ls_solve_normal m n o (a b x : mat QIF) :
  q2_ls_solve m n o a b = Some x -> normal_eq m n o a b x.
Proof. exact (ls_solve_normal m n o a b x). Qed.
Print Assumptions c19_ls_solve_normal.

Theorem c19_ls_minimises m n o (a b x : mat QIF) : normal_eq m n o a b x ->
  forall y : mat QIF, (res2 m n o a x b <= res2 m n o a y b)%Qc.
Proof. exact (ls_minimises m n o a b x). Qed.
Print Assumptions c19_ls_minimises.

Theorem c19_ls_consistent_exact m n o (a b x : mat QIF) : normal_eq m n o a b x ->
  (exists x0 : mat QIF, forall i k, i < m -> k < o -> mget QIF (mmul QIF m n o a x0) i k = mget QIF b i k) ->
  forall i k, i < m -> k < o -> mget QIF (mmul QIF m n o a x) i k = mget QIF b i k.
Proof. exact (ls_consistent_exact m n o a b x). Qed.
Print Assumptions c19_ls_consistent_exact.

Theorem c19_ls_solve_minimises m n o (a b x : mat QIF) : q2_ls_solve m n o a b = Some x ->
  forall y : mat QIF, (res2 m n o a x b <= res2 m n o a y b)%Qc.
Proof. exact (ls_solve_minimises m n o a b x). Qed.
Print Assumptions c19_ls_solve_minimises.
