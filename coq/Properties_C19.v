(* Property C19 (linear systems): theorems only.
   LU part: every statement is about the executable model LV.Lin.LuModel of src/vnacommon_lu.c /
   _mldivide.c / _mrdivide.c / _minverse.c and its partial version LV.Lin.LuPartial.lu_c (what the C
   code returns when a pivot is exactly zero: 0 or NaN), both tied to the code by checks/C19.py on
   every run (row-scale variant read from the C text; zero pivots at every column position).
   Least-squares part: the c19_ls_* theorems are SPECIFICATION LEVEL (normal equations, the executable
   oracle LsLu.ls_lu the C routines are compared with numerically).  The c19_qr_* theorems at the end are
   about the model LV.Lin.QrModel of the Householder code as coded (_vnacommon_qrd, the rank rule and the
   solve of _vnacommon_qrsolve, the R matrix of _vnacommon_qr), over an abstract field with involution;
   sqrt() and cexp(I carg()) are parameters whose laws enter as the per-run premise [run_laws]
   (checked by computation at Q[i]: QrQI.qq_run_lawsb); forming Q explicitly (_vnacommon_qr) and
   _vnacommon_qrsolve2 are not modelled.
   Exact field arithmetic stands for binary64: backward stability in binary64, numerical rank
   decisions and the behaviour of the order premises under NaN metrics are NOT proved (named in the
   manifest and in docs/design_C19.md). *)
Require Import List Arith Bool.
Require Import QArith Qcanon.
Require Import LV.Base.CField LV.Base.QcI LV.Lin.MatL LV.Lin.LuModel LV.Lin.LuPartial LV.Lin.LuQI LV.Lin.LsSpec LV.Lin.LsLu LV.Lin.LuQI2.
Require Import LV.Lin.QrModel LV.Lin.QrAlg LV.Lin.QrProofs LV.Lin.QrTheorems LV.Lin.QrQI LV.Lin.QrQIProofs.
Require Import LV.Lin.LuGen LV.Lin.LuPivot LV.Lin.LuDet3 LV.Lin.LuProofs LV.Lin.LuNonsing LV.Lin.LuNonsingQI LV.Lin.LsProofs LV.Lin.LsLuProofs.
Local Open Scope nat_scope.

(* ---- lu_solves, every n, from a hypothesis on the INPUT: if A has a trivial kernel (A v = 0 only
   for v = 0) then A (A \ B) = B, (B / A) A = B, A A^-1 = I and the returned determinant is nonzero.
   Premises on the magnitude type M (order laws, instantiated at Qc in c19_lu_outcome_QI below):
   < irreflexive, transitive, negatively transitive; products of positives positive; x*0 = 0;
   |0| = 0; |x| > 0 for x <> 0; the row-scale function maps positives to positives; decidable
   x = 0 on K.  (In binary64 these laws fail for NaN metrics: not covered, see design_C19.) *)
Theorem c19_lu_solves (K : CField) (M : Type) (nrm2 : K -> M) (mulM : M -> M -> M) (ltM : M -> M -> bool)
    (zeroM : M) (scale_of_max : M -> M) :
  (forall x, ltM x x = false) ->
  (forall x y z, ltM x y = true -> ltM y z = true -> ltM x z = true) ->
  (forall x y z, ltM x z = true -> ltM x y = false -> ltM y z = true) ->
  (forall x y, ltM zeroM x = true -> ltM zeroM y = true -> ltM zeroM (mulM x y) = true) ->
  (forall x, mulM x zeroM = zeroM) ->
  nrm2 c0 = zeroM ->
  (forall x : K, x <> c0 -> ltM zeroM (nrm2 x) = true) ->
  (forall x, ltM zeroM x = true -> ltM zeroM (scale_of_max x) = true) ->
  (forall x : K, x = c0 \/ x <> c0) ->
  forall n (a : mat K), wf n n a -> kernel_trivial K a n ->
  (forall m (b : mat K), wf n m b -> forall i k, i < n -> k < m ->
      mget K (mmul K n n m a (fst (mldivide K M nrm2 mulM ltM zeroM scale_of_max a b n m))) i k = mget K b i k) /\
  (forall m (b : mat K), wf m n b -> forall i k, i < m -> k < n ->
      mget K (mmul K m n n (fst (mrdivide K M nrm2 mulM ltM zeroM scale_of_max b a m n)) a) i k = mget K b i k) /\
  (forall i k, i < n -> k < n ->
      mget K (mmul K n n n a (fst (minverse K M nrm2 mulM ltM zeroM scale_of_max a n))) i k
      = (if Nat.eqb i k then c1 else c0)) /\
  lu_d K M (lu K M nrm2 mulM ltM zeroM scale_of_max a n) <> c0.
Proof. exact (lu_solves_nonsingular K M nrm2 mulM ltM zeroM scale_of_max). Qed.
Print Assumptions c19_lu_solves.

(* the missing link: every pivot met is nonzero  <=>  the input has a trivial kernel *)
Theorem c19_pivots_nonzero_iff_nonsingular (K : CField) (M : Type) (nrm2 : K -> M) (mulM : M -> M -> M)
    (ltM : M -> M -> bool) (zeroM : M) (scale_of_max : M -> M) :
  (forall x, ltM x x = false) ->
  (forall x y z, ltM x y = true -> ltM y z = true -> ltM x z = true) ->
  (forall x y z, ltM x z = true -> ltM x y = false -> ltM y z = true) ->
  (forall x y, ltM zeroM x = true -> ltM zeroM y = true -> ltM zeroM (mulM x y) = true) ->
  (forall x, mulM x zeroM = zeroM) ->
  nrm2 c0 = zeroM ->
  (forall x : K, x <> c0 -> ltM zeroM (nrm2 x) = true) ->
  (forall x, ltM zeroM x = true -> ltM zeroM (scale_of_max x) = true) ->
  (forall x : K, x = c0 \/ x <> c0) ->
  forall (a : mat K) n, wf n n a ->
  (pivots_nonzero K M nrm2 mulM ltM zeroM scale_of_max a n <-> kernel_trivial K a n).
Proof. exact (pivots_nonzero_iff_trivial_kernel K M nrm2 mulM ltM zeroM scale_of_max). Qed.
Print Assumptions c19_pivots_nonzero_iff_nonsingular.

(* the conditional version (kept as a lemma): no hypothesis on the pivot choice at all, but the
   premise is a property of the OUTPUT of the run (the diagonal of the final array); also gives
   the determinant as (-1)^(row exchanges) * product of the pivots *)
Theorem c19_lu_solves_if_pivots_nonzero (K : CField) (M : Type) (nrm2 : K -> M) (mulM : M -> M -> M) (ltM : M -> M -> bool)
    (zeroM : M) (scale_of_max : M -> M) (n : nat) (a : mat K) :
  wf n n a -> pivots_nonzero K M nrm2 mulM ltM zeroM scale_of_max a n ->
  (forall m (b : mat K), wf n m b -> forall i k, i < n -> k < m ->
      mget K (mmul K n n m a (fst (mldivide K M nrm2 mulM ltM zeroM scale_of_max a b n m))) i k = mget K b i k) /\
  (forall m (b : mat K), wf m n b -> forall i k, i < m -> k < n ->
      mget K (mmul K m n n (fst (mrdivide K M nrm2 mulM ltM zeroM scale_of_max b a m n)) a) i k = mget K b i k) /\
  (forall i k, i < n -> k < n ->
      mget K (mmul K n n n a (fst (minverse K M nrm2 mulM ltM zeroM scale_of_max a n))) i k
      = (if Nat.eqb i k then c1 else c0)) /\
  lu_d K M (lu K M nrm2 mulM ltM zeroM scale_of_max a n)
  = cmul (pm1 K (swap_count K M nrm2 mulM ltM zeroM scale_of_max a n n))
         (prodf K n (fun j => mget K (lu_a K M (lu K M nrm2 mulM ltM zeroM scale_of_max a n)) j j)).
Proof. exact (lu_solves K M nrm2 mulM ltM zeroM scale_of_max n a). Qed.
Print Assumptions c19_lu_solves_if_pivots_nonzero.

(* the solution of a nonsingular system is unique: in exact arithmetic the result does not depend
   on the order or the scaling of the equations (the pivot SEQUENCE under row permutation is not
   proved invariant; the bitwise invariance of the real code is tested by checks/C19.py) *)
Theorem c19_nonsingular_solution_unique (K : CField) (a : mat K) n (x y : nat -> K) :
  kernel_trivial K a n ->
  (forall i, i < n -> sumf n (fun k => cmul (mget K a i k) (x k)) = sumf n (fun k => cmul (mget K a i k) (y k))) ->
  forall k, k < n -> x k = y k.
Proof. exact (nonsingular_solution_unique K a n x y). Qed.
Print Assumptions c19_nonsingular_solution_unique.

(* P A = L U entrywise (Crout invariant at the end of the run), every n *)
Theorem c19_lu_PA_eq_LU (K : CField) (M : Type) nrm2 mulM ltM zeroM scale_of_max (a : mat K) n :
  wf n n a -> (forall j, j < n -> mget K (lu_a K M (lu K M nrm2 mulM ltM zeroM scale_of_max a n)) j j <> c0) ->
  forall i c, i < n -> c < n ->
    mget K a (nth i (lu_ri K M (lu K M nrm2 mulM ltM zeroM scale_of_max a n)) O) c =
    sumf n (fun k => cmul (Lf K (mget K (lu_a K M (lu K M nrm2 mulM ltM zeroM scale_of_max a n))) i k)
                          (Uf K (mget K (lu_a K M (lu K M nrm2 mulM ltM zeroM scale_of_max a n))) k c)).
Proof. exact (lu_PA_eq_LU K M nrm2 mulM ltM zeroM scale_of_max a n). Qed.
Print Assumptions c19_lu_PA_eq_LU.

(* row_index is a permutation and is the sequence of pivot rows *)
Theorem c19_lu_ri_perm (K : CField) (M : Type) nrm2 mulM ltM zeroM scale_of_max (a : mat K) n :
  wf n n a -> Permutation.Permutation (lu_ri K M (lu K M nrm2 mulM ltM zeroM scale_of_max a n)) (seq 0 n).
Proof. exact (lu_ri_perm K M nrm2 mulM ltM zeroM scale_of_max a n). Qed.
Print Assumptions c19_lu_ri_perm.

Theorem c19_lu_pivots_eq_ri (K : CField) (M : Type) nrm2 mulM ltM zeroM scale_of_max (a : mat K) n :
  wf n n a -> lu_pivots K M (lu K M nrm2 mulM ltM zeroM scale_of_max a n) = lu_ri K M (lu K M nrm2 mulM ltM zeroM scale_of_max a n).
Proof. exact (lu_pivots_eq_ri K M nrm2 mulM ltM zeroM scale_of_max a n). Qed.
Print Assumptions c19_lu_pivots_eq_ri.

(* the returned determinant IS det A, for n <= 3 only (bounded: explicit determinant formulas), for
   every pivot order *)
Theorem c19_lu_det_le3 (K : CField) (M : Type) nrm2 mulM ltM zeroM scale_of_max n (a : mat K) :
  n <= 3 -> wf n n a ->
  (forall j, j < n -> mget K (lu_a K M (lu K M nrm2 mulM ltM zeroM scale_of_max a n)) j j <> c0) ->
  lu_d K M (lu K M nrm2 mulM ltM zeroM scale_of_max a n) = detn K n a.
Proof. exact (lu_det_le3 K M nrm2 mulM ltM zeroM scale_of_max n a). Qed.
Print Assumptions c19_lu_det_le3.

(* ---- pivot_nonzero_if_any: the pivot search of one column returns a candidate of maximal and
   nonzero metric whenever a candidate with nonzero metric exists, and the pivot is then nonzero.
   Order hypotheses on the magnitude type M are premises. *)
Theorem c19_pivot_nonzero_if_any (K : CField) (M : Type) (nrm2 : K -> M) (mulM : M -> M -> M)
    (ltM : M -> M -> bool) (zeroM : M) :
  (forall x, ltM x x = false) ->
  (forall x y z, ltM x y = true -> ltM y z = true -> ltM x z = true) ->
  (forall x, mulM x zeroM = zeroM) ->
  nrm2 c0 = zeroM ->
  forall n (st : lu_state K M) j, wf n n (lu_a K M st) -> j < n ->
  (exists i, j <= i < n /\ ltM zeroM (cand_metric K M nrm2 mulM zeroM n st j i) = true) ->
  let bi := col_bi K M nrm2 mulM ltM zeroM n st j in
  j <= bi < n /\ ltM zeroM (cand_metric K M nrm2 mulM zeroM n st j bi) = true /\
  (forall i, j <= i < n ->
     ltM (cand_metric K M nrm2 mulM zeroM n st j bi) (cand_metric K M nrm2 mulM zeroM n st j i) = false) /\
  mget K (lu_a K M (lu_column K M nrm2 mulM ltM zeroM n st j)) j j <> c0.
Proof. exact (pivot_nonzero_if_any K M nrm2 mulM ltM zeroM). Qed.
Print Assumptions c19_pivot_nonzero_if_any.

(* same, from a candidate value s_i <> 0 in a row with positive row scale *)
Theorem c19_pivot_nonzero_if_any_s (K : CField) (M : Type) (nrm2 : K -> M) (mulM : M -> M -> M)
    (ltM : M -> M -> bool) (zeroM : M) :
  (forall x, ltM x x = false) ->
  (forall x y z, ltM x y = true -> ltM y z = true -> ltM x z = true) ->
  (forall x y, ltM zeroM x = true -> ltM zeroM y = true -> ltM zeroM (mulM x y) = true) ->
  (forall x, mulM x zeroM = zeroM) ->
  nrm2 c0 = zeroM ->
  (forall x : K, x <> c0 -> ltM zeroM (nrm2 x) = true) ->
  forall n (st : lu_state K M) j, wf n n (lu_a K M st) -> j < n ->
  (exists i, j <= i < n /\ cand_s K M n st j i <> c0 /\ ltM zeroM (nth i (lu_rs K M st) zeroM) = true) ->
  let bi := col_bi K M nrm2 mulM ltM zeroM n st j in
  j <= bi < n /\ ltM zeroM (cand_metric K M nrm2 mulM zeroM n st j bi) = true /\
  (forall i, j <= i < n ->
     ltM (cand_metric K M nrm2 mulM zeroM n st j bi) (cand_metric K M nrm2 mulM zeroM n st j i) = false) /\
  mget K (lu_a K M (lu_column K M nrm2 mulM ltM zeroM n st j)) j j <> c0.
Proof. exact (pivot_nonzero_if_any_s K M nrm2 mulM ltM zeroM). Qed.
Print Assumptions c19_pivot_nonzero_if_any_s.

(* ---- singular inputs, every n: what _vnacommon_lu returns (model LuPartial.lu_c: LuModel.lu_column
   column by column, stopping with LuNonFinite j at the first column j < n-1 whose pivot is exactly
   zero, where binary64 computes 1/0 = inf and 0 * inf = NaN).  Exactly one of
     (1) A has a trivial kernel: finite run = the total model, all pivots nonzero, determinant <> 0;
     (2) A singular, first zero pivot in the LAST column: finite run, determinant exactly 0;
     (3) A singular, first zero pivot in a column j < n-1: non-finite from there on, NaN returned.
   "zero pivot met <=> A singular" is (2)/(3) vs (1).  Same premises on M as c19_lu_solves; isz is the
   zero test of K. *)
Theorem c19_lu_zero_pivot_outcome (K : CField) (M : Type) (nrm2 : K -> M) (mulM : M -> M -> M)
    (ltM : M -> M -> bool) (zeroM : M) (scale_of_max : M -> M) (isz : K -> bool) :
  (forall x : K, isz x = true <-> x = c0) ->
  (forall x, ltM x x = false) ->
  (forall x y z, ltM x y = true -> ltM y z = true -> ltM x z = true) ->
  (forall x y z, ltM x z = true -> ltM x y = false -> ltM y z = true) ->
  (forall x y, ltM zeroM x = true -> ltM zeroM y = true -> ltM zeroM (mulM x y) = true) ->
  (forall x, mulM x zeroM = zeroM) ->
  nrm2 c0 = zeroM ->
  (forall x : K, x <> c0 -> ltM zeroM (nrm2 x) = true) ->
  (forall x, ltM zeroM x = true -> ltM zeroM (scale_of_max x) = true) ->
  forall (a : mat K) n, wf n n a ->
  (kernel_trivial K a n /\
   lu_c K M nrm2 mulM ltM zeroM scale_of_max isz a n = LuFinite K M (lu K M nrm2 mulM ltM zeroM scale_of_max a n) /\
   pivots_nonzero K M nrm2 mulM ltM zeroM scale_of_max a n /\
   lu_d K M (lu K M nrm2 mulM ltM zeroM scale_of_max a n) <> c0) \/
  (singular K a n /\
   lu_c K M nrm2 mulM ltM zeroM scale_of_max isz a n = LuFinite K M (lu K M nrm2 mulM ltM zeroM scale_of_max a n) /\
   0 < n /\
   (forall k, k < n - 1 -> pivot_at K M nrm2 mulM ltM zeroM scale_of_max a n k <> c0) /\
   pivot_at K M nrm2 mulM ltM zeroM scale_of_max a n (n - 1) = c0 /\
   lu_d K M (lu K M nrm2 mulM ltM zeroM scale_of_max a n) = c0) \/
  (singular K a n /\ exists j, j < n - 1 /\
   lu_c K M nrm2 mulM ltM zeroM scale_of_max isz a n
     = LuNonFinite K M j (LuGenB.lu_upto K M nrm2 mulM ltM zeroM scale_of_max a n j) /\
   (forall k, k < j -> pivot_at K M nrm2 mulM ltM zeroM scale_of_max a n k <> c0) /\
   pivot_at K M nrm2 mulM ltM zeroM scale_of_max a n j = c0).
Proof. exact (lu_c_outcome K M nrm2 mulM ltM zeroM scale_of_max isz). Qed.
Print Assumptions c19_lu_zero_pivot_outcome.

(* the link between the partial and the total model: a finite outcome IS the state computed by lu *)
Theorem c19_lu_c_finite_is_lu (K : CField) (M : Type) nrm2 mulM ltM zeroM scale_of_max (isz : K -> bool) :
  (forall x : K, isz x = true <-> x = c0) ->
  forall (a : mat K) n st, wf n n a ->
  lu_c K M nrm2 mulM ltM zeroM scale_of_max isz a n = LuFinite K M st ->
  st = lu K M nrm2 mulM ltM zeroM scale_of_max a n.
Proof. exact (lu_c_finite_is_lu K M nrm2 mulM ltM zeroM scale_of_max isz). Qed.
Print Assumptions c19_lu_c_finite_is_lu.

(* the test applied at all 11 determinant call sites (translate/lu_scale.py reads them on every run),
   `d == 0.0 || !isnormal(cabs(d))`, rejects exactly the singular matrices -- (EXACT FIELD): site_rejects_full
   models the test as "d is 0 or NaN"; in binary64 !isnormal also rejects subnormal determinants, e.g. the regular
   1e-40 I_8 (det 1e-320), and the outcome model assumes eliminations whose pivot * reciprocal products are
   exact (see c19_duplicated_rows_rejected_exact_field / finding DL90) *)
Theorem c19_singular_iff_rejected (K : CField) (M : Type) (nrm2 : K -> M) (mulM : M -> M -> M)
    (ltM : M -> M -> bool) (zeroM : M) (scale_of_max : M -> M) (isz : K -> bool) :
  (forall x : K, isz x = true <-> x = c0) ->
  (forall x, ltM x x = false) ->
  (forall x y z, ltM x y = true -> ltM y z = true -> ltM x z = true) ->
  (forall x y z, ltM x z = true -> ltM x y = false -> ltM y z = true) ->
  (forall x y, ltM zeroM x = true -> ltM zeroM y = true -> ltM zeroM (mulM x y) = true) ->
  (forall x, mulM x zeroM = zeroM) ->
  nrm2 c0 = zeroM ->
  (forall x : K, x <> c0 -> ltM zeroM (nrm2 x) = true) ->
  (forall x, ltM zeroM x = true -> ltM zeroM (scale_of_max x) = true) ->
  forall (a : mat K) n, wf n n a ->
  (site_rejects_full K isz (lu_c_det K M (lu_c K M nrm2 mulM ltM zeroM scale_of_max isz a n)) = true
   <-> singular K a n).
Proof. exact (lu_c_rejects_iff_singular K M nrm2 mulM ltM zeroM scale_of_max isz). Qed.
Print Assumptions c19_singular_iff_rejected.

(* MODEL VARIANT, no call site uses it any more (the five V-matrix inversions of
   vnacal_new_solve_update_v_matrices.c tested `d == 0.0` only until /repo commit 4cbe857, former finding DL2;
   all 11 sites now apply the full test): the bare test `d == 0.0` would reject a singular matrix only when no
   pivot before the last column is zero.  Kept as the regression statement for that change. *)
Theorem model_variant_eq0_test_partial (K : CField) (M : Type) (nrm2 : K -> M) (mulM : M -> M -> M)
    (ltM : M -> M -> bool) (zeroM : M) (scale_of_max : M -> M) (isz : K -> bool) :
  (forall x : K, isz x = true <-> x = c0) ->
  (forall x, ltM x x = false) ->
  (forall x y z, ltM x y = true -> ltM y z = true -> ltM x z = true) ->
  (forall x y z, ltM x z = true -> ltM x y = false -> ltM y z = true) ->
  (forall x y, ltM zeroM x = true -> ltM zeroM y = true -> ltM zeroM (mulM x y) = true) ->
  (forall x, mulM x zeroM = zeroM) ->
  nrm2 c0 = zeroM ->
  (forall x : K, x <> c0 -> ltM zeroM (nrm2 x) = true) ->
  (forall x, ltM zeroM x = true -> ltM zeroM (scale_of_max x) = true) ->
  forall (a : mat K) n, wf n n a ->
  (site_rejects_eq0 K isz (lu_c_det K M (lu_c K M nrm2 mulM ltM zeroM scale_of_max isz a n)) = true
   <-> singular K a n /\ forall k, k < n - 1 -> pivot_at K M nrm2 mulM ltM zeroM scale_of_max a n k <> c0).
Proof. exact (lu_c_eq0_test K M nrm2 mulM ltM zeroM scale_of_max isz). Qed.
Print Assumptions model_variant_eq0_test_partial.

(* ... and "a singular matrix is always caught by == 0.0" is false (why the repaired call sites use the full
   test): [[0,1],[0,2]] over Q[i] *)
Theorem model_variant_eq0_test_accepts_singular_refuted :
  exists (a : mat QIF) n, wf n n a /\ singular QIF a n /\
    site_rejects_eq0 QIF qi_isz (lu_c_det QIF Qc (q2_lu_c_recip a n)) = false.
Proof. exact eq0_test_accepts_singular_refuted. Qed.
Print Assumptions model_variant_eq0_test_accepts_singular_refuted.

(* the three solvers as the C code behaves (None = the output array holds inf / NaN) *)
Theorem c19_solvers_as_coded_nonsingular (K : CField) (M : Type) (nrm2 : K -> M) (mulM : M -> M -> M)
    (ltM : M -> M -> bool) (zeroM : M) (scale_of_max : M -> M) (isz : K -> bool) :
  (forall x : K, isz x = true <-> x = c0) ->
  (forall x, ltM x x = false) ->
  (forall x y z, ltM x y = true -> ltM y z = true -> ltM x z = true) ->
  (forall x y z, ltM x z = true -> ltM x y = false -> ltM y z = true) ->
  (forall x y, ltM zeroM x = true -> ltM zeroM y = true -> ltM zeroM (mulM x y) = true) ->
  (forall x, mulM x zeroM = zeroM) ->
  nrm2 c0 = zeroM ->
  (forall x : K, x <> c0 -> ltM zeroM (nrm2 x) = true) ->
  (forall x, ltM zeroM x = true -> ltM zeroM (scale_of_max x) = true) ->
  forall n (a : mat K), wf n n a -> kernel_trivial K a n ->
  (forall m (b : mat K), wf n m b -> exists x d,
      mldivide_c K M nrm2 mulM ltM zeroM scale_of_max isz a b n m = (Some x, DetFin d) /\ d <> c0 /\
      forall i k, i < n -> k < m -> mget K (mmul K n n m a x) i k = mget K b i k) /\
  (forall m (b : mat K), wf m n b -> exists x d,
      mrdivide_c K M nrm2 mulM ltM zeroM scale_of_max isz b a m n = (Some x, DetFin d) /\ d <> c0 /\
      forall i k, i < m -> k < n -> mget K (mmul K m n n x a) i k = mget K b i k) /\
  (exists x d, minverse_c K M nrm2 mulM ltM zeroM scale_of_max isz a n = (Some x, DetFin d) /\ d <> c0 /\
      forall i k, i < n -> k < n -> mget K (mmul K n n n a x) i k = (if Nat.eqb i k then c1 else c0)).
Proof. exact (solvers_c_nonsingular K M nrm2 mulM ltM zeroM scale_of_max isz). Qed.
Print Assumptions c19_solvers_as_coded_nonsingular.

Theorem c19_solvers_as_coded_singular (K : CField) (M : Type) (nrm2 : K -> M) (mulM : M -> M -> M)
    (ltM : M -> M -> bool) (zeroM : M) (scale_of_max : M -> M) (isz : K -> bool) :
  (forall x : K, isz x = true <-> x = c0) ->
  (forall x, ltM x x = false) ->
  (forall x y z, ltM x y = true -> ltM y z = true -> ltM x z = true) ->
  (forall x y z, ltM x z = true -> ltM x y = false -> ltM y z = true) ->
  (forall x y, ltM zeroM x = true -> ltM zeroM y = true -> ltM zeroM (mulM x y) = true) ->
  (forall x, mulM x zeroM = zeroM) ->
  nrm2 c0 = zeroM ->
  (forall x : K, x <> c0 -> ltM zeroM (nrm2 x) = true) ->
  (forall x, ltM zeroM x = true -> ltM zeroM (scale_of_max x) = true) ->
  forall n (a : mat K), wf n n a -> singular K a n ->
  forall (b : mat K) m,
  fst (mldivide_c K M nrm2 mulM ltM zeroM scale_of_max isz a b n m) = None /\
  fst (mrdivide_c K M nrm2 mulM ltM zeroM scale_of_max isz b a m n) = None /\
  fst (minverse_c K M nrm2 mulM ltM zeroM scale_of_max isz a n) = None /\
  site_rejects_full K isz (snd (mldivide_c K M nrm2 mulM ltM zeroM scale_of_max isz a b n m)) = true /\
  site_rejects_full K isz (snd (mrdivide_c K M nrm2 mulM ltM zeroM scale_of_max isz b a m n)) = true /\
  site_rejects_full K isz (snd (minverse_c K M nrm2 mulM ltM zeroM scale_of_max isz a n)) = true.
Proof. exact (solvers_c_singular K M nrm2 mulM ltM zeroM scale_of_max isz). Qed.
Print Assumptions c19_solvers_as_coded_singular.

(* the instance the correspondence runs (Q[i], Qc, reciprocal row scale): no premise on M left *)
Theorem c19_lu_outcome_QI (a : mat QIF) n : wf n n a ->
  (kernel_trivial QIF a n /\ q2_lu_c_recip a n = LuFinite QIF Qc (q2_lu_recip a n) /\
   pivots_nonzero QIF Qc qi_nrm Qcmult Qc_ltb 0%Qc scale_recip a n /\ lu_d QIF Qc (q2_lu_recip a n) <> c0) \/
  (singular QIF a n /\ q2_lu_c_recip a n = LuFinite QIF Qc (q2_lu_recip a n) /\ 0 < n /\
   (forall k, k < n - 1 -> pivot_at QIF Qc qi_nrm Qcmult Qc_ltb 0%Qc scale_recip a n k <> c0) /\
   pivot_at QIF Qc qi_nrm Qcmult Qc_ltb 0%Qc scale_recip a n (n - 1) = c0 /\
   lu_d QIF Qc (q2_lu_recip a n) = c0) \/
  (singular QIF a n /\ exists j, j < n - 1 /\
   q2_lu_c_recip a n = LuNonFinite QIF Qc j (LuGenB.lu_upto QIF Qc qi_nrm Qcmult Qc_ltb 0%Qc scale_recip a n j) /\
   (forall k, k < j -> pivot_at QIF Qc qi_nrm Qcmult Qc_ltb 0%Qc scale_recip a n k <> c0) /\
   pivot_at QIF Qc qi_nrm Qcmult Qc_ltb 0%Qc scale_recip a n j = c0).
Proof. exact (q_lu_c_outcome a n). Qed.
Print Assumptions c19_lu_outcome_QI.

(* the exact-field total model on a singular input: its final array has a zero on the diagonal and
   its determinant accumulator is 0.  NOT the value the C code returns (see c19_lu_zero_pivot_outcome):
   after a zero pivot in a column j < n-1 the total model goes on with 1/0 = 0. *)
Theorem c19_lu_singular_zero_pivot_exact_field (K : CField) (M : Type) nrm2 mulM ltM zeroM scale_of_max :
  (forall x : K, x = c0 \/ x <> c0) ->
  forall (a : mat K) n, wf n n a ->
  (exists v, in_kernel K a n v /\ exists k, k < n /\ v k <> c0) ->
  (exists j, j < n /\ mget K (lu_a K M (lu K M nrm2 mulM ltM zeroM scale_of_max a n)) j j = c0) /\
  lu_d K M (lu K M nrm2 mulM ltM zeroM scale_of_max a n) = c0.
Proof. exact (lu_singular_zero_pivot_exact_field K M nrm2 mulM ltM zeroM scale_of_max). Qed.
Print Assumptions c19_lu_singular_zero_pivot_exact_field.

Theorem c19_lu_kernel_trivial (K : CField) (M : Type) nrm2 mulM ltM zeroM scale_of_max (a : mat K) n :
  wf n n a -> pivots_nonzero K M nrm2 mulM ltM zeroM scale_of_max a n ->
  forall v, in_kernel K a n v -> forall k, k < n -> v k = c0.
Proof. exact (lu_kernel_trivial K M nrm2 mulM ltM zeroM scale_of_max a n). Qed.
Print Assumptions c19_lu_kernel_trivial.

(* ---- pivot_scale_invariant, whole run, every n, for the coded metric |s_i| / rowmax_i
   (scale_of_max = reciprocal): multiplying the rows of a nonsingular A by nonzero factors does not
   change the sequence of original rows chosen as pivots.  M is an ordered-field-like structure
   (premises). *)
Theorem c19_pivot_scale_invariant (K : CField) (M : Type) (nrm2 : K -> M) (mulM : M -> M -> M)
    (ltM : M -> M -> bool) (zeroM : M) :
  (forall x, mulM x zeroM = zeroM) ->
  (forall x : K, x <> c0 -> ltM zeroM (nrm2 x) = true) ->
  forall (oneM : M) (invM : M -> M),
  (forall x y, mulM x y = mulM y x) ->
  (forall x y z, mulM x (mulM y z) = mulM (mulM x y) z) ->
  (forall x, mulM oneM x = x) ->
  (forall x, ltM zeroM x = true -> mulM (invM x) x = oneM) ->
  (forall x y, invM (mulM x y) = mulM (invM x) (invM y)) ->
  (forall d x y, ltM zeroM d = true -> ltM (mulM d x) (mulM d y) = ltM x y) ->
  (forall x y : K, nrm2 (cmul x y) = mulM (nrm2 x) (nrm2 y)) ->
  forall (a : mat K) n (d : nat -> K), wf n n a -> (forall i, i < n -> d i <> c0) ->
  (forall j, j < n -> mget K (lu_a K M (lu K M nrm2 mulM ltM zeroM invM a n)) j j <> c0) ->
  lu_pivots K M (lu K M nrm2 mulM ltM zeroM invM (scale_rows K d a n) n)
  = lu_pivots K M (lu K M nrm2 mulM ltM zeroM invM a n).
Proof. exact (pivot_scale_invariant K M nrm2 mulM ltM zeroM). Qed.
Print Assumptions c19_pivot_scale_invariant.

(* its instance at the Gaussian rationals, i.e. for the model the correspondence runs
   (qp_lu = LuModel at Q[i] with the reciprocal row scale): no premises on M left *)
Theorem c19_pivot_scale_invariant_QI (a : mat QIF) n (d : nat -> QIF) :
  wf n n a -> (forall i, i < n -> d i <> c0) ->
  (forall j, j < n -> mget QIF (lu_a QIF Qc (qp_lu a n)) j j <> c0) ->
  lu_pivots QIF Qc (qp_lu (scale_rows QIF d a n) n) = lu_pivots QIF Qc (qp_lu a n).
Proof. exact (q_pivot_scale_invariant a n d). Qed.
Print Assumptions c19_pivot_scale_invariant_QI.

(* regression witness for defect D25 (repaired in /repo): with the row scale equal to the row
   maximum itself (metric |s_i| * rowmax_i, the statement the code had) scaling one row of a 2x2
   dyadic matrix by 4 changes the pivot rows *)
Theorem c19_pivot_scale_invariant_refuted_for_max_metric :
  exists (a : mat QIF) (n i : nat) (d : QIF), wf n n a /\ i < n /\ d <> c0 /\
    lu_pivots QIF Qc (q2_lu_max (scale_row a n i d) n) <> lu_pivots QIF Qc (q2_lu_max a n).
Proof. exact pivot_scale_invariant_refuted. Qed.
Print Assumptions c19_pivot_scale_invariant_refuted_for_max_metric.

(* ---- least squares, SPECIFICATION LEVEL (no model of the Householder code exists).
   normal_eq m n o a b x : A^H A x = A^H b entrywise.  q2_ls_lu: the executable oracle the C routines
   are compared with (normal equations solved on the LU model). *)

(* a solution of the normal equations minimises |A y - b|_F^2 over all y *)
Theorem c19_ls_minimises_spec_level m n o (a b x : mat QIF) : normal_eq m n o a b x ->
  forall y : mat QIF, (res2 m n o a x b <= res2 m n o a y b)%Qc.
Proof. exact (ls_minimises m n o a b x). Qed.
Print Assumptions c19_ls_minimises_spec_level.

(* consistent data: it solves A x = b exactly *)
Theorem c19_ls_consistent_exact_spec_level m n o (a b x : mat QIF) : normal_eq m n o a b x ->
  (exists x0 : mat QIF, forall i k, i < m -> k < o -> mget QIF (mmul QIF m n o a x0) i k = mget QIF b i k) ->
  forall i k, i < m -> k < o -> mget QIF (mmul QIF m n o a x) i k = mget QIF b i k.
Proof. exact (ls_consistent_exact m n o a b x). Qed.
Print Assumptions c19_ls_consistent_exact_spec_level.

(* full column rank: the minimiser is unique *)
Theorem c19_ls_unique_spec_level m n o (a b x y : mat QIF) : full_col_rank m n a ->
  normal_eq m n o a b x -> normal_eq m n o a b y ->
  forall t k, t < n -> k < o -> mget QIF x t k = mget QIF y t k.
Proof. exact (ls_unique m n o a b x y). Qed.
Print Assumptions c19_ls_unique_spec_level.

(* the order of the equations does not matter: permuting the rows of A and b together leaves the
   normal equations (hence the set of minimisers) unchanged *)
Theorem c19_ls_row_order_spec_level m n o (a b x : mat QIF) (p : list nat) :
  Permutation.Permutation p (seq 0 m) ->
  (normal_eq m n o (perm_rows_f p a m n) (perm_rows_f p b m o) x <-> normal_eq m n o a b x).
Proof. exact (normal_eq_row_perm m n o a b x p). Qed.
Print Assumptions c19_ls_row_order_spec_level.

(* the oracle: sound ... *)
Theorem c19_ls_oracle_sound m n o (a b x : mat QIF) :
  q2_ls_lu m n o a b = Some x ->
  normal_eq m n o a b x /\ forall y : mat QIF, (res2 m n o a x b <= res2 m n o a y b)%Qc.
Proof. exact (ls_lu_sound_minimises m n o a b x). Qed.
Print Assumptions c19_ls_oracle_sound.

(* ... and complete: it answers exactly when A has full column rank (so `fun _ => None` does not
   satisfy these theorems), and None comes with a nonzero kernel vector of A *)
Theorem c19_ls_oracle_complete m n o (a b : mat QIF) : full_col_rank m n a ->
  exists x, q2_ls_lu m n o a b = Some x /\ normal_eq m n o a b x.
Proof. exact (ls_lu_complete m n o a b). Qed.
Print Assumptions c19_ls_oracle_complete.

Theorem c19_ls_oracle_answers_iff_full_rank m n o (a b : mat QIF) :
  (exists x, q2_ls_lu m n o a b = Some x) <-> full_col_rank m n a.
Proof. exact (ls_lu_some_iff_full_rank m n o a b). Qed.
Print Assumptions c19_ls_oracle_answers_iff_full_rank.

Theorem c19_ls_oracle_none_rank_deficient m n o (a b : mat QIF) : q2_ls_lu m n o a b = None ->
  exists v : nat -> QIF,
    (forall i, i < m -> sumf n (fun k => cmul (mget QIF a i k) (v k)) = c0) /\ exists k, k < n /\ v k <> c0.
Proof. exact (ls_lu_none m n o a b). Qed.
Print Assumptions c19_ls_oracle_none_rank_deficient.

(* the older oracle LsSpec.ls_solve (Gauss-Jordan, then an a-posteriori check of the normal equations:
   sound BY CONSTRUCTION, no completeness theorem) agrees with q2_ls_lu whenever both answer; it is
   still used by the C01 development and cross-checked against q2_ls_lu by checks/C19.py *)
Theorem c19_ls_gj_oracle_sound_by_construction m n o (a b x : mat QIF) :
  q2_ls_solve m n o a b = Some x -> normal_eq m n o a b x.
Proof. exact (ls_solve_normal m n o a b x). Qed.
Print Assumptions c19_ls_gj_oracle_sound_by_construction.

Theorem c19_ls_oracles_agree m n o (a b x y : mat QIF) :
  q2_ls_lu m n o a b = Some x -> q2_ls_solve m n o a b = Some y ->
  forall t k, t < n -> k < o -> mget QIF x t k = mget QIF y t k.
Proof. exact (ls_lu_agrees_with_ls_solve m n o a b x y). Qed.
Print Assumptions c19_ls_oracles_agree.

(* ======================= Householder QR as coded (LV.Lin.QrModel) =======================
   K: a field with conjugation; [qr_field_laws K isz]: cj is an involutive ring morphism, 2 <> 0, a sum
   of squared moduli vanishes only if every term does (K is "formally real" over its squared moduli),
   [isz] decides x = 0.  Met by Q[i]: c19_qr_field_laws_QI.
   [run_laws K nrm phase isz m n A n]: on the run of the sweep on A, at every diagonal k reached,
     nrm s * nrm s = s, cj (nrm s) = nrm s      for s = the two sums of squared moduli the C code takes sqrt() of,
     phase x * cj (phase x) = 1,  cj (phase x) * x = nrm (x * cj x),  cj (nrm (x * cj x)) = nrm (x * cj x)
                                                  for x = A(k,k), phase = cexp(I carg(.)).
   They are properties of the real sqrt() and cexp(I carg()) (trusted base); at Q[i] they are checked by
   computation on each run (QrQI.qq_run_lawsb, c19_qr_rank_iff_full_col_rank_QI). *)

Theorem c19_qr_field_laws_QI : qr_field_laws QIF qi_isz0.
Proof. exact qif_field_laws. Qed.
Print Assumptions c19_qr_field_laws_QI.

(* (a) each Householder reflection I - 2 v v^H with v^H v = 1 is unitary (it preserves the Hermitian inner
   product of every pair of vectors) and an involution; every m, every v *)
Theorem c19_qr_reflection_unitary (K : CField) (isz : K -> bool) : qr_field_laws K isz ->
  forall m (v : nat -> K), ip K m v v = c1 ->
  (forall x y, ip K m (Hf K m v x) (Hf K m v y) = ip K m x y) /\
  (forall x i, Hf K m v (Hf K m v x) i = x i).
Proof. exact (t_reflection_unitary K isz). Qed.
Print Assumptions c19_qr_reflection_unitary.

(* (c) every m >= n, every m x n matrix: the rank the code reports (number of non-zero diagonal elements d[i]
   among the finite ones) is n exactly when A has a trivial kernel *)
Theorem c19_qr_rank_full_iff_trivial_kernel (K : CField) (nrm phase : K -> K) (isz : K -> bool) :
  qr_field_laws K isz -> forall m n (A : mat K), wf m n A -> n <= m ->
  run_laws K nrm phase isz m n A n ->
  (qr_rank K isz (qrd K nrm phase isz m n A) = n <-> ker_trivial K m n A).
Proof. exact (t_rank_full_iff_trivial_kernel K nrm phase isz). Qed.
Print Assumptions c19_qr_rank_full_iff_trivial_kernel.

(* what the sweep returns, every m >= n: EITHER the kernel is trivial, nothing non-finite is computed, every
   d[i] is non-zero and the rank is n, OR the sweep meets, at the first column k that depends on the previous
   ones, a column that is exactly zero from the diagonal down: d[k] = 0 is stored, the C code then divides
   0/0 (NaN; qr_nan = Some k), the rank reported is k < n, and an explicit kernel vector with x_k = 1 exists *)
Theorem c19_qr_outcome (K : CField) (nrm phase : K -> K) (isz : K -> bool) :
  qr_field_laws K isz -> forall m n (A : mat K), wf m n A -> n <= m ->
  run_laws K nrm phase isz m n A n ->
  let st := qrd K nrm phase isz m n A in
  (ker_trivial K m n A /\ qr_nan K st = None /\ qr_rank K isz st = n /\
   forall t, t < n -> nth t (qr_d K st) c0 <> c0) \/
  (exists k x, k < n /\ qr_nan K st = Some k /\ qr_rank K isz st = k /\
               nth k (qr_d K st) c1 = c0 /\ in_ker K m n A x /\ x k = c1).
Proof. exact (t_outcome K nrm phase isz). Qed.
Print Assumptions c19_qr_outcome.

(* (b) after the sweep on a matrix of full column rank: the n stored reflection vectors are unit vectors, the
   composition T = H_(n-1) ... H_0 preserves inner products, R (d on the diagonal, the array above it) is
   T applied to the columns of A, and R is zero below the diagonal: the implicit form of Q R = A *)
Theorem c19_qr_sweep_factorisation (K : CField) (nrm phase : K -> K) (isz : K -> bool) :
  qr_field_laws K isz -> forall m n (A : mat K), wf m n A -> n <= m ->
  run_laws K nrm phase isz m n A n -> ker_trivial K m n A ->
  let st := qrd K nrm phase isz m n A in
  (forall t, t < n -> ip K m (vst K (qr_a K st) t) (vst K (qr_a K st) t) = c1) /\
  (forall x y, ip K m (Tf K m (qr_a K st) n x) (Tf K m (qr_a K st) n y) = ip K m x y) /\
  (forall i j, i < m -> j < n ->
     mget K (qr_R K m n st) i j = Tf K m (qr_a K st) n (fun r => mget K A r j) i) /\
  (forall i j, i < m -> j < n -> j < i -> mget K (qr_R K m n st) i j = c0).
Proof. exact (t_sweep_factorisation K nrm phase isz). Qed.
Print Assumptions c19_qr_sweep_factorisation.

(* (d) PARTIAL.  Proved (every m >= n, full column rank): if c = H_(n-1) ... H_0 b and x solves the
   triangular system R x = c (rows < n), then x satisfies the normal equations A^H A x = A^H b (hence, by
   c19_ls_minimises_spec_level, minimises the residual).  MISSING: that the list-level loops of the model
   (QrModel.qr_reflect_all, QrModel.qr_back) compute exactly this c and this x, and the restatement
   with LsProofs.normal_eq; both are covered by the white-box tie (transformed B and X compared with the C
   code) and by the comparison of _vnacommon_qrsolve with the oracle LsLu.ls_lu, not by a theorem. *)
Theorem c19_qrsolve_is_ls_solution_partial (K : CField) (nrm phase : K -> K) (isz : K -> bool) :
  qr_field_laws K isz -> forall m n (A : mat K) (b x : nat -> K), wf m n A -> n <= m ->
  run_laws K nrm phase isz m n A n -> ker_trivial K m n A ->
  let st := qrd K nrm phase isz m n A in
  (forall i, i < n -> sumf n (fun t => cmul (mget K (qr_R K m n st) i t) (x t)) = Tf K m (qr_a K st) n b i) ->
  forall j, j < n ->
    sumf n (fun t => cmul (sumf m (fun i => cmul (cj (mget K A i j)) (mget K A i t))) (x t)) =
    sumf m (fun i => cmul (cj (mget K A i j)) (b i)).
Proof. exact (t_ls_normal_equations_partial K nrm phase isz). Qed.
Print Assumptions c19_qrsolve_is_ls_solution_partial.

(* (c) at Q[i], no premise left but the computed law check of the run: rank n <-> full column rank, the
   notion of c19_ls_oracle_answers_iff_full_rank.  Non-vacuity: QrQIProofs.ex_qr_a_laws / ex_qr_a_run /
   ex_qr_a_full_rank (3 x 2, rank 2) and ex_qr_def_laws / ex_qr_def_run / ex_qr_def_not_full_rank (second
   column = 2 x first: stop at diagonal 1, rank 1, solution None). *)
Theorem c19_qr_rank_iff_full_col_rank_QI m n (a : mat QIF) : wf m n a -> n <= m ->
  qq_run_lawsb m n a = true -> (qq_rank (qq_qrd m n a) = n <-> full_col_rank m n a).
Proof. exact (qq_rank_full_iff_full_col_rank m n a). Qed.
Print Assumptions c19_qr_rank_iff_full_col_rank_QI.

(* ================= session 5, package L: determinant for every n, row-order independence =================
   det_lap K n a (LuDetModel) = Laplace expansion along the first column, every n: the specification of
   "Returns the determinant of the matrix".  Order premises (OP) as in c19_lu_solves. *)
Require Import LV.Lin.LuDetModel LV.Lin.LuDetAlg LV.Lin.LuDetProofs LV.Lin.LuRowOrderProofs LV.Lin.DivideProofs
               LV.Lin.LuDetExamples.

(* every n, every outcome of the comparisons: pivots nonzero => the returned determinant is det A
   (replaces the bound n <= 3 of c19_lu_det_le3) *)
Theorem c19_lu_det_every_n (K : CField) (M : Type) (nrm2 : K -> M) (mulM : M -> M -> M)
    (ltM : M -> M -> bool) (zeroM : M) (scale_of_max : M -> M) n (a : mat K) :
  wf n n a -> pivots_nonzero K M nrm2 mulM ltM zeroM scale_of_max a n ->
  lu_d K M (lu K M nrm2 mulM ltM zeroM scale_of_max a n) = det_lap K n a.
Proof. exact (lu_det_pivots_nonzero K M nrm2 mulM ltM zeroM scale_of_max a n). Qed.
Print Assumptions c19_lu_det_every_n.

(* every n, EVERY matrix (OP): the determinant accumulator of the exact-field model is det A, singular
   inputs included (P A = L U holds on every input: c19_lu_PA_eq_LU_every_input) *)
Theorem c19_lu_det_every_input (K : CField) (M : Type) (nrm2 : K -> M) (mulM : M -> M -> M)
    (ltM : M -> M -> bool) (zeroM : M) (scale_of_max : M -> M) :
  (forall x, ltM x x = false) ->
  (forall x y z, ltM x y = true -> ltM y z = true -> ltM x z = true) ->
  (forall x y z, ltM x z = true -> ltM x y = false -> ltM y z = true) ->
  (forall x y, ltM zeroM x = true -> ltM zeroM y = true -> ltM zeroM (mulM x y) = true) ->
  (forall x, mulM x zeroM = zeroM) ->
  nrm2 c0 = zeroM ->
  (forall x : K, x <> c0 -> ltM zeroM (nrm2 x) = true) ->
  (forall x, ltM zeroM x = true -> ltM zeroM (scale_of_max x) = true) ->
  (forall x : K, x = c0 \/ x <> c0) ->
  forall (a : mat K) n, wf n n a -> lu_d K M (lu K M nrm2 mulM ltM zeroM scale_of_max a n) = det_lap K n a.
Proof. exact (lu_det_all_n K M nrm2 mulM ltM zeroM scale_of_max). Qed.
Print Assumptions c19_lu_det_every_input.

Theorem c19_lu_PA_eq_LU_every_input (K : CField) (M : Type) (nrm2 : K -> M) (mulM : M -> M -> M)
    (ltM : M -> M -> bool) (zeroM : M) (scale_of_max : M -> M) :
  (forall x, ltM x x = false) ->
  (forall x y z, ltM x y = true -> ltM y z = true -> ltM x z = true) ->
  (forall x y z, ltM x z = true -> ltM x y = false -> ltM y z = true) ->
  (forall x y, ltM zeroM x = true -> ltM zeroM y = true -> ltM zeroM (mulM x y) = true) ->
  (forall x, mulM x zeroM = zeroM) ->
  nrm2 c0 = zeroM ->
  (forall x : K, x <> c0 -> ltM zeroM (nrm2 x) = true) ->
  (forall x, ltM zeroM x = true -> ltM zeroM (scale_of_max x) = true) ->
  (forall x : K, x = c0 \/ x <> c0) ->
  forall (a : mat K) n, wf n n a -> forall i c, i < n -> c < n ->
    mget K a (nth i (lu_ri K M (lu K M nrm2 mulM ltM zeroM scale_of_max a n)) O) c =
    sumf n (fun k => cmul (Lf K (mget K (lu_a K M (lu K M nrm2 mulM ltM zeroM scale_of_max a n))) i k)
                          (Uf K (mget K (lu_a K M (lu K M nrm2 mulM ltM zeroM scale_of_max a n))) k c)).
Proof. exact (lu_PA_eq_LU_all K M nrm2 mulM ltM zeroM scale_of_max). Qed.
Print Assumptions c19_lu_PA_eq_LU_every_input.

Theorem c19_det_nonzero_iff_kernel_trivial (K : CField) (M : Type) (nrm2 : K -> M) (mulM : M -> M -> M)
    (ltM : M -> M -> bool) (zeroM : M) (scale_of_max : M -> M) :
  (forall x, ltM x x = false) ->
  (forall x y z, ltM x y = true -> ltM y z = true -> ltM x z = true) ->
  (forall x y z, ltM x z = true -> ltM x y = false -> ltM y z = true) ->
  (forall x y, ltM zeroM x = true -> ltM zeroM y = true -> ltM zeroM (mulM x y) = true) ->
  (forall x, mulM x zeroM = zeroM) ->
  nrm2 c0 = zeroM ->
  (forall x : K, x <> c0 -> ltM zeroM (nrm2 x) = true) ->
  (forall x, ltM zeroM x = true -> ltM zeroM (scale_of_max x) = true) ->
  (forall x : K, x = c0 \/ x <> c0) ->
  forall (a : mat K) n, wf n n a -> (det_lap K n a <> c0 <-> kernel_trivial K a n).
Proof. exact (det_nonzero_iff_kernel_trivial K M nrm2 mulM ltM zeroM scale_of_max). Qed.
Print Assumptions c19_det_nonzero_iff_kernel_trivial.

Theorem c19_singular_iff_det_zero (K : CField) (M : Type) (nrm2 : K -> M) (mulM : M -> M -> M)
    (ltM : M -> M -> bool) (zeroM : M) (scale_of_max : M -> M) :
  (forall x, ltM x x = false) ->
  (forall x y z, ltM x y = true -> ltM y z = true -> ltM x z = true) ->
  (forall x y z, ltM x z = true -> ltM x y = false -> ltM y z = true) ->
  (forall x y, ltM zeroM x = true -> ltM zeroM y = true -> ltM zeroM (mulM x y) = true) ->
  (forall x, mulM x zeroM = zeroM) ->
  nrm2 c0 = zeroM ->
  (forall x : K, x <> c0 -> ltM zeroM (nrm2 x) = true) ->
  (forall x, ltM zeroM x = true -> ltM zeroM (scale_of_max x) = true) ->
  (forall x : K, x = c0 \/ x <> c0) ->
  forall (isz : K -> bool), (forall x : K, isz x = true <-> x = c0) ->
  forall (a : mat K) n, wf n n a -> (singular K a n <-> det_lap K n a = c0).
Proof. exact (singular_iff_det_zero K M nrm2 mulM ltM zeroM scale_of_max). Qed.
Print Assumptions c19_singular_iff_det_zero.

(* what _vnacommon_lu returns (outcome model lu_c): a finite value IS det A (so 0 is returned only when
   det A = 0); NaN is returned only when det A = 0; the full call-site test rejects exactly det A = 0
   (EXACT FIELD: see the remark at c19_singular_iff_rejected and finding DL90) *)
Theorem c19_lu_c_det_is_det (K : CField) (M : Type) (nrm2 : K -> M) (mulM : M -> M -> M)
    (ltM : M -> M -> bool) (zeroM : M) (scale_of_max : M -> M) :
  (forall x, ltM x x = false) ->
  (forall x y z, ltM x y = true -> ltM y z = true -> ltM x z = true) ->
  (forall x y z, ltM x z = true -> ltM x y = false -> ltM y z = true) ->
  (forall x y, ltM zeroM x = true -> ltM zeroM y = true -> ltM zeroM (mulM x y) = true) ->
  (forall x, mulM x zeroM = zeroM) ->
  nrm2 c0 = zeroM ->
  (forall x : K, x <> c0 -> ltM zeroM (nrm2 x) = true) ->
  (forall x, ltM zeroM x = true -> ltM zeroM (scale_of_max x) = true) ->
  (forall x : K, x = c0 \/ x <> c0) ->
  forall (isz : K -> bool), (forall x : K, isz x = true <-> x = c0) ->
  forall (a : mat K) n, wf n n a ->
  match lu_c_det K M (lu_c K M nrm2 mulM ltM zeroM scale_of_max isz a n) with
  | DetFin d => d = det_lap K n a
  | DetNaN => det_lap K n a = c0
  end.
Proof. exact (lu_c_det_is_det K M nrm2 mulM ltM zeroM scale_of_max). Qed.
Print Assumptions c19_lu_c_det_is_det.

Theorem c19_lu_c_rejects_iff_det_zero (K : CField) (M : Type) (nrm2 : K -> M) (mulM : M -> M -> M)
    (ltM : M -> M -> bool) (zeroM : M) (scale_of_max : M -> M) :
  (forall x, ltM x x = false) ->
  (forall x y z, ltM x y = true -> ltM y z = true -> ltM x z = true) ->
  (forall x y z, ltM x z = true -> ltM x y = false -> ltM y z = true) ->
  (forall x y, ltM zeroM x = true -> ltM zeroM y = true -> ltM zeroM (mulM x y) = true) ->
  (forall x, mulM x zeroM = zeroM) ->
  nrm2 c0 = zeroM ->
  (forall x : K, x <> c0 -> ltM zeroM (nrm2 x) = true) ->
  (forall x, ltM zeroM x = true -> ltM zeroM (scale_of_max x) = true) ->
  (forall x : K, x = c0 \/ x <> c0) ->
  forall (isz : K -> bool), (forall x : K, isz x = true <-> x = c0) ->
  forall (a : mat K) n, wf n n a ->
  (site_rejects_full K isz (lu_c_det K M (lu_c K M nrm2 mulM ltM zeroM scale_of_max isz a n)) = true <-> det_lap K n a = c0).
Proof. exact (lu_c_rejects_iff_det_zero K M nrm2 mulM ltM zeroM scale_of_max). Qed.
Print Assumptions c19_lu_c_rejects_iff_det_zero.

(* mldivide / mrdivide / minverse as coded, from det A <> 0: every n, every right-hand-side shape; the
   value returned with the solution is det A *)
Theorem c19_divide_solves_det (K : CField) (M : Type) (nrm2 : K -> M) (mulM : M -> M -> M)
    (ltM : M -> M -> bool) (zeroM : M) (scale_of_max : M -> M) :
  (forall x, ltM x x = false) ->
  (forall x y z, ltM x y = true -> ltM y z = true -> ltM x z = true) ->
  (forall x y z, ltM x z = true -> ltM x y = false -> ltM y z = true) ->
  (forall x y, ltM zeroM x = true -> ltM zeroM y = true -> ltM zeroM (mulM x y) = true) ->
  (forall x, mulM x zeroM = zeroM) ->
  nrm2 c0 = zeroM ->
  (forall x : K, x <> c0 -> ltM zeroM (nrm2 x) = true) ->
  (forall x, ltM zeroM x = true -> ltM zeroM (scale_of_max x) = true) ->
  (forall x : K, x = c0 \/ x <> c0) ->
  forall n (a : mat K), wf n n a -> det_lap K n a <> c0 ->
  (forall m (b : mat K), wf n m b -> forall i k, i < n -> k < m ->
      mget K (mmul K n n m a (fst (mldivide K M nrm2 mulM ltM zeroM scale_of_max a b n m))) i k = mget K b i k /\
      snd (mldivide K M nrm2 mulM ltM zeroM scale_of_max a b n m) = det_lap K n a) /\
  (forall m (b : mat K), wf m n b -> forall i k, i < m -> k < n ->
      mget K (mmul K m n n (fst (mrdivide K M nrm2 mulM ltM zeroM scale_of_max b a m n)) a) i k = mget K b i k /\
      snd (mrdivide K M nrm2 mulM ltM zeroM scale_of_max b a m n) = det_lap K n a) /\
  (forall i k, i < n -> k < n ->
      mget K (mmul K n n n a (fst (minverse K M nrm2 mulM ltM zeroM scale_of_max a n))) i k = (if Nat.eqb i k then c1 else c0)) /\
  snd (minverse K M nrm2 mulM ltM zeroM scale_of_max a n) = det_lap K n a.
Proof. exact (divide_solves_det K M nrm2 mulM ltM zeroM scale_of_max). Qed.
Print Assumptions c19_divide_solves_det.

(* row-order independence, every n: a' = a with its rows permuted (row i of a' = row sg i of a, ts the
   inverse of sg).  If the pivot search of the run on a is decided at every column (run_decided: one
   candidate strictly above all others, and above 0 unless the column is the last) then the run on a'
   picks the same ORIGINAL rows, and produces the same working array (same U, same L multipliers). *)
Theorem c19_lu_row_order_independent (K : CField) (M : Type) (nrm2 : K -> M) (mulM : M -> M -> M)
    (ltM : M -> M -> bool) (zeroM : M) (scale_of_max : M -> M) :
  (forall x, ltM x x = false) ->
  (forall x y z, ltM x y = true -> ltM y z = true -> ltM x z = true) ->
  forall n (sg ts : nat -> nat),
  (forall i, i < n -> sg i < n) -> (forall i, i < n -> ts i < n) ->
  (forall i, i < n -> ts (sg i) = i) -> (forall i, i < n -> sg (ts i) = i) ->
  forall (a a' : mat K), wf n n a -> wf n n a' ->
  (forall i c, i < n -> c < n -> mget K a' i c = mget K a (sg i) c) ->
  run_decided K M nrm2 mulM ltM zeroM scale_of_max a n ->
  map sg (lu_pivots K M (lu K M nrm2 mulM ltM zeroM scale_of_max a' n)) = lu_pivots K M (lu K M nrm2 mulM ltM zeroM scale_of_max a n) /\
  (forall i, i < n -> sg (nth i (lu_ri K M (lu K M nrm2 mulM ltM zeroM scale_of_max a' n)) O) = nth i (lu_ri K M (lu K M nrm2 mulM ltM zeroM scale_of_max a n)) O) /\
  (forall i c, i < n -> c < n ->
     mget K (lu_a K M (lu K M nrm2 mulM ltM zeroM scale_of_max a' n)) i c = mget K (lu_a K M (lu K M nrm2 mulM ltM zeroM scale_of_max a n)) i c).
Proof. exact (lu_row_order_independent K M nrm2 mulM ltM zeroM scale_of_max). Qed.
Print Assumptions c19_lu_row_order_independent.

(* ... and mldivide on the permuted system (A, b) returns the SAME matrix, computed by the same operations *)
Theorem c19_mldivide_row_order_independent (K : CField) (M : Type) (nrm2 : K -> M) (mulM : M -> M -> M)
    (ltM : M -> M -> bool) (zeroM : M) (scale_of_max : M -> M) :
  (forall x, ltM x x = false) ->
  (forall x y z, ltM x y = true -> ltM y z = true -> ltM x z = true) ->
  forall n (sg ts : nat -> nat),
  (forall i, i < n -> sg i < n) -> (forall i, i < n -> ts i < n) ->
  (forall i, i < n -> ts (sg i) = i) -> (forall i, i < n -> sg (ts i) = i) ->
  forall (a a' : mat K), wf n n a -> wf n n a' ->
  (forall i c, i < n -> c < n -> mget K a' i c = mget K a (sg i) c) ->
  forall m (b b' : mat K), run_decided K M nrm2 mulM ltM zeroM scale_of_max a n ->
  (forall i k, i < n -> k < m -> mget K b' i k = mget K b (sg i) k) ->
  fst (mldivide K M nrm2 mulM ltM zeroM scale_of_max a' b' n m) = fst (mldivide K M nrm2 mulM ltM zeroM scale_of_max a b n m).
Proof. exact (mldivide_row_order_independent K M nrm2 mulM ltM zeroM scale_of_max). Qed.
Print Assumptions c19_mldivide_row_order_independent.

(* the instance the tie runs (Q[i], Qc, reciprocal row scale): no premise left *)
Theorem c19_lu_det_QI (a : mat QIF) n : wf n n a ->
  lu_d QIF Qc (q2_lu_recip a n) = det_lap QIF n a.
Proof. exact (q_lu_det_all_n a n). Qed.
Print Assumptions c19_lu_det_QI.

(* ================= session 5, package L, second time box =================
   run_no_tie a n: at every column any two distinct candidate metrics are separated by the strict test;
   run_cand_nonzero a n: some candidate of every column is nonzero (true for a nonsingular matrix). *)
Require Import LV.Lin.LuRowOrderNoTie LV.Lin.LuRowOrderSolvers LV.Lin.LuRowOrderScale LV.Lin.LuRowOrderExamples.

(* the premise of the row-order theorems in the words of the property (OP) *)
Theorem c19_run_decided_of_no_tie (K : CField) (M : Type) (nrm2 : K -> M) (mulM : M -> M -> M)
    (ltM : M -> M -> bool) (zeroM : M) (scale_of_max : M -> M) :
  (forall x, ltM x x = false) ->
  (forall x y z, ltM x y = true -> ltM y z = true -> ltM x z = true) ->
  (forall x y z, ltM x z = true -> ltM x y = false -> ltM y z = true) ->
  (forall x y, ltM zeroM x = true -> ltM zeroM y = true -> ltM zeroM (mulM x y) = true) ->
  (forall x, mulM x zeroM = zeroM) ->
  nrm2 c0 = zeroM ->
  (forall x : K, x <> c0 -> ltM zeroM (nrm2 x) = true) ->
  (forall x, ltM zeroM x = true -> ltM zeroM (scale_of_max x) = true) ->
  (forall x : K, x = c0 \/ x <> c0) ->
  forall (a : mat K) n, wf n n a ->
  run_no_tie K M nrm2 mulM ltM zeroM scale_of_max a n -> run_cand_nonzero K M nrm2 mulM ltM zeroM scale_of_max a n -> run_decided K M nrm2 mulM ltM zeroM scale_of_max a n.
Proof. exact (run_decided_of_no_tie K M nrm2 mulM ltM zeroM scale_of_max). Qed.
Print Assumptions c19_run_decided_of_no_tie.

Theorem c19_run_decided_of_no_tie_nonsingular (K : CField) (M : Type) (nrm2 : K -> M) (mulM : M -> M -> M)
    (ltM : M -> M -> bool) (zeroM : M) (scale_of_max : M -> M) :
  (forall x, ltM x x = false) ->
  (forall x y z, ltM x y = true -> ltM y z = true -> ltM x z = true) ->
  (forall x y z, ltM x z = true -> ltM x y = false -> ltM y z = true) ->
  (forall x y, ltM zeroM x = true -> ltM zeroM y = true -> ltM zeroM (mulM x y) = true) ->
  (forall x, mulM x zeroM = zeroM) ->
  nrm2 c0 = zeroM ->
  (forall x : K, x <> c0 -> ltM zeroM (nrm2 x) = true) ->
  (forall x, ltM zeroM x = true -> ltM zeroM (scale_of_max x) = true) ->
  (forall x : K, x = c0 \/ x <> c0) ->
  forall (a : mat K) n, wf n n a ->
  run_no_tie K M nrm2 mulM ltM zeroM scale_of_max a n -> det_lap K n a <> c0 -> run_decided K M nrm2 mulM ltM zeroM scale_of_max a n.
Proof. exact (run_decided_of_no_tie_nonsingular K M nrm2 mulM ltM zeroM scale_of_max). Qed.
Print Assumptions c19_run_decided_of_no_tie_nonsingular.

(* row-order independence stated with "no two candidate pivot metrics tie at any step" and det A <> 0:
   same original pivot rows, same U and L multipliers, identical mldivide result *)
Theorem c19_row_order_independent_no_tie (K : CField) (M : Type) (nrm2 : K -> M) (mulM : M -> M -> M)
    (ltM : M -> M -> bool) (zeroM : M) (scale_of_max : M -> M) :
  (forall x, ltM x x = false) ->
  (forall x y z, ltM x y = true -> ltM y z = true -> ltM x z = true) ->
  (forall x y z, ltM x z = true -> ltM x y = false -> ltM y z = true) ->
  (forall x y, ltM zeroM x = true -> ltM zeroM y = true -> ltM zeroM (mulM x y) = true) ->
  (forall x, mulM x zeroM = zeroM) ->
  nrm2 c0 = zeroM ->
  (forall x : K, x <> c0 -> ltM zeroM (nrm2 x) = true) ->
  (forall x, ltM zeroM x = true -> ltM zeroM (scale_of_max x) = true) ->
  (forall x : K, x = c0 \/ x <> c0) ->
  forall n (sg ts : nat -> nat),
  (forall i, i < n -> sg i < n) -> (forall i, i < n -> ts i < n) ->
  (forall i, i < n -> ts (sg i) = i) -> (forall i, i < n -> sg (ts i) = i) ->
  forall (a a' : mat K), wf n n a -> wf n n a' ->
  (forall i c, i < n -> c < n -> mget K a' i c = mget K a (sg i) c) ->
  run_no_tie K M nrm2 mulM ltM zeroM scale_of_max a n -> det_lap K n a <> c0 ->
  map sg (lu_pivots K M (lu K M nrm2 mulM ltM zeroM scale_of_max a' n)) = lu_pivots K M (lu K M nrm2 mulM ltM zeroM scale_of_max a n) /\
  (forall i c, i < n -> c < n ->
     mget K (lu_a K M (lu K M nrm2 mulM ltM zeroM scale_of_max a' n)) i c = mget K (lu_a K M (lu K M nrm2 mulM ltM zeroM scale_of_max a n)) i c) /\
  (forall m (b b' : mat K), (forall i k, i < n -> k < m -> mget K b' i k = mget K b (sg i) k) ->
     fst (mldivide K M nrm2 mulM ltM zeroM scale_of_max a' b' n m) = fst (mldivide K M nrm2 mulM ltM zeroM scale_of_max a b n m)).
Proof. exact (row_order_independent_no_tie K M nrm2 mulM ltM zeroM scale_of_max). Qed.
Print Assumptions c19_row_order_independent_no_tie.

(* minverse / mrdivide as coded on the row-permuted matrix: the same entries, columns permuted
   ((P A)^-1 = A^-1 P^-1,  b / (P A) = (b / A) P^-1), each computed by the same operations *)
Theorem c19_minverse_row_order_independent (K : CField) (M : Type) (nrm2 : K -> M) (mulM : M -> M -> M)
    (ltM : M -> M -> bool) (zeroM : M) (scale_of_max : M -> M) :
  (forall x, ltM x x = false) ->
  (forall x y z, ltM x y = true -> ltM y z = true -> ltM x z = true) ->
  forall n (sg ts : nat -> nat),
  (forall i, i < n -> sg i < n) -> (forall i, i < n -> ts i < n) ->
  (forall i, i < n -> ts (sg i) = i) -> (forall i, i < n -> sg (ts i) = i) ->
  forall (a a' : mat K), wf n n a -> wf n n a' ->
  (forall i c, i < n -> c < n -> mget K a' i c = mget K a (sg i) c) ->
  run_decided K M nrm2 mulM ltM zeroM scale_of_max a n ->
  forall i j, i < n -> j < n ->
    mget K (fst (minverse K M nrm2 mulM ltM zeroM scale_of_max a' n)) i j = mget K (fst (minverse K M nrm2 mulM ltM zeroM scale_of_max a n)) i (sg j).
Proof. exact (minverse_row_order_independent K M nrm2 mulM ltM zeroM scale_of_max). Qed.
Print Assumptions c19_minverse_row_order_independent.

Theorem c19_mrdivide_row_order_independent (K : CField) (M : Type) (nrm2 : K -> M) (mulM : M -> M -> M)
    (ltM : M -> M -> bool) (zeroM : M) (scale_of_max : M -> M) :
  (forall x, ltM x x = false) ->
  (forall x y z, ltM x y = true -> ltM y z = true -> ltM x z = true) ->
  forall n (sg ts : nat -> nat),
  (forall i, i < n -> sg i < n) -> (forall i, i < n -> ts i < n) ->
  (forall i, i < n -> ts (sg i) = i) -> (forall i, i < n -> sg (ts i) = i) ->
  forall (a a' : mat K), wf n n a -> wf n n a' ->
  (forall i c, i < n -> c < n -> mget K a' i c = mget K a (sg i) c) ->
  run_decided K M nrm2 mulM ltM zeroM scale_of_max a n ->
  forall m (b : mat K) i c, i < m -> c < n ->
    mget K (fst (mrdivide K M nrm2 mulM ltM zeroM scale_of_max b a' m n)) i c = mget K (fst (mrdivide K M nrm2 mulM ltM zeroM scale_of_max b a m n)) i (sg c).
Proof. exact (mrdivide_row_order_independent K M nrm2 mulM ltM zeroM scale_of_max). Qed.
Print Assumptions c19_mrdivide_row_order_independent.

(* row SCALING at the solution level, every n (reciprocal row scale invM): scaling row i of (A, b) by d_i <> 0
   leaves the pivot rows and row_index unchanged (conjuncts 1-3: statements about the coded pivot search) and
   mldivide returns the same entries (conjunct 4: exact arithmetic, BY UNIQUENESS of the solution of a nonsingular
   system -- any exact solver satisfies it; it says nothing about binary64 row scaling (D25), which is covered by
   the tie only: bitwise for power-of-two factors) *)
Theorem c19_mldivide_row_scale_invariant (K : CField) (M : Type) (nrm2 : K -> M) (mulM : M -> M -> M)
    (ltM : M -> M -> bool) (zeroM : M) :
  (forall x, mulM x zeroM = zeroM) ->
  (forall x : K, x <> c0 -> ltM zeroM (nrm2 x) = true) ->
  forall (oneM : M) (invM : M -> M),
  (forall x y, mulM x y = mulM y x) ->
  (forall x y z, mulM x (mulM y z) = mulM (mulM x y) z) ->
  (forall x, mulM oneM x = x) ->
  (forall x, ltM zeroM x = true -> mulM (invM x) x = oneM) ->
  (forall x y, invM (mulM x y) = mulM (invM x) (invM y)) ->
  (forall d x y, ltM zeroM d = true -> ltM (mulM d x) (mulM d y) = ltM x y) ->
  (forall x y : K, nrm2 (cmul x y) = mulM (nrm2 x) (nrm2 y)) ->
  forall n m (d : nat -> K) (a b : mat K),
  wf n n a -> wf n m b -> (forall i, i < n -> d i <> c0) ->
  (forall j, j < n -> mget K (lu_a K M (lu K M nrm2 mulM ltM zeroM invM a n)) j j <> c0) ->
  lu_pivots K M (lu K M nrm2 mulM ltM zeroM invM (scale_rows K d a n) n) = lu_pivots K M (lu K M nrm2 mulM ltM zeroM invM a n) /\
  lu_ri K M (lu K M nrm2 mulM ltM zeroM invM (scale_rows K d a n) n) = lu_ri K M (lu K M nrm2 mulM ltM zeroM invM a n) /\
  (forall j, j < n -> mget K (lu_a K M (lu K M nrm2 mulM ltM zeroM invM (scale_rows K d a n) n)) j j <> c0) /\
  forall i k, i < n -> k < m ->
    mget K (fst (mldivide K M nrm2 mulM ltM zeroM invM (scale_rows K d a n) (scale_rows_nm K d b n m) n m)) i k =
    mget K (fst (mldivide K M nrm2 mulM ltM zeroM invM a b n m)) i k.
Proof. exact (mldivide_row_scale_invariant K M nrm2 mulM ltM zeroM). Qed.
Print Assumptions c19_mldivide_row_scale_invariant.

(* ---- least squares through the Householder model AS CODED (session 5, package L, second time box):
   (d) is no longer partial.  DivideQrLs.reflect_all_Tf: the list loop qr_reflect_all computes H_(n-1)...H_0 b;
   back_spec / back_solves_R: qr_back solves R x = c; hence the X returned by the model of _vnacommon_qrsolve
   satisfies the normal equations, the rank returned is n and nothing non-finite is reported.  Every m >= n,
   full column rank; sqrt and cexp(I carg) abstract with the per-run laws (run_laws), field laws qr_field_laws. *)
Require Import LV.Lin.DivideQrLs LV.Lin.DivideQrLsQI.

Theorem c19_qrsolve_normal_equations (K : CField) (nrm phase : K -> K) (isz : K -> bool) :
  qr_field_laws K isz -> forall m n o (A B : mat K), wf m n A -> n <= m ->
  run_laws K nrm phase isz m n A n -> ker_trivial K m n A ->
  exists X B',
    qrsolve K nrm phase isz m n o A B = (Some X, B', n) /\
    forall k j, k < o -> j < n ->
      sumf n (fun t => cmul (sumf m (fun i => cmul (cj (mget K A i j)) (mget K A i t))) (mget K X t k)) =
      sumf m (fun i => cmul (cj (mget K A i j)) (mget K B i k)).
Proof. exact (qrsolve_normal_equations K nrm phase isz). Qed.
Print Assumptions c19_qrsolve_normal_equations.

(* at Q[i], joined to the specification-level theorems: the matrix the QR model returns satisfies
   LsProofs.normal_eq and is a minimiser of |A X - B|_F^2 (premises: full column rank and the computed check
   of the sqrt / phase oracle on this run; non-vacuity: DivideQrLsQI.ex_qrsolve_minimises) *)
Theorem c19_qrsolve_normal_eq_QI m n o (a b : mat QIF) : wf m n a -> n <= m ->
  qq_run_lawsb m n a = true -> full_col_rank m n a ->
  exists X B', qq_qrsolve m n o a b = (Some X, B', n) /\ normal_eq m n o a b X.
Proof. exact (qq_qrsolve_normal_eq m n o a b). Qed.
Print Assumptions c19_qrsolve_normal_eq_QI.

Theorem c19_qrsolve_minimises_QI m n o (a b : mat QIF) : wf m n a -> n <= m ->
  qq_run_lawsb m n a = true -> full_col_rank m n a ->
  exists X B', qq_qrsolve m n o a b = (Some X, B', n) /\
    forall y : mat QIF, (res2 m n o a X b <= res2 m n o a y b)%Qc.
Proof. exact (qq_qrsolve_minimises m n o a b). Qed.
Print Assumptions c19_qrsolve_minimises_QI.

(* ---- duplicated equations (review round 3).  EXACT FIELD: two equal rows => det A = 0 (every n), and the outcome
   model of _vnacommon_lu returns 0 or NaN, rejected by the full call-site test.  What this assumes about the C
   code: the L terms are s * (1/p) with an exact reciprocal, so the twin of the pivot row gets the L term 1.  In
   binary64 `scale = 1.0 / A(j,j); A(i,j) *= scale` gives fl(p * fl(1/p)) <> 1 for about 15 % of the pivots p: the
   C code then does NOT meet a zero pivot on duplicated rows (finding DL90: [[49,1],[49,1]] is accepted with
   det 5.4e-15; tie 3f reports it).  The run_no_tie premise of the row-order theorems compares only candidates whose
   metric is above 0 (LuRowOrderNoTie.col_no_tie; example on diag(50,75,100): ex_row_order_diagonal). *)
Require Import LV.Lin.LuDetDupRows.

Theorem c19_duplicated_rows_det_zero (K : CField) n (a : mat K) i j : wf n n a -> i < n -> j < n -> i <> j ->
  (forall c, c < n -> mget K a i c = mget K a j c) -> det_lap K n a = c0.
Proof. exact (dup_rows_det_zero K n a i j). Qed.
Print Assumptions c19_duplicated_rows_det_zero.

Theorem c19_duplicated_rows_rejected_exact_field (K : CField) (M : Type) (nrm2 : K -> M) (mulM : M -> M -> M)
    (ltM : M -> M -> bool) (zeroM : M) (scale_of_max : M -> M) (isz : K -> bool) :
  (forall x : K, isz x = true <-> x = c0) ->
  (forall x, ltM x x = false) ->
  (forall x y z, ltM x y = true -> ltM y z = true -> ltM x z = true) ->
  (forall x y z, ltM x z = true -> ltM x y = false -> ltM y z = true) ->
  (forall x y, ltM zeroM x = true -> ltM zeroM y = true -> ltM zeroM (mulM x y) = true) ->
  (forall x, mulM x zeroM = zeroM) ->
  nrm2 c0 = zeroM ->
  (forall x : K, x <> c0 -> ltM zeroM (nrm2 x) = true) ->
  (forall x, ltM zeroM x = true -> ltM zeroM (scale_of_max x) = true) ->
  forall n (a : mat K) i j, wf n n a -> i < n -> j < n -> i <> j ->
  (forall c, c < n -> mget K a i c = mget K a j c) ->
  site_rejects_full K isz (lu_c_det K M (lu_c K M nrm2 mulM ltM zeroM scale_of_max isz a n)) = true.
Proof. exact (dup_rows_rejected_exact_field K M nrm2 mulM ltM zeroM scale_of_max isz). Qed.
Print Assumptions c19_duplicated_rows_rejected_exact_field.
