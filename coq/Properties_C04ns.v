(* Property C04, n-port functions, all n, SPECIFICATION LEVEL: the matrices K (A^-1 B) K^-1 resp.
   K^-1 (B A^-1) K written with mathcomp's invmx (Conv/ConvNSpec.v) satisfy their defining relation
   for exactly the states that satisfy the input's relation.  mathcomp, arbitrary field of
   characteristic <> 2, any n.  These statements do not mention the executable model: the theorems
   about the code-tied model Conv/ConvN.v for all n (same statement, on list matrices and the LU
   model) are c04_*n_same_states_all_n in Properties_C04n.v.  (Z <-> Y at this level is mulKmx /
   mulKVmx and is not listed; the model theorems c04_ztoyn/ytozn_same_states_all_n cover it.) *)
From mathcomp Require Import all_ssreflect all_algebra.
Require Import LV.Conv.ConvNSpec.
Import GRing.Theory.
Local Open Scope ring_scope.

Theorem c04_stozn_spec_all_n (F : fieldType) (n : nat) (z zc k : 'rV[F]_n) :
  (2%:R : F) != 0 -> (forall j, k 0 j != 0) -> (forall j, z 0 j + zc 0 j = 2%:R * (k 0 j * k 0 j)) ->
  forall (S : 'M[F]_n) (v i : 'cV[F]_n), (1%:M - S) \in unitmx ->
  (wave_b (dZ0c zc) (dKi k) v i = S *m wave_a (dZ0 z) (dKi k) v i) <->
  (v = stozn_spec (dZ0 z) (dZ0c zc) (dK k) (dKi k) S *m i).
Proof. by move=> H2 Hk Hz M v i; apply: stozn_correct. Qed.
Print Assumptions c04_stozn_spec_all_n.

Theorem c04_stoyn_spec_all_n (F : fieldType) (n : nat) (z zc k : 'rV[F]_n) :
  (2%:R : F) != 0 -> (forall j, k 0 j != 0) -> (forall j, z 0 j + zc 0 j = 2%:R * (k 0 j * k 0 j)) ->
  forall (S : 'M[F]_n) (v i : 'cV[F]_n), (S *m dZ0 z + dZ0c zc) \in unitmx ->
  (wave_b (dZ0c zc) (dKi k) v i = S *m wave_a (dZ0 z) (dKi k) v i) <->
  (i = stoyn_spec (dZ0 z) (dZ0c zc) (dK k) (dKi k) S *m v).
Proof. by move=> H2 Hk Hz M v i; apply: stoyn_correct. Qed.
Print Assumptions c04_stoyn_spec_all_n.

Theorem c04_ztosn_spec_all_n (F : fieldType) (n : nat) (z zc k : 'rV[F]_n) :
  (2%:R : F) != 0 -> (forall j, k 0 j != 0) -> (forall j, z 0 j + zc 0 j = 2%:R * (k 0 j * k 0 j)) ->
  forall (Z : 'M[F]_n) (v i : 'cV[F]_n), (Z + dZ0 z) \in unitmx ->
  (v = Z *m i) <->
  (wave_b (dZ0c zc) (dKi k) v i = ztosn_spec (dZ0 z) (dZ0c zc) (dK k) (dKi k) Z *m wave_a (dZ0 z) (dKi k) v i).
Proof. by move=> H2 Hk Hz M v i; apply: ztosn_correct. Qed.
Print Assumptions c04_ztosn_spec_all_n.

Theorem c04_ytosn_spec_all_n (F : fieldType) (n : nat) (z zc k : 'rV[F]_n) :
  (2%:R : F) != 0 -> (forall j, k 0 j != 0) -> (forall j, z 0 j + zc 0 j = 2%:R * (k 0 j * k 0 j)) ->
  forall (Y : 'M[F]_n) (v i : 'cV[F]_n), (1%:M + dZ0 z *m Y) \in unitmx ->
  (i = Y *m v) <->
  (wave_b (dZ0c zc) (dKi k) v i = ytosn_spec (dZ0 z) (dZ0c zc) (dK k) (dKi k) Y *m wave_a (dZ0 z) (dKi k) v i).
Proof. by move=> H2 Hk Hz M v i; apply: ytosn_correct. Qed.
Print Assumptions c04_ytosn_spec_all_n.
