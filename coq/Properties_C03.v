(* C03 - no API call sequence corrupts memory, invokes undefined behaviour or leaks.
   Theorems about the pointer-level models coq/Mem/{PropList,ParamSlots,DataAlloc,AddArrays}.v (the rest of
   the API is covered by the sanitizer enumeration of checks/C03.py only: support, not proof). *)
Require Import List ZArith.
Import ListNotations.
Require Import LV.Mem.Alloc LV.Mem.PropList LV.Mem.PropListProofs LV.Mem.ParamSlots LV.Mem.ParamProofs
               LV.Mem.AddArrays LV.Mem.AddArraysProofs LV.Mem.DataAlloc LV.Mem.DataProofs.
Open Scope Z_scope.

(* vnaproperty list container: every op sequence, every integer index, with or without one failing
   allocation: create / ops / free never faults (no out-of-bounds cell, no use after free, no
   double free, no NULL dereference) *)
Theorem plist_no_fault : forall ops k f, history Fixed ops (start k) <> Fault f.
Proof. exact plist_no_fault_lemma. Qed.
Print Assumptions plist_no_fault.

(* ... and after the matching free the ledger is empty *)
Theorem plist_no_leak : forall ops k os s', history Fixed ops (start k) = Ok (os, s') -> live s' = [].
Proof. exact plist_no_leak_lemma. Qed.
Print Assumptions plist_no_leak.

Theorem plist_inv_satisfiable : exists l s, Inv l s /\ llen l = 3 /\ lalloc l = 8 /\ length (live s) = 6%nat.
Proof. exact Inv_satisfiable. Qed.
Print Assumptions plist_inv_satisfiable.

(* the code as first read (D2, D39): kept as refutations; the witnesses are replayed on the C side
   by the check (they no longer reproduce on the repaired tree) *)
Theorem plist_delete_orig_oob_refuted : exists ops, history Orig ops (start None) = Fault OOB.
Proof. exact plist_delete_orig_oob_refuted_lemma. Qed.
Print Assumptions plist_delete_orig_oob_refuted.

Theorem plist_delete_orig_leak_refuted : exists ops os s, history Orig ops (start None) = Ok (os, s) /\ live s <> [].
Proof. exact plist_delete_orig_leak_refuted_lemma. Qed.
Print Assumptions plist_delete_orig_leak_refuted.

Theorem plist_index_overflow_orig_refuted : exists ops, history Orig ops (start None) = Fault IntOverflow.
Proof. exact plist_index_overflow_orig_refuted_lemma. Qed.
Print Assumptions plist_index_overflow_orig_refuted.

(* vnacal parameter-slot allocator *)
Theorem pslots_no_fault : forall ops k f, phistory Fixed ops (start k) <> Fault f.
Proof. exact pslots_no_fault_lemma. Qed.
Print Assumptions pslots_no_fault.

Theorem pslots_no_leak : forall ops k os s', phistory Fixed ops (start k) = Ok (os, s') -> live s' = [].
Proof. exact pslots_no_leak_lemma. Qed.
Print Assumptions pslots_no_leak.

Theorem pslots_inv_satisfiable : exists c s, PInv c s /\ palloc c = 8%nat /\ pcount c = 4%nat.
Proof. exact PInv_satisfiable. Qed.
Print Assumptions pslots_inv_satisfiable.

(* stack arrays of _vnacal_new_add_common (no port map, full matrices): all integer dimensions *)
Theorem add_arrays_no_fault : forall a s, valid_new a -> exists o, add_arrays Fixed a s = Ok (o, s).
Proof. exact add_arrays_no_fault_lemma. Qed.
Print Assumptions add_arrays_no_fault.

Theorem add_arrays_valid_satisfiable : valid_new (mkAdd 2 3 3 2 3 3 3 3 3).
Proof. exact valid_new_satisfiable. Qed.
Print Assumptions add_arrays_valid_satisfiable.

Theorem add_arrays_d14_refuted : exists a s, valid_new a /\ add_arrays Orig a s = Fault OOB.
Proof. exact add_arrays_d14_refuted_lemma. Qed.
Print Assumptions add_arrays_d14_refuted.

Theorem add_arrays_d50_refuted : exists a s, valid_new a /\ add_arrays Orig a s = Fault VlaBound.
Proof. exact add_arrays_d50_refuted_lemma. Qed.
Print Assumptions add_arrays_d50_refuted.

Theorem add_arrays_d48_refuted : exists a s, valid_new a /\ add_arrays Orig a s = Fault OOB.
Proof. exact add_arrays_d48_refuted_lemma. Qed.
Print Assumptions add_arrays_d48_refuted.

(* vnadata allocation skeleton (vnadata_alloc, _vnadata_extend_p/m/f as driven by vnadata_resize,
   vnadata_free), both z0 modes: every sequence of resizes with arbitrary integer ports / cells /
   frequencies, with or without one failing allocation, never faults and frees everything *)
Theorem vdata_no_fault : forall pf ops k f, dhistory Fixed pf ops (start k) <> Fault f.
Proof. exact vdata_no_fault_lemma. Qed.
Print Assumptions vdata_no_fault.

Theorem vdata_no_leak : forall pf ops k os s', dhistory Fixed pf ops (start k) = Ok (os, s') -> live s' = [].
Proof. exact vdata_no_leak_lemma. Qed.
Print Assumptions vdata_no_leak.

Theorem vdata_inv_satisfiable :
  exists d s, DInv d s /\ fal d = 3%nat /\ pal d = 2%nat /\ perf d = true /\ length (live s) = 10%nat.
Proof. exact DInv_satisfiable. Qed.
Print Assumptions vdata_inv_satisfiable.

(* D7 as first read (repaired): uninitialised z0 row pointers reach realloc *)
Theorem vdata_extend_f_orig_refuted : exists ops f, dhistory Orig true ops (start None) = Fault f.
Proof. exact vdata_extend_f_orig_refuted_lemma. Qed.
Print Assumptions vdata_extend_f_orig_refuted.
