(* C03 - no API call sequence corrupts memory, invokes undefined behaviour or leaks.
   Theorems about the pointer-level models coq/Mem/{PropList,ParamSlots,DataAlloc,DataZ0,AddArrays,HashTab}.v (the rest of
   the API is covered by the sanitizer enumeration of checks/C03.py only: support, not proof). *)
Require Import List ZArith.
Import ListNotations.
Require Import LV.Mem.Alloc LV.Mem.PropList LV.Mem.PropListProofs LV.Mem.ParamSlots LV.Mem.ParamProofs
               LV.Mem.AddArrays LV.Mem.AddArraysProofs LV.Mem.DataAlloc LV.Mem.DataProofs.
Open Scope Z_scope.

(* vnaproperty list container: every op sequence, every integer index, with or without one failing
   allocation: create / ops / free never faults (no out-of-bounds cell, no use after free, no
   double free, no NULL dereference) *)
Theorem plist_no_fault : forall ops k f, history Fixed ops (start k) <> Fault f.
Proof. exact plist_no_fault_lemma. Qed.
Print Assumptions plist_no_fault.

(* ... and after the matching free the ledger is empty *)
Theorem plist_no_leak : forall ops k os s', history Fixed ops (start k) = Ok (os, s') -> live s' = [].
Proof. exact plist_no_leak_lemma. Qed.
Print Assumptions plist_no_leak.

Theorem plist_inv_satisfiable : exists l s, Inv l s /\ llen l = 3 /\ lalloc l = 8 /\ length (live s) = 6%nat.
Proof. exact Inv_satisfiable. Qed.
Print Assumptions plist_inv_satisfiable.

(* the code as first read (D2, D39): kept as refutations; the witnesses are replayed on the C side
   by the check (they no longer reproduce on the repaired tree) *)
Theorem plist_delete_orig_oob_refuted : exists ops, history Orig ops (start None) = Fault OOB.
Proof. exact plist_delete_orig_oob_refuted_lemma. Qed.
Print Assumptions plist_delete_orig_oob_refuted.

Theorem plist_delete_orig_leak_refuted : exists ops os s, history Orig ops (start None) = Ok (os, s) /\ live s <> [].
Proof. exact plist_delete_orig_leak_refuted_lemma. Qed.
Print Assumptions plist_delete_orig_leak_refuted.

Theorem plist_index_overflow_orig_refuted : exists ops, history Orig ops (start None) = Fault IntOverflow.
Proof. exact plist_index_overflow_orig_refuted_lemma. Qed.
Print Assumptions plist_index_overflow_orig_refuted.

(* vnacal parameter-slot allocator *)
Theorem pslots_no_fault : forall ops k f, phistory Fixed ops (start k) <> Fault f.
Proof. exact pslots_no_fault_lemma. Qed.
Print Assumptions pslots_no_fault.

Theorem pslots_no_leak : forall ops k os s', phistory Fixed ops (start k) = Ok (os, s') -> live s' = [].
Proof. exact pslots_no_leak_lemma. Qed.
Print Assumptions pslots_no_leak.

Theorem pslots_inv_satisfiable : exists c s, PInv c s /\ palloc c = 8%nat /\ pcount c = 4%nat.
Proof. exact PInv_satisfiable. Qed.
Print Assumptions pslots_inv_satisfiable.

(* stack arrays of _vnacal_new_add_common (no port map, full matrices): all integer dimensions *)
Theorem add_arrays_no_fault : forall a s, valid_new a -> exists o, add_arrays Fixed a s = Ok (o, s).
Proof. exact add_arrays_no_fault_lemma. Qed.
Print Assumptions add_arrays_no_fault.

Theorem add_arrays_valid_satisfiable : valid_new (mkAdd 2 3 3 2 3 3 3 3 3).
Proof. exact valid_new_satisfiable. Qed.
Print Assumptions add_arrays_valid_satisfiable.

Theorem add_arrays_d14_refuted : exists a s, valid_new a /\ add_arrays Orig a s = Fault OOB.
Proof. exact add_arrays_d14_refuted_lemma. Qed.
Print Assumptions add_arrays_d14_refuted.

Theorem add_arrays_d50_refuted : exists a s, valid_new a /\ add_arrays Orig a s = Fault VlaBound.
Proof. exact add_arrays_d50_refuted_lemma. Qed.
Print Assumptions add_arrays_d50_refuted.

Theorem add_arrays_d48_refuted : exists a s, valid_new a /\ add_arrays Orig a s = Fault OOB.
Proof. exact add_arrays_d48_refuted_lemma. Qed.
Print Assumptions add_arrays_d48_refuted.

(* vnadata allocation skeleton (vnadata_alloc, _vnadata_extend_p/m/f as driven by vnadata_resize,
   vnadata_free), both z0 modes: every sequence of resizes with arbitrary integer ports / cells /
   frequencies, with or without one failing allocation, never faults and frees everything *)
Theorem vdata_no_fault : forall pf ops k f, dhistory Fixed pf ops (start k) <> Fault f.
Proof. exact vdata_no_fault_lemma. Qed.
Print Assumptions vdata_no_fault.

Theorem vdata_no_leak : forall pf ops k os s', dhistory Fixed pf ops (start k) = Ok (os, s') -> live s' = [].
Proof. exact vdata_no_leak_lemma. Qed.
Print Assumptions vdata_no_leak.

Theorem vdata_inv_satisfiable :
  exists d s, DInv d s /\ fal d = 3%nat /\ pal d = 2%nat /\ perf d = true /\ length (live s) = 10%nat.
Proof. exact DInv_satisfiable. Qed.
Print Assumptions vdata_inv_satisfiable.

(* D7 as first read (repaired): uninitialised z0 row pointers reach realloc *)
Theorem vdata_extend_f_orig_refuted : exists ops f, dhistory Orig true ops (start None) = Fault f.
Proof. exact vdata_extend_f_orig_refuted_lemma. Qed.
Print Assumptions vdata_extend_f_orig_refuted.

(* ------------------------------------------------------------------ the two chained hash tables
   (coq/Mem/HashTab.v: pointer-level model, as coded, of hash_expand / hash_lookup / hash_insert /
   _vnacal_new_init_parameter_hash / _vnacal_new_free_parameter_hash and the look-up, malloc, insert
   sequence of _vnacal_new_get_parameter; and of map_find_anchor / map_expand / map_subtree /
   map_delete / map_alloc / vnaproperty_vkeys / vnaproperty_free of a map) *)
Require Import LV.Mem.HashTab LV.Mem.HashTabProofs.

(* vnacal_new_t parameter hash: every sequence of get (look-up or insert, any integer index) and find,
   with or without one failing request: init / ops / free never faults ... *)
Theorem phash_no_fault : forall ops k f, phhistory HFixed ops (start k) <> Fault f.
Proof. exact ph_no_fault_lemma. Qed.
Print Assumptions phash_no_fault.

(* ... the ledger is empty after _vnacal_new_free_parameter_hash ... *)
Theorem phash_no_leak : forall ops k os s', phhistory HFixed ops (start k) = Ok (os, s') -> live s' = [].
Proof. exact ph_no_leak_lemma. Qed.
Print Assumptions phash_no_leak.

(* ... and every answer is the one the set of stored keys dictates (ph_spec: get finds a stored key
   or stores the new one, or fails with ENOMEM and stores nothing; find answers Done exactly for the
   stored keys), whatever the insertion order and however often the table has grown (8, 16, 32, ...
   buckets, in-place rehash).  k = Some 0 is the run whose first request (the table itself) fails. *)
Theorem phash_lookup_exact : forall ops k os s', phhistory HFixed ops (start k) = Ok (os, s') ->
  (k = Some O /\ os = []) \/ ph_spec_run [] ops os.
Proof. exact ph_lookup_exact_lemma. Qed.
Print Assumptions phash_lookup_exact.

(* without a failing request the outcomes are a function of the op list alone *)
Theorem phash_fault_free_exact : forall ops os s',
  phhistory HFixed ops (start None) = Ok (os, s') -> os = ph_fun [] ops.
Proof. exact ph_fault_free_exact_lemma. Qed.
Print Assumptions phash_fault_free_exact.

Theorem phash_inv_satisfiable : exists h s, PHInv h s /\ halloc h = 16%nat /\ hcount h = 9%nat /\
  nth 0 (map (map nkey) (hbuckets h)) [] = [0; 16; 32]%nat.
Proof. exact PHInv_satisfiable. Qed.
Print Assumptions phash_inv_satisfiable.

(* bug shapes (seeded changes C20-2, C16-2 / C01-1): hash_insert pushing on the chain head, hash_expand
   pushing rehashed nodes on the chain head: the sorted-chain early exit of hash_lookup then misses a
   stored key, so the invariant "chains ascending" is what the theorems above rest on *)
Theorem phash_head_insert_refuted : exists ops os s,
  phhistory HHeadInsert ops (start None) = Ok (os, s) /\ os <> ph_fun [] ops.
Proof. exact ph_head_insert_refuted_lemma. Qed.
Print Assumptions phash_head_insert_refuted.

Theorem phash_rehash_head_refuted : exists ops os s,
  phhistory HRehashHead ops (start None) = Ok (os, s) /\ os <> ph_fun [] ops.
Proof. exact ph_rehash_head_refuted_lemma. Qed.
Print Assumptions phash_rehash_head_refuted.

(* vnaproperty map: for every hash function hf (the code uses CRC-32C of the key; the model's key is
   the rank of (hash, name)), every sequence of set / look-up / delete / keys, with or without one
   failing request: alloc / ops / free never faults, frees everything, and every answer (found or
   not, the key vector in insertion order) is the one the insertion-order list of keys dictates *)
Theorem pmap_no_fault : forall hf ops k f, mhistory HFixed (map (mop_of hf) ops) (start k) <> Fault f.
Proof. exact map_no_fault_lemma. Qed.
Print Assumptions pmap_no_fault.

Theorem pmap_no_leak : forall hf ops k os s',
  mhistory HFixed (map (mop_of hf) ops) (start k) = Ok (os, s') -> live s' = [].
Proof. exact map_no_leak_lemma. Qed.
Print Assumptions pmap_no_leak.

Theorem pmap_lookup_exact : forall hf ops k os s',
  mhistory HFixed (map (mop_of hf) ops) (start k) = Ok (os, s') ->
  (k = Some O /\ os = []) \/ m_spec_run [] ops os.
Proof. exact map_lookup_exact_lemma. Qed.
Print Assumptions pmap_lookup_exact.

Theorem pmap_fault_free_exact : forall hf ops os s',
  mhistory HFixed (map (mop_of hf) ops) (start None) = Ok (os, s') -> os = m_fun [] ops.
Proof. exact map_fault_free_exact_lemma. Qed.
Print Assumptions pmap_fault_free_exact.

Theorem pmap_inv_satisfiable : exists m s, MInv hf_demo m s /\ halloc (mtab m) = 33%nat /\ hcount (mtab m) = 21%nat /\
  nth 0 (map (map nkey) (hbuckets (mtab m))) [] = [0; 2]%nat /\ length (live s) = 44%nat.
Proof. exact MInv_satisfiable. Qed.
Print Assumptions pmap_inv_satisfiable.

Theorem pmap_head_insert_refuted : exists ops os s,
  mhistory HHeadInsert (map (mop_of hf_demo) ops) (start None) = Ok (os, s) /\ os <> m_fun [] ops.
Proof. exact map_head_insert_refuted_lemma. Qed.
Print Assumptions pmap_head_insert_refuted.

Theorem pmap_rehash_head_refuted : exists ops os s,
  mhistory HRehashHead (map (mop_of hf_demo) ops) (start None) = Ok (os, s) /\ os <> m_fun [] ops.
Proof. exact map_rehash_head_refuted_lemma. Qed.
Print Assumptions pmap_rehash_head_refuted.

(* ------------------------------------------------------------------ the z0 modes of a vnadata_t
   (coq/Mem/DataZ0.v: _vnadata_convert_to_fz0 / _vnadata_convert_to_z0, vnadata_set_z0 / _set_fz0 / _set_all_z0 /
   _set_z0_vector / _set_fz0_vector with the caller's vector possibly the object's own, the re-initialisation loops of
   vnadata_resize) on top of the allocation skeleton *)
Require Import LV.Mem.DataZ0 LV.Mem.DataZ0Proofs.

(* every list of resizes and z0 setters, every integer argument, every source of the caller's vector, with or without
   one failing allocation: vnadata_alloc / ops / vnadata_free never faults ... *)
Theorem vdataz_no_fault : forall ops k f, zhistory ZFixed ops (start k) <> Fault f.
Proof. exact vdataz_no_fault_lemma. Qed.
Print Assumptions vdataz_no_fault.

(* ... and frees everything *)
Theorem vdataz_no_leak : forall ops k os s', zhistory ZFixed ops (start k) = Ok (os, s') -> live s' = [].
Proof. exact vdataz_no_leak_lemma. Qed.
Print Assumptions vdataz_no_leak.

Theorem vdataz_inv_satisfiable : exists o s, OInv o s /\ perf (od o) = true /\ fal (od o) = 4%nat /\ ofr o = 2%nat /\ opt o = 2%nat /\
  length (live s) = 12%nat.
Proof. exact OInv_satisfiable. Qed.
Print Assumptions vdataz_inv_satisfiable.

(* D72 / D73 as first read (repaired): the setter frees the vector the caller's pointer refers to, then reads it *)
Theorem set_fz0_vector_alias_refuted : exists ops, zhistory ZNoCopy ops (start None) = Fault UseAfterFree.
Proof. exact set_fz0_vector_alias_refuted_lemma. Qed.
Print Assumptions set_fz0_vector_alias_refuted.

Theorem set_z0_vector_alias_refuted : exists ops, zhistory ZNoCopy ops (start None) = Fault UseAfterFree.
Proof. exact set_z0_vector_alias_refuted_lemma. Qed.
Print Assumptions set_z0_vector_alias_refuted.

(* bug shape of the seeded change C03-4: rows only for the frequencies in use *)
Theorem convert_rows_in_use_refuted : exists ops f, zhistory ZRowsInUse ops (start None) = Fault f.
Proof. exact convert_rows_in_use_refuted_lemma. Qed.
Print Assumptions convert_rows_in_use_refuted.

(* ---------------------------------------------------------------- the vnacal_new_t allocation skeleton (Mem/NewAlloc.v) *)
Require Import Lia.
Require Import LV.Mem.NewAlloc LV.Mem.NewAllocProofs LV.Mem.NewHoldProofs.

(* The whole life cycle of the calibration builder, in a closed world of parameters: for every set of parameters numbered in
   creation order (they exist before the history and are deleted by vnacal_free after it; vnacal_delete_parameter,
   vnacal_make_*_parameter and vnacal_add_calibration are not ops of this model), every list of calls (vnacal_new_alloc, set
   frequency vector, add with any argument class / parameter list / equation shape, vnacal_new_set_m_error incl. the spline that
   refuses its frequencies, vnacal_new_solve with any number of kernel requests, succeeding or given up by a kernel,
   vnacal_new_free; on live or NULL handles - a freed handle is NULL in the model and in the harness, a call on a dangling
   pointer is outside; no bound on the length) followed by vnacal_free, with or without one failing request: no use after
   free, no double free, no NULL dereference of a block pointer.  Indexed accesses INSIDE a block (vn_frequency_vector[0] /
   [n-1], vn_m_error_vector[findex], vnss_p_vector[index]: the D63 class) are not expressed by this model - it touches whole
   blocks only and its sizes are nominal; those reads are covered by the sanitizer runs. *)
Theorem new_no_fault : forall ks ops k f, cfg_ok ks -> whistory NFixed ks ops (start k) <> Fault f.
Proof. exact new_no_fault_lemma. Qed.
Print Assumptions new_no_fault.

(* ... nothing is left in the ledger, and every hold a vnacal_new_t took on a parameter has been given back (the last
   component of the result of [whistory] = the hold counts after vnacal_free) *)
Theorem new_no_leak : forall ks ops k os held s', cfg_ok ks ->
  whistory NFixed ks ops (start k) = Ok ((os, held), s') -> live s' = [] /\ forall h, In h held -> h = 0%nat.
Proof. exact new_no_leak_full_lemma. Qed.
Print Assumptions new_no_leak.

(* the hold balance behind it: in every reachable world the holds of parameter j equal the number of hash nodes with key j
   over the whole ring ([HBW], preserved by every call for every fault point: hbw_step), so vnacal_free returns them all *)
Theorem new_hold_balance : forall ks ops k os held s',
  whistory NFixed ks ops (start k) = Ok ((os, held), s') -> forall h, In h held -> h = 0%nat.
Proof. exact new_hold_balance_lemma. Qed.
Print Assumptions new_hold_balance.

Theorem new_hold_invariant_satisfiable : exists w, HBW w /\ hcount (w_prm w) 3 = 2%nat /\ length (w_new w) = 2%nat.
Proof. exact hbw_satisfiable. Qed.
Print Assumptions new_hold_invariant_satisfiable.

(* hypothesis and conclusion are met by a concrete history (two parameters, a calibration, a standard, measurement errors, a solve) *)
Example new_history_satisfiable :
  cfg_ok [KScalar; KScalar; KScalar; KScalar; KUnknown 3] /\
  exists os s', whistory NFixed [KScalar; KScalar; KScalar; KScalar; KUnknown 3]
                  [WNew cfgA; WSetF 0; WAdd 0 (addA 4); WMErr 0 (MESet 2); WSolve 0 3 false false] (start None) = Ok ((os, [0; 0; 0; 0; 0]%nat), s') /\
                last os Done = Done.
Proof.
  split.
  - intros i o H. do 5 (destruct i as [|i]; simpl in H; try discriminate). inversion H; lia. destruct i; discriminate.
  - eexists; eexists; split; vm_compute; reflexivity.
Qed.

(* one call in any reachable state ([WInv]: the ledger equals the multiset of blocks the parameters and the calibrations on the
   ring refer to, bucket arrays exist, unknown lists name existing parameters), any fault point: it completes and [WInv] holds again *)
Theorem new_step_no_fault : forall w op s, WInv w s -> exists w' o s', wstep NFixed w op s = Ok ((w', o), s') /\ WInv w' s'.
Proof. exact new_fault_clean_lemma. Qed.
Print Assumptions new_step_no_fault.

Theorem new_post_satisfiable : exists v ps s, Post [] v ps s /\ vn_merr v <> None /\ length (live s) = 6%nat.
Proof. exact NewAllocProofs.new_post_satisfiable. Qed.
Print Assumptions new_post_satisfiable.

(* bug shape of the seeded change C03-9 (the clear branch frees the vector through a copy of the pointer and leaves
   vn_m_error_vector set): set, clear, set again writes into the freed vector; the tree's code runs the same history *)
Theorem new_merr_clear_dangling_refuted :
  exists ops, whistory NClearDangling [KScalar; KScalar; KScalar] ops (start None) = Fault UseAfterFree /\
              exists r, whistory NFixed [KScalar; KScalar; KScalar] ops (start None) = Ok r.
Proof. exact new_merr_clear_dangling_refuted_lemma. Qed.
Print Assumptions new_merr_clear_dangling_refuted.

(* vnacal_new_free of a complete or partly built vnacal_new_t (the error exits of vnacal_new_alloc call it on a structure
   without bucket array), in any state, beside any other live blocks F: no double free, no use after free, and afterwards
   the ledger holds exactly the solved vectors of the parameters and F - every block the structure referred to is gone.
   [LI own s]: the multiset [own] equals the ledger of [s]. *)
Theorem new_free_no_fault_no_leak : forall F v ps s, LI (vown v ++ psown ps ++ F) s -> (vn_tab v = None -> vn_nodes v = []) ->
  exists ps' s', new_free v ps s = Ok (ps', s') /\ LI (psown ps' ++ F) s' /\ length ps' = length ps.
Proof. exact new_free_clean_lemma. Qed.
Print Assumptions new_free_no_fault_no_leak.

(* [release] of the model saturates at 0 where the C code asserts vpmr_hold_count > 0.  In every world a history reaches the
   holds of a parameter are at least the number of nodes any one calibration has for it, so no release underflows: the
   assertion cannot fire and "held = 0" at the end means "given back", not "saturated" *)
Theorem new_release_no_underflow : forall ks ops k w os s h v,
  wrun NFixed (mkW (mkprms ks) []) ops (start k) = Ok ((w, os), s) -> nth h (w_new w) None = Some v ->
  forall j, cnt j (keys v) <= hcount (w_prm w) j.
Proof. intros ks ops k w os s h v E Hh. exact (release_no_underflow w h v (hbw_reachable ks ops k w os s E) Hh). Qed.
Print Assumptions new_release_no_underflow.

(* the non-allocation exits are met by concrete histories: a kernel that gives up, a spline that refuses its frequencies *)
Example new_failure_exits_satisfiable :
  exists os held s', whistory NFixed [KScalar; KScalar; KScalar]
    [WNew cfgA; WSetF 0; WMErr 0 (MESplineInvalid 0); WSolve 0 2 false true] (start None) = Ok ((os, held), s') /\
    os = [Done; Done; Err EINVAL; Err EINVAL] /\ live s' = [].
Proof. eexists; eexists; eexists; split; [vm_compute; reflexivity | split; reflexivity]. Qed.
