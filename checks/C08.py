"""C08 - equivalent spellings of a Touchstone / NPD file load to the same network data.

A Python generator (lib/datafiles.py gen_touchstone / gen_npd), written from the format documents,
spells one ground-truth data set in many equivalent ways: unit with scaled numbers, RI/MA/DB,
Full/Upper/Lower for symmetric matrices, 12_21/21_12, letter case, comments, blank lines, spacing,
line breaks where the format allows them, version 1 vs version 2 framing, option-line order and
defaults, NPD header line order, legacy rows/columns, comma vs space separated #:parameters, with or
without noise data.  Every spelling is loaded by vnadata_fload and must give the ground truth (to
rounding), hence all spellings agree.

Coq (Properties_C08.v): on the byte-level models Files/TsTok.v (tokenizer) and Files/TsParse.v (parser) every
well-formed abstract version-1 / version-2 file loads to the object it describes (v1_load, v2_load: induction over
the record list), hence files with the same content load alike: unit with scaled numbers, option-line order /
defaults / last wins, Full / Upper / Lower, 12_21 / 21_12, version 1 vs version 2 framing; letter case, blanks,
comments, blank lines and free line breaks are proved on the bytes and composed with the parser; NPD: header order
(Files/NpdScan.v) and comment / blank invariance of the whole loader model (Files/NpdLoad.v).  The models are tied
to the C code on every spelling of the run (checks/tstone_ties.py, checks/c08_ties.py): token streams of
next_token, field lists of scan_line, and outcome / object of vnadata_fload.  RI vs MA vs DB (cexp, pow) and the
rounding of strtod are not modelled: those rest on the generator + loader comparison.
"""
import math

import vplib
import datafiles as D
import C06
import c08_ties
import tstone_ties

REL = 1e-11


def gen_truth_ts(rng, k):
    typ = ["S", "Z", "Y", "H", "G"][k % 5]
    if typ in ("H", "G"):
        n = 2
    else:
        n = [1, 2, 3, 4, 2, 5, 6, 8][(k // 5) % 8]
    nf = rng.randint(1, 4)
    R = rng.choice([50.0, 50.0, 75.0, 1.0, 12.5, 100.0])
    e10 = rng.randint(4, 10)
    digs = sorted(rng.sample(range(1, 100), nf))
    freqs = [d * 10.0 ** (e10 - 1) * (1 if rng.random() < 0.5 else (1 + rng.uniform(0, 0.004))) for d in digs]
    sym = rng.random() < 0.5
    mats = []
    for _ in range(nf):
        s = C06.rand_s(rng, n)
        if sym:
            for r in range(n):
                for c in range(r):
                    s[r * n + c] = s[c * n + r]
        z0 = [complex(R, 0)] * n
        m = D.convert(s, "S", typ, z0)
        if sym and typ in ("H", "G"):
            m[2] = m[1]            # Upper/Lower spellings need a symmetric matrix as written
        mats.append(m)
    mixed = n >= 2 and rng.random() < 0.25
    ref = [rng.choice([25.0, 50.0, 75.0]) for _ in range(n)] if mixed else None
    return {"type": typ, "ports": n, "freqs": freqs, "R": R, "reference": ref, "mats": mats, "symmetric": sym}


def spellings_ts(rng, truth, count):
    n = truth["ports"]
    out = []
    for j in range(count):
        v1ok = n <= 4 and truth["reference"] is None
        sp = {"version": 1 if (v1ok and rng.random() < 0.45) else 2,
              "unit": rng.choice(["HZ", "KHZ", "MHZ", "GHZ", "HZ", "KHZ", "MHZ", "GHZ", "THZ"]),
              "fmt": rng.choice(["RI", "MA", "DB"]),
              "case": rng.choice(["asis", "upper", "lower", "random"]),
              "decorate": rng.random() < 0.6,
              "omit_defaults": rng.random() < 0.5,
              "crlf": rng.random() < 0.15,
              "no_final_newline": rng.random() < 0.15,
              "noise": n == 2 and rng.random() < 0.3,
              "kw_shuffle": rng.random() < 0.5,
              "explicit_full": rng.random() < 0.3,
              "explicit_reference": rng.random() < 0.2,
              "information": rng.random() < 0.15,
              "odd_space": rng.random() < 0.2,
              "omit_end": rng.random() < 0.1}
        o = ["unit", "type", "fmt", "R"]
        rng.shuffle(o)
        sp["opt_order"] = o
        sp["mform"] = rng.choice(["FULL", "UPPER", "LOWER"]) if truth["symmetric"] else "FULL"
        sp["order"] = rng.choice(["12_21", "21_12"])
        if j == 0:      # the plain spelling: what vnadata_save itself would write, unit Hz
            sp.update(unit="HZ", fmt="RI", case="asis", decorate=False, omit_defaults=False, crlf=False,
                      no_final_newline=False, noise=False, kw_shuffle=False, mform="FULL", order="12_21",
                      opt_order=["unit", "type", "fmt", "R"], information=False, omit_end=False, odd_space=False)
        out.append(sp)
    return out


def gen_truth_npd(rng, k):
    typ = ["S", "Z", "Y", "T", "H", "A", "ZIN", "U", "G", "B"][k % 10]
    n = 2 if typ in D.TWO_PORT_ONLY else rng.randint(1, 5)
    nf = rng.randint(1, 3)
    freqs = [10 ** rng.uniform(3, 10) for _ in range(nf)]       # NPD does not order frequencies
    mode = rng.choice(["default", "real", "complex", "perf"])
    z0 = fz0 = None
    if mode == "default":
        z0 = [50 + 0j] * n
    elif mode == "real":
        z0 = [complex(rng.choice([25.0, 75.0, 100.0]), 0) for _ in range(n)]
    elif mode == "complex":
        z0 = [complex(rng.uniform(20, 90), rng.uniform(-20, 20)) for _ in range(n)]
    else:
        fz0 = [[complex(rng.uniform(20, 90), rng.uniform(-20, 20)) for _ in range(n)] for _ in range(nf)]
    mats = []
    for i in range(nf):
        zz = fz0[i] if fz0 is not None else z0
        mats.append(D.convert(C06.rand_s(rng, n), "S", typ, zz))
    return {"type": typ, "ports": n, "freqs": freqs, "z0": z0, "fz0": fz0, "mats": mats, "zmode": mode}


def spellings_npd(rng, truth, count):
    out = []
    power = truth["type"] in ("S", "T", "U")
    for j in range(count):
        choices = [["RI"], ["MA"], ["RI", "MA"], ["MA", "RI"]]
        if power:
            choices += [["DB"], ["DB", "MA"], ["DB", "RI"]]
        sp = {"forms": rng.choice(choices), "legacy_dims": rng.random() < 0.25 and truth["type"] != "ZIN",
              "param_sep": rng.choice([",", ",", " "]), "shuffle_header": rng.random() < 0.7,
              "decorate": rng.random() < 0.6, "precision_lines": rng.random() < 0.6,
              "omit_default_z0": rng.random() < 0.5, "j_suffix": rng.random() < 0.7,
              "case": rng.choice(["asis", "upper", "lower", "random"]), "magic": rng.random() < 0.8,
              "no_final_newline": rng.random() < 0.15,
              "crlf": rng.random() < 0.25, "odd_space": rng.random() < 0.25,
              "extra_scalar": rng.choice([[], [], [], ["RL"], ["VSWR", "IL"]]) if truth["type"] == "S" and truth["ports"] >= 2 else []}
        if j == 0:
            sp.update(forms=["RI"], legacy_dims=False, param_sep=",", shuffle_header=False, decorate=False,
                      precision_lines=True, omit_default_z0=False, j_suffix=True, case="asis", magic=True,
                      no_final_newline=False, extra_scalar=[], crlf=False, odd_space=False)
        if len(sp["forms"]) + len(sp["extra_scalar"]) < 2 and sp["param_sep"] != ",":
            sp["param_sep"] = ","
        out.append(sp)
    return out



ODD_SEPS = ["\x0c", "\x0b", "\r", " \x0c", "\x0b ", "\t\r"]


def npd_white_space(text, sp, rng):
    """The same NPD file with other white space: CR LF line ends, and form feed / vertical tab / a lone CR where the format
    has a separator (between the fields of a line and after its last field).  isspace() is what the loader's scanner
    uses to separate fields, so each is an equivalent spelling.  Lines that carry a '#' comment are left alone (inside a
    comment every byte is the comment's)."""
    if sp.get("odd_space"):
        out = []
        for ln in text.split("\n"):
            body = ln.lstrip(" \t")
            plain = body != "" and "#" not in body[1:] and not body.startswith("#NPD") and (body[0] != "#" or body.startswith("#:"))
            if plain:
                toks = ln.split()
                ln = toks[0] + "".join(rng.choice(ODD_SEPS + [" ", "\t"]) + t for t in toks[1:]) + rng.choice(["", "\x0c", "\x0b", "\r", " \x0b"])
            out.append(ln)
        text = "\n".join(out)
    if sp.get("crlf"):
        text = text.replace("\n", "\r\n")
    return text


def ts_white_space(text, sp, rng):
    """The same Touchstone file with form feed / vertical tab / CR in place of some blanks between tokens (outside
    [keywords] and comments): next_token skips every isspace() byte but the newline."""
    if not sp.get("odd_space"):
        return text
    out = []
    in_br = in_c = False
    for ch in text:
        if in_c:
            in_c = ch != "\n"
        elif in_br:
            in_br = ch not in "]\n"
        elif ch == "!":
            in_c = True
        elif ch == "[":
            in_br = True
        elif ch == " " and rng.random() < 0.3:
            ch = rng.choice(ODD_SEPS)
        out.append(ch)
    return "".join(out)


def npd_view(truth):
    """A Touchstone ground truth as the NPD generator wants it (one real reference impedance per port)."""
    t = dict(truth)
    ref = truth["reference"] or [truth["R"]] * truth["ports"]
    t["z0"] = [complex(x, 0) for x in ref]
    t["fz0"] = None
    t["zmode"] = "real"
    return t


def history_cases(rng, nsets):
    """Equivalent spellings of one data set (Touchstone 1, Touchstone 2, NPD; file names .sNp / .ts / .npd) loaded one after
    the other into the SAME object, every ordered pair, and into an object whose file type was set or that was saved
    before: what a load gives must not depend on what the object held.  Yields (cid, prelude commands, kind, truth, sp,
    text, name): the commands load `text` last."""
    for k in range(nsets):
        truth = gen_truth_ts(rng, rng.choice([0, 1, 2, 5, 6, 7, 10, 11, 12, 15, 16, 17]))
        truth["reference"] = None
        n = truth["ports"]
        sps = spellings_ts(rng, truth, 3)
        sps[1]["version"], sps[2]["version"] = 1, 2
        v1 = ("ts", truth, sps[1], ts_white_space(D.gen_touchstone(truth, sps[1], rng), sps[1], rng), "x.s%dp" % n)
        v2 = ("ts", truth, sps[2], ts_white_space(D.gen_touchstone(truth, sps[2], rng), sps[2], rng), rng.choice(["x.ts", "y.TS"]))
        tn = npd_view(truth)
        spn = spellings_npd(rng, tn, 2)[1]
        npd = ("npd", tn, spn, npd_white_space(D.gen_npd(tn, spn, rng), spn, rng), "x.npd")
        files = {"v1": v1, "v2": v2, "npd": npd}
        for a in files:
            for b in files:
                if a == b:
                    continue
                ka, ta, spa, texta, namea = files[a]
                kb, tb, spb, textb, nameb = files[b]
                pre = ["load 0 %s %s" % (namea, texta.encode("latin-1").hex())]
                if rng.random() < 0.3:
                    pre.append("save 0 %s" % namea)
                yield ("h%d_%s_%s" % (k, a, b), pre, kb, tb, spb, textb, nameb)
        for b in files:
            kb, tb, spb, textb, nameb = files[b]
            other = D.FT_NPD if kb == "ts" else rng.choice([D.FT_TS1, D.FT_TS2])
            yield ("h%d_ft_%s" % (k, b), ["filetype 0 %d" % other], kb, tb, spb, textb, nameb)



def kw_order_cases(rng, count):
    """Version-2 files whose keyword lines stand in a random order (any permutation, so also the orders the loader must
    refuse: [Reference] before [Number of Ports]), sometimes with a line repeated, with information blocks and a noise
    block.  Yields (cid, truth, text, accepted) where `accepted` is the verdict of the rules of Files/TsV2Order.v kw_step."""
    for k in range(count):
        truth = gen_truth_ts(rng, rng.choice([0, 1, 2, 5, 6, 7, 10, 11, 12]))
        n = truth["ports"]
        ref = [rng.choice([25.0, 50.0, 75.0]) for _ in range(n)] if rng.random() < 0.6 else None
        truth["reference"] = ref
        R = truth["R"]
        nn = rng.choice([None, None, 0, 1, 2])
        lines = [("ports", "[Number of Ports] %d" % n), ("nfreq", "[Number of Frequencies] %d" % len(truth["freqs"]))]
        if n == 2:
            lines.append(("order", "[Two-Port Order] 12_21"))
        if rng.random() < 0.5:
            lines.append(("matrix", "[Matrix Format] Full"))
        if ref is not None:
            lines.append(("ref", "[Reference] " + " ".join(repr(x) for x in ref)))
        if nn is not None:
            lines.append(("nnoise", "[Number of Noise Frequencies] %d" % nn))
        for _ in range(rng.choice([0, 0, 1, 2])):
            lines.append(("info", rng.choice(["[Begin Information]\n[End Information]", "[Begin Information]"])))
        dup = rng.random() < 0.25
        if dup:
            lines.append(rng.choice([l for l in lines if l[0] != "info"]))
        rng.shuffle(lines)
        kinds = [l[0] for l in lines]
        accepted = kinds.count("ports") == 1 and kinds.count("ref") <= 1 and \
            ("ref" not in kinds or kinds.index("ports") < kinds.index("ref"))
        out = ["[Version] 2.0", "# Hz %s RI R %r" % (truth["type"], R)] + [l[1] for l in lines] + ["[Network Data]"]
        for f, m in zip(truth["freqs"], truth["mats"]):
            # version 2 stores Z / Y / H / G data as actual values
            out.append(" ".join([repr(f)] + ["%r %r" % (x.real, x.imag) for x in m]))
        if nn is not None:
            out.append("[Noise Data]")
            for i in range(nn):
                out.append("%r 1.5 0.5 %r 0.25" % (truth["freqs"][0] * (i + 1), 10.0 * i))
        if rng.random() < 0.8:
            out.append("[End]")
        yield ("kw%d" % k, truth, "\n".join(out) + "\n", accepted)



def npd_header_shuffles(rng, info, count):
    """NPD spellings with ALL header lines in another order, aimed at the case split of Files/NpdHeaderOrder.v: for every NPD
    data set three headers - '#:ports' only, the legacy '#:rows' / '#:columns' only, both - each with an explicit '#:z0' line,
    and for each of them every relative order of the '#:z0' line and the lines that fix the dimensions in turn (2, 6, 24
    orders; the other header lines at random positions).  The loader must refuse exactly the orders with '#:z0' before the
    lines the port count comes from ('#:ports' if the header has one, else both legacy lines).
    Yields (cid, truth, sp, text, accepted)."""
    import itertools
    import re
    seen = set()
    done = 0
    turn = 0
    for cid, (kind, truth, sp0, text0, name) in info.items():
        if kind != "npd" or id(truth) in seen or done >= count:
            continue
        seen.add(id(truth))
        for dims in ("ports", "legacy", "both"):
            if dims != "ports" and truth["type"] == "ZIN":
                continue
            sp = dict(sp0)
            sp.update(legacy_dims=(dims == "legacy"), omit_default_z0=False, shuffle_header=False, crlf=False, odd_space=False,
                      no_final_newline=False)
            lines = D.gen_npd(truth, sp, rng).split("\n")
            if dims == "both":
                k = [i for i, ln in enumerate(lines) if re.match(r"^[ \t]*#:ports\b", ln)][0]
                lines[k + 1:k + 1] = ["#:rows %d" % truth["ports"], "#:columns %d" % truth["ports"]]
            idx = [i for i, ln in enumerate(lines) if re.match(r"^[ \t]*#:[a-z0-9]+([ \t]|$)", ln)]
            kw = lambda ln: re.match(r"^[ \t]*#:([a-z0-9]+)", ln).group(1)
            special = [i for i in idx if kw(lines[i]) in ("ports", "rows", "columns", "z0")]
            others = [i for i in idx if i not in special]
            orders = list(itertools.permutations(special))
            for rep in range(2 if dims != "both" else 3):
                order = orders[turn % len(orders)]
                turn += 1
                # positions: a random interleaving of the dimension / z0 lines (in the chosen order) with the other lines
                rest = others[:]
                rng.shuffle(rest)
                slots = sorted(rng.sample(range(len(idx)), len(special)))
                seq, si, ri = [], 0, 0
                for pos in range(len(idx)):
                    if si < len(slots) and slots[si] == pos:
                        seq.append(order[si])
                        si += 1
                    else:
                        seq.append(rest[ri])
                        ri += 1
                new = lines[:]
                for i, j in zip(idx, seq):
                    new[i] = lines[j]
                kws = [kw(new[i]) for i in idx]
                acc = True
                if "z0" in kws:
                    src = ["ports"] if "ports" in kws else ["rows", "columns"]
                    acc = all(k2 in kws and kws.index(k2) < kws.index("z0") for k2 in src)
                done += 1
                yield ("ns%d_%s" % (done, cid), truth, sp, "\n".join(new), acc)


def dc_start_cases(rng):
    """Directed: sweeps that start at DC (first frequency exactly 0, legal: only negative frequencies are invalid) for 1..4
    ports, every unit, version 1 and version 2 framing, and NPD.  Yields (cid, kind, truth, sp, text, name)."""
    units = ["HZ", "KHZ", "MHZ", "GHZ", "THZ"]
    for n in (1, 2, 3, 4):
        k = {1: 0, 2: 5, 3: 10, 4: 15}[n] + rng.choice([0, 1, 2])         # S, Y or Z with n ports (see gen_truth_ts)
        truth = gen_truth_ts(rng, k)
        assert truth["ports"] == n
        truth["reference"] = None
        truth["freqs"][0] = 0.0
        sps = spellings_ts(rng, truth, 11)[1:]
        for idx, sp in enumerate(sps):
            sp["unit"] = units[idx % 5]
            sp["version"] = 1 + (idx // 5) % 2
            text = D.gen_touchstone(truth, sp, rng)
            name = ("x.s%dp" % n) if sp["version"] == 1 else "x.ts"
            yield ("dc%d_%d" % (n, idx), "ts", truth, sp, text, name)
    for j, k in enumerate((2, 5, 8)):                                       # NPD: S, Y, A
        truth = gen_truth_npd(rng, k)
        truth["freqs"][0] = 0.0
        for idx, sp in enumerate(spellings_npd(rng, truth, 3)):
            yield ("dcn%d_%d" % (j, idx), "npd", truth, sp, D.gen_npd(truth, sp, rng), "x.npd")


def compare(truth, L, kind, sp):
    """None or (class, text)."""
    n = truth["ports"]
    typ = truth["type"]
    if L.type != typ:
        return "type", "loaded type %s, file holds %s" % (L.type, typ)
    if (L.rows, L.cols) != ((1, n) if typ == "ZIN" else (n, n)):
        return "dims", "loaded %dx%d, file holds %d ports" % (L.rows, L.cols, n)
    if len(L.freqs) != len(truth["freqs"]):
        return "dims", "loaded %d frequencies of %d" % (len(L.freqs), len(truth["freqs"]))
    for i, (a, b) in enumerate(zip(L.freqs, truth["freqs"])):
        if D.relerr(a, b) > 1e-12:
            return "frequency", "frequency %d loaded as %r, file says %r" % (i, a, b)
    for i in range(len(L.freqs)):
        if kind == "ts":
            if sp["version"] == 1:
                zt = [complex(truth["R"], 0)] * n
            else:
                zt = [complex(x, 0) for x in (truth["reference"] or [truth["R"]] * n)]
            if L.fz0 is not None:
                return "z0", "per-frequency z0 after a Touchstone load"
        else:
            zt = truth["fz0"][i] if truth["fz0"] is not None else truth["z0"]
            if (L.fz0 is not None) != (truth["fz0"] is not None):
                return "z0", "z0 mode"
        for p, (a, b) in enumerate(zip(L.z0_at(i), zt)):
            if abs(a - b) > 1e-12 * abs(b):
                return "z0", "z0 of port %d loaded as %r, file says %r" % (p + 1, a, b)
        e = D.mat_relerr(L.data[i], truth["mats"][i])
        if not e <= REL:
            return "value", "values at frequency %d differ from the file's by %.3g (relative to the matrix): loaded %r, file %r" % (
                i, e, L.data[i], truth["mats"][i])
    return None


def run(ctx):
    ctx.level = "proof"
    ctx.trusted_base = [
        "Coq 8.16.1 kernel; no axioms (Print Assumptions: Closed under the global context for every theorem of Properties_C08.v)",
        "Properties_C08_real.v / Files/TsFormatReal.v only (the instance of the RI / MA / DB laws over Coquelicot's complex numbers): "
        "the axioms of the standard library's reals as Print Assumptions reports them - ClassicalDedekindReals.sig_not_dec, "
        "ClassicalDedekindReals.sig_forall_dec, FunctionalExtensionality.functional_extensionality_dep, Classical_Prop.classic",
        "hand-written models coq/Files/TsTok.v (next_char / next_token, strtol / strtod on a word), coq/Files/TsParse.v "
        "(_vnadata_load_touchstone, load_touchstone1), coq/Files/NpdLoad.v (scan_line, _vnadata_load_npd) and coq/Files/NpdScan.v "
        "(NPD header lines), extracted to OCaml (ocaml/Extract_tstone.v, glue ocaml/drv_tstone.ml) and compared on every run with "
        "the compiled C code (harness/tstone_tok.c, which #includes the loader sources to reach the static scanners, and "
        "vnadata_fload through harness/datafiles_harness.c) on every generated spelling; comparison in lib/tstone.py",
        "coq/Files/TsSpec.v: the inverse grammar (token stream of an abstract well-formed file, and the object it describes); "
        "Properties_C08.v shows for concrete files that the bytes of the plain spelling tokenize to that stream",
        "the file generator lib/datafiles.py (format documents -> text) and the comparison with ground truth",
        "gcc, ASan/UBSan/LSan",
    ]
    ctx.assumptions = ["values compared to 1e-11 relative to the matrix (cexp/pow/strtod rounding is not modelled; a model cell "
                       "keeps an MA / DB pair as written)"]
    ctx.rule = ("one evaluation = one spelling of one data set loaded by vnadata_fload and compared with the ground truth; "
                "distinct non-trivial = (data set, spelling) pairs that loaded and matched")
    ok, res = ctx.coq_obligations(tstone_ties.COQ_FILES_C08)
    broken = []
    if not ok:
        broken.append("Coq development of C08 does not build: " + getattr(ctx, "_last_coq_log", "")[-400:])
    H = D.Harness(ctx)
    nsets = 60 if ctx.tier == "quick" else 500
    per = 10 if ctx.tier == "quick" else 14
    cases = []
    info = {}
    files = []
    for k in range(nsets):
        if k % 3 != 2:
            truth = gen_truth_ts(ctx.rng, k)
            sps = spellings_ts(ctx.rng, truth, per)
            for j, sp in enumerate(sps):
                text = ts_white_space(D.gen_touchstone(truth, sp, ctx.rng), sp, ctx.rng)
                name = ("x.s%dp" % truth["ports"]) if (sp["version"] == 1 and ctx.rng.random() < 0.7) else \
                    ctx.rng.choice(["x.ts", "x.TS", "x.s2p", "x.s%dp" % truth["ports"]])
                cid = "t%d_%d" % (k, j)
                info[cid] = ("ts", truth, sp, text, name)
        else:
            truth = gen_truth_npd(ctx.rng, k)
            sps = spellings_npd(ctx.rng, truth, per)
            for j, sp in enumerate(sps):
                text = npd_white_space(D.gen_npd(truth, sp, ctx.rng), sp, ctx.rng)
                name = ctx.rng.choice(["x.npd", "x.npd", "x.NPD", "plain"])
                cid = "n%d_%d" % (k, j)
                info[cid] = ("npd", truth, sp, text, name)
    for cid, kind, truth, sp, text, name in dc_start_cases(ctx.rng):
        info[cid] = (kind, truth, sp, text, name)
    for cid, (kind, truth, sp, text, name) in info.items():
        hexs = text.encode("latin-1").hex()
        cases.append((cid, ["new 0 -1 0 0 0", "load 0 %s %s" % (name, hexs), "dump 0"]))
        files.append((cid, kind, text))
    # the same spellings loaded into an object with a history (an earlier load of another spelling, a save, a set file type)
    hist = {}
    for cid, pre, kind, truth, sp, text, name in history_cases(ctx.rng, 4 if ctx.tier == "quick" else 20):
        hist[cid] = (kind, truth, sp, text, name, pre)
        cases.append((cid, ["new 0 -1 0 0 0"] + pre + ["load 0 %s %s" % (name, text.encode("latin-1").hex()), "dump 0"]))
    results, faults = H.run(cases, timeout=1200)
    for f in faults:
        sig = vplib.asan_signature(f["stderr"]) or {"kind": "fault", "error": "exit %s" % f["rc"], "function": None}
        i = info.get(f["id"])
        ctx.violation(sig, "loader died on a well-formed file (case %s): %s" % (f["id"], f["stderr"][-300:]),
                      {"file": i[3] if i else None, "name": i[4] if i else None, "stderr": f["stderr"][-3000:]})
    classes = {}
    for cid, (kind, truth, sp, text, name) in info.items():
        lines = results.get(cid)
        if lines is None or any(l.startswith("FAULT") for l in lines):
            continue
        ctx.count(None)
        ld = [l for l in lines if l.startswith("LOAD")][0]
        head, _, msg = ld.partition(" # ")
        h = head.split()
        rc, nerr = int(h[1]), int(h[3])
        v = None
        if rc != 0:
            units_v2 = kind == "ts" and sp["version"] == 2 and sp["unit"] != "HZ" and len(truth["freqs"]) > 1
            v = ({"kind": "rejects_wellformed", "filetype": kind,
                  "v2_scaled_unit": bool(units_v2 and "increasing" in msg),
                  "npd_space_separated_parameters": bool(kind == "npd" and sp["param_sep"] == " "),
                  "npd_il_columns_more_than_2_ports": bool(kind == "npd" and "IL" in sp.get("extra_scalar", []) and truth["ports"] > 2)},
                 "vnadata_fload rejects a well-formed %s file (%s): %s" % (kind, brief(sp), msg))
        elif nerr != 0:
            v = ({"kind": "load_reports_error_but_succeeds", "filetype": kind}, "returned 0 after reporting: %s" % msg)
        else:
            L = D.parse_dump([l for l in lines if l.startswith("DUMP")][0])
            r = compare(truth, L, kind, sp)
            if r is not None:
                v = ({"kind": "spelling_changes_data", "class": r[0], "filetype": kind,
                      "npd_space_separated_parameters": bool(kind == "npd" and sp["param_sep"] == " ")},
                     "%s file (%s): %s" % (kind, brief(sp), r[1]))
        live = [l for l in lines if l.startswith("LIVE")]
        if v is None and live and live[-1] != "LIVE 0":
            v = ({"kind": "leak", "where": "load"}, "library blocks still allocated after loading a well-formed file: %s" % live[-1])
        if v is None:
            ctx.nontrivial.add(cid)
            ctx.traces_validated += 1
            if len(ctx.samples) < 5 and cid.endswith("_3"):
                ctx.sample({"spelling": brief(sp), "file": text[:400]})
            continue
        key = tuple(sorted(v[0].items()))
        classes[key] = classes.get(key, 0) + 1
        if classes[key] <= 3:
            ctx.violation(v[0], v[1], {"file": text, "filename": name, "spelling": sp,
                                       "truth": {k2: repr(v2) for k2, v2 in truth.items()},
                                       "harness_output": [l[:1500] for l in lines]})
    hbad = 0
    for cid, (kind, truth, sp, text, name, pre) in hist.items():
        lines = results.get(cid)
        if lines is None or any(l.startswith("FAULT") for l in lines):
            continue
        ctx.count(None)
        ld = [l for l in lines if l.startswith("LOAD")][-1]
        head, _, msg = ld.partition(" # ")
        rc = int(head.split()[1])
        v = None
        if rc != 0:
            v = ({"kind": "history_changes_load", "class": "rejected", "filetype": kind},
                 "vnadata_fload into a re-used object (%s) rejects the %s file %s that a fresh object loads: %s"
                 % ("; ".join(c.split()[0] + " " + c.split()[2][:12] for c in pre), kind, name, msg))
        else:
            L = D.parse_dump([l for l in lines if l.startswith("DUMP")][-1])
            r = compare(truth, L, kind, sp)
            if r is not None:
                v = ({"kind": "history_changes_load", "class": r[0], "filetype": kind},
                     "%s file %s loaded into a re-used object: %s" % (kind, name, r[1]))
        if v is None:
            ctx.nontrivial.add(cid)
            ctx.traces_validated += 1
            continue
        hbad += 1
        if hbad <= 3:
            ctx.violation(v[0], v[1], {"file": text, "filename": name, "before": pre, "spelling": sp,
                                       "harness_output": [l[:1500] for l in lines]})
    ctx.obligation("tie:spellings_load_alike_into_reused_object", hbad == 0, "%d of %d histories differ" % (hbad, len(hist)))
    ctx.extra["histories"] = len(hist)
    ctx.extra["data_sets"] = nsets
    ctx.extra["spellings"] = len(info)
    ctx.extra["violation_classes"] = dict((str(dict(k)), v) for k, v in classes.items())
    ctx.obligation("tie:spellings_load_to_truth", not classes and not faults, "%d violation classes" % len(classes))
    c08_ties.run(ctx, files, broken, info, results)
    # ---- byte-level models (coq/Files/TsTok.v, TsParse.v, NpdLoad.v) against the code on the same spellings
    M = tstone_ties.models(ctx)
    inputs = [(cid, name, text) for cid, (kind, truth, sp, text, name) in info.items()]
    tstone_ties.tie_loads(ctx, M, inputs, results, "spellings")
    other = [1, 2, 4, 3, 5, 6, 7]
    tstone_ties.tie_tokens(ctx, M, [(cid, text) for cid, kind, text in files if kind == "ts"], "spellings",
                           pick=lambda cid: (0, other[sum(map(ord, cid)) % len(other)]))
    tstone_ties.tie_npd_scan(ctx, M, [(cid, text) for cid, kind, text in files if kind == "npd"], "spellings")
    tstone_ties.tie_decorations(ctx, M, files, "spellings", 120 if ctx.tier == "quick" else 1000)
    # ---- version-2 keyword lines in every order, accepted and refused (Files/TsV2Order.v), information and noise blocks
    kw = list(kw_order_cases(ctx.rng, 150 if ctx.tier == "quick" else 1500))
    kres, kfaults = H.run([(cid, ["new 0 -1 0 0 0", "load 0 x.ts %s" % text.encode("latin-1").hex(), "dump 0"])
                           for cid, truth, text, acc in kw], timeout=900)
    tstone_ties.tie_loads(ctx, M, [(cid, "x.ts", text) for cid, truth, text, acc in kw], kres, "keyword_orders")
    kbad = 0
    sp2 = {"version": 2}
    for cid, truth, text, acc in kw:
        lines = kres.get(cid)
        if lines is None or any(l.startswith("FAULT") for l in lines):
            continue
        ctx.count(cid)
        rc = int([l for l in lines if l.startswith("LOAD")][0].split()[1])
        what = None
        if (rc == 0) != acc:
            what = "vnadata_fload %s a file whose keyword order Files/TsV2Order.v kw_step %s" % (
                "loads" if rc == 0 else "rejects", "refuses" if rc == 0 else "accepts")
        elif rc == 0:
            r = compare(truth, D.parse_dump([l for l in lines if l.startswith("DUMP")][0]), "ts", sp2)
            if r is not None:
                what = "keyword order / noise block changes the loaded data: %s" % r[1]
        ctx.traces_validated += 1
        if what:
            kbad += 1
            if kbad <= 3:
                ctx.violation({"kind": "keyword_order", "filetype": "ts", "accepted_by_model": acc}, what,
                              {"file": text, "harness_output": [l[:1500] for l in lines]})
    for f in kfaults:
        ctx.violation(vplib.asan_signature(f["stderr"]) or {"kind": "fault", "error": "exit %s" % f["rc"], "function": None},
                      "loader died on a keyword-order file (case %s): %s" % (f["id"], f["stderr"][-300:]), {"stderr": f["stderr"][-3000:]})
    ctx.obligation("tie:keyword_orders", kbad == 0 and not kfaults, "%d of %d keyword orders differ" % (kbad, len(kw)))
    ctx.extra["keyword_orders"] = {"files": len(kw), "accepted": sum(1 for x in kw if x[3])}
    # ---- NPD header lines in every order, accepted and refused (Files/NpdHeaderOrder.v)
    ns = list(npd_header_shuffles(ctx.rng, info, 150 if ctx.tier == "quick" else 1500))
    nres, nfaults = H.run([(cid, ["new 0 -1 0 0 0", "load 0 x.npd %s" % text.encode("latin-1").hex(), "dump 0"])
                           for cid, truth, sp, text, acc in ns], timeout=900)
    tstone_ties.tie_loads(ctx, M, [(cid, "x.npd", text) for cid, truth, sp, text, acc in ns], nres, "npd_header_orders")
    nbad = 0
    for cid, truth, sp, text, acc in ns:
        lines = nres.get(cid)
        if lines is None or any(l.startswith("FAULT") for l in lines):
            continue
        ctx.count(cid)
        rc = int([l for l in lines if l.startswith("LOAD")][0].split()[1])
        what = None
        if (rc == 0) != acc:
            what = "vnadata_fload %s an NPD file whose header order %s '#:z0' after the port count" % (
                "loads" if rc == 0 else "rejects", "does not have" if rc == 0 else "has")
        elif rc == 0:
            r = compare(truth, D.parse_dump([l for l in lines if l.startswith("DUMP")][0]), "npd", sp)
            if r is not None:
                what = "the order of the NPD header lines changes the loaded data: %s" % r[1]
        ctx.traces_validated += 1
        if what:
            nbad += 1
            if nbad <= 3:
                ctx.violation({"kind": "npd_header_order", "filetype": "npd", "accepted_by_model": acc}, what,
                              {"file": text, "harness_output": [l[:1500] for l in lines]})
    for f in nfaults:
        ctx.violation(vplib.asan_signature(f["stderr"]) or {"kind": "fault", "error": "exit %s" % f["rc"], "function": None},
                      "loader died on an NPD header-order file (case %s): %s" % (f["id"], f["stderr"][-300:]), {"stderr": f["stderr"][-3000:]})
    ctx.obligation("tie:npd_header_orders", nbad == 0 and not nfaults, "%d of %d header orders differ" % (nbad, len(ns)))
    ctx.extra["npd_header_orders"] = {"files": len(ns), "accepted": sum(1 for x in ns if x[4])}
    # ---- RI / MA / DB: convert_value_pair against its extracted model and against the ground truth
    c08_ties.format_tie(ctx, H)
    for b in broken:
        ctx.unproved("C08", b, "%d spellings of %d data sets" % (len(info), nsets))


def brief(sp):
    return ", ".join("%s=%s" % (k, v) for k, v in sorted(sp.items()) if k in
                     ("version", "unit", "fmt", "mform", "order", "case", "decorate", "omit_defaults", "noise", "forms",
                      "param_sep", "legacy_dims", "shuffle_header", "crlf"))
