"""C02 - self-calibration (TRL, unknown / correlated parameters).

1. Coq: coq/SelfCal/{Trl,TrlTerms,Auto,Dispatch,Guard}*.v and Properties_C02.v are rebuilt (obligations).
2. Ties (every run):
   * TRL model: the extracted trl_solve (coefficients of the two quadratics and the selection
     rule over Q[i], csqrt supplied) against the values vnacal_new_solve writes back through
     vnacal_get_parameter_value on the same measurements;
   * AutoLoop model: the per-iteration trajectory of _vnacal_new_solve_auto (white-box build of
     the unmodified source with its DEBUG prints tapped) against the extracted model driven by
     the observed residual / step norms; number of loop-body entries against limit + 1;
   * TrlTermsModel: the 10 x 7 coefficient matrix and right-hand side _vnacal_new_solve_trl hands to
     _vnacommon_qrsolve (white-box build of the unmodified source, solver tapped) against the
     extracted trl_rows_t / trl_rows_u on the same measurements and the solved l, r;
   * GuardModel: _vnacal_new_solve_update_s_matrices run on the real solve state of calibrations
     with absent, known and unknown S cells (markers in, markers out) against the extracted
     update_s_matrices on the same pointer shapes; sanitizer runs of the directed scenarios;
   * DispatchModel: which solver runs for TRL-shaped inputs and for 2x2 calibrations with three
     standards, two unknowns and single / double reflects (absent S cells) in all six orders
     (observed through the solver taps, under the sanitizers)
     against the extracted classify_standard / is_trl / dispatch; writeback_exact through
     re-solve histories (same handles, several vnacal_new_t, grids of equal and different length);
     the starting vector of the iteration at every frequency against the caller's guesses.
3. API-level scenarios with an independent physical measurement oracle (lib/selfcal_gen.py):
   (a) 2-port TRL on T8/U8/TE10/UE10, (b) over-determined systems with 1..3 unknown / correlated
   parameters on every type, tolerances 1e-4..1e-12, (c) iteration limits, (d) with and without
   measurement-error weighting; directed scenarios for candidate defects.
Not proved (support only): convergence from a basin, accuracy proportional to the tolerances,
improvement when tightening.
"""
import cmath
import math
import os
import random
from fractions import Fraction

import vplib
import selfcal_gen as G

VFILES = ["SelfCal/TrlModel.v", "SelfCal/TrlProofs.v", "SelfCal/TrlQI.v", "SelfCal/TrlTermsModel.v",
          "SelfCal/TrlTermsProofs.v", "SelfCal/TrlTermsQI.v", "SelfCal/AutoLoop.v",
          "SelfCal/AutoProofs.v", "SelfCal/AutoReplay.v", "SelfCal/GuardModel.v", "SelfCal/GuardProofs.v",
          "SelfCal/DispatchModel.v", "SelfCal/DispatchProofs.v",
          "SelfCal/AutoKernelModel.v", "SelfCal/AutoKernelProofs.v", "SelfCal/AutoKernelQI.v",
          "SelfCal/AutoKernelQrQ.v", "SelfCal/AutoKernelProjector.v", "SelfCal/AutoKernelProjQI.v",
          "SelfCal/AutoKernelDescent.v", "SelfCal/AutoKernelRun.v", "SelfCal/AutoLoopMono.v", "Properties_C02.v"]

RADIUS = 0.1            # stated radius of the guesses (relative to max(|truth|, 0.2))
TOLS = [1e-4, 1e-6, 1e-8, 1e-10, 1e-12]


def frac(x):
    f = Fraction(x)
    return "%d/%d" % (f.numerator, f.denominator)


def cfrac(z):
    z = complex(z)
    return "%s %s" % (frac(z.real), frac(z.imag))


class Recorder(object):
    """one violation per signature, with a count"""

    def __init__(self, ctx):
        self.ctx = ctx
        self.seen = {}

    def add(self, sig, what, sc=None, res=None, extra=None):
        key = tuple(sorted(sig.items()))
        if key in self.seen:
            self.seen[key] += 1
            return
        self.seen[key] = 1
        replay = {"how": "harness/selfcal_harness.c < scenario", "extra": extra}
        if sc is not None:
            replay["scenario"] = sc.text()
            replay["meta"] = sc.meta
            replay["truth"] = {k: [str(v) for v in vs] for k, vs in sc.truth.items()}
        if res is not None:
            replay["observed"] = {"solve": res.get("solve"), "crash": res.get("crash"),
                                  "stderr": res.get("stderr", "")[-1500:]}
        self.ctx.violation(sig, what, replay)


def crash_sig(r):
    c = r.get("crash")
    if c is None:
        return None
    return {"kind": c.get("kind", "fault"), "error": c.get("error"), "function": c.get("function")}


def check_common(rec, sc, r, where):
    """crash / hang / leak / error-reporting discipline; returns the solve record or None"""
    cs = crash_sig(r)
    if cs is not None:
        if cs["kind"] == "timeout":
            rec.add({"kind": "timeout", "where": where}, "vnacal_new_solve did not return within the time limit (%s)" % where, sc, r)
        else:
            rec.add(cs, "sanitizer fault in %s during %s: %s" % (cs.get("function"), where, cs.get("error")), sc, r)
        return None
    for fn in r.get("leaks", []) or []:
        rec.add({"kind": "fault", "error": "leak", "function": fn}, "memory leaked (allocated in %s) in %s" % (fn, where), sc, r)
    if not r["solve"]:
        rec.add({"kind": "harness", "where": where}, "harness produced no solve record: %s" % r.get("err"), sc, r)
        return None
    s = r["solve"][0]
    for sx in r["solve"]:
        if sx["rc"] == 0 and sx["cb"] > 0:
            rec.add({"kind": "error_discipline", "where": "error reported, success returned"},
                    "vnacal_new_solve reported an error (%s) but returned 0 (%s)" % (sx.get("msg"), where), sc, r)
    if s["rc"] != 0:
        # documented failure discipline: -1, EDOM, one VNAERR_MATH report
        if s["rc"] != -1 or s["errno"] != "EDOM" or s["cat"] != "MATH" or s["cb"] < 1:
            rec.add({"kind": "error_discipline", "where": where},
                    "vnacal_new_solve failed with rc=%s errno=%s category=%s callbacks=%s instead of -1/EDOM/MATH"
                    % (s["rc"], s["errno"], s["cat"], s["cb"]), sc, r)
    return s


# ------------------------------------------------------------------------------------------ (a) TRL
def part_trl(ctx, rec, exe, drv, ntrl, ntie, wb=None):
    scs = []
    for typ in G.EIGHT:
        for k in range(ntrl):
            sc = G.build_trl(ctx.rng, "trl_%s_%d" % (typ, k), typ, nf=2, gfrac=0.6, swap=(k % 2 == 1))
            scs.append(sc)
        for k, scale in enumerate((0.05, 0.02)):
            # the same instances seen through 26 / 34 dB of loss in each tracking term: raw signal-path
            # measurements of 1e-3 .. 1e-4 (the solver's only absolute threshold is |a| >= 1e-8)
            sc = G.build_trl(ctx.rng, "trlsmall_%s_%d" % (typ, k), typ, nf=2, gfrac=0.6, swap=True, tracking_scale=scale)
            scs.append(sc)
        for k in range(ntie):
            # measurements and guesses on a 2^-22 grid: the model is evaluated exactly on the same numbers
            sc = G.build_trl(ctx.rng, "trltie_%s_%d" % (typ, k), typ, nf=1, gfrac=0.6, swap=(k % 2 == 1), quant=22)
            scs.append(sc)
    for sc in scs:
        sc.solve()
        sc.getparams()
        G.add_dut(ctx.rng, sc)
    res = G.run_batch(ctx, exe, scs)
    worst = {"l": 0.0, "r": 0.0, "dut": 0.0}
    model_lines, model_cases = [], []
    for sc in scs:
        r = res.get(sc.sid)
        if r is None:
            continue
        s = check_common(rec, sc, r, "TRL " + sc.typ)
        ctx.count(("trl", sc.sid))
        if s is None:
            continue
        quant = sc.meta.get("quant")
        ptol, dtol = (1e-7, 1e-6) if quant is None else (1e-4, 1e-3)     # quantised data are not exact
        if s["rc"] != 0:
            rec.add({"kind": "trl_failed", "type": sc.typ},
                    "analytic TRL solve failed on exact data with guesses on the right side of the root choice (%s)" % sc.typ, sc, r)
            continue
        for nm in ("l", "r"):
            got = r["params"].get(nm)
            if not got:
                rec.add({"kind": "writeback", "param": nm}, "vnacal_get_parameter_value failed after a successful solve", sc, r)
                continue
            for f in range(sc.nf):
                e = abs(got[0][f] - sc.truth[nm][f]) / max(1.0, abs(sc.truth[nm][f]))
                if quant is None:
                    worst[nm] = max(worst[nm], e)
                if e > ptol:
                    rec.add({"kind": "trl_wrong_root", "param": nm, "type": sc.typ},
                            "TRL: solved %s = %s differs from the truth %s (guess %s closer to the truth than to the other root)"
                            % (nm, got[0][f], sc.truth[nm][f], sc.guess[nm][f]), sc, r)
        de = G.dut_error(sc, r)
        if de is None:
            rec.add({"kind": "apply_failed", "where": "trl"}, "vnacal_apply_m failed after a successful TRL solve", sc, r)
        else:
            if quant is None:
                worst["dut"] = max(worst["dut"], de)
            if de > dtol:
                rec.add({"kind": "dut_error", "where": "trl", "type": sc.typ},
                        "TRL calibration does not correct a device: error %.3g" % de, sc, r)
        if quant is None:
            continue
        # model tie: the solver's view of the measurements (leakage removed as documented)
        for f in range(sc.nf):
            mt, mr, ml = sc.trl_meas["T"][f], sc.trl_meas["R"][f], sc.trl_meas["L"][f]
            if sc.typ in ("TE10", "UE10"):
                l12, l21 = mr[0][1], mr[1][0]
                mt = [[mt[0][0], mt[0][1] - l12], [mt[1][0] - l21, mt[1][1]]]
                ml = [[ml[0][0], ml[0][1] - l12], [ml[1][0] - l21, ml[1][1]]]
                mr = [[mr[0][0], 0j], [0j, mr[1][1]]]
            a = (ml[0][1] * mt[1][0] + ml[1][0] * mt[0][1]) / 2.0
            b = (ml[0][0] - mt[0][0]) * (ml[1][1] - mt[1][1]) - ml[0][1] * ml[1][0] - mt[0][1] * mt[1][0]
            disc = b * b - 4.0 * a * a
            # only to prepare the csqrt oracle for the second equation: the root of the first one
            # nearer to the guess
            uu, vv = -b / (2.0 * a), cmath.sqrt(disc) / (2.0 * a)
            lt = min((uu + vv, uu - vv), key=lambda z: abs(z - sc.guess["l"][f]))
            n = ((ml[1][0] * mt[0][1] - lt * ((mr[0][0] - mt[0][0]) * (mt[1][1] - ml[1][1]) + mt[0][1] * mt[1][0])) *
                 (ml[0][1] * mt[1][0] - lt * ((mr[1][1] - mt[1][1]) * (mt[0][0] - ml[0][0]) + mt[0][1] * mt[1][0])))
            d = ((ml[0][1] * (mr[0][0] - mt[0][0]) - lt * mt[0][1] * (mr[0][0] - ml[0][0])) *
                 (ml[1][0] * (mr[1][1] - mt[1][1]) - lt * mt[1][0] * (mr[1][1] - ml[1][1])))
            nd = n / d
            q = lambda z: G.quantise(z, 30)         # the csqrt oracle: argument / root pairs, short rationals
            flat = lambda m: " ".join(cfrac(m[i][j]) for i in range(2) for j in range(2))
            model_lines.append("trl %s %s %s %s %s %s %s %s %s" % (
                flat(mt), flat(mr), flat(ml), cfrac(sc.guess["l"][f]), cfrac(sc.guess["r"][f]),
                cfrac(q(disc)), cfrac(q(cmath.sqrt(disc))), cfrac(q(nd)), cfrac(q(cmath.sqrt(nd)))))
            model_cases.append((sc, r, f))
    ctx.extra["trl_worst_relative_error"] = worst
    rows_ok, rows_detail = part_trl_rows(ctx, rec, wb, drv, [c for c in model_cases], res) if wb else (True, "")
    # run the extracted model
    rc, out, err = vplib.sh([drv], input="\n".join(model_lines) + "\n", timeout=600)
    lines = [x for x in out.splitlines() if x.startswith("trl ")]
    tie_ok = rc == 0 and len(lines) == len(model_cases)
    detail = "" if tie_ok else "driver rc=%d, %d lines for %d cases: %s" % (rc, len(lines), len(model_cases), err[-200:])
    nbad = 0
    if tie_ok:
        for line, (sc, r, f) in zip(lines, model_cases):
            p = line.split()[1:]
            v = [float(Fraction(x)) for x in p]
            ml_, mr_ = complex(v[0], v[1]), complex(v[2], v[3])
            got = r["params"]
            if "l" not in got or "r" not in got or not r["solve"] or r["solve"][0]["rc"] != 0:
                continue
            cl, cr = got["l"][0][f], got["r"][0][f]
            ctx.traces_validated += 1
            if abs(ml_ - cl) > 1e-6 * max(1, abs(cl)) or abs(mr_ - cr) > 1e-6 * max(1, abs(cr)):
                nbad += 1
                if nbad == 1:
                    detail = "%s f=%d: model (l, r) = (%s, %s), C = (%s, %s)" % (sc.sid, f, ml_, mr_, cl, cr)
                    ctx._trl_tie_case = (sc, r, f, ml_, mr_, cl, cr)
        tie_ok = nbad == 0
    ctx.obligation("tie:trl_model_vs_solver", tie_ok, detail)
    return tie_ok and rows_ok, detail or rows_detail


def part_trl_rows(ctx, rec, wb, drv, cases, res):
    """tie:trl_linear_system: A (10 x 7) and b as handed to _vnacommon_qrsolve by the unmodified
    _vnacal_new_solve_trl (harness/selfcal_wb_trl.c) vs the extracted trl_rows_t / trl_rows_u on the
    solver's view of the same (grid-quantised) measurements and the l, r the solver stored"""
    ok, detail = True, ""
    lines, todo = [], []
    for (sc, r, f) in cases:
        if f != 0 or not r["solve"] or r["solve"][0]["rc"] != 0 or "l" not in r["params"] or "r" not in r["params"]:
            continue
        sc2_lines = [l for l in sc.lines if l != "solve"]
        k = sc2_lines.index([l for l in sc2_lines if l.startswith(("getparam", "apply"))][0])
        text = "\n".join(sc2_lines[:k] + ["wb 0 0 1", "solve"] + sc2_lines[k:] + ["end"]) + "\n"
        rc, out, err = vplib.sh([wb], input=text, timeout=120, env=G.run_env(ctx))
        if rc != 0:
            sig = vplib.asan_signature(err) or {"kind": "fault", "error": "exit %d" % rc, "function": None}
            rec.add(sig, "white-box run of the TRL path failed (%s): %s" % (sc.sid, err[-300:]), sc, {"stderr": err})
            ok, detail = False, detail or "white-box harness failed on %s" % sc.sid
            continue
        wres, _ = G.parse_output(out)
        wr = wres.get(sc.sid, {})
        _, _, _, mats = G.parse_wb(out)
        a = [m for m in mats if m[0] == "A"]
        b = [m for m in mats if m[0] == "b"]
        if not a or not b or "l" not in wr.get("params", {}):
            ok, detail = False, detail or "%s: no coefficient matrix dumped by the TRL path" % sc.sid
            continue
        mt, mr, ml = sc.trl_meas["T"][0], sc.trl_meas["R"][0], sc.trl_meas["L"][0]
        if sc.typ in ("TE10", "UE10"):
            l12, l21 = mr[0][1], mr[1][0]
            mt = [[mt[0][0], mt[0][1] - l12], [mt[1][0] - l21, mt[1][1]]]
            ml = [[ml[0][0], ml[0][1] - l12], [ml[1][0] - l21, ml[1][1]]]
            mr = [[mr[0][0], 0j], [0j, mr[1][1]]]
        flat = lambda m: " ".join(cfrac(m[i][j]) for i in range(2) for j in range(2))
        lv, rv = wr["params"]["l"][0][0], wr["params"]["r"][0][0]
        lines.append("trlrows %s %s %s %s %s %s %s" % ("T" if sc.typ in ("T8", "TE10") else "U", sc.meta["order"],
                                                        flat(mt), flat(mr), flat(ml), cfrac(lv), cfrac(rv)))
        todo.append((sc, a[0], b[0]))
    rc, out, err = vplib.sh([drv], input="\n".join(lines) + "\n", timeout=300)
    mlines = [x.split()[1:] for x in out.splitlines() if x.startswith("trlrows ")]
    if rc != 0 or len(mlines) != len(todo):
        ok, detail = False, detail or "model driver failed: %s" % err[-200:]
    else:
        for p, (sc, a, b) in zip(mlines, todo):
            nrows = int(p[0])
            v = [float(Fraction(x)) for x in p[1:]]
            want = [[complex(v[(i * 8 + j) * 2], v[(i * 8 + j) * 2 + 1]) for j in range(8)] for i in range(nrows)]
            ctx.traces_validated += 1
            ctx.count(("trlrows", sc.sid))
            why = None
            if a[1] != nrows or a[2] != 7 or b[1] != nrows:
                why = "%s: solver matrix %dx%d, right-hand side %d; model %d rows x 7" % (sc.sid, a[1], a[2], b[1], nrows)
            else:
                for i in range(nrows):
                    got = a[3][i * 7:(i + 1) * 7] + [b[3][i]]
                    for j in range(8):
                        if abs(got[j] - want[i][j]) > 1e-12 * max(1.0, abs(want[i][j])):
                            why = ("%s (%s, order %s): row %d column %d of the system handed to qrsolve is %r, the model of "
                                   "the equations says %r" % (sc.sid, sc.typ, sc.meta["order"], i, j, got[j], want[i][j]))
                            break
                    if why:
                        break
            if why:
                ok = False
                if not detail:
                    detail = why
                    rec.add({"kind": "disagreement", "op": "_vnacal_new_solve_trl", "class": "linear system"},
                            "TRL linear system: " + why, sc, None)
    ctx.obligation("tie:trl_linear_system_vs_TrlTermsModel", ok, detail)
    return ok, detail


# ------------------------------------------------------------------------------------------ (b)(d) LM
def lm_grid(ctx):
    """(type, n, n_unknown, n_corr) cases for this run"""
    combos = [(1, 0), (2, 0), (3, 0), (1, 1), (2, 1)]
    cases = []
    for typ in G.TYPES:
        for n in (1, 2, 3):
            for (nu, nc) in combos:
                cases.append((typ, n, nu, nc))
    if ctx.tier == "quick":
        # every type x dimension, one or two parameter combinations each
        out = []
        for typ in G.TYPES:
            for n in (1, 2, 3):
                ks = ctx.rng.sample(combos, 2)
                for (nu, nc) in ks:
                    out.append((typ, n, nu, nc))
        return out
    return cases


def bounds(tol):
    """accepted error of the solved parameters / of a corrected device at tolerance tol"""
    return 100.0 * tol + 1e-8, 1000.0 * tol + 1e-7


def part_lm(ctx, rec, exe, merror):
    tag = "w" if merror else "u"
    cases = lm_grid(ctx)
    tols = TOLS if ctx.tier != "quick" else [1e-4, 1e-8, 1e-12]
    scs = []
    for (typ, n, nu, nc) in cases:
        seed = ctx.rng.getrandbits(48)
        for tol in tols:
            rng = random.Random(seed)                      # same data for every tolerance
            sc = G.build_general(rng, "lm%s_%s_%d_%d_%d_%g" % (tag, typ, n, nu, nc, tol), typ, n, 2, nu, nc, radius=RADIUS)
            sc.meta["tol"] = tol
            sc.meta["case"] = (typ, n, nu, nc)
            sc.cmd("ptol %s" % G.fnum(tol))
            sc.cmd("ettol %s" % G.fnum(tol))
            if merror:
                sc.cmd(merror)
            sc.solve()
            sc.getparams()
            G.add_dut(rng, sc)
            scs.append(sc)
    res = G.run_batch(ctx, exe, scs)
    stats = {"runs": 0, "ok": 0, "notconverged": 0, "otherfail": 0}
    bycase = {}
    multi_singular = []
    for sc in scs:
        r = res.get(sc.sid)
        if r is None:
            continue
        s = check_common(rec, sc, r, "LM %s %s" % (tag, sc.typ))
        ctx.count(("lm", sc.sid))
        if s is None:
            continue
        stats["runs"] += 1
        tol = sc.meta["tol"]
        if s["rc"] != 0:
            msg = s.get("msg", "")
            if "converge" in msg:
                stats["notconverged"] += 1
            else:
                stats["otherfail"] += 1
                if merror and G.systems(sc.typ, sc.n) > 1 and "singular" in msg:
                    multi_singular.append((sc, r))
                elif not merror:
                    rec.add({"kind": "lm_failed", "type": sc.typ, "why": msg[:40]},
                            "unweighted self-calibration on exact, well-determined data failed: %s" % msg, sc, r)
            continue
        stats["ok"] += 1
        pe = G.param_error(sc, r)
        de = G.dut_error(sc, r)
        pb, db = bounds(tol)
        if pe is None:
            rec.add({"kind": "writeback", "param": "any"}, "vnacal_get_parameter_value failed after a successful solve", sc, r)
            continue
        if pe > pb:
            rec.add({"kind": "lm_param_error", "type": sc.typ, "weighted": bool(merror)},
                    "solved parameters differ from the truth by %.3g at tolerance %g (bound %.3g), guesses within %.2f"
                    % (pe, tol, pb, RADIUS), sc, r)
        if de is None:
            rec.add({"kind": "apply_failed", "where": "lm"}, "vnacal_apply_m failed after a successful solve", sc, r)
        elif de > db:
            rec.add({"kind": "dut_error", "where": "lm", "type": sc.typ},
                    "self-calibrated error terms do not correct a device: error %.3g at tolerance %g (bound %.3g)"
                    % (de, tol, db), sc, r)
        bycase.setdefault(sc.meta["case"], []).append((tol, pe, de if de is not None else float("nan"), sc, r))
    # tightening the tolerance never makes the result worse beyond noise level (support, wide)
    worse = 0
    for case, rows in bycase.items():
        rows.sort(key=lambda x: -x[0])
        for (t1, p1, d1, _, _), (t2, p2, d2, sc2, r2) in zip(rows, rows[1:]):
            if p2 > 10.0 * p1 + 1e-8 or d2 > 10.0 * d1 + 1e-7:
                worse += 1
                rec.add({"kind": "tightening_worse", "type": sc2.typ},
                        "tightening the tolerances %g -> %g made the result worse: parameters %.3g -> %.3g, device %.3g -> %.3g"
                        % (t1, t2, p1, p2, d1, d2), sc2, r2)
    if multi_singular:
        sc, r = multi_singular[0]
        rec.add({"kind": "disagreement", "op": "vnacal_new_solve",
                 "class": "m_error + unknown parameter on a multi-system type: singular linear system"},
                "with measurement-error weighting every self-calibration on UE14/E12 (n >= 2) fails with "
                "'singular linear system' although the same data solve without weighting (%d of this run's cases)"
                % len(multi_singular), sc, r)
    ctx.extra["lm_%s" % ("weighted" if merror else "unweighted")] = stats
    return stats


# ------------------------------------------------------------------------------------------ (c) limits and AutoLoop tie
def obs_from_trace(run, failed_msg):
    """observations for the replay kernel from one frequency's trajectory"""
    obs = []
    for i, it in enumerate(run):
        last = i == len(run) - 1
        solve_ok = "sum_k" in it
        step_ok = True
        if solve_ok and last and failed_msg and "singular" in failed_msg and not it["converged"]:
            step_ok = False
        obs.append((solve_ok, it.get("sum_k", 0.0), step_ok, it.get("sum_d", 0.0), it.get("sum_dx", 0.0)))
    return obs


def part_auto_tie(ctx, rec, wb, drv, ncases):
    """trajectory of _vnacal_new_solve_auto vs the AutoLoop model; loop entries vs limit + 1"""
    scs = []
    kinds = []
    for k in range(ncases):
        typ = ctx.rng.choice(["T8", "U8", "TE10", "UE10", "T16", "U16", "UE14", "E12"])
        n = ctx.rng.choice([1, 2, 2, 3]) if typ not in ("T16", "U16") else ctx.rng.choice([1, 2])
        nu, nc = ctx.rng.choice([(1, 0), (2, 0), (2, 1), (3, 0)])
        radius = ctx.rng.choice([0.05, 0.1, 0.5, 1.5])          # large radii provoke rejected steps
        limit = ctx.rng.choice([1, 2, 3, 5, 10, 30, 100])
        tol = ctx.rng.choice([1e-4, 1e-6, 1e-9, 1e-12])
        sc = G.build_general(ctx.rng, "auto_%d" % k, typ, n, 1, nu, nc, radius=radius)
        sc.meta.update({"limit": limit, "tol": tol})
        sc.cmd("ptol %s" % G.fnum(tol))
        sc.cmd("ettol %s" % G.fnum(tol))
        sc.cmd("itlimit %d" % limit)
        if k % 2 == 1:
            # with measurement-error weighting the iteration regularly rejects steps
            sc.cmd("merror 1 - 1e-4 1e-3")
            sc.meta["merror"] = True
        sc.cmd("wb 0 1 0")
        sc.solve()
        scs.append(sc)
    text = "".join(s.text() for s in scs)
    rc, out, err = vplib.sh([wb], input=text, timeout=120 + 10 * len(scs), env=G.run_env(ctx))
    if rc != 0:
        sig = vplib.asan_signature(err) or {"kind": "fault", "error": "exit %d" % rc, "function": None}
        if rc == 124:
            sig = {"kind": "timeout", "where": "white-box solve_auto"}
        rec.add(sig, "white-box run of _vnacal_new_solve_auto failed: %s" % err[-300:], None, {"stderr": err})
        ctx.obligation("tie:auto_loop_trajectory", False, "white-box harness failed")
        return False
    # split the output per scenario
    blocks, cur = {}, None
    for line in out.splitlines():
        if line.startswith("begin "):
            cur = line.split()[1]
            blocks[cur] = []
        elif cur is not None:
            blocks[cur].append(line)
    lines, cases = [], []
    entries_bad = []
    nrej = 0
    for sc in scs:
        b = "\n".join(blocks.get(sc.sid, []))
        runs, _, _, _ = G.parse_wb(b)
        res, _ = G.parse_output("begin x\n" + b)
        s = res["x"]["solve"][0] if res["x"]["solve"] else None
        if s is None or not runs:
            continue
        limit, tol = sc.meta["limit"], sc.meta["tol"]
        msg = s.get("msg", "") if s["rc"] != 0 else ""
        run = runs[-1]                      # one frequency
        # (c) the loop body is entered at most limit + 1 times
        if len(run) > limit + 1:
            entries_bad.append((sc, len(run), limit))
        if s["rc"] != 0 and "converge" in msg and len(run) != limit + 1:
            entries_bad.append((sc, len(run), limit))
        if s["rc"] != 0 and (s["errno"] != "EDOM" or s["cat"] != "MATH"):
            rec.add({"kind": "error_discipline", "where": "iteration limit"},
                    "failure under iteration limit %d reported as errno=%s category=%s" % (limit, s["errno"], s["cat"]), sc, None)
        nrej += sum(1 for it in run if it["reject"])
        obs = obs_from_trace(run, msg)
        plen = int(s["unk"])
        xlen = int(s["xlen"])
        lines.append("auto %s %s %d %d %d %d %s" % (
            frac(tol), frac(tol), plen, xlen, limit, len(obs),
            " ".join("%d %s %d %s %s" % (1 if o[0] else 0, frac(o[1]), 1 if o[2] else 0, frac(o[3]), frac(o[4]))
                     for o in obs)))
        cases.append((sc, run, s, msg))
        ctx.count(("autotie", sc.sid))
    for sc, got, limit in entries_bad[:1]:
        rec.add({"kind": "iteration_limit", "class": "loop entries"},
                "_vnacal_new_solve_auto entered its loop body %d times with iteration limit %d (documented bound: the limit; coded bound limit + 1)"
                % (got, limit), sc, None)
    rc, mout, merr = vplib.sh([drv], input="\n".join(lines) + "\n", timeout=600)
    mlines = [x for x in mout.splitlines() if x.startswith("auto ")]
    ok = rc == 0 and len(mlines) == len(cases)
    detail = "" if ok else "driver rc=%d lines=%d cases=%d %s" % (rc, len(mlines), len(cases), merr[-200:])
    bad = None
    if ok:
        for ml, (sc, run, s, msg) in zip(mlines, cases):
            p = ml.split()
            tag = int(p[1].split("=")[1])
            ne = int(p[2].split("=")[1])
            ents = [(p[3 + 4 * i] == "1", float(Fraction(p[4 + 4 * i])), float(Fraction(p[5 + 4 * i])), p[6 + 4 * i] == "1")
                    for i in range(ne)]
            # outcome
            if s["rc"] == 0:
                c_tag = 0
            elif "converge" in msg:
                c_tag = 2
            else:
                c_tag = 1
            c_ents = [(it["best"], it.get("mult"), it.get("lambda"), it["converged"]) for it in run if "sum_k" in it]
            why = None
            if tag != c_tag:
                why = "outcome: model %d, C %d (%s)" % (tag, c_tag, msg)
            elif len(ents) != len(c_ents):
                why = "passes: model %d, C %d" % (len(ents), len(c_ents))
            else:
                for i, (me, ce) in enumerate(zip(ents, c_ents)):
                    if me[0] != ce[0] or me[3] != ce[3]:
                        why = "pass %d: model (best=%s, converged=%s), C (best=%s, converged=%s)" % (i, me[0], me[3], ce[0], ce[3])
                        break
                    if ce[1] is not None and abs(me[1] - ce[1]) > 1e-9 * max(1.0, abs(ce[1])):
                        why = "pass %d: marquardt multiplier model %r, C %r" % (i, me[1], ce[1])
                        break
                    if ce[2] is not None and abs(me[2] - ce[2]) > 1e-9 * max(abs(ce[2]), 1e-300):
                        why = "pass %d: lambda model %r, C %r" % (i, me[2], ce[2])
                        break
            ctx.traces_validated += 1
            ctx.sample({"scenario": sc.sid, "meta": sc.meta, "passes": len(c_ents), "outcome": c_tag,
                        "trajectory(best,multiplier,lambda,converged)": c_ents[:6]})
            if why and bad is None:
                bad = (sc, why, run)
    if bad:
        ok = False
        detail = "%s: %s" % (bad[0].sid, bad[1])
        ctx._auto_tie_case = bad
    ctx.extra["auto_tie"] = {"cases": len(cases), "rejected_steps_seen": nrej}
    ctx.obligation("tie:auto_loop_trajectory", ok, detail)
    ctx.obligation("tie:auto_loop_entries_le_limit_plus_1", not entries_bad,
                   "" if not entries_bad else "%s: %d passes, limit %d" % (entries_bad[0][0].sid, entries_bad[0][1], entries_bad[0][2]))
    return ok


def part_limits(ctx, rec, exe, ncases):
    """(c) API level: every call returns (wall-clock limit); a limit too small gives EDOM"""
    scs = []
    for k in range(ncases):
        typ = ctx.rng.choice(G.TYPES)
        n = ctx.rng.choice([1, 2]) if typ in ("T16", "U16") else ctx.rng.choice([1, 2, 3])
        seed = ctx.rng.getrandbits(48)
        merr = ctx.rng.choice([None, None, "merror 1 - 1e-3 1e-2"])
        for limit in ([1, 2, 4, 30, 100] if ctx.tier == "quick" else [1, 2, 3, 4, 6, 10, 30, 60, 100]):
            rng = random.Random(seed)
            nu = rng.choice([0, 1, 2]) if merr else rng.choice([1, 2, 3])
            sc = G.build_general(rng, "lim_%d_%d" % (k, limit), typ, n, 1, nu, 0, radius=rng.choice([0.1, 0.8]))
            sc.meta["limit"] = limit
            sc.cmd("itlimit %d" % limit)
            sc.cmd("ptol 1e-9")
            sc.cmd("ettol 1e-9")
            if merr:
                sc.cmd(merr)
            sc.solve()
            scs.append(sc)
    res = G.run_batch(ctx, exe, scs, per_timeout=20.0)
    fails_small = 0
    succ_by_case = {}
    for sc in scs:
        r = res.get(sc.sid)
        if r is None:
            continue
        s = check_common(rec, sc, r, "iteration limit %d" % sc.meta["limit"])
        ctx.count(("limit", sc.sid))
        if s is None:
            continue
        k = sc.sid.split("_")[1]
        succ_by_case.setdefault(k, []).append((sc.meta["limit"], s["rc"] == 0, s.get("msg", "")))
        if s["rc"] != 0 and "converge" in s.get("msg", ""):
            fails_small += 1
    # success must be monotone in the limit (the iteration is deterministic)
    for k, rows in succ_by_case.items():
        rows.sort()
        seen_ok = False
        for limit, ok, msg in rows:
            if ok:
                seen_ok = True
            elif seen_ok and "converge" in msg:
                rec.add({"kind": "iteration_limit", "class": "not monotone"},
                        "a larger iteration limit (%d) fails to converge where a smaller one succeeded" % limit, None, None,
                        extra={"case": k, "rows": rows})
    ctx.extra["limits"] = {"runs": len(scs), "convergence_failures": fails_small}



# ------------------------------------------------------------------------------------------ write-back histories
def part_history(ctx, rec, exe, ncases):
    """writeback_exact, tied: after every successful solve get_parameter_value h f_i is the value
    solved in THAT solve at every calibration frequency of that solve (same handles re-solved on
    grids of equal and of different length)"""
    scs = []
    for k in range(ncases):
        typ = G.TYPES[k % len(G.TYPES)]
        n = 1 if k % 3 == 0 else 2
        scs.append(G.build_resolve_history(ctx.rng, "hist_%d_%s_%d" % (k, typ, n), typ, n))
    res = G.run_batch(ctx, exe, scs)
    ok = True
    detail = ""
    for sc in scs:
        r = res.get(sc.sid)
        if r is None:
            continue
        s = check_common(rec, sc, r, "re-solve history " + sc.typ)
        ctx.count(("history", sc.sid))
        if s is None:
            continue
        for k, (grid, truth) in enumerate(sc.history):
            if k >= len(r["solve"]) or r["solve"][k]["rc"] != 0:
                rec.add({"kind": "lm_failed", "type": sc.typ, "why": "history step %d" % k},
                        "solve %d of a re-solve history failed: %s" % (k, r["solve"][k].get("msg") if k < len(r["solve"]) else "missing"), sc, r)
                ok = False
                break
            for nm in ("u", "c"):
                got = r["params"].get(nm, [])
                e = None
                if len(got) > k and len(got[k]) == len(truth[nm]):
                    e = G.max_err(got[k], truth[nm])
                ctx.traces_validated += 1
                if e is None or not (e <= 1e-6):
                    ok = False
                    if not detail:
                        detail = ("%s: after solve %d on grid %s, get_parameter_value(%s) at that grid = %s, solved/true %s"
                                  % (sc.sid, k, grid, nm, got[k] if len(got) > k else None, truth[nm]))
                    rec.add({"kind": "writeback", "param": nm, "class": "re-solved handle: value at the solve's own frequencies"},
                            "after solve %d (grid %s, previous grid %s) vnacal_get_parameter_value(%s) at the calibration "
                            "frequencies returns %s, expected %s"
                            % (k, grid, sc.history[k - 1][0] if k else None, nm,
                               got[k] if len(got) > k else None, truth[nm]), sc, r)
    ctx.obligation("tie:writeback_exact(re-solve histories)", ok, detail)
    return ok


# ------------------------------------------------------------------------------------------ several frequencies
def initial_p_blocks(out):
    """per solve_auto call: the parameter vector printed before the first pass"""
    blocks, cur, waiting = [], None, True
    for line in out.splitlines():
        if line == "wb pstart":
            if waiting:
                cur = []
                blocks.append(cur)
                waiting = False
                collecting = True
            else:
                cur = None
            continue
        if line.startswith("wb p ") and cur is not None:
            v = line.split()
            cur.append(complex(float(v[2]), float(v[3])))
            continue
        if line.startswith("wb ev converged") or line.startswith("wb endsolve"):
            waiting = True
            cur = None
        elif line.startswith("wb qr"):
            cur = None
    return blocks


def part_multifreq(ctx, rec, exe, wb, ncases):
    """LM path with several frequencies and unknowns that move by more than the basin between
    adjacent points; the caller's (vector) guess is valid at every frequency.  Tie: the starting
    vector of every frequency is the parameter's guess at that frequency."""
    scs = []
    for k in range(ncases):
        typ = G.EIGHT[k % 4]
        sc = G.build_unknown_line_multifreq(ctx.rng, "mfline_%d_%s" % (k, typ), typ, nf=ctx.rng.choice([4, 6, 8]),
                                            step_deg=ctx.rng.choice([100.0, 108.0, 125.0]))
        scs.append(sc)
    for k in range(ncases):
        typ = ctx.rng.choice(G.TYPES)
        n = ctx.rng.choice([1, 2])
        sc = G.build_general(ctx.rng, "mfgen_%d_%s" % (k, typ), typ, n, 3, ctx.rng.choice([1, 2]), 0, radius=0.05)
        scs.append(sc)
    ok, detail = True, ""
    for sc in scs:
        sc.cmd("wb 0 1 0")
        sc.solve()
        sc.getparams()
        G.add_dut(ctx.rng, sc)
        rc, out, err = vplib.sh([wb], input=sc.text(), timeout=120, env=G.run_env(ctx))
        res, _ = G.parse_output(out)
        r = res.get(sc.sid) or {"ended": False, "solve": [], "params": {}, "apply": [], "S": [], "ops": [], "err": None}
        if rc != 0:
            r["crash"] = ({"kind": "timeout", "error": "timeout", "function": None} if rc in (124, -14) else
                          (vplib.asan_signature(err) or {"kind": "fault", "error": "exit %d" % rc, "function": None}))
            r["stderr"] = err[-2000:]
        s = check_common(rec, sc, r, "multi-frequency LM " + sc.typ)
        ctx.count(("multifreq", sc.sid))
        if s is None:
            continue
        # starting vectors
        blocks = initial_p_blocks(out)
        for f, blk in enumerate(blocks[:sc.nf]):
            want = sorted([sc.guess[nm][f] for nm in sc.guess], key=lambda z: (round(z.real, 9), round(z.imag, 9)))
            got = sorted(blk, key=lambda z: (round(z.real, 9), round(z.imag, 9)))
            ctx.traces_validated += 1
            if len(got) != len(want) or any(abs(a - b) > 1e-9 for a, b in zip(got, want)):
                ok = False
                if not detail:
                    detail = "%s frequency %d: iteration starts from %s, the caller's guesses are %s" % (sc.sid, f, got, want)
                rec.add({"kind": "disagreement", "op": "_vnacal_new_solve_auto", "class": "starting vector is not the caller's guess"},
                        "frequency index %d: the Levenberg-Marquardt iteration starts from %s although the unknown "
                        "parameters' guesses at that frequency are %s" % (f, got, want), sc, r)
                break
        if s["rc"] != 0:
            if sc.meta.get("family") == "unknown_line_multifreq":
                rec.add({"kind": "lm_failed", "type": sc.typ, "why": "long line"},
                        "unknown long line (guess within 5%% at every frequency) not solved: %s" % s.get("msg"), sc, r)
            continue
        pe, de = G.param_error(sc, r), G.dut_error(sc, r)
        pb, db = bounds(1e-6)
        if pe is None or pe > pb:
            rec.add({"kind": "lm_param_error", "type": sc.typ, "weighted": False, "family": sc.meta.get("family", "general nf=3")},
                    "several frequencies: solved parameters differ from the truth by %s (bound %.3g) although every guess is "
                    "within its radius" % (pe, pb), sc, r)
        if de is None or de > db:
            rec.add({"kind": "dut_error", "where": "multifreq", "type": sc.typ},
                    "several frequencies: calibration does not correct a device: %s" % de, sc, r)
    ctx.obligation("tie:initial_parameter_vector_is_the_guess", ok, detail)
    return ok


# ------------------------------------------------------------------------------------------ dispatch
def part_dispatch(ctx, rec, wb, drv, reps):
    """TRL-shaped inputs: which solver runs (observed through the solver taps) vs the extracted
    DispatchModel.dispatch; results against the truth on either path"""
    scs = []
    for rep in range(reps):
        for typ in list(G.EIGHT) + (["T16", "E12"] if rep == 0 else []):
            for v in G.TRL_VARIANTS:
                scs.append(G.build_trl_shaped(ctx.rng, "shape_%d_%s_%s" % (rep, typ, v), typ, v))
    # single / double reflects (absent S cells), exactly three standards and two unknowns, 2x2,
    # every 8-term type, ALL six orders of the standards
    import itertools
    for rep in range(reps):
        for typ in G.EIGHT:
            for v in G.TRL_PARTIAL_VARIANTS:
                for oi, order in enumerate(itertools.permutations(range(3))):
                    scs.append(G.build_trl_partial(ctx.rng, "partial_%d_%s_%s_%d" % (rep, typ, v, oi), typ, v, order))
    lines, cases = [], []
    ok, detail = True, ""
    for sc in scs:
        sc.cmd("wb 0 1 0")
        sc.solve()
        sc.getparams()
        G.add_dut(ctx.rng, sc)
        rc, out, err = vplib.sh([wb], input=sc.text(), timeout=120, env=G.run_env(ctx))
        res, _ = G.parse_output(out)
        r = res.get(sc.sid) or {"ended": False, "solve": [], "params": {}, "apply": [], "S": [], "ops": [], "err": None}
        if rc != 0:
            r["crash"] = ({"kind": "timeout", "error": "timeout", "function": None} if rc in (124, -14) else
                          (vplib.asan_signature(err) or {"kind": "fault", "error": "exit %d" % rc, "function": None}))
            r["stderr"] = err[-2000:]
        partial = sc.meta.get("family") == "trl_partial"
        if partial:
            # the solve may legitimately fail (too few equations); what is checked is: no fault,
            # documented error discipline, and the solver path
            cs = crash_sig(r)
            if cs is not None:
                rec.add({"kind": cs.get("kind", "fault"), "error": cs.get("error"), "function": cs.get("function"),
                         "class": "partial S matrix in a TRL-sized calibration"},
                        "2x2 %s, three standards %s (order %s), two unknowns: vnacal_new_solve faults in %s: %s"
                        % (sc.typ, sc.std_cells, sc.meta["order"], cs.get("function"), cs.get("error")), sc, r)
                ctx.count(("dispatch", sc.sid))
                ok = False
                if not detail:
                    detail = "%s: fault in %s, the model of the dispatch says no fault" % (sc.sid, cs.get("function"))
                continue
            s = r["solve"][0] if r["solve"] else None
            ctx.count(("dispatch", sc.sid))
            if s is None:
                rec.add({"kind": "harness", "where": "partial"}, "harness produced no solve record: %s" % r.get("err"), sc, r)
                continue
            if s["rc"] == 0 and s["cb"] > 0:
                rec.add({"kind": "error_discipline", "where": "error reported, success returned"},
                        "vnacal_new_solve reported an error (%s) but returned 0" % s.get("msg"), sc, r)
        else:
            s = check_common(rec, sc, r, "TRL-shaped " + sc.meta["variant"])
            ctx.count(("dispatch", sc.sid))
        if s is None:
            continue
        msg = s.get("msg", "")
        if "wb qr " in out or "not_enough_standards" in msg:
            path = "auto"           # (solve_auto's own pre-check fails before the first QR)
        elif "wb qrsolve" in out or "wb mldivide" in out:
            path = "simple"
        elif "insufficient_number" in msg:
            # the per-system count test: since fix DD90 solve_auto makes it too (same report as the
            # simple path), so without a solver tap the message alone decides the path only when
            # there is no unknown / correlated parameter
            path = "simple" if int(s["unk"]) + int(s["corr"]) == 0 else "auto-or-simple"
        elif "wb trlsolve" in out or "unknown_line_parameter" in msg or "unknown_reflect_parameter" in msg:
            path = "trl"
        else:
            path = "none"           # no solver was reached
        lines.append("dispatch %s 2 2 %s %s %d %d %s" % (sc.typ, s["unk"], s["corr"], 1 if sc.meta["m_error"] else 0,
                                                         len(sc.std_cells), " ".join(" ".join(c) for c in sc.std_cells)))
        cases.append((sc, r, path))
        if partial:
            continue
        if s["rc"] == 0 and sc.meta["variant"] != "reflect_two_unknowns" and sc.typ in G.EIGHT:
            # (reflect_two_unknowns is not identifiable; three or four 2-port standards do not determine T16 / E12)
            pe, de = G.param_error(sc, r), G.dut_error(sc, r)
            pb, db = bounds(1e-6)
            if pe is None or pe > pb or de is None or de > db:
                rec.add({"kind": "lm_param_error", "type": sc.typ, "weighted": sc.meta["m_error"], "family": "TRL-shaped " + sc.meta["variant"]},
                        "TRL-shaped calibration (%s, solver path %s): parameters off by %s, device off by %s"
                        % (sc.meta["variant"], path, pe, de), sc, r)
        elif s["rc"] != 0 and sc.meta["variant"] not in ("reflect_two_unknowns", "trl_with_merror") and sc.typ in G.EIGHT:
            # (three 2-port standards do not determine T16 / E12; weighted runs may fail to converge)
            rec.add({"kind": "lm_failed", "type": sc.typ, "why": "TRL-shaped " + sc.meta["variant"]},
                    "TRL-shaped calibration (%s) not solved: %s" % (sc.meta["variant"], s.get("msg")), sc, r)
    q = None
    rc, mout, merr = vplib.sh([drv], input="\n".join(lines) + "\n", timeout=300)
    mlines = [x.split()[1] for x in mout.splitlines() if x.startswith("dispatch ")]
    if rc != 0 or len(mlines) != len(cases):
        ok, detail = False, "model driver failed: %s" % merr[-200:]
    else:
        for want, (sc, r, path) in zip(mlines, cases):
            ctx.traces_validated += 1
            if want != path and not (path == "auto-or-simple" and want in ("auto", "simple")):
                ok = False
                if not detail:
                    detail = "%s (%s): solver path %s, model %s; standards %s" % (sc.sid, sc.meta["variant"], path, want, sc.std_cells)
                rec.add({"kind": "disagreement", "op": "_vnacal_new_solve_is_trl", "class": "solver path"},
                        "standards %s (%s): vnacal_new_solve used the %s solver, the model of classify_standard / is_trl says %s"
                        % (sc.std_cells, sc.meta["variant"], path, want), sc, r)
    ctx.obligation("tie:solver_dispatch_vs_DispatchModel", ok, detail)
    return ok

# ------------------------------------------------------------------------------------------ checked-memory walk
def part_guard(ctx, rec, wb, drv, nextra):
    """tie:update_s_matrices_vs_GuardModel: the unmodified _vnacal_new_solve_update_s_matrices on the
    real solve state (markers in the value matrices and in p_vector) vs the extracted
    GuardModel.update_s_matrices on the same pointer shapes (absent / known / unknown cells)"""
    rng = ctx.rng
    scs = [G.build_partial_s_unknown(rng, "g_T8", "T8"), G.build_partial_s_unknown(rng, "g_U8_3", "U8", n=3),
           G.build_partial_s_unknown(rng, "g_E12", "E12", nf=2), G.build_partial_s_unknown(rng, "g_TE10", "TE10"),
           G.build_partial_s_unknown(rng, "g_T16", "T16"), G.build_partial_s_unknown(rng, "g_UE14_3", "UE14", n=3),
           G.build_trl_like_single(rng, "g_trl_like", "UE10"),
           G.build_trl_partial(rng, "g_partial", "T8", "single2_double_through", (0, 1, 2)),
           G.build_trl(rng, "g_trl", "U8", nf=2),
           G.build_trl_shaped(rng, "g_line2", "T8", "line_two_unknowns"),    # different unknowns in S12 and S21
           # measurement matrix not square: the S matrices are still ports x ports
           G.build_rectangular_unknowns(rng, "g_rect_U8_2x1", "U8", 2, 1),
           G.build_rectangular_unknowns(rng, "g_rect_T8_1x2", "T8", 1, 2),
           G.build_rectangular_unknowns(rng, "g_rect_E12_2x1", "E12", 2, 1),
           G.build_rectangular_unknowns(rng, "g_rect_UE10_2x1", "UE10", 2, 1),
           G.build_rectangular_unknowns(rng, "g_rect_TE10_1x2", "TE10", 1, 2)]
    for k in range(nextra):
        typ = rng.choice(G.TYPES)
        n = rng.choice([1, 2]) if typ in ("T16", "U16") else rng.choice([1, 2, 3])
        scs.append(G.build_general(rng, "g_gen_%d" % k, typ, n, rng.choice([1, 2]), rng.choice([1, 2, 3]), rng.choice([0, 1])))
    ok, detail = True, ""
    tot = {"absent_cells": 0, "unknown_cells": 0}
    for sc in scs:
        g = G.guard_compare(ctx, wb, drv, sc)
        ctx.count(("guard", sc.sid))
        if g["crash"] is not None:
            cs = g["crash"]
            rec.add({"kind": cs.get("kind", "fault"), "error": cs.get("error"), "function": cs.get("function")},
                    "sanitizer fault in %s while walking the solve state of %s: %s" % (cs.get("function"), sc.sid, cs.get("error")),
                    sc, {"stderr": g["stderr"]})
            ok, detail = False, detail or "%s: fault in %s" % (sc.sid, cs.get("function"))
            continue
        ctx.traces_validated += 1
        for k in tot:
            tot[k] += g["stats"].get(k, 0)
        sok, sdet = g["s"]
        if not sok:
            ok = False
            if not detail:
                detail = sdet
                rec.add({"kind": "disagreement", "op": "_vnacal_new_solve_update_s_matrices", "class": "cells written"},
                        "update_s_matrices and its checked-memory model disagree: " + sdet, sc, None)
    ctx.extra["update_s_walk"] = dict(tot, scenarios=len(scs))
    if tot["absent_cells"] == 0 or tot["unknown_cells"] == 0:
        ok, detail = False, detail or "the scenarios exercised no absent / no unknown cell"
    ctx.obligation("tie:update_s_matrices_vs_GuardModel", ok, detail)
    return ok


# ------------------------------------------------------------------------------------------ directed
def part_directed(ctx, rec, exe):
    rng = ctx.rng
    scs = [G.build_partial_s_unknown(rng, "d19_T8", "T8"), G.build_partial_s_unknown(rng, "d19_U8", "U8"),
           G.build_partial_s_unknown(rng, "d19_E12", "E12"), G.build_partial_s_unknown(rng, "d19_TE10", "TE10"),
           G.build_trl_like_single(rng, "trl_like_single_T8", "T8"),
           G.build_trl_like_single(rng, "trl_like_single_UE10", "UE10"),
           G.build_correlated_exact(rng, "corr_exact_nomerr", merror=None),
           G.build_correlated_exact(rng, "corr_exact_merr")]
    early_read = None
    for sc in scs:
        sc.solve()
        sc.getparams()
        G.add_dut(rng, sc)
        r = G.run_one(ctx, exe, sc)
        ctx.count(("directed", sc.sid))
        s = check_common(rec, sc, r, sc.meta.get("family", sc.sid))
        if sc.sid.startswith("d19"):
            c = r.get("crash")
            faulted = bool(c and c.get("function") == "_vnacal_new_solve_update_s_matrices")
            early_read = faulted if early_read is None else (early_read or faulted)
            if s is not None and s["rc"] == 0:
                pe, de = G.param_error(sc, r), G.dut_error(sc, r)
                if pe is None or pe > 1e-4 or de is None or de > 1e-4:
                    rec.add({"kind": "lm_param_error", "type": sc.typ, "weighted": False, "family": "single reflects"},
                            "single-reflect standards with unknown parameters: wrong result (parameters %s, device %s)" % (pe, de), sc, r)
        if sc.sid == "corr_exact_nomerr" and s is not None and s["rc"] == 0:
            pe = G.param_error(sc, r)
            if pe is None or pe > 1e-6:
                rec.add({"kind": "lm_param_error", "type": sc.typ, "weighted": False, "family": "correlated"},
                        "exactly determined calibration with a correlated parameter: wrong result %s" % pe, sc, r)
    # tested only (sanitizers): the directed single-reflect + unknown scenarios ran; a fault in
    # update_s_matrices has been reported as a violation by check_common above
    ctx.extra["update_s_matrices_faulted_on_absent_cell"] = early_read
    ctx.obligation("tie:update_s_matrices_directed_scenarios_ran", early_read is not None,
                   "" if early_read is not None else "directed scenarios did not run")


def run(ctx):
    ctx.level = "proof"
    ctx.trusted_base = [
        "Coq 8.16.1 kernel (coqc); vm_compute for the concrete instances; no native_compute",
        "axioms: none (Print Assumptions: Closed under the global context for every theorem of Properties_C02.v)",
        "hand-written models coq/SelfCal/TrlModel.v, TrlTermsModel.v, AutoLoop.v, GuardModel.v, DispatchModel.v, tied to the code by correspondence on every run",
        "csqrt / cabs are parameters of the TRL model (Section variables sq, mag, le_abs: sq z * sq z = z at the argument used; a total order on moduli)",
        "AutoLoop's theorems hold for an abstract kernel (Section variables solve_x, sumk, step, apply_step, normd, normdx: total "
        "functions, i.e. every kernel call is ASSUMED to return); AutoKernelModel.v instantiates it with one pass of solve_auto as coded "
        "over Q[i], with the Householder QR replaced by the normal equations / the projector y - A z (Q itself needs square roots); "
        "that the products with the code's Q2 (Q of _vnacommon_qr formed from the Householder model's array, AutoKernelQrQ.v) equal this "
        "projector form is PROVED for every m >= n under the sqrt / phase law instances of the run (auto_q2_projector_thm, "
        "auto_project_is_code_q2_thm) and additionally tied numerically per pass; "
        "the V-matrix update of the measurement-error model is not modelled (v factors are inputs of a pass)",
        "GuardModel: the well-formedness premises (vector lengths = allocation sizes, unknown indices below vn_unknown_parameters) "
        "are read off the allocation sites, not proved from a model of the add functions",
        "TRL error terms: that _vnacommon_qrsolve returns the solution of a consistent full-rank system and that vnacal_apply's LU "
        "solve equals the cofactor formula is C19's subject",
        "OCaml extraction (ExtrOcamlBasic) and ocaml/glue.ml.inc; gcc, ASan/UBSan/LSan; the python measurement oracle lib/selfcal_gen.py",
    ]
    ctx.assumptions = ["exact field arithmetic stands for binary64 arithmetic (rounding is outside every theorem)",
                       "not proved: convergence from a basin of guesses, accuracy proportional to the tolerances, "
                       "improvement when tightening the tolerances (measured, support only)"]
    ctx.rule = ("one evaluation = one calibration scenario run through the public API (solve, get_parameter_value, apply) "
                "or one white-box trajectory compared with the model; distinct = distinct (family, type, dimension, "
                "unknown/correlated counts, tolerance, limit, seed-derived data)")
    quick = ctx.tier == "quick"
    rec = Recorder(ctx)

    ok, res = ctx.coq_obligations(VFILES)
    exe = ctx.build_harness("selfcal_harness", san=True)
    wb = G.build_wb(ctx)
    drv = ctx.ocaml_driver("drv_selfcal")

    ctx.log("built; TRL")
    trl_ok, trl_detail = part_trl(ctx, rec, exe, drv, 12 if quick else 150, 3 if quick else 12, wb)
    ctx.log("LM unweighted")
    st_u = part_lm(ctx, rec, exe, None)
    ctx.log("LM weighted", st_u)
    st_w = part_lm(ctx, rec, exe, "merror 1 - 1e-4 1e-3")
    ctx.log("limits", st_w)
    part_limits(ctx, rec, exe, 6 if quick else 40)
    ctx.log("auto tie")
    auto_ok = part_auto_tie(ctx, rec, wb, drv, 30 if quick else 300)
    ctx.log("LM kernel tie")
    import c02_kernel
    kern_ok = c02_kernel.part_kernel_tie(ctx, rec, wb, ctx.ocaml_driver("drv_autokernel"), 14 if quick else 70)
    ctx.log("sigma descriptions (two-point grid vs the same line sampled at every calibration frequency)")
    import c02_sigma
    c02_sigma.run_part(ctx, rec)
    ctx.log("LM perturbed data / et_tolerance")
    import c02_perturbed
    c02_perturbed.part_perturbed(ctx, rec, exe, check_common, 8 if quick else 48)
    c02_perturbed.part_et_tolerance(ctx, rec, exe, check_common, 6 if quick else 36)
    ctx.log("directed")
    part_directed(ctx, rec, exe)
    ctx.log("guard")
    guard_ok = part_guard(ctx, rec, wb, drv, 6 if quick else 60)
    ctx.log("histories")
    hist_ok = part_history(ctx, rec, exe, 8 if quick else 48)
    ctx.log("many parameters / shrinking grids")
    import c02_history
    c02_history.part_many_params(ctx, rec, exe, check_common, bounds, 10 if quick else 48)
    shrink_ok = c02_history.part_shrinking_history(ctx, rec, exe, check_common, 6 if quick else 30)
    ctx.log("several frequencies")
    mf_ok = part_multifreq(ctx, rec, exe, wb, 8 if quick else 60)
    ctx.log("dispatch")
    disp_ok = part_dispatch(ctx, rec, wb, drv, 1 if quick else 6)
    ctx.log("done")
    for name, okx in (("tie:lm_kernel_pass_vs_AutoKernelModel", kern_ok), ("tie:writeback_exact", hist_ok), ("tie:writeback_exact(shrinking grids)", shrink_ok), ("tie:initial_parameter_vector", mf_ok), ("tie:solver_dispatch", disp_ok),
                      ("tie:update_s_matrices_vs_GuardModel", guard_ok)):
        if not okx and not ctx.violations:
            ctx.unproved(name, "correspondence failed", "scenarios of this run")

    # support: convergence rate of the unweighted iteration from the stated radius
    if st_u["runs"]:
        rate = st_u["ok"] / float(st_u["runs"])
        ctx.extra["unweighted_convergence_rate"] = rate
        ctx.obligation("support:unweighted_convergence_rate>=0.9", rate >= 0.9, "rate %.3f" % rate)
        if rate < 0.9:
            rec.add({"kind": "convergence_rate"}, "only %.0f%% of the unweighted self-calibrations with guesses within %.2f converged"
                    % (100 * rate, RADIUS), None, None, extra=st_u)

    # verdicts for broken obligations without a failing input
    if not ok:
        log = getattr(ctx, "_last_coq_log", "")
        if not ctx.violations:
            ctx.unproved("C02:coq", "Coq development of C02 does not build: " + log[-400:],
                         "all API-level scenario families and both white-box ties ran without a failing input")
    if not trl_ok and not any(v.sig.get("kind", "").startswith("trl") for v in ctx.violations):
        case = getattr(ctx, "_trl_tie_case", None)
        if case:
            sc, r, f, ml_, mr_, cl, cr = case
            rec.add({"kind": "disagreement", "op": "_vnacal_new_solve_trl", "class": "model vs solver"},
                    "TRL model and solver disagree: " + trl_detail, sc, r)
        else:
            ctx.unproved("tie:trl_model_vs_solver", trl_detail, "TRL scenarios of this run")
    if not auto_ok:
        case = getattr(ctx, "_auto_tie_case", None)
        if case:
            sc, why, run_ = case
            rec.add({"kind": "disagreement", "op": "_vnacal_new_solve_auto", "class": "trajectory"},
                    "AutoLoop model and _vnacal_new_solve_auto disagree: " + why, sc, None,
                    extra={"trajectory": run_})
        elif not ctx.violations:
            ctx.unproved("tie:auto_loop_trajectory", "white-box comparison failed", "auto tie cases of this run")
