"""C07 legacy_versions: ties for the "#VNACAL 2.x" / "#VNACAL 3.x" documents.

The theorems (coq/Properties_C07.v: legacy_versions, legacy_e_matrix_terms, v3_documents_load_as_v1,
legacy_load_total_wf, apply_same) are about the loader model CalFile/CalFileModel.v and the generator
of 2.x trees CalFile/LegacyModel.v.  Here, on every run:

 * corpus = src/tests/compat-V2.vnacal + generated 2.x documents for E12 at every rows >= columns in
   1..4, 1..3 frequencies, 1..2 calibrations, global / per-calibration property trees present or not,
   both spellings of the list key ("sets", "calibrations"), with and without "type: E12", several
   minor numbers, hex / 17-digit numbers (lib/calfile_lib.py, the independent writer) + the same
   containers written as "#VNACAL 3.x" and "#VNACal 1.0" + 2.x documents the old format cannot express
   (another type, the current matrices instead of "e", an "e" of the wrong shape, a version line 4.x);
 * C level: vnacal_load of the three documents of one container gives the same object (exact);
 * generator: the container vnacal_load built (harness dump) goes through the extracted `legacy_doc`
   (ocaml/drv_callegacy.ml) and the tree is compared with the libyaml tree of the 2.x file
   (harness/yamltree.c): keys in order, sequence lengths, position of every value, every value
   bit-exact (obligation tie:legacy_doc-vs-2.x-files);
 * loader model: the same libyaml trees through the extracted `load` (checks/c09_model.py) against
   vnacal_load: error class, or name/type/dims/z0/frequencies/every error-term cell
   (obligation tie:CalFileModel-vs-vnacal_load)."""
import os
import re

import vplib
import calfile_lib as L


class Case(object):
    def __init__(self, idx, path, label):
        self.idx, self.path, self.label = idx, path, label
        self.family = "legacy"


def respell(text, sets_key, type_key):
    """The python writer spells 2.x as 'sets:' without 'type'; the other accepted spellings by rewriting."""
    if not sets_key:
        text = re.sub(r"(?m)^sets:", "calibrations:", text, count=1)
    if type_key:
        text = re.sub(r"(?m)^(- name: .*\n(?:  [^\n]*\n)*?)(  rows: )", r"\1  type: E12\n\2", text)
    return text


def value_matches(mtext, atext):
    """Model scalar (placeholder or literal) against the text of the file: values bit for bit."""
    if not mtext.startswith("\x01"):
        return None if mtext == atext else "scalar %r, model %r" % (atext, mtext)
    kind, rest = mtext[1], mtext[2:]
    try:
        if kind == "I":
            ok = int(atext) == int(rest)
        elif kind == "R":
            p, x = rest.split()
            v = L.parse_real(atext)
            ok = v is not None and L.same_bits(v, float.fromhex(x))
        elif kind == "C":
            p, a, b = rest.split()
            z = L.parse_cx(atext)
            ok = z is not None and L.same_bits(z.real, float.fromhex(a)) and L.same_bits(z.imag, float.fromhex(b))
        elif kind in "NT":
            ok = atext == rest
        else:
            return "unknown placeholder %r" % mtext
    except ValueError:
        ok = False
    return None if ok else "text %r in the file, the model writes the value %r" % (atext, mtext[1:])


def cmp_tree(m, a, path="root"):
    stack = [(m, a, path)]
    while stack:
        m, a, path = stack.pop()
        if m.kind == "S" and m.text == "\x01P":
            continue
        if m.kind != a.kind:
            return "%s: node kind %s in the file, %s in the model" % (path, a.kind, m.kind)
        if m.kind == "S":
            r = value_matches(m.text, a.text)
            if r:
                return "%s: %s" % (path, r)
        elif m.kind == "Q":
            if len(m.items) != len(a.items):
                return "%s: sequence of %d items in the file, %d in the model" % (path, len(a.items), len(m.items))
            for k in range(len(m.items) - 1, -1, -1):
                stack.append((m.items[k], a.items[k], "%s[%d]" % (path, k)))
        elif m.kind == "M":
            mk = [k.text if k.kind == "S" else "?" for k, v in m.pairs]
            ak = [k.text if k.kind == "S" else "?" for k, v in a.pairs]
            if mk != ak:
                return "%s: mapping keys %r in the file, %r in the model" % (path, ak, mk)
            for k in range(len(m.pairs) - 1, -1, -1):
                stack.append((m.pairs[k][1], a.pairs[k][1], "%s.%s" % (path, mk[k])))
    return None


def legacy_input(st, root, sets_key, type_key, minor):
    """LEGACY block for ocaml/drv_callegacy.ml: the container of a harness dump; whether a property
    sub-tree is present is read off the file's tree (the sub-trees themselves are opaque: property C14)."""
    key = "sets" if sets_key else "calibrations"
    cn = root.get(key)
    gflag = 1 if root.get("properties") is not None else 0
    out = ["LEGACY %d %d %d 6 7 %d %d" % (sets_key, type_key, minor, gflag, len(st["slots"]))]
    for i, s in enumerate(st["slots"]):
        if s is None:
            out.append("HOLE")
            continue
        pflag = 0
        if cn is not None and cn.kind == "Q" and i < len(cn.items) and cn.items[i].kind == "M" and cn.items[i].get("properties") is not None:
            pflag = 1
        out.append("CAL %s %s %d %d %d %s %s %d %d" % (s["name"].encode("utf-8", "surrogateescape").hex() or "-", s["type"], s["rows"],
                                                      s["cols"], s["F"], float.hex(s["z0"].real), float.hex(s["z0"].imag), pflag, len(s["terms"])))
        out.append("F " + " ".join(float.hex(f) for f in s["fvec"]))
        for row in s["terms"]:
            out.append("T " + " ".join("%s,%s" % (float.hex(z.real), float.hex(z.imag)) for z in row))
    return out


def states_same(a, b):
    if a is None or b is None:
        return "no object"
    if len(a["slots"]) != len(b["slots"]):
        return "%d / %d slots" % (len(a["slots"]), len(b["slots"]))
    for i, (x, y) in enumerate(zip(a["slots"], b["slots"])):
        if (x is None) != (y is None):
            return "slot %d used / empty" % i
        if x is None:
            continue
        for k in ("name", "type", "rows", "cols", "F", "props"):
            if x[k] != y[k]:
                return "calibration %d: %s %r / %r" % (i, k, x[k], y[k])
        if not (L.same_bits(x["z0"].real, y["z0"].real) and L.same_bits(x["z0"].imag, y["z0"].imag)):
            return "calibration %d: z0 %r / %r" % (i, x["z0"], y["z0"])
        if len(x["fvec"]) != len(y["fvec"]) or any(not L.same_bits(p, q) for p, q in zip(x["fvec"], y["fvec"])):
            return "calibration %d: frequency vector %r / %r" % (i, x["fvec"], y["fvec"])
        if len(x["terms"]) != len(y["terms"]):
            return "calibration %d: %d / %d error terms" % (i, len(x["terms"]), len(y["terms"]))
        for t, (ra, rb) in enumerate(zip(x["terms"], y["terms"])):
            for fi, (p, q) in enumerate(zip(ra, rb)):
                if not (L.same_bits(p.real, q.real) and L.same_bits(p.imag, q.imag)):
                    return "calibration %d: error term %d at frequency index %d: %r / %r" % (i, t, fi, p, q)
    if a["gprops"] != b["gprops"]:
        return "global properties %r / %r" % (a["gprops"], b["gprops"])
    return None


def run(ctx, exe, ytree, d):
    import C07 as G
    import c09_model
    rng = ctx.rng
    thorough = ctx.tier == "thorough"
    dims = [(r, c) for r in range(1, 5) for c in range(1, r + 1)]
    plan = [(mr, mc, F) for (mr, mc) in dims for F in ((1, 2, 3) if thorough else (1 + (mr + mc) % 3,))]
    groups = []            # (label, cals, gprops, {version: (path, text)}, spelling)
    cases = []
    files = {}

    def add_case(path, text, label):
        c = Case(len(cases), path, label)
        cases.append(c)
        files[path] = text
        return c
    for i, (mr, mc, F) in enumerate(plan):
        # hostile names (spaces, colons, quotes, UTF-8, a newline, YAML keywords): name_text is assumed for every string
        nm = rng.sample(G.NAMES, 2)
        cals = [G.gen_cal(rng, nm[0], "E12", (mr, mc), F=F)]
        if i % 2:
            r2 = rng.randint(1, 4)
            cals.append(G.gen_cal(rng, nm[1], "E12", (r2, rng.randint(1, r2)), F=rng.choice([0, 1, 2])))
        for c in cals:
            c["props"] = "absent" if i % 3 == 0 else G.gen_props(rng, hostile=False)
            if c["z0"] is None:
                c["z0"] = complex(50.0, 0.0)          # the generator model always writes z0 (as compat-V2.vnacal does)
        g = None if i % 4 == 0 else G.gen_props(rng, hostile=False)
        omit = (g is None and i % 8 == 0)
        style = "hex" if i % 2 == 0 else "dec"
        sets_key, type_key = [(1, 0), (0, 1), (1, 1), (0, 0)][i % 4]
        minor = [0, 3, 12, 7][(i // 4) % 4]
        t2 = respell(L.write_vnacal(cals, g, style=style, version="2.0", head="#VNACAL 2.%d" % minor, omit_gprops=omit), sets_key, type_key)
        t3 = L.write_vnacal(cals, g, style=style, version="3.0", head="#VNACAL 3.%d" % minor, omit_gprops=omit)
        t1 = L.write_vnacal(cals, g, style=style, version="1.0", omit_gprops=omit)
        grp = {"i": i, "cals": cals, "g": g, "sets": sets_key, "type": type_key, "minor": minor, "dims": (mr, mc, F)}
        for ver, txt in (("2", t2), ("3", t3), ("1", t1)):
            grp[ver] = add_case(os.path.join(d, "lg%d_v%s.vnacal" % (i, ver)), txt, "v%s %dx%d F=%d" % (ver, mr, mc, F))
        groups.append(grp)
    # documents the old format cannot express / malformed legacy documents (agreement of the error class)
    neg = []
    base = G.gen_cal(rng, "N", "E12", (2, 1), F=1)
    base["props"] = "absent"
    t2 = L.write_vnacal([base], None, style="hex", version="2.0")
    t1 = L.write_vnacal([base], None, style="hex", version="1.0")
    neg.append(("2.x with type T8", re.sub(r"(?m)^(  rows: )", r"  type: T8\n\1", t2, count=1)))
    neg.append(("2.x line, current matrices (no e)", t1.replace("#VNACal 1.0", "#VNACAL 2.0", 1)))
    neg.append(("2.x, e with a row missing", re.sub(r"(?m)^    -\n      - \[[^\n]*\n", "", t2, count=1)))
    neg.append(("2.x, e triple with two terms", re.sub(r"(?m)^(      - \[[^,\n]*,[^,\n]*),[^\n]*\]", r"\1]", t2, count=1)))
    neg.append(("1.0 line with sets", t2.replace("#VNACAL 2.0", "#VNACal 1.0", 1)))
    neg.append(("#VNACAL 4.0", t1.replace("#VNACal 1.0", "#VNACAL 4.0", 1)))
    neg.append(("#VNACAL 1.0", t1.replace("#VNACal 1.0", "#VNACAL 1.0", 1)))
    neg.append(("#VNACal 0.2 (major 0 through the new spelling)", t2.replace("#VNACAL 2.0", "#VNACal 0.2", 1)))
    neg.append(("#VNACal 2.0", t1.replace("#VNACal 1.0", "#VNACal 2.0", 1)))
    # a required matrix missing from a data entry (1.0 documents, every type x every matrix of the type): the
    # diagnostic must name THAT matrix (C11: the callback gets the documented one-line message; finding DJ90)
    msgcases = []
    for t in L.TYPES:
        mr, mc = (2, 2) if t != "E12" else (2, 1)
        mcal = G.gen_cal(rng, "Q", t, (mr, mc), F=1)
        mcal["props"] = "absent"
        full = L.write_vnacal([mcal], None, style="hex")
        for nm in [m[0] for m in L.file_matrices(t, mr, mc)]:
            cut = re.sub(r"(?m)^    %s:[^\n]*\n(?:    - [^\n]*\n)*" % nm, "", full, count=1)
            if cut == full:
                continue
            c = add_case(os.path.join(d, "lgmiss_%s_%s.vnacal" % (t, nm)), cut, "%s without %s" % (t, nm))
            c.want = nm
            msgcases.append(c)
    negcases = [add_case(os.path.join(d, "lgneg%d.vnacal" % k), txt, lab) for k, (lab, txt) in enumerate(neg)]
    compat = os.path.join(ctx.repo, "src", "tests", "compat-V2.vnacal")
    ccase = Case(len(cases), compat, "compat-V2.vnacal")
    cases.append(ccase)
    for p, txt in files.items():
        with open(p, "w") as f:
            f.write(txt)
    script = []
    for c in cases:
        script += ["case %d" % c.idx, "load 0 %s" % c.path] + (["msg"] if hasattr(c, "want") else []) + ["dump 0", "free 0", "leak"]
    res = L.run_script(ctx, exe, "\n".join(script) + "\n", len(cases), timeout=600)
    rc, tout, terr = vplib.sh([ytree, "cal", "-"], input="".join(c.path + "\n" for c in cases), timeout=300, env=ctx.run_env())
    trees = L.parse_tree_dump(tout)
    outcome = {}
    nviol = [0]

    def violate(c, sig, what, extra=None):
        nviol[0] += 1
        if nviol[0] > 4:
            return
        rep = {"document": c.label, "file": files.get(c.path) or open(c.path).read(), "script": ["load 0 <file>", "dump 0"], "seed": ctx.seed}
        if extra:
            rep.update(extra)
        ctx.violation(sig, "C07 legacy documents (%s): %s" % (c.label, what[:400]), rep)
    for c in cases:
        cr = res.get(c.idx)
        if cr is None:
            continue
        if cr.crash:
            sig = dict(cr.crash[2])
            violate(c, sig, "vnacal_load did not return normally: %s in %s" % (sig.get("error"), sig.get("function")), {"stderr": cr.crash[1][-2500:]})
            outcome[c.idx] = ("crash", None)
            continue
        ld = cr.lines[0]
        if hasattr(c, "want"):
            m = re.match(r"msg ([0-9a-f]*)$", cr.lines[1] if len(cr.lines) > 1 else "")
            text = bytes.fromhex(m.group(1)).decode("utf-8", "replace") if m else None
            mm = re.search(r'missing required matrix "([a-z]+)"', text or "")
            if ld.startswith("load ok"):
                violate(c, {"kind": "legacy", "class": "document without a required matrix accepted"}, "vnacal_load accepts a data entry without its %r matrix" % c.want)
            elif mm is None:
                violate(c, {"kind": "message", "class": "missing matrix not reported"}, "data entry without %r: the message is %r" % (c.want, text))
            elif mm.group(1) != c.want:
                violate(c, {"kind": "message", "class": "missing matrix reported under another name"},
                        "the data entry lacks %r but the error callback is told: %s" % (c.want, text.split(" error: ")[-1]),
                        {"message": text, "fix": "fixes/DJ90_vnacal_load_matrix_names.diff"})
            else:
                ctx.count(("missing-matrix-message", c.label))
                ctx.traces_validated += 1
        if ld.startswith("load ok"):
            try:
                st, _ = L.parse_dump(cr.lines, 2 if hasattr(c, "want") else 1)
            except (ValueError, IndexError, AssertionError):
                continue
            outcome[c.idx] = ("ok", st)
        else:
            m = re.match(r"load fail errno=(\S+) cb=(\d+) cat=(-?\d+)", ld)
            outcome[c.idx] = (m.group(1) if m else "bad:?", None)
        if cr.lines[-1] != "leak 0":
            violate(c, L.leak_sig(cr.leak_err), "leak after vnacal_load + vnacal_free", {"stderr": (cr.leak_err or "")[:2500]})

    # ---- C level: the three documents of one container load to the same object
    same = 0
    for grp in groups:
        o2, o3, o1 = (outcome.get(grp[v].idx) for v in ("2", "3", "1"))
        if not (o1 and o1[0] == "ok"):
            violate(grp["1"], {"kind": "legacy", "class": "1.0 document does not load"}, "the 1.0 document does not load: %r" % (o1 and o1[0],))
            continue
        for v, o in (("2", o2), ("3", o3)):
            if not (o and o[0] == "ok"):
                violate(grp[v], {"kind": "legacy", "class": "version %s.x document does not load" % v},
                        "the %s.x document of a container whose 1.0 document loads is refused: %r" % (v, o and o[0]))
                continue
            df = states_same(o[1], o1[1])
            if df:
                violate(grp[v], {"kind": "legacy", "class": "version %s.x loads to different terms" % v},
                        "the %s.x and the 1.0 document of the same container load to different calibrations: %s" % (v, df),
                        {"file_1.0": files[grp["1"].path]})
            else:
                same += 1
                ctx.count(("legacy-same", v, grp["dims"], grp["sets"], grp["type"]))
                ctx.traces_validated += 1
    # negative documents: whatever the class, model and library must agree (done by the model tie below);
    # the two the theorems speak about are checked here against the library directly
    for c in negcases[:2]:
        o = outcome.get(c.idx)
        if o and o[0] == "ok":
            violate(c, {"kind": "legacy", "class": "inexpressible 2.x document accepted"},
                    "vnacal_load accepts a 2.x document the format cannot express (theorem legacy_other_type_refused says EBADMSG)")

    # ---- generator model legacy_doc against the 2.x files (and compat-V2.vnacal)
    try:
        drv = ctx.ocaml_driver("drv_callegacy")
    except vplib.BuildError as e:
        ctx.obligation("tie:legacy_doc-driver", False, str(e))
        drv = None
    todo = []
    for grp in groups:
        c = grp["2"]
        o = outcome.get(c.idx)
        doc = trees.get(c.path)
        if o and o[0] == "ok" and doc and doc["root"] is not None and not doc["error"]:
            todo.append((c, o[1], doc, grp["sets"], grp["type"], grp["minor"]))
    o = outcome.get(ccase.idx)
    doc = trees.get(compat)
    if o and o[0] == "ok" and doc and doc["root"] is not None:
        todo.append((ccase, o[1], doc, 1, 0, 0))
    else:
        violate(ccase, {"kind": "legacy", "class": "compat-V2 does not load"}, "tests/compat-V2.vnacal does not load: %r" % (o and o[0],))
    mism = []
    compared = 0
    if drv is not None and todo:
        minput = []
        for c, st, doc, sk, tk, minor in todo:
            minput += legacy_input(st, doc["root"], sk, tk, minor)
        rc, out, err = vplib.sh([drv], input="\n".join(minput) + "\n", timeout=600)
        ctx.obligation("tie:legacy_doc-driver", rc == 0, "" if rc == 0 else "driver failed rc=%d %s" % (rc, err[-300:]))
        if rc == 0:
            ml = out.split("\n")
            i = 0
            for c, st, doc, sk, tk, minor in todo:
                if i >= len(ml) or not ml[i].startswith("VLINE"):
                    mism.append((c, "the model driver produced no tree"))
                    break
                mv = ml[i][6:]
                mroot, i = L._read_node(ml, i + 1, set())
                i += 1
                av = c09_model.vline(doc["first"])
                why = None
                if av != mv:
                    why = "first line %r scans as %r, the model's version line is %r" % (doc["first"], av, mv)
                else:
                    why = cmp_tree(mroot, doc["root"])
                compared += 1
                if why:
                    mism.append((c, why))
                else:
                    ctx.traces_validated += 1
                    ctx.count(("legacy-gen", c.label, sk, tk))
        ctx.obligation("tie:legacy_doc-vs-2.x-files", not mism and compared == len(todo) and compared > 0,
                       "%d documents compared; %d differ%s" % (compared, len(mism), (": %s: %s" % (mism[0][0].label, mism[0][1][:300])) if mism else ""))
        if mism and nviol[0] == 0:
            # the generator model and the independent writer / the corpus file disagree although the C level
            # comparison found nothing: the model of the 2.x format is what is wrong or the writer changed
            ctx.unproved("tie:legacy_doc-vs-2.x-files", "legacy_doc and the 2.x documents differ (%s: %s)" % (mism[0][0].label, mism[0][1][:200]),
                         "vnacal_load of the 2.x / 3.x / 1.0 documents of %d containers gives equal objects" % len(groups))

    # ---- loader model against vnacal_load on the same libyaml trees (legacy, 3.x, 1.0, refused documents)
    c09_model.tie(ctx, cases, trees, outcome, violate)
    ctx.extra["legacy"] = {"containers": len(groups), "documents": len(cases), "same_object": same, "generator_compared": compared,
                           "generator_mismatches": len(mism), "refused_documents": len(negcases)}
