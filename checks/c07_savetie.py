"""Tie of the saver model (coq/CalFile/CalSaveModel.v, extracted, driver ocaml/drv_calfile.ml) to
vnacal_save: for generated containers - every type x every rows x columns in 1..5 the type allows x
1..3 frequencies, 0..4 calibrations with delete / replace / add histories (holes in the slot vector),
fprecision x dprecision from a list that contains the defaults, 1, 17, 40 and VNACAL_MAX_PRECISION -
the container the library holds right before vnacal_save (harness dump) is given to the extracted
`save_doc`, and the node tree it builds is compared with the libyaml node tree of the file
vnacal_save wrote (harness/yamltree.c): mapping keys and their order, sequence lengths, the '~' of the
diagonals and the position of every value exactly; a value scalar of the model is a placeholder
(add_integer n / add_double p x / add_complex p z) and the file's text must be the correctly rounded
C99 text of that value at that precision; a property sub-tree is opaque (property C14).

When the trees differ the property itself is evaluated on every container of the run (reload of the
saved file against the container: names, order, types, dimensions, frequency vectors, z0, error terms
- exact at >= 17 digits and MAX, within 10^(1-p) otherwise - and both property trees).  A difference
there is a violation with the container script as replay; a tree difference without one (for instance
a changed key order, which the loader does not care about) ends as `no-failing-input-found`."""
import os

import vplib
import calfile_lib as L

PRECS = [(None, None), (L.MAXP, L.MAXP), (6, L.MAXP), (L.MAXP, 7), (17, 17), (1, 1), (40, 40), (3, 9), (L.MAXP, 1),
         (25, 26), (2, 16), (16, 2), (18, 39), (L.MAXP, 17), (12, 5)]
HISTORIES = ["none", "delete-one", "delete-replace", "replace-above-hole", "delete-two-add", "add", "delete-all"]


def grid(thorough):
    out = []
    k = 0
    for t in L.TYPES:
        for r in range(1, 6):
            for c in range(1, 6):
                if L.dims_ok(t, r, c):
                    fs = (1, 2, 3) if thorough else (1 + k % 3,)
                    for F in fs:
                        out.append((t, r, c, F))
                    k += 1
    return out


class Box(object):
    pass


def build(ctx, rng, d, thorough):
    import C07 as G
    queue = grid(thorough)
    rng.shuffle(queue)
    boxes = []
    while queue or len(boxes) < 10:
        i = len(boxes)
        b = Box()
        b.idx = i
        b.fp, b.dp = PRECS[i % len(PRECS)]
        k = [2, 0, 3, 1, 4][i % 5]
        b.history = HISTORIES[(i // 5 + i) % len(HISTORIES)] if k else ("add" if i % 2 else "none")

        def take(name, keep=True):
            # calibrations that are still in the container when it is saved come from the coverage queue
            if queue and keep:
                t, r, c, F = queue.pop()
            else:
                t, r, c, F = rng.choice(grid(False))
            return G.gen_cal(rng, name, t, (r, c), F=F, subnormal=(b.dp is not None and b.dp >= 17 and rng.random() < 0.2))
        names = rng.sample(G.NAMES, k + 2)
        live = list(range(k))
        h = b.history
        dels = []
        if h in ("delete-one", "delete-replace") and k >= 1:
            dels = [rng.choice(live)]
        elif h == "replace-above-hole" and k >= 2:
            dels = [rng.choice(live[:-1])]
        elif h == "delete-two-add" and k >= 2:
            dels = rng.sample(live, 2)
        elif h == "delete-all":
            dels = list(live)
        left = [j for j in live if j not in dels]
        xf = []            # (name given to the moved calibration, position it replaces or None)
        if h == "delete-replace" and left:
            j = rng.choice(left)
            xf = [(names[j], j)]
        elif h == "replace-above-hole" and left:
            xf = [(names[max(left)], max(left)), (names[k], None)]
        elif h == "delete-two-add":
            xf = [(names[k], None)]
        elif h == "add":
            xf = [(names[k], None), (names[k + 1], None)]
        lost = set(dels) | set(j for _, j in xf if j is not None)
        cals = [take(names[j], keep=(j not in lost)) for j in range(k)]
        gprops = None if rng.random() < 0.3 else G.gen_props(rng)
        b.files = {}
        pa = os.path.join(d, "sa%d.vnacal" % i)
        pb = os.path.join(d, "sb%d.vnacal" % i)
        b.out = os.path.join(d, "so%d.vnacal" % i)
        b.files[pa] = L.write_vnacal(cals, gprops, style=rng.choice(["hex", "dec"]))
        lines = ["load 0 %s" % pa]
        for ci in dels:
            lines.append("delete 0 %d" % ci)
        if xf:
            bc = [take("src%d" % j) for j in range(len(xf))]
            b.files[pb] = L.write_vnacal(bc, None, style="hex")
            lines.append("load 1 %s" % pb)
            for j, (nm, _) in enumerate(xf):
                lines.append("xfer 1 %d 0 %s" % (j, G.hx(nm)))
            lines.append("free 1")
        if b.fp is not None:
            lines += ["setfp 0 %d" % b.fp, "setdp 0 %d" % b.dp]
        lines += ["dump 0", "save 0 %s" % b.out, "load 2 %s" % b.out, "dump 2", "free 2", "free 0"]
        b.lines = lines
        boxes.append(b)
    return boxes


# --------------------------------------------------------------------------- model input / output
def model_input(st, fp, dp):
    """SAVE block for ocaml/drv_calfile.ml from a harness dump."""
    out = ["SAVE %d %d 1 %d" % (fp, dp, len(st["slots"]))]
    for s in st["slots"]:
        if s is None:
            out.append("HOLE")
            continue
        out.append("CAL %s %s %d %d %d %s %s 1 %d" % (s["name"].encode("utf-8", "surrogateescape").hex() or "-", s["type"], s["rows"],
                                                     s["cols"], s["F"], float.hex(s["z0"].real), float.hex(s["z0"].imag), len(s["terms"])))
        out.append("F " + " ".join(float.hex(f) for f in s["fvec"]))
        for row in s["terms"]:
            out.append("T " + " ".join("%s,%s" % (float.hex(z.real), float.hex(z.imag)) for z in row))
    return out


def parse_model_tree(lines, i):
    """Preorder M/Q/S lines -> L.Node (iterative reader of calfile_lib)."""
    root, j = L._read_node(lines, i, set())
    return root, j


def scalar_matches(mtext, atext):
    """Model scalar text (placeholder or literal) against the text in the file; returns None or a reason."""
    if not mtext.startswith("\x01"):
        return None if mtext == atext else "scalar %r, model %r" % (atext, mtext)
    kind, rest = mtext[1], mtext[2:]
    if kind == "I":
        want = "%d" % int(rest)
    elif kind == "R":
        p, x = rest.split()
        want = L.fmt_f(float.fromhex(x), int(p))
    elif kind == "C":
        p, a, b = rest.split()
        want = L.fmt_c(complex(float.fromhex(a), float.fromhex(b)), int(p))
    elif kind in "NT":
        want = rest
    else:
        return "unknown placeholder %r" % mtext
    return None if want == atext else "text %r, expected %r for the model's %s" % (atext, want, {
        "I": "add_integer(%s)" % rest, "R": "add_double(precision, value = %s)" % rest, "C": "add_complex(precision, value = %s)" % rest,
        "N": "name", "T": "type"}[kind])


def cmp_tree(m, a, path="root"):
    """First difference between the model's tree and the file's tree, or None."""
    stack = [(m, a, path)]
    while stack:
        m, a, path = stack.pop()
        if m.kind == "S" and m.text == "\x01P":
            continue                                    # opaque property sub-tree
        if m.kind != a.kind:
            return "%s: node kind %s in the file, %s in the model" % (path, a.kind, m.kind)
        if m.kind == "S":
            r = scalar_matches(m.text, a.text)
            if r:
                return "%s: %s" % (path, r)
        elif m.kind == "Q":
            if len(m.items) != len(a.items):
                return "%s: sequence of %d items in the file, %d in the model" % (path, len(a.items), len(m.items))
            for k in range(len(m.items) - 1, -1, -1):
                stack.append((m.items[k], a.items[k], "%s[%d]" % (path, k)))
        elif m.kind == "M":
            mk = [k.text if k.kind == "S" else "?" for k, v in m.pairs]
            ak = [k.text if k.kind == "S" else "?" for k, v in a.pairs]
            if mk != ak:
                return "%s: mapping keys %r in the file, %r in the model" % (path, ak, mk)
            for k in range(len(m.pairs) - 1, -1, -1):
                stack.append((m.pairs[k][1], a.pairs[k][1], "%s.%s" % (path, mk[k])))
    return None


# --------------------------------------------------------------------------- the property on one container
def roundtrip_diffs(st0, st2, fp, dp):
    """Reload of the saved file (st2) against the container it was saved from (st0)."""
    diffs = []
    if st2 is None:
        return ["the saved file does not load"]
    exp = [s for s in st0["slots"] if s is not None]
    got = list(st2["slots"])
    if any(g is None for g in got) or len(got) != len(exp):
        return ["%d calibrations after the reload, %d used slots were saved" % (len([g for g in got if g]), len(exp))]

    def near(a, b, p):
        if p == L.MAXP or p >= 17:
            return L.same_bits(a, b)
        return L.within(b, a, p)
    for i, (e, g) in enumerate(zip(exp, got)):
        w = "calibration %d (%s %dx%d, %d frequencies)" % (i, e["type"], e["rows"], e["cols"], e["F"])
        for k in ("name", "type", "rows", "cols", "F"):
            if e[k] != g[k]:
                diffs.append("%s: %s %r after the reload, %r saved" % (w, k, g[k], e[k]))
        if diffs:
            return diffs
        if not (near(e["z0"].real, g["z0"].real, dp) and near(e["z0"].imag, g["z0"].imag, dp)):
            diffs.append("%s: z0 %r after the reload, %r saved (dprecision %d)" % (w, g["z0"], e["z0"], dp))
        if len(g["fvec"]) != e["F"] or any(not near(a, b, fp) for a, b in zip(e["fvec"], g["fvec"])):
            diffs.append("%s: frequency vector %r after the reload, %r saved (fprecision %d)" % (w, g["fvec"], e["fvec"], fp))
        if len(g["terms"]) != len(e["terms"]):
            diffs.append("%s: %d error terms after the reload, %d saved" % (w, len(g["terms"]), len(e["terms"])))
        else:
            for t, (ra, rb) in enumerate(zip(e["terms"], g["terms"])):
                bad = [fi for fi, (x, y) in enumerate(zip(ra, rb)) if not (near(x.real, y.real, dp) and near(x.imag, y.imag, dp))]
                if bad or len(ra) != len(rb):
                    fi = bad[0] if bad else 0
                    diffs.append("%s: error term %d at frequency index %d is %r after the reload, %r saved (dprecision %d)"
                                 % (w, t, fi, rb[fi] if fi < len(rb) else None, ra[fi], dp))
                    break
        if e["props"] != g["props"]:
            diffs.append("%s: properties %r after the reload, %r saved" % (w, g["props"], e["props"]))
    if st0["gprops"] != st2["gprops"]:
        diffs.append("global properties %r after the reload, %r saved" % (st2["gprops"], st0["gprops"]))
    return diffs


# --------------------------------------------------------------------------- main
def run(ctx, exe, ytree, d, defaults):
    import c09_model
    rng = ctx.rng
    thorough = ctx.tier == "thorough"
    boxes = build(ctx, rng, d, thorough)
    for b in boxes:
        for p, txt in b.files.items():
            with open(p, "w") as f:
                f.write(txt)
    script = []
    for b in boxes:
        script.append("case %d" % b.idx)
        script += b.lines
    res = L.run_script(ctx, exe, "\n".join(script) + "\n", len(boxes), timeout=900 if not thorough else 3000)
    rc, tout, terr = vplib.sh([ytree, "cal", "-"], input="".join(b.out + "\n" for b in boxes if os.path.exists(b.out)),
                              timeout=600, env=ctx.run_env())
    trees = L.parse_tree_dump(tout)
    try:
        drv = ctx.ocaml_driver("drv_calfile")
    except vplib.BuildError as e:
        ctx.obligation("tie:save_doc-driver", False, str(e))
        drv = None

    def replay(b, extra=None):
        r = {"container": b.idx, "history": b.history, "fprecision": b.fp, "dprecision": b.dp, "script": b.lines,
             "files": {os.path.basename(p): t for p, t in b.files.items()}, "seed": ctx.seed,
             "how": "harness/calfile_harness.c runs the script; harness/yamltree.c cal <saved file> prints the node tree"}
        if extra:
            r.update(extra)
        return r
    minput = []
    ready = []
    nviol = 0
    for b in boxes:
        cr = res.get(b.idx)
        b.st0 = b.st2 = None
        b.rt = None
        if cr is None:
            ctx.obligation("tie:save_doc-harness", False, "container %d did not run" % b.idx)
            continue
        if cr.crash:
            sig = dict(cr.crash[2])
            nviol += 1
            if nviol <= 3:
                ctx.violation(sig, "C07 save tie, container %d (%s): sanitizer/crash %s in %s" % (b.idx, b.history, sig.get("error"), sig.get("function")),
                              replay(b, {"stderr": cr.crash[1][-2500:]}))
            continue
        ls = cr.lines
        try:
            i = 0
            while not ls[i].startswith("NCAL"):
                if ls[i].startswith("load fail") or " rc=-1" in ls[i]:
                    raise ValueError("history operation failed: %s" % ls[i])
                i += 1
            b.st0, i = L.parse_dump(ls, i)
            b.saved_ok = ls[i].startswith("save rc=0")
            b.reload_ok = ls[i + 1].startswith("load ok")
            b.st2, _ = L.parse_dump(ls, i + 2)
        except (ValueError, IndexError, AssertionError) as e:
            ctx.obligation("tie:save_doc-harness", False, "container %d: transcript not understood: %r" % (b.idx, e))
            b.st0 = None
            continue
        b.efp = defaults[0] if b.fp is None else b.fp
        b.edp = defaults[1] if b.dp is None else b.dp
        if not b.saved_ok:
            b.rt = ["vnacal_save failed: %s" % ls[i]]
        else:
            b.rt = roundtrip_diffs(b.st0, b.st2 if b.reload_ok else None, b.efp, b.edp)
        ready.append(b)
        minput += model_input(b.st0, b.efp, b.edp)
    mism = []
    compared = 0
    if drv is not None and ready:
        rc, out, err = vplib.sh([drv], input="\n".join(minput) + "\n", timeout=900)
        ok = rc == 0
        ctx.obligation("tie:save_doc-driver", ok, "" if ok else "driver failed rc=%d %s" % (rc, err[-300:]))
        if ok:
            mlines = out.split("\n")
            i = 0
            for b in ready:
                if i >= len(mlines) or not mlines[i].startswith("VLINE"):
                    mism.append((b, "the model driver produced no tree"))
                    break
                mv = mlines[i][6:]
                mroot, i = parse_model_tree(mlines, i + 1)
                assert mlines[i] == "END", mlines[i]
                i += 1
                doc = trees.get(b.out)
                if doc is None or doc["root"] is None or doc["error"]:
                    mism.append((b, "the saved file has no node tree (%r)" % (doc and doc["error"],)))
                    continue
                av = c09_model.vline(doc["first"])
                why = None
                if av != mv:
                    why = "first line %r scans as %r, the model writes %r" % (doc["first"], av, mv)
                elif doc["first"] != b"#VNACal 1.0\n":
                    why = "first line %r" % (doc["first"],)
                else:
                    why = cmp_tree(mroot, doc["root"])
                compared += 1
                if why:
                    mism.append((b, why))
                else:
                    ctx.traces_validated += 1
                    hist = b.history
                    packed = [s for s in b.st0["slots"] if s is not None]
                    holes = len([s for s in b.st0["slots"] if s is None])
                    if packed:
                        for s in packed:
                            ctx.count(("savetie", s["type"], s["rows"], s["cols"], s["F"], b.efp, b.edp, hist, holes))
                    else:
                        ctx.count(None)
    # the property on every container (this is also the search when the tie breaks)
    failing = [b for b in ready if b.rt]
    for b in failing[:3]:
        ctx.violation({"kind": "roundtrip", "class": "save tie: " + b.rt[0].split(":")[0][:50]},
                      "C07 save tie, container %d (%s, fprecision=%s dprecision=%s): %s" % (b.idx, b.history, b.efp, b.edp, b.rt[0][:400]),
                      replay(b, {"differences": b.rt[:8], "tree_difference": [w for bb, w in mism if bb is b][:1]}))
    ctx.obligation("tie:save_doc-vs-vnacal_save", not mism and compared == len(ready) and compared > 0,
                   "%d containers compared; %d differ%s" % (compared, len(mism), (": container %d (%s): %s" % (mism[0][0].idx, mism[0][0].history, mism[0][1][:300])) if mism else ""))
    if mism and not failing and nviol == 0:
        b, why = mism[0]
        ctx.unproved("tie:save_doc-vs-vnacal_save",
                     "the saver model and vnacal_save build different node trees (%d of %d containers; first: container %d: %s)" % (len(mism), compared, b.idx, why[:300]),
                     "save + reload of all %d generated containers (every type x dims 1..5, 1..3 frequencies, histories, %d precision pairs): "
                     "the reloaded content equals the saved container everywhere" % (len(ready), len(PRECS)))
        ctx.extra["save_tie_first_mismatch"] = replay(b, {"tree_difference": why})
    covered = set((s["type"], s["rows"], s["cols"], s["F"]) for b in ready for s in b.st0["slots"] if s)
    want = set(grid(thorough))
    ctx.obligation("tie:save_doc-coverage", want <= covered,
                   "%d of %d (type, rows, columns, frequencies) combinations were in a saved container" % (len(want & covered), len(want)))
    ctx.extra["save_tie"] = {"containers": len(boxes), "compared": compared, "tree_mismatches": len(mism), "roundtrip_failures": len(failing),
                             "type_dims_F_covered": len(want & covered), "type_dims_F_wanted": len(want),
                             "holes": sum(len([s for s in b.st0["slots"] if s is None]) for b in ready),
                             "precision_pairs": len(set((b.efp, b.edp) for b in ready))}
    if ready:
        b = ready[0]
        ctx.sample({"save_tie_container": b.idx, "history": b.history, "fprecision": b.efp, "dprecision": b.edp,
                    "slots": [None if s is None else (s["name"], s["type"], s["rows"], s["cols"], s["F"]) for s in b.st0["slots"]]})
