"""C02: scale and history generalisations of part_history / part_multifreq (fifth seeding round).

Family "many parameters": one vnacal_t with MANY parameters, most of them created before they are
needed and some never used (so that the vnacal_t indices of the parameters a calibration uses are
sparse), and one vnacal_new_t that uses more than 8 / 16 / 32 distinct parameters, among them unknown
parameters that are used AGAIN in a standard added after many other parameters have been seen.  The
per-calibration parameter table of the library is a chained hash keyed by the vnacal_t index that is
doubled at 8, 16, 32 ... entries: the gaps between the index of the re-used unknown and the index of
another early parameter are chosen among 8, 16, 32 and random values so that they share a chain
before and after a doubling.  Requirements (every one follows from the property: the unknown
parameters of the calibration are the distinct handles the caller declared, and their solved values
are the true values):
  - the solve succeeds; the number of unknown parameters the calibration works with equals the
    number of distinct unknown / correlated handles used (a handle used in two standards is ONE
    unknown);
  - every solved parameter equals its truth; a device is corrected.

Family "shrinking grids": the write-back histories of part_history with grids of very different
lengths, in particular a LONG grid followed by SHORT ones, and reads of the re-solved parameters at
frequencies that are NOT grid points (near both ends of the band and in the middle) after every solve
and again before the next one.  Requirements: every call returns (no fault / abort), the value at
the solve's own frequencies is the value solved in that solve, and an off-grid read inside the band of
a grid with at least five points is within 5e-3 of the smooth truth.
"""
import cmath
import random

import selfcal_gen as G


# ----------------------------------------------------------------------------- many parameters
def build_many_params(rng, sid, typ, n, gap, nfill_pre, nstd_between, excess_full, with_second=True):
    freqs = [2.0e9]
    sc = G.Scenario(sid, typ, n, freqs)
    em = G.ErrorModel(rng, typ, n, 1)
    sc.em = em
    nfill = [0]

    def filler(count):
        for _ in range(count):
            nfill[0] += 1
            sc.lines.append("scalar fill%d %s" % (nfill[0], G.cnum(G.crand(rng, 0.1, 0.9))))

    def scalar(z):
        nm = sc._name("k")
        sc.lines.append("scalar %s %s" % (nm, G.cnum(z)))
        return nm
    filler(nfill_pre)
    utrue = G.crand(rng, 0.5, 0.9)
    u = sc.unknown([utrue], G.perturb(rng, [utrue], 0.05), name="u")
    # `gap' vnacal_t indices after u: the early partner (a known reflect used in the first standard)
    filler(max(gap - 1, 0))
    ptrue = G.crand(rng, 0.4, 0.9)
    partner = scalar(ptrue)
    filler(rng.randrange(0, 4))
    vtrue = G.crand(rng, 0.4, 0.9)
    v = sc.unknown([vtrue], G.perturb(rng, [vtrue], 0.05), name="v") if with_second else None
    stds = []

    def reflect_std(names, values):
        nm = [[names[i] if i == j else "zero" for j in range(n)] for i in range(n)]
        st = [[values[i] if i == j else 0j for j in range(n)] for i in range(n)]
        stds.append((nm, st))
    # first standard: the unknown on port 1, the partner on the last port (both enter the table early)
    if n == 1:
        reflect_std([u], [utrue])
        reflect_std([partner], [ptrue])
    else:
        assert n == 2
        reflect_std([u, partner], [utrue, ptrue])
    # many reflect standards with pairwise distinct known values: the table grows 8 -> 16 -> 32
    for k in range(nstd_between):
        vals = [G.rand_reflect(rng, (k + port) % 7) * (1.0 + 0.01 * k) for port in range(n)]
        reflect_std([scalar(z) for z in vals], vals)
    if v is not None:
        vals = [G.crand(rng, 0.3, 0.9) for _ in range(n)]
        names = [scalar(z) for z in vals]
        names[0], vals[0] = v, vtrue
        reflect_std(names, vals)
    # the unknown AGAIN, after the growth, on the last port (port 1 when there is only one)
    vals = [G.crand(rng, 0.3, 0.9) for _ in range(n)]
    names = [scalar(z) for z in vals]
    names[-1], vals[-1] = u, utrue
    reflect_std(names, vals)
    for _ in range(excess_full if n > 1 else 0):
        sf = G.rand_full_s(rng, n)
        stds.append(([[scalar(sf[i][j]) for j in range(n)] for i in range(n)], sf))
    for nm, st in stds:
        sc.add_mapped(nm, [em.measure(st, 0)])
    sc.meta.update({"family": "many_parameters", "type": typ, "n": n, "gap": gap, "fillers": nfill[0],
                    "standards": len(stds), "expected_unknowns": 1 + (1 if v is not None else 0)})
    sc.cmd("ptol 1e-9")
    sc.cmd("ettol 1e-9")
    sc.solve()
    sc.getparams()
    G.add_dut(rng, sc)
    return sc


def part_many_params(ctx, rec, exe, check_common, bounds, ncases):
    rng = ctx.rng
    scs = []
    gaps = [16, 8, 32, 16, 24, 48, 16, 32]
    for k in range(ncases):
        typ = ["T8", "U8", "TE10", "UE10", "T16", "UE14", "E12", "U16"][k % 8]
        n = 2 if k % 4 != 3 else 1
        gap = gaps[k % len(gaps)] if k < 2 * len(gaps) else rng.choice([8, 16, 32, rng.randrange(1, 40)])
        # between the first and the last use of the unknown: enough distinct parameters for one, two
        # or three doublings (n parameters per standard)
        between = rng.choice([5, 9, 17]) if n == 2 else rng.choice([8, 18, 34])
        scs.append(build_many_params(rng, "many_%d_%s_%d_g%d" % (k, typ, n, gap), typ, n, gap,
                                     rng.randrange(0, 14), between, rng.choice([1, 2]) if typ not in ("T16", "U16") else 3,
                                     with_second=(k % 2 == 0)))
    res = G.run_batch(ctx, exe, scs)
    bad = 0
    for sc in scs:
        r = res.get(sc.sid)
        if r is None:
            continue
        s = check_common(rec, sc, r, "many parameters " + sc.typ)
        ctx.count(("manyparams", sc.sid))
        if s is None:
            continue
        if s["rc"] != 0:
            bad += 1
            rec.add({"kind": "lm_failed", "type": sc.typ, "why": "many parameters"},
                    "self-calibration with %d parameters in the vnacal_t (index gap %d between the re-used unknown and an "
                    "early parameter) failed on exact data: %s" % (sc.meta["fillers"] + 3 * sc.meta["standards"], sc.meta["gap"],
                                                                    s.get("msg")), sc, r)
            continue
        want = sc.meta["expected_unknowns"]
        if int(s["unk"]) != want:
            bad += 1
            rec.add({"kind": "unknown_count", "class": "a handle used in two standards is one unknown"},
                    "the calibration works with %s unknown parameters although %d distinct unknown handles are used "
                    "(the unknown `u' appears in the first and in the last reflect standard; index gap %d, %d standards)"
                    % (s["unk"], want, sc.meta["gap"], sc.meta["standards"]), sc, r)
        pe, de = G.param_error(sc, r), G.dut_error(sc, r)
        pb, db = bounds(1e-9)
        if pe is None or pe > pb:
            bad += 1
            rec.add({"kind": "lm_param_error", "type": sc.typ, "weighted": False, "family": "many_parameters"},
                    "many parameters: solved parameters differ from the truth by %s (bound %.3g)" % (pe, pb), sc, r)
        if de is None or de > db:
            rec.add({"kind": "dut_error", "where": "many_parameters", "type": sc.typ},
                    "many parameters: calibration does not correct a device: %s" % de, sc, r)
    ctx.extra["many_parameters"] = {"scenarios": len(scs), "bad": bad}
    return bad == 0


# ----------------------------------------------------------------------------- shrinking grids
def _grid(rng, npts, lo=1.0e9, hi=4.0e9):
    if npts == 1:
        return [rng.uniform(lo, hi)]
    step = (hi - lo) / (npts - 1)
    return [lo + i * step + (rng.uniform(-0.2, 0.2) * step if 0 < i < npts - 1 else 0.0) for i in range(npts)]


def _offgrid(rng, grid):
    """frequencies that are not grid points: inside the first and the last segment, next to both ends, middle"""
    out = []
    if len(grid) >= 2:
        out.append(grid[0] + 0.37 * (grid[1] - grid[0]))
        out.append(grid[-1] - 0.41 * (grid[-1] - grid[-2]))
        out.append(grid[-1] - 1.0e-3 * (grid[-1] - grid[-2]))
        out.append(grid[0] + 1.0e-3 * (grid[1] - grid[0]))
        k = rng.randrange(0, len(grid) - 1)
        out.append(grid[k] + rng.uniform(0.2, 0.8) * (grid[k + 1] - grid[k]))
    rng.shuffle(out)
    return out


def build_shrinking_history(rng, sid, typ, n, lengths):
    r0 = G.crand(rng, 0.5, 0.9)
    slope = rng.uniform(0.03, 0.08) * rng.choice([-1, 1])

    def utruth(f):
        return r0 * cmath.exp(1j * slope * f / 1.0e9)
    base = G.crand(rng, 0.5, 0.9)
    grids = [_grid(rng, m) for m in lengths]
    sc = G.Scenario(sid, typ, n, grids[0])
    sc.history = []
    sc.offreads = []                       # (index of the solve whose values are stored, frequencies)
    fixed = [[G.rand_reflect(rng, k + port) for port in range(n)] for k in range(3)]
    extra = [[G.crand(rng, 0.4, 0.9) for port in range(n)] for k in range(2)]
    fulls = [G.rand_full_s(rng, n) for _ in range(2)] if n > 1 else []
    names = {}

    def kn(z):
        key = complex(z)
        if key not in names:
            names[key] = sc.known([z])
        return names[key]
    gname = sc._name("k")
    sc.lines.append("scalar %s %s" % (gname, G.cnum(utruth(2.5e9) * (1 + 0.03))))
    sc.lines.append("unknown u %s" % gname)
    bname = sc._name("k")
    sc.lines.append("scalar %s %s" % (bname, G.cnum(base)))
    sc.lines.append("correlated c %s 1 - 0.05" % bname)
    sc.truth = {}
    for gi, grid in enumerate(grids):
        if gi > 0:
            sc.lines.append("newcal %s %d %d %d %s" % (typ, n, n, len(grid), " ".join(G.fnum(f) for f in grid)))
        sc.freqs, sc.nf = list(grid), len(grid)
        em = G.ErrorModel(rng, typ, n, sc.nf)
        stds = []
        for k in range(3):
            stds.append(([kn(fixed[k][p]) for p in range(n)], [[fixed[k][p]] * sc.nf for p in range(n)]))
        stds.append((["u"] + [kn(extra[0][p]) for p in range(1, n)],
                     [[utruth(f) for f in grid]] + [[extra[0][p]] * sc.nf for p in range(1, n)]))
        stds.append(([kn(extra[1][p]) for p in range(n - 1)] + ["c"],
                     [[extra[1][p]] * sc.nf for p in range(n - 1)] + [[base] * sc.nf]))
        stds.append(([kn(extra[1][p] * 0.5) for p in range(n)], [[extra[1][p] * 0.5] * sc.nf for p in range(n)]))
        for nm, vals in stds:
            nmm = [[nm[i] if i == j else "zero" for j in range(n)] for i in range(n)]
            st = [[[vals[i][f] if i == j else 0j for j in range(n)] for i in range(n)] for f in range(sc.nf)]
            sc.add_mapped(nmm, [em.measure(st[f], f) for f in range(sc.nf)])
        for sf in fulls:
            nmm = [[kn(sf[i][j]) for j in range(n)] for i in range(n)]
            sc.add_mapped(nmm, [em.measure(sf, f) for f in range(sc.nf)])
        sc.cmd("ptol 1e-9")
        sc.cmd("ettol 1e-9")
        sc.solve()
        sc.cmd("getparam u")
        sc.cmd("getparam c")
        sc.history.append((list(grid), {"u": [utruth(f) for f in grid], "c": [base] * len(grid)}))
        # off-grid reads right after the solve, and once more (other frequencies) before the next one
        for _ in range(2):
            fs = _offgrid(rng, grid)
            if fs:
                for nm in ("u", "c"):
                    sc.cmd("getparamat %s %d %s" % (nm, len(fs), " ".join(G.fnum(f) for f in fs)))
                sc.offreads.append((gi, fs))
    sc.utruth = utruth
    sc.base = base
    sc.meta.update({"family": "shrinking_grids", "type": typ, "n": n, "lengths": list(lengths)})
    return sc


def part_shrinking_history(ctx, rec, exe, check_common, ncases):
    rng = ctx.rng
    patterns = [[20, 5, 12, 2], [16, 3, 24, 4], [9, 2, 7], [24, 6, 5, 18, 3], [12, 11, 4, 20, 2]]
    scs = []
    for k in range(ncases):
        typ = G.TYPES[k % len(G.TYPES)]
        n = 1 if k % 2 == 0 else 2
        lengths = patterns[k % len(patterns)] if k < len(patterns) else \
            [rng.choice([2, 3, 5, 8, 13, 21]) for _ in range(rng.choice([3, 4]))]
        scs.append(build_shrinking_history(rng, "shrink_%d_%s_%d" % (k, typ, n), typ, n, lengths))
    res = G.run_batch(ctx, exe, scs, per_timeout=40.0)
    ok = True
    for sc in scs:
        r = res.get(sc.sid)
        if r is None:
            continue
        s = check_common(rec, sc, r, "re-solve history with shrinking grids " + sc.typ)
        ctx.count(("shrinking", sc.sid))
        if s is None:
            ok = False
            continue
        failed = False
        for k, (grid, truth) in enumerate(sc.history):
            if k >= len(r["solve"]) or r["solve"][k]["rc"] != 0:
                rec.add({"kind": "lm_failed", "type": sc.typ, "why": "shrinking history step %d" % k},
                        "solve %d (grid of %d points) of a re-solve history failed: %s"
                        % (k, len(grid), r["solve"][k].get("msg") if k < len(r["solve"]) else "missing"), sc, r)
                ok = False
                failed = True
                break
            for nm in ("u", "c"):
                got = r["params"].get(nm, [])
                e = G.max_err(got[k], truth[nm]) if len(got) > k and len(got[k]) == len(truth[nm]) else None
                ctx.traces_validated += 1
                if e is None or not (e <= 1e-6):
                    ok = False
                    rec.add({"kind": "writeback", "param": nm, "class": "re-solved handle on a grid of another length"},
                            "after solve %d (grid of %d points, previous grid %s points) vnacal_get_parameter_value(%s) at the "
                            "calibration frequencies is off by %s"
                            % (k, len(grid), len(sc.history[k - 1][0]) if k else None, nm, e), sc, r)
        if failed:
            continue
        # off-grid reads: stored solve gi, frequencies fs; order of the paramat lines = order of the commands
        pa = r.get("paramat", {})
        for j, (gi, fs) in enumerate(sc.offreads):
            grid = sc.history[gi][0]
            for nm, fn in (("u", sc.utruth), ("c", lambda f: sc.base)):
                rows = pa.get(nm, [])
                if j >= len(rows) or len(rows[j]) != len(fs):
                    ok = False
                    rec.add({"kind": "writeback", "param": nm, "class": "off-grid read missing"},
                            "vnacal_get_parameter_value(%s) at off-grid frequencies after solve %d returned nothing" % (nm, gi), sc, r)
                    continue
                ctx.traces_validated += 1
                if len(grid) >= 5:
                    e = max(abs(a - fn(f)) for a, f in zip(rows[j], fs))
                    if not e <= 5e-3:
                        ok = False
                        rec.add({"kind": "writeback", "param": nm, "class": "off-grid value after a re-solve"},
                                "after solve %d (grid of %d points, previous %s) vnacal_get_parameter_value(%s) between grid points "
                                "is %.3g away from the (smooth) solved values"
                                % (gi, len(grid), len(sc.history[gi - 1][0]) if gi else None, nm, e), sc, r)
    ctx.obligation("tie:writeback_exact(shrinking grids, off-grid reads)", ok, "")
    return ok
