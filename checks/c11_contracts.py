"""C11: tie of the contracts generated from the C text (translate/contracts.py -> coq/Gen/ContractGen.v, run by
coq/Err/New2Base.v in the environments of coq/Err/New2Model.v) to the library.

Every row is one call with explicit argument values run by harness/err_contract.c on a freshly built object; the
model side is `crun (<environment of New2Model.v>) gen_contract_<function>` evaluated by coqc (vm_compute) for the
same arguments - for the calibration-table functions over the table the harness reports.  Compared line by line:

  model CRefused v (Direct E)   library: failure value v, errno = EINVAL, no call of the error function, digest unchanged
  model CRefused v (Via USAGE)  library: failure value v, errno = EINVAL, exactly one call, category VNAERR_USAGE, errno
                                inside the call = errno on return, one-line message, digest unchanged
  model CPass / CExitOk         library: no argument refusal (no silent EINVAL, no VNAERR_USAGE report); no call of the
                                error function when the call reports success (a later failure of the numeric work -
                                EDOM - is not this tie's subject)

The rows aim at the case splits of the theorems of Properties_C11.v section 10: every condition of every generated
contract is made true by at least one row and false by another (coverage is computed from the model side and reported
in the evidence: contract_steps_never_fired).
"""
import re

import vplib
import c11_catalogue as cat

FV = {"VM1": "m1", "VNULL": "null", "VHUGE": "huge"}
GETTERS = ["name", "type", "rows", "columns", "frequencies", "fmin", "fmax", "frequency_vector", "z0"]
PROPS = ["type", "count", "keys", "get", "set", "delete", "get_subtree", "set_subtree"]
HND = {0: "HOk", 1: "HNull", 2: "HBad"}


class Row(object):
    def __init__(self, func, h, args, model, text):
        self.func, self.h, self.args, self.model, self.text = func, h, list(args), model, text
        self.id = None
        self.doc = None          # documented outcome as a Gallina term (when not derived from the arguments in doc_term)

    def line(self):
        return "ct %s %s %d %s" % (self.id, self.func, self.h, " ".join(str(x) for x in self.args))

    def describe(self):
        return {"function": self.text, "handle": HND[self.h], "harness_line": self.line(),
                "model": self.model if isinstance(self.model, str) else "(over the table the harness reports)"}


def z(n):
    return "(%d)" % n


def q(num, den):
    return "None" if den == 0 else "(Some ((%d) # %d))" % (num, den)


def b(x):
    return "true" if x else "false"


def dlist(vals):
    return "[" + "; ".join("None" if v == -999999 else "(Some ((%d) # 1))" % v for v in vals) + "]"


NAN, PINF, NINF = -999999, -999998, -999997


def xv(v, den=1):
    return "XNaN" if v == NAN else "(XInf false)" if v == PINF else "(XInf true)" if v == NINF else "(XFin ((%d) # %d))" % (v, den)


def xlist(vals, den=1):
    return "[" + "; ".join(xv(v, den) for v in vals) + "]"


def fin(v):
    return v not in (NAN, PINF, NINF)


NSUM = "(mknsum 0 2 2 3 %s false (mknew [] 0 0 0 None))"


def gen_rows(ctx, info):
    rng = ctx.rng
    thorough = ctx.tier == "thorough"
    rows = []
    # ---- vnacal_new_alloc: every type value -2..10 x dimension classes around the tests
    dims = [(0, 1), (1, 0), (-1, 1), (1, 1), (1, 2), (2, 1), (2, 2), (3, 2), (2, 3)]
    for t in range(-2, 11):
        for (r, c) in dims:
            for f in ((0, -1, 3) if (r, c) in ((1, 1), (2, 1), (1, 2)) else (3,)):
                rows.append(Row("new_alloc", 0, [t, r, c, f],
                                "crun (env_new_alloc HOk %s %s %s %s) gen_contract_vnacal_new_alloc" % (z(t), z(r), z(c), z(f)),
                                "vnacal_new_alloc(type=%d, rows=%d, columns=%d, frequencies=%d)" % (t, r, c, f)))
    for h in (1, 2):
        rows.append(Row("new_alloc", h, [0, 1, 1, 3], "crun (env_new_alloc %s 0 1 1 3) gen_contract_vnacal_new_alloc" % HND[h],
                        "vnacal_new_alloc"))
    # ---- scalar setters
    names = [("vnacal_new_set_pvalue_limit", "significance"), ("vnacal_new_set_p_tolerance", "tolerance"),
             ("vnacal_new_set_et_tolerance", "tolerance")]
    vals = [(0, 1), (-1, 1000), (1, 1000), (1, 1), (1001, 1000), (3, 2), (-1, 1), (0, 0), (1, 2)]
    for which, (fn, var) in enumerate(names):
        for (n, d) in vals:
            rows.append(Row("set_dbl", 0, [which, n, d], 'crun (env_dbl HOk "%s" %s) gen_contract_%s' % (var, q(n, d), fn),
                            "%s(%s)" % (fn, "NaN" if d == 0 else "%d/%d" % (n, d))))
        for h in (1, 2):
            rows.append(Row("set_dbl", h, [which, 1, 2], 'crun (env_dbl %s "%s" %s) gen_contract_%s' % (HND[h], var, q(1, 2), fn), fn))
    for n in (-1, 0, 1, 2, 50):
        rows.append(Row("set_iter", 0, [n], 'crun (env_int HOk "iterations" %s) gen_contract_vnacal_new_set_iteration_limit' % z(n),
                        "vnacal_new_set_iteration_limit(%d)" % n))
    for h in (0, 1, 2):
        rows.append(Row("set_iter", h, [5], 'crun (env_int %s "iterations" 5) gen_contract_vnacal_new_set_iteration_limit' % HND[h],
                        "vnacal_new_set_iteration_limit"))
        rows.append(Row("set_z0", h, [], 'crun (env_int %s "unused" 0) gen_contract_vnacal_new_set_z0' % HND[h], "vnacal_new_set_z0"))
    # ---- set_frequency_vector (vectors of doubles with NaN and infinities: env_set_fv_x / doc_set_fv)
    fvs = [(1000, 2000, 3000), (0, 1, 2), (-1, 2000, 3000), (1000, 1000, 3000), (1000, 3000, 2000), (3000, 2000, 1000),
           (1000, 2000, 2000), (1000, -5, 3000)]
    for sp in (NAN, PINF, NINF):
        fvs += [(sp, 2000, 3000), (1000, sp, 3000), (1000, 2000, sp)]
    INFORCE = {0: xlist((0, 0, 0)), 1: xlist((1000, 2000, 3000)), 2: xlist((0, 0, 0)), 3: xlist((1000, 2000, 3000))}   # calloc / fvec
    def fv_row(state, fvalid, fv, rbad, note="", merror=False):
        sm = "(mknsum 0 2 2 3 %s %s (mknew [] 0 0 0 None))" % (b(fvalid), b(merror))
        rows.append(Row("set_fv", 0, [state, 0] + list(fv),
                        "crun (env_set_fv_x HOk %s %s (Some %s) %s) gen_contract_vnacal_new_set_frequency_vector"
                        % (sm, INFORCE[state], xlist(fv), b(rbad)), "vnacal_new_set_frequency_vector(%s)%s" % (fv, note)))
        rows[-1].doc = "doc_set_fv %s %s (Some %s) %s" % (sm, INFORCE[state], xlist(fv), b(rbad))
    for fvalid in (0, 1):
        for fv in fvs:
            fv_row(fvalid, fvalid, fv, False)
        rows.append(Row("set_fv", 0, [fvalid, 1, 0, 0, 0],
                        "crun (env_set_fv_x HOk %s [] None false) gen_contract_vnacal_new_set_frequency_vector" % (NSUM % b(fvalid)),
                        "vnacal_new_set_frequency_vector(NULL)"))
        rows[-1].doc = "doc_set_fv %s [] None false" % (NSUM % b(fvalid))
    # a measurement error model is set (frequencies 1000, 2000, 3000 MHz in force): the same vector is accepted, any other
    # refused (fix DM90; vnacal_new(3): set_frequency_vector must be called before set_m_error)
    for fv in [(1000, 2000, 3000), (1000, 2000, 3001), (999, 2000, 3000), (1000, 1500, 3000), (10000, 20000, 30000), (1000, 2000, 2000),
               (1000, 2000, NAN), (3000, 2000, 1000), (0, 2000, 3000), (1000, 2000, PINF)]:
        fv_row(3, 1, fv, False, " with a measurement error model set on 1000, 2000, 3000 MHz", merror=True)
    # a vector parameter with the range 1000..3000 MHz is in use by a standard: _vnacal_new_check_all_frequency_ranges decides
    # (atom:parameter_ranges_bad; the frequencies keep 5 MHz distance from (1 +- 1/100) x end of the parameter's range)
    for fv in [(1000, 2000, 3000), (995, 2000, 3005), (500, 2000, 3000), (1000, 2000, 4000), (100, 200, 300), (1500, 2000, 2500),
               (980, 2000, 3000), (1000, 2000, 3040), (3000, 2000, 1000), (NAN, 2000, 3000), (1200, 1200, 3000), (1000, 2000, PINF)]:
        f_lo, f_hi = [float("nan") if v == NAN else float("inf") if v == PINF else float("-inf") if v == NINF else float(v) for v in (fv[0], fv[2])]
        bad = 1000 > f_lo * 1.01 or 3000 < f_hi * 0.99
        fv_row(2, 0, fv, bad, " with a vector parameter 1000..3000 MHz in use")
    for h in (1, 2):
        rows.append(Row("set_fv", h, [1, 0, 1000, 2000, 3000],
                        "crun (env_set_fv_x %s %s [] (Some %s) false) gen_contract_vnacal_new_set_frequency_vector"
                        % (HND[h], NSUM % "true", xlist((1000, 2000, 3000))), "vnacal_new_set_frequency_vector"))
    # ---- set_m_error (env_set_m_error_x; documented column: doc_set_m_error, written from vnacal_new(3))
    def xo(l, den):
        return "None" if l is None else "(Some %s)" % xlist(l, den)
    def me_row(st, t, fvalid, n, fvl, nfl, trl, s16=False, note=""):
        # the harness vectors: three entries; frequency_vector[2] = [1] + 1000 MHz, sigma[2] = sigma[1] (special values repeat)
        used = (list(fvl) + [fvl[1] + 1000 if fin(fvl[1]) else fvl[1]])[:max(0, min(n, 3))] if fvl else None
        narrow = bool(used) and all(fin(x) for x in (used[0], used[-1])) and (used[0] > 1010 or used[-1] < 2970)
        if used and not all(fin(x) for x in (used[0], used[-1])):
            narrow = (used[0] == PINF or (fin(used[0]) and used[0] > 1010)) or (used[-1] == NINF or (fin(used[-1]) and used[-1] < 2970))
        cnt = max(0, min(n, 3))
        nfu = (nfl + [nfl[-1]])[:cnt] if nfl else None
        tru = (trl + [trl[-1]])[:cnt] if trl else None
        sm = "(mknsum %d 2 2 3 %s false (mknew [] 0 0 0 None))" % (t, b(fvalid))
        args = "(mkmerrx %s %s %s %s %s %s)" % (z(n), xo(used, 1), xo(nfu, 1000), xo(tru, 1000), b(narrow), b(s16))
        fa = [1] + (list(fvl) + [0])[:2] if fvl else [0, 0, 0]
        na = [1] + (list(nfl) + [nfl[-1]])[:2] if nfl else [0, 0, 0]
        ta = [1] + (list(trl) + [trl[-1]])[:2] if trl else [0, 0, 0]
        rows.append(Row("set_m_error", 0, [st, n] + fa + na + ta,
                        "crun (env_set_m_error_x HOk %s %s) gen_contract_vnacal_new_set_m_error" % (sm, args),
                        "vnacal_new_set_m_error(frequencies=%d, frequency_vector=%s MHz, sigma_nf=%s/1000, sigma_tr=%s/1000)%s"
                        % (n, fvl, nfl, trl, note)))
        rows[-1].doc = "doc_set_m_error %s %s" % (sm, args)
    me = []
    for fvalid in (0, 1):
        for n in (-1, 0, 1, 2, 3):
            for fvl in (None, [900, 3100], [3100, 900], [1500, 3100], [900, 2500], [2000, 2000]):
                for nfl in (None, [5, 7], [5, 0], [-1, 5]):
                    for trl in (None, [1, 2], [1, -1], [0, 0]):
                        me.append((fvalid, n, fvl, nfl, trl))
    if not thorough:
        keep = [m for m in me if m[1] in (0, 1, 2) and m[2] in (None, [900, 3100], [1500, 3100])][::3]
        me = keep + rng.sample(me, 120)
    for fvalid, n, fvl, nfl, trl in me:
        me_row(fvalid, 0, fvalid, n, fvl, nfl, trl, note=", frequency vector %s" % ("set" if fvalid else "not set"))
    # NaN, infinities and negative values in every position of the three vectors; frequencies = 1 with a frequency vector
    # the manual says is not used
    for sp in (NAN, PINF, NINF, -5):
        for n in (1, 2):
            me_row(1, 0, 1, n, [sp, 3100], [5, 7], None)
            me_row(1, 0, 1, n, [900, sp], [5, 7], None)
            me_row(1, 0, 1, n, [900, 3100], [sp, 7], [1, 2])
            me_row(1, 0, 1, n, [900, 3100], [5, sp], [1, 2])
            me_row(1, 0, 1, n, [900, 3100], [5, 7], [sp, 2])
            me_row(1, 0, 1, n, [900, 3100], [5, 7], [1, sp])
            me_row(1, 0, 1, n, None, [sp, 7], None)
    for sp in (NAN, PINF, NINF, -5):
        me_row(1, 0, 1, 3, [sp, 2000], [5, 7], None)           # {NaN, 2e9, 3e9}: aborted in _vnacommon_spline_eval before DC92
        me_row(1, 0, 1, 3, [900, sp], [5, 7], None)
    for fv1 in ([2000, 0], [500, 0], [4000, 0], [900, 3100]):
        me_row(1, 0, 1, 1, fv1, [5, 7], None, note=" (frequencies = 1: frequency_vector is not used)")
    # T16 2x2 with a frequency vector and one standard: a single reflect leaves S cells unspecified (atom:s_matrix_incomplete_16,
    # state 2), a double reflect does not (state 3)
    for st, s16 in ((2, True), (3, False)):
        for n, fvl, nfl, trl in ((1, None, [5], None), (1, None, [5], [1]), (2, [900, 3100], [5, 7], None), (2, [3100, 900], [5, 7], None),
                                 (2, [1500, 3100], [5, 7], None), (1, None, [0], None), (3, None, [5, 7], None), (2, None, [5, 7], None),
                                 (1, None, None, None), (0, None, [5], None), (1, None, None, [1])):
            me_row(st, 4, 1, n, fvl, nfl, trl, s16=s16, note=" on a T16 2x2 with a %s standard" % ("single reflect" if s16 else "double reflect"))
    for h in (1, 2):
        rows.append(Row("set_m_error", h, [1, 1, 0, 0, 0, 1, 5, 5, 0, 0, 0],
                        "crun (env_set_m_error_x %s %s (mkmerrx 1 None (Some [XFin (5 # 1000)]) None false false)) "
                        "gen_contract_vnacal_new_set_m_error" % (HND[h], NSUM % "true"), "vnacal_new_set_m_error"))
    # ---- solve (precondition), add_calibration, precision
    for fvalid in (0, 1):
        rows.append(Row("solve", 0, [fvalid], "crun (env_solve HOk %s) gen_contract_vnacal_new_solve" % (NSUM % b(fvalid)),
                        "vnacal_new_solve, frequency vector %s" % ("set" if fvalid else "not set")))
    rows.append(Row("solve", 1, [1], "crun (env_solve HNull %s) gen_contract_vnacal_new_solve" % (NSUM % "true"), "vnacal_new_solve"))
    for mode, (hn, other, solved) in enumerate([("HOk", 0, 1), ("HOk", 0, 0), ("HNull", 0, 0), ("HOk", 1, 1), ("HBad", 0, 0)]):
        for h in (0, 1, 2):
            rows.append(Row("add_calibration", h, [mode],
                            "crun (env_add_calibration %s %s %s %s) gen_contract_vnacal_add_calibration" % (HND[h], hn, b(other), b(solved)),
                            "vnacal_add_calibration, vnp %s" % ["solved", "not solved", "NULL", "of another vnacal_t", "wrong magic"][mode]))
    for which, fn in enumerate(("vnacal_set_fprecision", "vnacal_set_dprecision")):
        for p in (-1, 0, 1, 2, 6, 999, 1000, 1001, 100000):
            rows.append(Row("precision", 0, [which, p], "crun (env_precision HOk %s) gen_contract_%s" % (z(p), fn), "%s(%d)" % (fn, p)))
        steps = dict((f, st) for f, _, st in info["contracts"]).get(fn)
        if steps and steps[0].startswith("SDirect"):
            # the function tests its vnacal_t pointer (fix DC91): NULL / wrong magic number must be refused
            for h in (1, 2):
                for p in (0, 6):
                    rows.append(Row("precision", h, [which, p], "crun (env_precision %s %s) gen_contract_%s" % (HND[h], z(p), fn),
                                    "%s(%d)" % (fn, p)))
        else:
            cat.SKIPPED.append(("contract rows %s [handle=NULL / wrong magic]" % fn,
                                "the C function has no test of its vnacal_t pointer (dereferenced in _vnacal_error and by the store): "
                                "outside the property's valid object pointers; repair offered as fixes/DC91_precision_handle_test.diff"))
    # ---- the calibration table: getters, property calls, apply
    # ncal >= 10: ncal % 10 calibrations and one more WITHOUT frequency points (get_fmin / get_fmax, the range tests of apply)
    tables = [(0, 0), (1, 0), (1, 1), (2, 1), (2, 2), (3, 0), (3, 2), (3, 5), (10, 0), (11, 0), (12, 1)]
    for (ncode, holes) in tables:
        ncal = ncode % 10 + (1 if ncode >= 10 else 0)
        al = 0 if ncal == 0 else 1 if ncal == 1 else 8
        cis = sorted(set([-2, -1, 0, ncal - 1, ncal, al - 1, al, al + 1, 1000]))
        for g, name in enumerate(GETTERS):
            for ci in (cis if thorough or g in (0, 2, 5, 6, 8) else cis[::2]):
                rows.append(Row("get", 0, [g, ncode, holes, ci], ("get", g, ci, "HOk"), "vnacal_get_%s(ci=%d), %d slots, deleted mask %d"
                                % (name, ci, al, holes)))
        for p, name in enumerate(PROPS):
            for ci in (cis if thorough or p in (3, 4, 7) else cis[1::2]):
                rows.append(Row("prop", 0, [p, ncode, holes, ci], ("prop", p, ci, "HOk"), "vnacal_property_%s(ci=%d), %d slots, deleted "
                                "mask %d" % (name, ci, al, holes)))
    for h in (1, 2):
        for g in range(9):
            rows.append(Row("get", h, [g, 1, 0, 0], ("get", g, 0, HND[h]), "vnacal_get_%s" % GETTERS[g]))
        for p in range(8):
            rows.append(Row("prop", h, [p, 1, 0, -1], ("prop", p, -1, HND[h]), "vnacal_property_%s" % PROPS[p]))
    # apply: one argument moved off a valid tuple at a time, plus random tuples
    def apply_row(ncal, holes, ci, variant, fvnull, n, f0, f1, bnull, br, bc, bcell, ag, ar, ac, acell, outnull, h=0):
        args = [ncal, holes, ci, variant, fvnull, n, f0, f1, bnull, br, bc, bcell, ag, ar, ac, acell, outnull]
        rows.append(Row("apply", h, args, ("apply", args, HND[h]),
                        "vnacal_apply%s(ci=%d, frequency_vector=%s, frequencies=%d, %s %dx%d%s%s%s%s)"
                        % ("_m" if variant == 0 else "", ci, "NULL" if fvnull else "[%s, %s] MHz" % tuple(
                            {NAN: "NaN", PINF: "+inf", NINF: "-inf"}.get(x, x) for x in (f0, f1)), n,
                           "m" if variant == 0 else "b", br, bc, " NULL" if bnull else "", " with a NULL cell" if bcell else "",
                           (", a %dx%d%s" % (ar, ac, " with a NULL cell" if acell else "")) if ag and variant else "",
                           ", s_parameters=NULL" if outnull else "")))
    for (ncal, holes) in ((2, 0), (3, 2), (1, 1), (0, 0), (10, 0), (11, 0)):
        for ci in (-1, 0, 1, 2, 8, 9):
            for variant in (0, 1):
                for dim in (1, 2):
                    base = dict(fvnull=0, n=2, f0=1500, f1=2500, bnull=0, br=dim, bc=dim, bcell=0, ag=variant, ar=dim, ac=dim, acell=0, outnull=0)
                    alts = [{}, {"fvnull": 1}, {"n": -1}, {"n": 0}, {"n": 1}, {"f0": 2500, "f1": 1500}, {"f0": 2000, "f1": 2000},
                            {"f0": 500}, {"f1": 4000}, {"n": 0, "f0": 500, "f1": 4000}, {"bnull": 1}, {"br": dim + 1}, {"bc": dim + 1},
                            {"br": 0}, {"bcell": 1}, {"outnull": 1}, {"n": 1, "f0": 4000}, {"n": 1, "f0": 500},
                            {"f0": NAN}, {"f1": NAN}, {"n": 1, "f0": NAN}, {"f0": NINF}, {"f1": PINF}, {"n": 0, "f0": NAN}]
                    if variant:
                        alts += [{"ar": 1}, {"ar": dim + 1}, {"ac": dim + 1}, {"acell": 1}, {"ag": 0}]
                    if not thorough:
                        alts = alts[:1] + rng.sample(alts[1:], 6)
                    for alt in alts:
                        d = dict(base)
                        d.update(alt)
                        apply_row(ncal, holes, ci, variant, **d)
    for h in (1, 2):
        apply_row(1, 0, 0, 0, 0, 2, 1500, 2500, 0, 1, 1, 0, 0, 0, 0, 0, 0, h=h)
    # ---- vector arguments of the parameter functions (not translated by contracts.py: documented column only)
    usage = "CRefused VM1 (Via USAGE)"
    pvs = [(1000, 2000, 3000), (0, 1, 2), (-1, 2000, 3000), (1000, 1000, 3000), (3000, 2000, 1000)]
    for sp in (NAN, PINF, NINF):
        pvs += [(sp, 2000, 3000), (1000, sp, 3000), (1000, 2000, sp)]
    for fv in pvs:
        rows.append(Row("make_vector", 0, list(fv), None, "vnacal_make_vector_parameter(frequency_vector=%s MHz)" % (fv,)))
        rows[-1].doc = "if forallb xfreq_ok %s && xascending %s then CPass else %s" % (xlist(fv), xlist(fv), usage)
    cvs = [(1000, 3000, 10, 20), (3000, 1000, 10, 20), (1000, 1000, 10, 20), (-1, 3000, 10, 20), (1000, 3000, 0, 20), (1000, 3000, 10, -1)]
    for sp in (NAN, PINF, NINF):
        cvs += [(sp, 3000, 10, 20), (1000, sp, 10, 20), (1000, 3000, sp, 20), (1000, 3000, 10, sp)]
    for cv in cvs:
        rows.append(Row("make_corr", 0, list(cv), None,
                        "vnacal_make_correlated_parameter(sigma_frequency_vector=%s MHz, sigma_vector=%s/1000)" % (cv[:2], cv[2:])))
        rows[-1].doc = ("if forallb xfreq_ok %s && xascending %s && forallb xsigma_pos %s then CPass else %s"
                        % (xlist(cv[:2]), xlist(cv[:2]), xlist(cv[2:], 1000), usage))
    for f in (2000, 1000, 3000, 500, 4000, -5, NAN, PINF, NINF):
        ok = fin(f) and 990 <= f <= 3030
        rows.append(Row("get_pv", 0, [f], None, "vnacal_get_parameter_value(vector parameter 1000..3000 MHz, %s MHz)" % f))
        rows[-1].doc = "CPass" if ok else "CRefused VHUGE (Via USAGE)"
    return rows


def doc_term(row, res):
    """The outcome the hand-written decision functions / documented validity predicates of New2Model.v (the right-hand
    sides of the theorems of Properties_C11.v section 10) give for the row."""
    fvs = {"new_alloc": "VNULL"}
    a = row.args
    if row.func == "get":
        fv = ["VNULL", "VM1", "VM1", "VM1", "VM1", "VHUGE", "VHUGE", "VNULL", "VHUGE"][a[0]]
    elif row.func == "prop":
        fv = ["VM1", "VM1", "VNULL", "VNULL", "VM1", "VM1", "VNULL", "VNULL"][a[0]]
    else:
        fv = fvs.get(row.func, "VM1")
    bad = "CRefused %s (Direct E_INVAL)" % fv
    if row.h != 0 and not (row.func == "solve" and row.h == 2):
        return bad
    if row.doc is not None:
        return row.doc
    usage = "CRefused %s (Via USAGE)" % fv
    if row.func == "new_alloc":
        return "lift (check_new_alloc %s %s %s %s)" % (z(a[0]), z(a[1]), z(a[2]), z(a[3]))
    if row.func == "set_dbl":
        return "lift (%s true %s)" % ("check_set_pvalue_with" if a[0] == 0 else "check_set_tolerance_with", q(a[1], a[2]))
    if row.func == "set_iter":
        return "lift (check_set_iteration %s)" % z(a[0])
    if row.func == "set_z0":
        return "CPass"
    if row.func == "set_fv":
        m = re.search(r"env_set_fv HOk (\(mknsum.*?\)\)) (None|\(Some \[.*?\]\)) (true|false)\)", row.model)
        return "lift (check_set_fv %s %s %s)" % (m.group(1), m.group(2), m.group(3))
    if row.func == "set_m_error":
        m = re.search(r"env_set_m_error HOk (\(mknsum.*?\)\)) (\(mkmerr .*\))\) gen_contract", row.model)
        return ("match set_m_error_decision %s %s with MRefuse => %s | MExitD => CExitOk | MPassD => CPass end"
                % (m.group(1), m.group(2), usage))
    if row.func == "solve":
        return "if %s then CPass else %s" % (b(a[0]), usage)
    if row.func == "add_calibration":
        hn, other, solved = [("HOk", 0, 1), ("HOk", 0, 0), ("HNull", 0, 0), ("HOk", 1, 1), ("HBad", 0, 0)][a[0]]
        return "if add_calibration_valid %s %s %s then CPass else %s" % (hn, b(other), b(solved), usage)
    if row.func == "precision":
        return "if (1 <=? %s) && (%s <=? 1000) then CPass else %s" % (z(a[1]), z(a[1]), usage)
    tb = table_term(res.get("tab", "empty"))
    if row.func == "get":
        return "if get_valid %s %s %s then CPass else %s" % (b(a[0] in (5, 6)), tb, z(a[3]), bad)
    if row.func == "prop":
        return "if property_ci_valid %s %s then CPass else %s" % (tb, z(a[3]), bad)
    return model_term(row, res, doc=True)


def table_term(tab):
    if tab == "empty":
        return "[]"
    out = []
    for e in tab.split(","):
        if e == "-":
            out.append("None")
        else:
            t, r, c, f = e.split(":")
            out.append("(Some (mkcal %s %s %s %s))" % (t, r, c, f))
    return "[" + "; ".join(out) + "]"


def model_term(row, res, doc=False):
    m = row.model
    if m is None:
        return doc_term(row, res)
    if isinstance(m, str):
        return m
    tb = table_term(res.get("tab", "empty"))
    if m[0] == "get":
        return "crun (env_get %s %s %s) gen_contract_vnacal_get_%s" % (m[3], tb, z(m[2]), GETTERS[m[1]])
    if m[0] == "prop":
        return "crun (env_get %s %s %s) gen_contract_vnacal_property_%s" % (m[3], tb, z(m[2]), PROPS[m[1]])
    a = m[1]
    ncal, holes, ci, variant, fvnull, n, f0, f1, bnull, br, bc, bcell, ag, ar, ac, acell, outnull = a
    def num(v):
        return float("nan") if v == NAN else float("inf") if v == PINF else float("-inf") if v == NINF else float(v)
    used = [num(f0), num(f1)][:max(0, min(n, 2))]
    fnan = any(x != x for x in used)
    notasc = len(used) == 2 and used[0] >= used[1]
    below = bool(used) and used[0] < 900
    above = bool(used) and used[-1] > 3100
    aopt = "(Some (%s, %s))" % (z(ar), z(ac)) if (variant == 1 and ag) else "None"
    if doc:
        return ("if apply_valid_with true %s (mkapp %s %s %s %s %s %s %s %s %s %s %s %s %s %s) then CPass else CRefused VM1 (Via USAGE)"
                % (tb, z(ci), b(fvnull), z(n), b(fnan), b(notasc), b(below), b(above), b(bnull), z(br), z(bc), b(bcell), aopt, b(acell), b(outnull)))
    return ("crun (env_apply %s %s (mkapp %s %s %s %s %s %s %s %s %s %s %s %s %s %s)) gen_contract_vnacal_apply_common"
            % (m[2], tb, z(ci), b(fvnull), z(n), b(fnan), b(notasc), b(below), b(above), b(bnull), z(br), z(bc), b(bcell), aopt, b(acell), b(outnull)))


PRELUDE = """Require Import String List ZArith QArith Bool.
Import ListNotations.
Require Import LV.Err.ErrBase LV.Gen.ErrnoGen LV.Err.ContractModel LV.Err.RefutedModel LV.Err.NewModel LV.Err.New2Base LV.Gen.ContractGen LV.Err.New2Model.
Open Scope string_scope. Open Scope Z_scope.
Definition fvc (v : fval) : Z := match v with VM1 => 1 | VNULL => 2 | VHUGE => 3 end.
Definition catc (c : category) : Z := match c with SYSTEM => 0 | USAGE => 1 | VERSION => 2 | SYNTAX => 3 | WARNING => 4 | MATH => 5 | INTERNAL => 6 end.
Definition code (o : cout) : Z :=
  match o with
  | CPass => 0 | CExitOk => 1
  | CRefused v (Direct E_INVAL) => 10 + fvc v
  | CRefused v (Direct _) => 20 + fvc v
  | CRefused v (Via c) => 100 + 10 * catc c + fvc v
  end.
"""
FVC = {1: "m1", 2: "null", 3: "huge"}


def compare(row, code, r):
    """-> list of (key, text)"""
    if "crash" in r:
        s = r["crash"]
        return [("crash", "the call did not return: %s in %s" % (s.get("error"), s.get("function")))]
    out = []
    failed = cat.has_failed(r)
    cb = int(r["cb"])
    if code in (0, 1):
        arg_refusal = failed and (("1" in r["cats"]) or (cb == 0 and r["errno"] == "EINVAL"))
        if arg_refusal:
            out.append(("refused-valid", "the contract read from the C text passes these arguments, the library refuses them: ret=%s "
                        "errno=%s callbacks=%d msg=%s" % (r["ret"], r["errno"], cb, r.get("msg"))))
        if not failed and cb != 0:
            out.append(("callback-on-success", "call reported success but invoked the error function %d time(s)" % cb))
        if failed and cb != 1 and not arg_refusal and row.func not in ("get", "prop"):
            out.append(("callbacks", "a failure in the work of the call was reported %d time(s)" % cb))
        return out
    fv = FVC[code % 10]
    via = code >= 100
    if not failed:
        return [("accepted-invalid", "the contract refuses these arguments, the library reported success (ret=%s)" % r["ret"])]
    if r["ret"] != fv:
        out.append(("failure-value", "failure value %s, contract %s" % (r["ret"], fv)))
    if r["errno"] != "EINVAL":
        out.append(("errno", "errno %s, contract EINVAL" % r["errno"]))
    if via:
        if cb != 1:
            out.append(("callbacks", "error function called %d time(s), contract: exactly once (categories %s)" % (cb, r["cats"])))
        elif r["cats"] != str((code // 10) % 10):
            out.append(("category", "reported with category %s, contract %d" % (r["cats"], (code // 10) % 10)))
        if cb and r["ecb"] != r["errno"]:
            out.append(("errno-in-callback", "errno inside the error function %s, on return %s" % (r["ecb"], r["errno"])))
        if int(r["nl"]) != 0:
            out.append(("multi-line", "message contains a newline"))
    elif cb != 0:
        out.append(("callbacks", "a silent refusal called the error function %d time(s)" % cb))
    if r["d0"] != r["d1"]:
        out.append(("changed", "refused call changed the object: digest %s -> %s" % (r["d0"], r["d1"])))
    return out


def add_common_model_rows(ctx, broken):
    """_vnacal_new_add_common: the contract generated from the C text in the hand-written environment env_add against the
    hand-written decision function check_add of NewModel.v (which the extracted-driver tie compares with the library) on
    generated argument tuples - every calibration type, near-valid tuples with one field perturbed and random ones, cells
    naming valid / invalid parameters, error model set / not set for T16 / U16.  (The equality is proved only in this
    tested form: see docs/design_C11.md.)"""
    shapes = [(t, r, c) for t in range(0, 8) for (r, c) in ((1, 1), (2, 2), (3, 3), (2, 1), (1, 2), (2, 3), (3, 2))
              if (r <= c if t in (0, 2, 4) else r >= c)]
    tuples = cat.gen_add_tuples(ctx, shapes, 12 if ctx.tier != "thorough" else 60)
    terms = []
    for (t, r, c), a in tuples:
        for merror in ((0, 1) if t in (4, 5) else (0,)):
            cells = "[" + "; ".join("ChEnd %s true false 0%%Q None" % z(h) if h in (0, 1, 2, cat.H_SCALAR, cat.H_UNKNOWN) else "ChNone %s" % z(h)
                                    for h in a["cells"]) + "]"
            mp = "None" if a["mapm"] is None else "(Some [" + "; ".join(z(x) for x in a["mapm"]) + "])"
            ao = "(Some (%s, %s))" % (z(a["ar"]), z(a["ac"])) if (a["ar"] or a["ac"]) else "None"
            inc = 1 if (a["mapm"] is not None and len(set(a["mapm"])) < max(r, c)) else 0
            terms.append("(mknsum %d %d %d 3 true %s (mknew [] 0 0 0 None), mkadd %s %s %s %s %s %s %s %s %s %s)"
                         % (t, r, c, b(merror), b(a["b_null"]), ao, z(a["br"]), z(a["bc"]), z(a["sr"]), z(a["sc"]), mp, cells,
                            b(a["asing"]), b(inc)))
    body = (PRELUDE + "Definition same (p : nsum * addargs) : bool := Z.eqb (code (crun (env_add (fst p) (snd p)) "
            "gen_contract_vnacal_new_add_common)) (code (lift (check_add (fst p) (snd p)))).\n"
            "Definition rows : list (nsum * addargs) := [" + ";\n".join(terms) + "].\n"
            "Eval vm_compute in (map (fun p => code (crun (env_add (fst p) (snd p)) gen_contract_vnacal_new_add_common)) rows, "
            "map (fun p => code (lift (check_add (fst p) (snd p)))) rows).\n")
    rc, out, err = ctx.coq_eval("add_common_rows", body, timeout=900)
    m = re.search(r"=\s*\(\[(.*?)\],\s*\[(.*?)\]\)", out, flags=re.S)
    if rc != 0 or not m:
        broken["tie:add_common-model"] = "coqc could not evaluate the add_common rows: %s" % (err[-400:] or out[-400:])
        ctx.obligation("tie:add_common-contract-vs-check_add", False, "not evaluated")
        return
    ca = [int(x) for x in re.findall(r"-?\d+", m.group(1))]
    cb = [int(x) for x in re.findall(r"-?\d+", m.group(2))]
    diff = [i for i in range(len(terms)) if i >= len(ca) or i >= len(cb) or ca[i] != cb[i]]
    for i in range(len(terms)):
        ctx.count(("add_common", ca[i]) if i < len(ca) and ca[i] else None)
    ctx.traces_validated += len(terms)
    ctx.extra["add_common_model_rows"] = len(terms)
    ctx.extra["add_common_outcomes"] = sorted(set(ca))
    ctx.obligation("tie:add_common-contract-vs-check_add", not diff and len(ca) == len(terms),
                   "; ".join("%s: contract %s, check_add %s" % (terms[i][:200], ca[i] if i < len(ca) else "?", cb[i] if i < len(cb) else "?")
                             for i in diff[:2]))
    if diff:
        broken["tie:add_common-contract-vs-check_add"] = ("the contract of _vnacal_new_add_common read from the C text and NewModel.check_add "
                                                          "disagree on %d of %d generated tuples, first: %s" % (len(diff), len(terms), terms[diff[0]][:300]))


def run_tie(ctx, broken, info):
    """info = None: the translator refused the C text (coq/Gen/ContractGen.v is stale): only the documented decisions are
    compared with the library - the search for a failing input behind the broken obligation T3:contracts."""
    doc_only = info is None
    if doc_only:
        info = {"contracts": []}
    else:
        add_common_model_rows(ctx, broken)
    try:
        exe = ctx.build_harness("err_contract", san=True)
    except vplib.BuildError as e:
        broken["harness:err_contract"] = str(e)[-600:]
        ctx.obligation("tie:contracts", False, "harness does not build")
        return
    runner = cat.Runner(ctx, exe, ctx.run_env(leak=False))
    rows = gen_rows(ctx, info)
    res = runner.run(rows)
    terms = []
    for row in rows:
        r = res.get(row.id, {"crash": {"kind": "fault", "error": "no result", "function": None}})
        terms.append(doc_term(row, r if "crash" not in r else {}) if (doc_only or row.model is None)
                     else model_term(row, r if "crash" not in r else {}))
    for row in rows:
        r = res.get(row.id, {"crash": {"kind": "fault", "error": "no result", "function": None}})
        terms.append(doc_term(row, r if "crash" not in r else {}))
    body = PRELUDE + "Eval vm_compute in [" + ";\n".join("code (%s)" % t for t in terms) + "].\n"
    rc, out, err = ctx.coq_eval("contract_rows", body, timeout=900)
    m = re.search(r"=\s*\[(.*?)\]\s*:\s*list Z", out, flags=re.S)
    if rc != 0 or not m:
        broken["tie:contracts-model"] = "coqc could not evaluate the contract rows: %s" % (err[-400:] or out[-400:])
        ctx.obligation("tie:contracts", False, "model side not evaluated")
        return
    codes = [int(x) for x in re.findall(r"-?\d+", m.group(1))]
    if len(codes) != 2 * len(rows):
        broken["tie:contracts-model"] = "model answered %d rows of %d" % (len(codes), 2 * len(rows))
        ctx.obligation("tie:contracts", False, "row count")
        return
    doc_codes = codes[len(rows):]
    codes = codes[:len(rows)]
    bad = []
    docbad = []
    for row, code, dcode in zip(rows, codes, doc_codes):
        r = res.get(row.id, {"crash": {"kind": "fault", "error": "no result", "function": None}})
        ctx.traces_validated += 1
        probs = compare(row, dcode, r)
        if probs:
            docbad.append((row, dcode, code, r, probs))
    ctx.obligation("tie:contracts-documented", not docbad,
                   "; ".join("%s: %s" % (b_[0].text, b_[4][0][1]) for b_ in docbad[:3])[:600])
    seen = set()
    downstream = None
    for row, dcode, code, r, probs in docbad:
        key = (row.text.split("(")[0].split(",")[0], probs[0][0], row.h)
        if key in seen:
            continue
        seen.add(key)
        extra = {}
        if row.func == "set_dbl" and row.args[2] == 0 and probs[0][0] == "accepted-invalid":
            # what the accepted NaN does later: vnacal_new_solve of a system with an unknown parameter and an error model
            if downstream is None:
                drows = [Row("nan_down", 0, [k], "", lab) for k, lab in ((3, "no NaN (base line)"), (0, "p-value limit NaN"),
                                                                        (1, "p tolerance NaN"), (2, "et tolerance NaN"))]
                dres = runner.run(drows)
                downstream = dict((d.text, "vnacal_new_solve: ret=%s errno=%s msg=%s" % (dres[d.id].get("ret"), dres[d.id].get("errno"),
                                                                                        dres[d.id].get("msg"))) for d in drows)
            extra = {"downstream": downstream, "repair": "fixes/DC90_setters_refuse_nan.diff"}
        ctx.violation({"kind": "contract_documented", "function": row.text.split("(")[0].split(",")[0], "problem": probs[0][0]},
                      "%s [handle %s]: %s" % (row.text, HND[row.h],
                                              "; ".join(p[1].replace("the contract read from the C text", "the documented contract")
                                                        .replace("the contract refuses", "the documented contract refuses")
                                                        for p in probs)),
                      {"how": "harness/err_contract.c run <tmp> with the line below on stdin; expectation: the decision function / "
                              "validity predicate of coq/Err/New2Model.v, NewModel.v the theorems of Properties_C11.v section 10 "
                              "equate the generated contract with",
                       "harness_line": row.line(), "documented_term": doc_term(row, r if "crash" not in r else {}),
                       "documented_code": dcode, "generated_contract_code": code, "library": r.get("raw", r.get("stderr", ""))[:800],
                       "problems": [p[1] for p in probs], **extra})
    fired = {}
    for row, code in zip(rows, codes):
        r = res.get(row.id, {"crash": {"kind": "fault", "error": "no result", "function": None}})
        key = (row.func, tuple(row.args[:1]) if row.func in ("set_dbl", "precision", "get", "prop") else (), code)
        ctx.count(key if code not in (0, 1) else None)
        ctx.traces_validated += 1
        fired.setdefault(row.func, set()).add(code)
        probs = compare(row, code, r) if row.model is not None else []
        if probs:
            bad.append((row, code, r, probs))
    if doc_only:
        bad = []
    ctx.obligation("tie:contracts", not bad and not doc_only, "not run: translator failed" if doc_only else "; ".join("%s: %s" % (b_[0].text, b_[3][0][1]) for b_ in bad[:3])[:600])
    ctx.extra["contract_tie_rows"] = len(rows)
    ctx.extra["contract_tie_outcomes"] = dict((k, sorted(v)) for k, v in sorted(fired.items()))
    for row in rows[:3] + [x[0] for x in bad[:2]]:
        ctx.sample(row.describe())
    seen = set()
    for row, code, r, probs in bad:
        key = (row.func, probs[0][0], row.h)
        if key in seen:
            continue
        seen.add(key)
        ctx.violation({"kind": "contract_tie", "function": row.text.split("(")[0].split(",")[0], "problem": probs[0][0]},
                      "%s [handle %s]: %s" % (row.text, HND[row.h], "; ".join(p[1] for p in probs)),
                      {"how": "harness/err_contract.c run <tmp> with the line below on stdin; model: coqc on the term below",
                       "harness_line": row.line(), "model_term": model_term(row, r if "crash" not in r else {}),
                       "model_code": code, "library": r.get("raw", r.get("stderr", ""))[:800],
                       "problems": [p[1] for p in probs]})
