"""C03 - no API call sequence corrupts memory, invokes undefined behaviour or leaks.

1. Coq: coq/Mem/*.v (ledger, checked arrays, pointer-level models of six pieces of allocation /
   indexing logic) and coq/Properties_C03.v are rebuilt; every theorem is an obligation.
2. Tie: the same op scripts run on the extracted models (ocaml/drv_mem) and on the C harness
   (harness/mem_wb.c white-box ops); outcome class and live-block counts are compared after
   each op, for the two hash tables (coq/Mem/HashTab.v) also the chains bucket for bucket; the
   refutation witnesses of the development are replayed on the C side.
3. Support / search (never counted as proof): API histories over the whole public API
   (vnaproperty, vnadata, vnacal, vnacal_new) run under ASan+UBSan+LSan with the allocation
   interposer: corpus/C03 first, directed scripts, generated histories (grammar + malformed
   stream), thorough: bounded-exhaustive short prefixes.  Any sanitizer report, assertion,
   crash, timeout or non-zero final live count is a violation (shrunk by delta debugging).
"""
import glob
import itertools
import json
import os

import vplib
import mem_gen
import mem_tie

CORPUS = os.path.join(vplib.VERIF, "corpus", "C03")

SOL1 = ["nsr 0 1 1 0 0 2 1 -1 0", "nsr 0 1 1 0 0 1 1 1 0", "nsr 0 1 1 0 0 0 1 0 0"]
SOLT2 = ["nsr 0 2 2 0 0 %d %d %s 0" % (s, p, g) for p in (1, 2) for s, g in ((2, "-1"), (1, "1"), (0, "0"))] + ["nthru 0 2 2 0 0 1 2"]

# directed scripts: one per candidate defect of DESIGN.md section 7 that touches C03 (each is the
# concrete reproducer; when the defect is repaired the script simply passes)
DIRECTED = {
    "D1_get_subtree_trailing": ["pset 0 a=1", "pgetsub 0 a="],
    "D2_list_delete_full": ["pset 0 l[+]=%d" % i for i in range(8)] + ["pdel 0 l[0]"],
    "D2_list_delete_leak": ["pset 0 l[+]=x", "pset 0 l[+]=y", "pdel 0 l[0]"],
    "D3_map_subtree_lookup_leak": ["pset 0 a=1", "pget 0 b"],
    "D4_z0_port_eq_ports": ["dalloc 0 1", "dinit 0 1 2 2 1", "dgetz0 0 2", "dsetz0 0 2 1 1", "dgetfz0 0 0 2", "dsetfz0 0 0 2 1 1"],
    "D7_extend_f_fz0": ["dalloc 0 1", "dinit 0 0 0 0 1", "dsetfz0v 0 0 0 30", "dresize 0 0 0 0 3", "dresize 0 1 2 2 3", "ddig 0"],
    "D13_zero_frequencies": ["ccreate 0 1", "nalloc 0 0 0 1 1 0", "nsetfv 0 0"],
    "D14_rows_gt_columns": ["ccreate 0 1", "nalloc 0 0 1 2 1 1", "nsetfv 0 0", "nmm 0 2 1 0 0 2 2 0 0 0 0 0 0 0 0 0", "nmm 0 2 1 0 0 1 1 1 2 1 -1"],
    "D15_add_leak": ["ccreate 0 1", "nalloc 0 0 0 1 1 1", "nsetfv 0 0", "nsr 0 1 1 0 0 2 1 -1 0"],
    "D19_solve_update_s": ["ccreate 0 1", "cunknown 0 2", "nalloc 0 0 0 1 1 1", "nsetfv 0 0", "nsr 0 1 1 0 0 3 1 -1 0", "nsolve 0"],
    "D21_solve_fail_paths": ["ccreate 0 1", "nalloc 0 0 0 2 2 2", "nsetfv 0 0", "nsr 0 2 2 0 0 2 1 -1 0", "nsolve 0"],
    "D22_solve_no_equations": ["ccreate 0 1", "nalloc 0 0 0 1 1 1", "nsetfv 0 0", "nsolve 0"],
    "D24_spline_two_points": ["ccreate 0 1", "cscalar 0 0.5 0", "ccorr 0 3 2 0", "cpval 0 4 1e9"],
    "D26_save_precision": ["ccreate 0 1", "nalloc 0 0 0 1 1 1", "nsetfv 0 0", "nsr 0 1 1 0 0 2 1 -1 0", "nsr 0 1 1 0 0 1 1 1 0",
                           "nsr 0 1 1 0 0 0 1 0 0", "nsolve 0", "caddcal 0 cal0 0", "csetfp 0 30", "csetdp 0 30", "csave 0 0",
                           "csetfp 0 1000", "csetdp 0 1000", "csave 0 1"],
    "D28_yaml_parser_leak": ["pimports 0 a:%201%0A 1"],
    "D37_free_calibrations": ["ccreate 0 1", "nalloc 0 0 0 1 1 1", "nsetfv 0 0", "nsr 0 1 1 0 0 2 1 -1 0", "nsr 0 1 1 0 0 1 1 1 0",
                              "nsr 0 1 1 0 0 0 1 0 0", "nsolve 0", "caddcal 0 cal0 0", "cfree 0"],
    "D39_list_index_overflow": ["pset 0 [2147483647]=x"],
    "D40_resize_overflow": ["dalloc 0 1", "dresize 0 0 65536 65536 0"],
    "D63_new_zero_frequencies": ["ccreate 0 1", "nalloc 1 0 4 2 2 0", "nsetfv 1 0", "nthru 1 2 2 0 0 1 2", "nmerr 1 2 0", "nsr 1 2 2 0 0 2 1 -1 0", "nsolve 1"],
    "vla_nonpositive_s_dims": ["ccreate 0 1", "nalloc 0 0 0 2 2 1", "nsetfv 0 0", "nmm 0 2 2 0 0 0 0 0"],
    "vla_negative_s_dims": ["ccreate 0 1", "nalloc 0 0 0 2 2 1", "nsetfv 0 0", "nmm 0 2 2 0 0 -1 1 0"],
    "teardown_deleted_held": ["ccreate 0 1", "cscalar 0 0.5 0", "cscalar 0 0.25 0", "cpdel 0 3", "cunknown 0 4", "cpdel 0 4", "cfree 0"],
    "param_reuse_chain": ["ccreate 0 1", "cscalar 0 0.5 0", "cunknown 0 3", "ccorr 0 4 3 0", "cpdel 0 3", "cpdel 0 4", "cpval 0 5 1e9", "cpdel 0 5", "cscalar 0 1 1", "cend 0"],
    "apply_dims": ["ccreate 0 1", "nalloc 0 0 0 1 1 2", "nsetfv 0 0", "nsr 0 1 1 0 0 2 1 -1 0", "nsr 0 1 1 0 0 1 1 1 0", "nsr 0 1 1 0 0 0 1 0 0",
                   "nsolve 0", "caddcal 0 cal0 0", "dalloc 0 1", "capply 0 0 0 2 1 1 0 0", "capply 0 0 0 3 1 1 0 0", "capply 0 0 0 0 1 1 0 0",
                   "capply 0 0 0 2 2 2 0 0", "capply 0 0 -1 2 1 1 0 0", "capply 0 1 0 2 1 1 0 0", "capply 0 -1 0 2 1 1 1 0", "capply 0 0 0 2 1 1 1 1"],
    "save_load_props": ["ccreate 0 1", "cpset 0 -1 g.x=1", "cpset 0 -1 g.l[+]=2", "nalloc 0 0 3 2 2 2", "nsetfv 0 0"] +
                       ["nsr 0 2 2 0 0 %d %d %s 0" % (s, p, g) for p in (1, 2) for s, g in ((2, "-1"), (1, "1"), (0, "0"))] +
                       ["nthru 0 2 2 0 0 1 2", "nsolve 0", "caddcal 0 cal0 0", "cpset 0 0 k=v", "csave 0 0", "cload 1 0 1", "cgets 1 0", "cpget 1 0 k", "cpget 1 -1 g.x", "cfree 1", "cfree 0"],
    # D43: vector(4 frequencies) <- unknown <- correlated made with sigma_frequency_vector NULL and 4 sigmas (`ccorr .. 4 1`: the
    # frequencies are borrowed from the vector at the END of the chain of `other` references); delete the correlated parameter,
    # evaluate the vector, make a second correlated parameter the same way, delete everything (twice), free
    "D43_corr_borrowed_f_chain": ["ccreate 0 1", "cvector 0 4 0", "cunknown 0 3", "ccorr 0 4 4 1", "cpdel 0 5", "cpval 0 3 1.2e9", "ccorr 0 4 4 1",
                                  "cpdel 0 5", "cpdel 0 4", "cpdel 0 3", "cpdel 0 3", "cpdel 0 5", "cfree 0"],
    # the same with a longer chain (correlated -> correlated -> unknown -> vector), deleting from the far end first
    "D43_corr_borrowed_f_chain3": ["ccreate 0 1", "cvector 0 2 0", "cunknown 0 3", "ccorr 0 4 2 1", "ccorr 0 5 2 1", "cpdel 0 6", "cpval 0 3 1e9", "cpdel 0 5",
                                   "cpval 0 3 1e9", "ccorr 0 4 2 1", "cpdel 0 4", "cpdel 0 3", "cpval 0 5 1e9", "cfree 0"],
    # an unknown parameter (scalar initial guess) solved three times by the same vnacal_new_t with the same 3 frequencies
    # (every nsolve returns 0); the values stored by the earlier solves must be released: final live count 0
    "resolve_same_new": ["ccreate 0 1", "cscalar 0 0.45 0.25", "cunknown 0 3", "nalloc 0 0 8 1 1 3", "nsetfv 0 0",
                         "nsr 0 1 1 0 0 2 1 -1 0", "nsr 0 1 1 0 0 1 1 1 0", "nsr 0 1 1 0 0 0 1 0 0", "nsr 0 1 1 0 0 4 1 0.5 0.3",
                         "nsolve 0", "cpval 0 4 2e9", "nptol 0 1e-9 0", "nsolve 0", "cpval 0 4 2e9", "caddcal 0 cal0 0", "nsolve 0", "nfree 0",
                         "cpdel 0 4", "cpdel 0 3", "cdelcal 0 0", "cfree 0"],
    # the same unknown parameter is a standard of two vnacal_new_t (E12 and T8) of 2 frequencies each; both solved, the first
    # solved again; the second is solved once more after the user deleted the parameters
    "unknown_two_news": ["ccreate 0 1", "cscalar 0 0.45 0.25", "cunknown 0 3", "nalloc 0 0 8 1 1 2", "nsetfv 0 0", "nalloc 1 0 0 1 1 2", "nsetfv 1 0"] +
                        ["nsr %d 1 1 0 0 %d 1 %s 0" % (n, s, g) for n in (0, 1) for s, g in ((2, "-1"), (1, "1"), (0, "0"))] +
                        ["nsr 0 1 1 0 0 4 1 0.5 0.3", "nsr 1 1 1 0 0 4 1 0.5 0.3", "nsolve 0", "nsolve 1", "cpval 0 4 1.5e9", "nsolve 0",
                         "caddcal 0 cal0 0", "caddcal 0 cal1 1", "nfree 0", "cpdel 0 4", "cpdel 0 3", "nsolve 1", "nfree 1", "cfree 0"],
    # both shapes together: vector <- unknown <- correlated (borrowed frequencies), unknown and correlated are standards of one
    # calibration with measurement errors, solved three times; the correlated parameter is deleted between the solves
    "chain_solved_twice": ["ccreate 0 1", "cvector 0 3 0", "cunknown 0 3", "ccorr 0 4 3 1", "nalloc 0 0 8 1 1 3", "nsetfv 0 0",
                           "nsr 0 1 1 0 0 2 1 -1 0", "nsr 0 1 1 0 0 1 1 1 0", "nsr 0 1 1 0 0 0 1 0 0", "nsr 0 1 1 0 0 4 1 0.1 -0.2", "nsr 0 1 1 0 0 5 1 0.1 -0.2",
                           "nmerr 0 1 1", "nsolve 0", "cpval 0 5 2e9", "nsolve 0", "cpval 0 4 2e9", "cpdel 0 5", "cpval 0 3 2e9", "nsolve 0",
                           "caddcal 0 cal0 0", "nfree 0", "cpdel 0 4", "cpdel 0 3", "cfree 0"],
    # ---- D68 (memcpy(NULL, ..., 0) in _vnacal_new_solve_internal): a vnacal_new_t with ZERO frequencies and an unknown parameter, solved
    "D68_zero_freq_unknown_solve": ["ccreate 0 1", "cunknown 0 2", "nalloc 0 0 8 1 1 0", "nsetfv 0 0"] + SOL1 + ["nsr 0 1 1 0 0 3 1 0.5 0.3", "nsolve 0", "nsolve 0",
                                    "cpval 0 3 1e9", "caddcal 0 cal0 0", "cfree 0"],
    # the same neighbourhood: unknown + correlated parameter, 2x2 TE10, measurement errors, solve, add_calibration, apply with 0 frequencies, save, load
    "zero_freq_corr_2x2_through_everything": ["ccreate 0 1", "cscalar 0 0.45 0.25", "cunknown 0 3", "ccorr 0 4 1 1", "nalloc 0 0 2 2 2 0", "nsetfv 0 0", "nmerr 0 1 1"] + SOLT2 +
                                             ["nsr 0 2 2 0 0 4 1 0.5 0.3", "nsr 0 2 2 0 0 5 2 0.5 0.3", "ndr 0 2 2 0 0 4 5 1 2 0.5 0.3 0.4 -0.1", "nsolve 0",
                                              "cpval 0 4 1e9", "cpval 0 5 1e9", "caddcal 0 cal0 0", "dalloc 0 1", "capply 0 0 0 0 2 2 0 0", "capply 0 0 0 0 2 2 1 0",
                                              "csave 0 0", "cload 1 0 1", "cend 1 0", "nsolve 0", "caddcal 0 cal0 0", "cfree 1", "cfree 0"],
    # ---- D69 (NULL S cells dereferenced by the TRL classifier): 2x2 T8, two unknowns, exactly three standards: single reflect on port 2,
    # single reflect on port 1, through (and the other orders / types)
    "D69_trl_single_reflects": ["ccreate 0 1", "cunknown 0 2", "cunknown 0 1", "nalloc 0 0 0 2 2 1", "nsetfv 0 0", "nsr 0 2 2 0 0 3 2 -1 0", "nsr 0 2 2 0 0 4 1 1 0",
                                "nthru 0 2 2 0 0 1 2", "nsolve 0", "cfree 0"],
    "D69_trl_orders": ["ccreate 0 1", "cunknown 0 2", "cunknown 0 1"] +
                      [op for n, t, stds in ((0, 1, ("T", "R1", "R2")), (1, 2, ("R1", "T", "D")), (2, 3, ("D", "R2", "T")), (3, 0, ("L", "R1", "T")))
                       for op in ["nalloc %d 0 %d 2 2 2" % (n, t), "nsetfv %d 0" % n] +
                       [{"T": "nthru %d 2 2 0 0 1 2", "R1": "nsr %d 2 2 0 0 3 1 -1 0", "R2": "nsr %d 2 2 0 0 4 2 1 0", "D": "ndr %d 2 2 0 0 3 4 1 2 -1 0 1 0",
                         "L": "nline %d 2 2 0 0 0 4 4 0 1 2 0 0 0.7 0.7 0"}[k] % n for k in stds] + ["nsolve %d" % n]] + ["cfree 0"],
    # a well-formed TRL set (through, equal unknown reflects, matched line of unknown transmission), solved twice
    "trl_real": ["ccreate 0 1", "cscalar 0 -0.9 0.1", "cunknown 0 3", "cscalar 0 0 -0.8", "cunknown 0 5", "nalloc 0 0 0 2 2 2", "nsetfv 0 0", "nthru 0 2 2 0 0 1 2",
                 "nline 0 2 2 0 0 4 0 0 4 1 2 0 -0.6 0 0 -0.6", "nline 0 2 2 0 0 0 6 6 0 1 2 0 0 0.7 0.7 0", "nsolve 0", "cpval 0 4 1.5e9", "cpval 0 6 1.5e9", "nsolve 0",
                 "caddcal 0 cal0 0", "cfree 0"],
    # ---- D70 (vnacal_save frees its own file name, then duplicates the caller's pointer, which is that name): save to the name the object reports,
    # for a saved and for a loaded vnacal_t, and to the name held by a second vnacal_t
    "D70_save_own_filename": ["ccreate 0 1", "nalloc 0 0 0 1 1 2", "nsetfv 0 0"] + SOL1 + ["nsolve 0", "caddcal 0 cal0 0", "casave 0 0", "csave 0 0", "casave 0 0", "casave 0 0",
                              "cload 1 0 1", "casave 1 1", "cgets 1 0", "casave 0 1", "casave 1 0", "cfree 1", "caload 1 0 0", "casave 1 1", "cfree 0", "cfree 1"],
    # ---- seeded changes C03-4, C03-5, C03-6 (shrink after use; list growth boundary)
    # a vnadata_t whose frequency allocation (10) exceeds its frequency count (3) switches to per-frequency z0, grows to 6 inside the allocation; rows 3..5 are used
    # the format language swept systematically from its grammar table (lib/mem_gen.py FMT_*): every parameter x form and every fixed name alone,
    # then lists of 1..6 entries of every name of the longest class (the tightest fit of the canonical string), set, read back, saved as NPD and reloaded
    "format_grammar_sweep": ["dalloc 0 1", "dinit 0 1 2 2 2", "dsetfv 0 0", "dalloc 1 1"] +
                            ["dsetfmt 0 %s" % n for n in mem_gen.FMT_NAMES] +
                            [op for k in range(1, 7) for rot in range(len(mem_gen.FMT_LONGEST))
                             for op in ("dsetfmt 0 " + ",".join(mem_gen.FMT_LONGEST[(rot + i) % len(mem_gen.FMT_LONGEST)] for i in range(k)), "dgetfmt 0")] +
                            ["dconv 0 1 10"] +
                            [op for k in range(1, 7) for op in ("dsetfmt 1 " + ",".join(mem_gen.FMT_FORMS[i % 2] for i in range(k)), "dsave 1 0 x.npd", "dload 0 0 x.npd")] +
                            ["ddig 0", "ddig 1"],
    "data_shrink_then_fz0_then_grow": ["dalloc 0 1", "dinit 0 1 2 2 10", "dinit 0 1 2 2 3", "dsetfz0 0 1 0 75 0", "dresize 0 1 2 2 6", "dgetfz0 0 4 1", "dgetfz0v 0 5",
                                       "dsetfz0 0 3 1 60 1", "dsetfz0v 0 5 0 45", "ddig 0", "dsave 0 0 x.npd", "daddf 0 9e9", "dgetfz0 0 6 0", "ddig 0", "dfree 0"],
    "data_shrink_ports_then_fz0_then_grow": ["dalloc 0 1", "dinit 0 1 4 4 6", "dresize 0 1 2 2 2", "dsetfz0v 0 1 0 30", "dresize 0 1 4 4 5", "dgetfz0 0 4 3", "dsetfz0 0 3 3 60 1",
                                             "ddig 0", "dsetz0 0 3 50 0", "dresize 0 1 2 2 1", "dsetfz0 0 0 1 75 0", "dresize 0 1 3 3 6", "dgetfz0v 0 5", "ddig 0", "dfree 0"],
    # property lists of exactly 8 / 16 / 32 elements (the list vector is full), an insert strictly inside, an append, deletes, free
    "list_insert_at_growth_boundary": [op for n in (8, 16, 32) for op in ["pset 0 l%d[+]=%d" % (n, i) for i in range(n)] +
                                       ["pset 0 l%d[3+]=x" % n, "pset 0 l%d[+]=y" % n, "pcount 0 l%d" % n, "pget 0 l%d[%d]" % (n, n + 1), "pdel 0 l%d[0]" % n]] + ["pdig 0", "pdel 0 ."],
    # one unknown parameter solved by a 12-point calibration, evaluated off-grid near the top (stores the segment), solved by a 3-point calibration, evaluated again
    "hint_shrink_unknown_12_then_3": ["ccreate 0 1", "cscalar 0 0.45 0.25", "cunknown 0 3", "nalloc 0 0 8 1 1 12", "nsetfv 0 0"] + SOL1 + ["nsr 0 1 1 0 0 4 1 0.5 0.3", "nsolve 0",
                                      "cpval 0 4 11.5e9", "nalloc 1 0 0 1 1 3", "nsetfv 1 0"] + [x.replace("nsr 0", "nsr 1") for x in SOL1] +
                                     ["nsr 1 1 1 0 0 4 1 0.5 0.3", "nsolve 1", "cpval 0 4 2.5e9", "cpval 0 4 1e9", "nsolve 0", "cpval 0 4 11.5e9", "cfree 0"],
    # ---- self-aliasing family: the pointer a getter returns handed to a mutator of the same (or a second) object; table in docs/design_C03.md
    "alias_prop_set_get": ["pset 0 a.b=hello", "pset 0 a.c=world", "pset 0 k=v", "paset 0 0 k k %00", "paset 0 0 k k _a_much_longer_suffix_than_the_value_had_so_that_it_is_reallocated",
                           "paset 0 0 a.b a.b.c x", "paset 0 0 a.c l[+] %00", "paset 0 0 a.c l[0+] _y", "paset 1 0 k k %00", "paset 0 1 k a.c _z", "paset 0 0 a.c . %00", "pdig 0", "pdig 1"],
    "alias_prop_keys_iteration": ["pset 0 m.k1=v1", "pset 0 m.k2=v2", "pset 0 m.k3=v3", "pset 0 a.b=1", "pakeys 0 m 0", "pakeys 0 m 2", "pakeys 0 m 2", "pakeys 0 m 1", "pset 0 m.k1=v1", "pset 0 m.k2=v2",
                                  "pakeys 0 m 3", "pakeys 0 . 0", "pakeys 0 . 2", "pset 0 m.k2=v2", "pakeys 0 m 4", "pakeys 0 . 1", "pdig 0"],
    "alias_prop_import_and_anchor": ["pset 1 y={a:%20[1,%202],%20b:%20c}", "paimports 1 1 y 1", "pdig 1", "pset 2 a.b=1", "pset 2 y=[1,%20{k:%20v}]", "paimports 3 2 y 0", "padelvia 2 a.b", "padelvia 2 a",
                                     "paimportvia 2 x.y c:%20d%0A", "paimportvia 2 x.y x:%20[%0A", "pdig 2", "pdig 3"],
    # D71: vnaproperty_copy whose source lies inside the destination (heap-use-after-free in dfs_copy as long as the copy is made after the destination was freed)
    "alias_prop_copy_source_inside_destination": ["pset 0 a.b=hello", "pset 0 a.c=world", "pset 0 k=v", "pacopy 0 0 a", "pdig 0", "pset 1 a.x=1", "pset 1 a.b.c=old", "pacopysub 1 a 1 a.b", "pdig 1",
                                                  "pset 2 a.x=1", "pacopy 2 2 .", "pdig 2", "pset 3 l[0].k=1", "pset 3 l[1]=2", "pacopy 3 3 l[0]", "pdig 3"],
    # D71: ... and whose destination lies inside the source (unbounded recursion)
    "alias_prop_copy_destination_inside_source": ["pset 0 a.x=1", "pset 0 a.b=old", "pacopysub 0 a.b 0 a", "pdig 0", "pacopysub 0 a.b.new 0 .", "pdig 0"],
    "alias_data_same_object": ["dalloc 0 1", "dinit 0 1 2 2 3", "dsetfv 0 0", "dsetm 0 0 1.5", "dsetm 0 1 2.5", "dsetfmt 0 Sri,Zma", "dasetfmt 0 0", "dgetfmt 0", "dasetfv 0 0", "dasetm 0 1 0 1", "dasetm 0 0 0 1",
                               "dasetv 0 0 1 0 1", "dagetv 0 1 0 0 2", "dasetz0v 0 0 0 0", "dsetft 0 3", "dasavefmt 0 0 1", "dacksavefmt 0 0", "dsetfmt 0 ma", "dasavefmt 0 0 1", "dgetfmt 0", "dconv 0 0 4", "ddig 0"],
    # D72 / D73: the object's own z0 vector handed to the setter that first changes the z0 mode (and so frees that vector)
    "alias_data_z0_vector_mode_change": ["dalloc 0 1", "dinit 0 1 2 2 3", "dsetz0 0 1 75 0", "dasetfz0v 0 1 0 0 0", "ddig 0", "dasetfz0v 0 0 0 1 1", "dasetfz0v 0 2 0 1 2", "dasetz0v 0 0 1 1", "ddig 0",
                                         "dasetfz0v 0 2 0 1 0", "ddig 0", "dsetfz0 0 1 1 40 2", "dasetz0v 0 0 1 1", "dasetz0v 0 0 0 0", "ddig 0"],
    "alias_data_second_object": ["dalloc 0 1", "dinit 0 1 2 2 3", "dsetfv 0 0", "dsetm 0 0 1.5", "dsetfmt 0 Sma", "dsetft 0 1", "dsave 0 2 x.s2p", "dalloc 1 1", "dinit 1 1 3 3 4", "dsetfmt 1 Zri", "dasetfmt 0 1",
                                 "dasetfv 0 1", "dasetm 0 1 1 2", "dasetz0v 0 1 0 0", "dasetfz0v 0 1 1 0 0", "dasetfz0v 0 2 1 1 3", "dasetz0v 0 1 1 2", "dsetz0 1 2 60 0", "dasetz0v 0 1 0 0", "dsetft 1 1", "daloadfmt 1 0 2", "dasavefmt 1 0 3", "ddig 0", "ddig 1"],
    "alias_cal": ["ccreate 0 1", "cpset 0 -1 g.x=1", "nalloc 0 0 0 1 1 3", "nsetfv 0 0"] + SOL1 +
                 ["nsolve 0", "caddcal 0 cal0 0", "csave 0 0", "cpset 0 0 k=v", "capset 0 0 0 0 k k %00", "capset 0 0 0 0 k k _longer_suffix_to_make_the_value_grow_beyond_its_block", "capset 0 -1 0 0 k g.y %00",
                  "capset 0 0 0 -1 g.x k2 %00", "capsetvia 0 0 sub.a val", "capcopy 0 0 copy 0 -1 .", "capcopy 0 -1 fromcal 0 0 sub", "capexport 0 0 . 1", "capimport 0 0 imp 1", "pdig 1",
                  "capkeys 0 0 imp 1", "capkeys 0 0 . 2", "capkeys 0 0 . 0", "capkeys 0 -1 g 3", "cafind 0 0 0", "nsolve 0", "caaddcal 0 0 0 0", "cgets 0 0", "cavector 0 0 0", "cacorr 0 0 0 3", "cpval 0 3 1.5e9",
                  "nalloc 1 0 0 1 1 3", "nasetfv 1 0 0", "namerr 1 0 0", "nalloc 2 0 0 1 1 2", "nasetfv 2 0 0", "dalloc 0 1", "caapply 0 0 1 0 1 1 0 0 0", "ddig 0", "dinit 0 1 1 1 3", "dsetfv 0 0",
                  "caapply 0 0 0 0 1 1 1 0 0", "caload 1 0 1", "cgets 1 0", "casave 1 0", "casave 0 1", "cafind 0 0 1", "nsolve 0", "caaddcal 0 0 1 0", "cfree 1", "cgets 0 0", "cfree 0"],
    # D71 through the vnacal property functions: the properties of a calibration copied from / into themselves
    "alias_cal_property_copy_overlap": ["ccreate 0 1", "cpset 0 -1 a.b=1", "cpset 0 -1 a.c.d=2", "capcopy 0 -1 . 0 -1 a", "cpget 0 -1 c.d", "capcopy 0 -1 c 0 -1 c.d", "cpkeys 0 -1 .", "cfree 0"],
    # D75: a calibration with zero frequencies: vnacal_get_fmin / vnacal_get_fmax / the range check of vnacal_apply read element 0 and -1 of its empty frequency vector
    "zero_freq_calibration_getters_and_apply": ["ccreate 0 1", "nalloc 0 0 0 1 1 0", "nsetfv 0 0"] + SOL1 + ["nsolve 0", "caddcal 0 cal0 0", "cgets 0 0", "dalloc 0 1", "capply 0 0 0 1 1 1 0 0",
                                                "capply 0 0 0 2 1 1 1 0", "capply 0 0 0 0 1 1 0 0", "csave 0 0", "cload 1 0 1", "cgets 1 0", "cfree 1", "cfree 0"],
}


def sig_key(sig):
    return tuple(sorted((k, str(v)) for k, v in sig.items()))


class Explorer(object):
    def __init__(self, ctx, exe):
        self.ctx = ctx
        self.exe = exe
        self.seen = {}            # sig_key -> (sig, what, replay)
        self.known = vplib.load_known()
        self.runs = 0
        self.ops_run = 0
        self.op_kinds = set()
        self.shrink_all = (ctx.tier == "thorough")

    def run(self, ops, **kw):
        self.runs += 1
        return mem_gen.run_script(self.ctx, self.exe, ops, **kw)

    def record(self, sig, what, ops, err, shrink_test=None):
        key = sig_key(sig)
        if key in self.seen:
            return
        small = ops
        is_known = vplib.match_known(self.ctx.prop, sig, self.known) is not None
        if shrink_test is not None and (self.shrink_all or not is_known) and len(ops) > 1:
            # (an op that hangs costs the whole watchdog time of the harness in every replay: few replays)
            small = mem_gen.ddmin(list(ops), shrink_test, budget=10 if sig.get("error") == "timeout" else 80)
        self.seen[key] = (sig, what, {"script": small, "how": "harness/mem_harness.c <script> <workdir>  (ASan+UBSan+LSan, allocwrap)",
                                      "stderr": err[-2500:]})

    def explore(self, ops, label):
        """run a history; on a fault record it, drop the faulting op and continue (so that one known
        defect does not hide what comes after it)"""
        ops = list(ops)
        for _ in range(12):
            r = self.run(ops)
            for l in r.lines:
                self.op_kinds.add((l["op"], l["ret"] in ("-1", "NULL"), l["errno"]))
            self.ops_run += len(r.lines)
            self.ctx.count(None, len(r.lines))
            if r.fault is not None:
                fi = r.fault_index
                opname = ops[fi].split(" ")[0] if fi is not None else "(cleanup)"
                sig = dict(r.fault)
                sig["op"] = opname
                want = dict(r.fault)

                def still(sub, want=want):
                    rr = self.run(sub)
                    return rr.fault is not None and rr.fault.get("error") == want.get("error") and rr.fault.get("function") == want.get("function")
                self.record(sig, "%s: %s in %s during op `%s` (history %s)" % (
                    sig["error"], "fault", sig.get("function"), ops[fi] if fi is not None else "final free", label),
                    ops[:fi + 1] if fi is not None else ops, r.err, still)
                if fi is None:
                    return
                del ops[fi]
                continue
            # completed: leaks
            leaked = dict(r.leaks)
            if r.end not in (0, None) and not leaked:
                leaked = {None: r.end}
            for func, cnt in sorted(leaked.items(), key=lambda kv: str(kv[0])):
                sig = {"kind": "leak", "function": func}

                def still(sub, func=func):
                    rr = self.run(sub)
                    return rr.fault is None and ((func in rr.leaks) if func is not None else (rr.end not in (0, None)))
                self.record(sig, "leak: %d block(s) allocated in %s still live after all objects were freed (history %s)" % (cnt, func, label),
                            ops, r.err, still)
            if r.end is None and r.fault is None:
                self.record({"kind": "fault", "error": "no-END", "function": None, "op": "?"},
                            "harness ended without END line rc=%d (history %s)" % (r.rc, label), ops, r.err)
            return

    def flush(self):
        for key in sorted(self.seen):
            sig, what, replay = self.seen[key]
            self.ctx.violation(sig, what, replay)


def bounded_prefixes(depth):
    """bounded-exhaustive short prefixes over a small alphabet of ops that touch the indexing logic"""
    alpha = ["pset 0 l[+]=x", "pset 0 l[0+]=y", "pset 0 l[3]=z", "pdel 0 l[0]", "pset 0 l#",
             "dalloc 0 0", "dresize 0 1 2 2 3", "dsetfz0v 0 0 0 1", "dresize 0 0 0 0 0", "daddf 0 1e9"]
    for seq in itertools.product(alpha, repeat=depth):
        yield list(seq)


def run(ctx):
    ctx.level = "proof"
    ctx.trusted_base = [
        "Coq 8.16.1 kernel (coqc); vm_compute for the refutation witnesses and examples; no native_compute",
        "axioms: none (Print Assumptions: Closed under the global context for every theorem of Properties_C03.v)",
        "hand-written pointer-level models coq/Mem/{PropList,DataAlloc,DataZ0,ParamSlots,AddArrays,HashTab}.v tied to the C code by running the same "
        "op scripts on the extracted models and on the white-box ops of harness/mem_harness.c",
        "everything not modelled at pointer level (the rest of the public API) is covered by sanitizer runs only (support): "
        "gcc ASan/UBSan/LSan, harness/allocwrap.c live-block accounting",
        "OCaml extraction (ExtrOcamlBasic) and ocaml/drv_mem.ml",
    ]
    ctx.assumptions = ["C int arguments are modelled as Z; wrap-around is a Fault IntOverflow guard in the models",
                       "libyaml's and libc's own allocations are outside the ledger (only requests made by libvna objects are tracked)"]
    ctx.rule = ("evaluations = ops executed on the C side under the sanitizers; distinct non-trivial = distinct "
                "(op, failed?, errno class) triples observed + model/C tie steps compared")

    # ------------------------------------------------------------------ 1. Coq
    ok, res = ctx.coq_obligations(mem_tie.C03_VFILES) if mem_tie.C03_VFILES else (True, {})
    # ------------------------------------------------------------------ 2. harness
    exe = ctx.build_harness("mem_harness", san=True, wrap=True)
    ex = Explorer(ctx, exe)

    # corpus first
    for p in sorted(glob.glob(os.path.join(CORPUS, "*.txt"))):
        ops = [l for l in open(p).read().split("\n") if l and not l.startswith("#")]
        ex.explore(ops, "corpus/" + os.path.basename(p))
    # directed
    for name in sorted(DIRECTED):
        ex.explore(DIRECTED[name], "directed/" + name)
    # tie (model vs C) and witnesses
    tie_broken = mem_tie.run_tie(ctx, exe, "C03")
    # the vnacal_new_t allocation skeleton (coq/Mem/NewAlloc.v): generated histories and every (op, k) of the directed ones
    tie_broken = tie_broken + mem_tie.run_new_tie(ctx, "C03")

    # generated histories
    quick = ctx.tier != "thorough"
    mixes = [("p",), ("d",), ("c", "n"), ("p", "d", "c", "n"), ("c", "n", "d")]
    nhist = 10 if quick else 60
    nops = 40 if quick else 200
    for mi, mods in enumerate(mixes):
        for h in range(nhist):
            ops = mem_gen.gen_script(ctx.rng, nops, mods, p_bad=0.15 if h % 2 == 0 else 0.3)
            ex.explore(ops, "gen/%s/%d" % ("".join(mods), h))
            if h % 3 == 0:
                ex.explore(mem_gen.mutate_script(ctx.rng, ops, 4), "mut/%s/%d" % ("".join(mods), h))
            if h == 0:
                ctx.sample({"history": "gen/%s/%d" % ("".join(mods), h), "first_ops": ops[:6]})
    # profiles: every history starts with one scenario of lib/mem_gen.py (neighbourhoods of D68 / D69 / D70, shrink-after-use of an
    # allocation / a cached segment, list growth boundaries) or has a high rate of self-aliasing ops
    nprof = 4 if quick else 40
    for prof in sorted(mem_gen.PROFILES):
        for h in range(nprof):
            ops = mem_gen.gen_profile_script(ctx.rng, 30 if quick else 80, prof, p_bad=0.1 if h % 2 == 0 else 0.25)
            ex.explore(ops, "prof/%s/%d" % (prof, h))
            if h == 0:
                ctx.sample({"history": "prof/%s/%d" % (prof, h), "first_ops": ops[:6]})
    if not quick:
        n = 0
        for seq in bounded_prefixes(3):
            ex.explore(seq, "exh3/%d" % n)
            n += 1
    ex.flush()
    for k in sorted(ex.op_kinds):
        ctx.count(("opkind",) + k, 0)
    ctx.extra["histories_run"] = ex.runs
    ctx.extra["ops_executed"] = ex.ops_run
    ctx.extra["distinct_op_outcomes"] = len(ex.op_kinds)
    ctx.extra["modelled_at_pointer_level"] = mem_tie.MODELLED
    ctx.notes.append("sanitizer/live-count enumeration is support; proof covers only the functions listed in modelled_at_pointer_level")

    if not ok or tie_broken:
        found_new = any(vplib.match_known(ctx.prop, v.sig, ex.known) is None for v in ctx.violations)
        if not found_new:
            bad = [v for v, o in res.items() if not o] + tie_broken
            ctx.unproved("C03:" + ",".join(bad)[:200], "Coq obligation or model/C tie broke",
                         "%d histories (%d ops) under ASan/UBSan/LSan, directed scripts, tie scripts" % (ex.runs, ex.ops_run))
