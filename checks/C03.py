"""C03 - no API call sequence corrupts memory, invokes undefined behaviour or leaks.

1. Coq: coq/Mem/*.v (ledger, checked arrays, pointer-level models of five pieces of allocation /
   indexing logic) and coq/Properties_C03.v are rebuilt; every theorem is an obligation.
2. Tie: the same op scripts run on the extracted models (ocaml/drv_mem) and on the C harness
   (harness/mem_wb.c white-box ops); outcome class and live-block counts are compared after
   each op, for the two hash tables (coq/Mem/HashTab.v) also the chains bucket for bucket; the
   refutation witnesses of the development are replayed on the C side.
3. Support / search (never counted as proof): API histories over the whole public API
   (vnaproperty, vnadata, vnacal, vnacal_new) run under ASan+UBSan+LSan with the allocation
   interposer: corpus/C03 first, directed scripts, generated histories (grammar + malformed
   stream), thorough: bounded-exhaustive short prefixes.  Any sanitizer report, assertion,
   crash, timeout or non-zero final live count is a violation (shrunk by delta debugging).
"""
import glob
import itertools
import json
import os

import vplib
import mem_gen
import mem_tie

CORPUS = os.path.join(vplib.VERIF, "corpus", "C03")

# directed scripts: one per candidate defect of DESIGN.md section 7 that touches C03 (each is the
# concrete reproducer; when the defect is repaired the script simply passes)
DIRECTED = {
    "D1_get_subtree_trailing": ["pset 0 a=1", "pgetsub 0 a="],
    "D2_list_delete_full": ["pset 0 l[+]=%d" % i for i in range(8)] + ["pdel 0 l[0]"],
    "D2_list_delete_leak": ["pset 0 l[+]=x", "pset 0 l[+]=y", "pdel 0 l[0]"],
    "D3_map_subtree_lookup_leak": ["pset 0 a=1", "pget 0 b"],
    "D4_z0_port_eq_ports": ["dalloc 0 1", "dinit 0 1 2 2 1", "dgetz0 0 2", "dsetz0 0 2 1 1", "dgetfz0 0 0 2", "dsetfz0 0 0 2 1 1"],
    "D7_extend_f_fz0": ["dalloc 0 1", "dinit 0 0 0 0 1", "dsetfz0v 0 0 0 30", "dresize 0 0 0 0 3", "dresize 0 1 2 2 3", "ddig 0"],
    "D13_zero_frequencies": ["ccreate 0 1", "nalloc 0 0 0 1 1 0", "nsetfv 0 0"],
    "D14_rows_gt_columns": ["ccreate 0 1", "nalloc 0 0 1 2 1 1", "nsetfv 0 0", "nmm 0 2 1 0 0 2 2 0 0 0 0 0 0 0 0 0", "nmm 0 2 1 0 0 1 1 1 2 1 -1"],
    "D15_add_leak": ["ccreate 0 1", "nalloc 0 0 0 1 1 1", "nsetfv 0 0", "nsr 0 1 1 0 0 2 1 -1 0"],
    "D19_solve_update_s": ["ccreate 0 1", "cunknown 0 2", "nalloc 0 0 0 1 1 1", "nsetfv 0 0", "nsr 0 1 1 0 0 3 1 -1 0", "nsolve 0"],
    "D21_solve_fail_paths": ["ccreate 0 1", "nalloc 0 0 0 2 2 2", "nsetfv 0 0", "nsr 0 2 2 0 0 2 1 -1 0", "nsolve 0"],
    "D22_solve_no_equations": ["ccreate 0 1", "nalloc 0 0 0 1 1 1", "nsetfv 0 0", "nsolve 0"],
    "D24_spline_two_points": ["ccreate 0 1", "cscalar 0 0.5 0", "ccorr 0 3 2 0", "cpval 0 4 1e9"],
    "D26_save_precision": ["ccreate 0 1", "nalloc 0 0 0 1 1 1", "nsetfv 0 0", "nsr 0 1 1 0 0 2 1 -1 0", "nsr 0 1 1 0 0 1 1 1 0",
                           "nsr 0 1 1 0 0 0 1 0 0", "nsolve 0", "caddcal 0 cal0 0", "csetfp 0 30", "csetdp 0 30", "csave 0 0",
                           "csetfp 0 1000", "csetdp 0 1000", "csave 0 1"],
    "D28_yaml_parser_leak": ["pimports 0 a:%201%0A 1"],
    "D37_free_calibrations": ["ccreate 0 1", "nalloc 0 0 0 1 1 1", "nsetfv 0 0", "nsr 0 1 1 0 0 2 1 -1 0", "nsr 0 1 1 0 0 1 1 1 0",
                              "nsr 0 1 1 0 0 0 1 0 0", "nsolve 0", "caddcal 0 cal0 0", "cfree 0"],
    "D39_list_index_overflow": ["pset 0 [2147483647]=x"],
    "D40_resize_overflow": ["dalloc 0 1", "dresize 0 0 65536 65536 0"],
    "D63_new_zero_frequencies": ["ccreate 0 1", "nalloc 1 0 4 2 2 0", "nsetfv 1 0", "nthru 1 2 2 0 0 1 2", "nmerr 1 2 0", "nsr 1 2 2 0 0 2 1 -1 0", "nsolve 1"],
    "vla_nonpositive_s_dims": ["ccreate 0 1", "nalloc 0 0 0 2 2 1", "nsetfv 0 0", "nmm 0 2 2 0 0 0 0 0"],
    "vla_negative_s_dims": ["ccreate 0 1", "nalloc 0 0 0 2 2 1", "nsetfv 0 0", "nmm 0 2 2 0 0 -1 1 0"],
    "teardown_deleted_held": ["ccreate 0 1", "cscalar 0 0.5 0", "cscalar 0 0.25 0", "cpdel 0 3", "cunknown 0 4", "cpdel 0 4", "cfree 0"],
    "param_reuse_chain": ["ccreate 0 1", "cscalar 0 0.5 0", "cunknown 0 3", "ccorr 0 4 3 0", "cpdel 0 3", "cpdel 0 4", "cpval 0 5 1e9", "cpdel 0 5", "cscalar 0 1 1", "cend 0"],
    "apply_dims": ["ccreate 0 1", "nalloc 0 0 0 1 1 2", "nsetfv 0 0", "nsr 0 1 1 0 0 2 1 -1 0", "nsr 0 1 1 0 0 1 1 1 0", "nsr 0 1 1 0 0 0 1 0 0",
                   "nsolve 0", "caddcal 0 cal0 0", "dalloc 0 1", "capply 0 0 0 2 1 1 0 0", "capply 0 0 0 3 1 1 0 0", "capply 0 0 0 0 1 1 0 0",
                   "capply 0 0 0 2 2 2 0 0", "capply 0 0 -1 2 1 1 0 0", "capply 0 1 0 2 1 1 0 0", "capply 0 -1 0 2 1 1 1 0", "capply 0 0 0 2 1 1 1 1"],
    "save_load_props": ["ccreate 0 1", "cpset 0 -1 g.x=1", "cpset 0 -1 g.l[+]=2", "nalloc 0 0 3 2 2 2", "nsetfv 0 0"] +
                       ["nsr 0 2 2 0 0 %d %d %s 0" % (s, p, g) for p in (1, 2) for s, g in ((2, "-1"), (1, "1"), (0, "0"))] +
                       ["nthru 0 2 2 0 0 1 2", "nsolve 0", "caddcal 0 cal0 0", "cpset 0 0 k=v", "csave 0 0", "cload 1 0 1", "cgets 1 0", "cpget 1 0 k", "cpget 1 -1 g.x", "cfree 1", "cfree 0"],
    # D43: vector(4 frequencies) <- unknown <- correlated made with sigma_frequency_vector NULL and 4 sigmas (`ccorr .. 4 1`: the
    # frequencies are borrowed from the vector at the END of the chain of `other` references); delete the correlated parameter,
    # evaluate the vector, make a second correlated parameter the same way, delete everything (twice), free
    "D43_corr_borrowed_f_chain": ["ccreate 0 1", "cvector 0 4 0", "cunknown 0 3", "ccorr 0 4 4 1", "cpdel 0 5", "cpval 0 3 1.2e9", "ccorr 0 4 4 1",
                                  "cpdel 0 5", "cpdel 0 4", "cpdel 0 3", "cpdel 0 3", "cpdel 0 5", "cfree 0"],
    # the same with a longer chain (correlated -> correlated -> unknown -> vector), deleting from the far end first
    "D43_corr_borrowed_f_chain3": ["ccreate 0 1", "cvector 0 2 0", "cunknown 0 3", "ccorr 0 4 2 1", "ccorr 0 5 2 1", "cpdel 0 6", "cpval 0 3 1e9", "cpdel 0 5",
                                   "cpval 0 3 1e9", "ccorr 0 4 2 1", "cpdel 0 4", "cpdel 0 3", "cpval 0 5 1e9", "cfree 0"],
    # an unknown parameter (scalar initial guess) solved three times by the same vnacal_new_t with the same 3 frequencies
    # (every nsolve returns 0); the values stored by the earlier solves must be released: final live count 0
    "resolve_same_new": ["ccreate 0 1", "cscalar 0 0.45 0.25", "cunknown 0 3", "nalloc 0 0 8 1 1 3", "nsetfv 0 0",
                         "nsr 0 1 1 0 0 2 1 -1 0", "nsr 0 1 1 0 0 1 1 1 0", "nsr 0 1 1 0 0 0 1 0 0", "nsr 0 1 1 0 0 4 1 0.5 0.3",
                         "nsolve 0", "cpval 0 4 2e9", "nptol 0 1e-9 0", "nsolve 0", "cpval 0 4 2e9", "caddcal 0 cal0 0", "nsolve 0", "nfree 0",
                         "cpdel 0 4", "cpdel 0 3", "cdelcal 0 0", "cfree 0"],
    # the same unknown parameter is a standard of two vnacal_new_t (E12 and T8) of 2 frequencies each; both solved, the first
    # solved again; the second is solved once more after the user deleted the parameters
    "unknown_two_news": ["ccreate 0 1", "cscalar 0 0.45 0.25", "cunknown 0 3", "nalloc 0 0 8 1 1 2", "nsetfv 0 0", "nalloc 1 0 0 1 1 2", "nsetfv 1 0"] +
                        ["nsr %d 1 1 0 0 %d 1 %s 0" % (n, s, g) for n in (0, 1) for s, g in ((2, "-1"), (1, "1"), (0, "0"))] +
                        ["nsr 0 1 1 0 0 4 1 0.5 0.3", "nsr 1 1 1 0 0 4 1 0.5 0.3", "nsolve 0", "nsolve 1", "cpval 0 4 1.5e9", "nsolve 0",
                         "caddcal 0 cal0 0", "caddcal 0 cal1 1", "nfree 0", "cpdel 0 4", "cpdel 0 3", "nsolve 1", "nfree 1", "cfree 0"],
    # both shapes together: vector <- unknown <- correlated (borrowed frequencies), unknown and correlated are standards of one
    # calibration with measurement errors, solved three times; the correlated parameter is deleted between the solves
    "chain_solved_twice": ["ccreate 0 1", "cvector 0 3 0", "cunknown 0 3", "ccorr 0 4 3 1", "nalloc 0 0 8 1 1 3", "nsetfv 0 0",
                           "nsr 0 1 1 0 0 2 1 -1 0", "nsr 0 1 1 0 0 1 1 1 0", "nsr 0 1 1 0 0 0 1 0 0", "nsr 0 1 1 0 0 4 1 0.1 -0.2", "nsr 0 1 1 0 0 5 1 0.1 -0.2",
                           "nmerr 0 1 1", "nsolve 0", "cpval 0 5 2e9", "nsolve 0", "cpval 0 4 2e9", "cpdel 0 5", "cpval 0 3 2e9", "nsolve 0",
                           "caddcal 0 cal0 0", "nfree 0", "cpdel 0 4", "cpdel 0 3", "cfree 0"],
}


def sig_key(sig):
    return tuple(sorted((k, str(v)) for k, v in sig.items()))


class Explorer(object):
    def __init__(self, ctx, exe):
        self.ctx = ctx
        self.exe = exe
        self.seen = {}            # sig_key -> (sig, what, replay)
        self.known = vplib.load_known()
        self.runs = 0
        self.ops_run = 0
        self.op_kinds = set()
        self.shrink_all = (ctx.tier == "thorough")

    def run(self, ops, **kw):
        self.runs += 1
        return mem_gen.run_script(self.ctx, self.exe, ops, **kw)

    def record(self, sig, what, ops, err, shrink_test=None):
        key = sig_key(sig)
        if key in self.seen:
            return
        small = ops
        is_known = vplib.match_known(self.ctx.prop, sig, self.known) is not None
        if shrink_test is not None and (self.shrink_all or not is_known) and len(ops) > 1:
            small = mem_gen.ddmin(list(ops), shrink_test, budget=80)
        self.seen[key] = (sig, what, {"script": small, "how": "harness/mem_harness.c <script> <workdir>  (ASan+UBSan+LSan, allocwrap)",
                                      "stderr": err[-2500:]})

    def explore(self, ops, label):
        """run a history; on a fault record it, drop the faulting op and continue (so that one known
        defect does not hide what comes after it)"""
        ops = list(ops)
        for _ in range(12):
            r = self.run(ops)
            for l in r.lines:
                self.op_kinds.add((l["op"], l["ret"] in ("-1", "NULL"), l["errno"]))
            self.ops_run += len(r.lines)
            self.ctx.count(None, len(r.lines))
            if r.fault is not None:
                fi = r.fault_index
                opname = ops[fi].split(" ")[0] if fi is not None else "(cleanup)"
                sig = dict(r.fault)
                sig["op"] = opname
                want = dict(r.fault)

                def still(sub, want=want):
                    rr = self.run(sub)
                    return rr.fault is not None and rr.fault.get("error") == want.get("error") and rr.fault.get("function") == want.get("function")
                self.record(sig, "%s: %s in %s during op `%s` (history %s)" % (
                    sig["error"], "fault", sig.get("function"), ops[fi] if fi is not None else "final free", label),
                    ops[:fi + 1] if fi is not None else ops, r.err, still)
                if fi is None:
                    return
                del ops[fi]
                continue
            # completed: leaks
            leaked = dict(r.leaks)
            if r.end not in (0, None) and not leaked:
                leaked = {None: r.end}
            for func, cnt in sorted(leaked.items(), key=lambda kv: str(kv[0])):
                sig = {"kind": "leak", "function": func}

                def still(sub, func=func):
                    rr = self.run(sub)
                    return rr.fault is None and ((func in rr.leaks) if func is not None else (rr.end not in (0, None)))
                self.record(sig, "leak: %d block(s) allocated in %s still live after all objects were freed (history %s)" % (cnt, func, label),
                            ops, r.err, still)
            if r.end is None and r.fault is None:
                self.record({"kind": "fault", "error": "no-END", "function": None, "op": "?"},
                            "harness ended without END line rc=%d (history %s)" % (r.rc, label), ops, r.err)
            return

    def flush(self):
        for key in sorted(self.seen):
            sig, what, replay = self.seen[key]
            self.ctx.violation(sig, what, replay)


def bounded_prefixes(depth):
    """bounded-exhaustive short prefixes over a small alphabet of ops that touch the indexing logic"""
    alpha = ["pset 0 l[+]=x", "pset 0 l[0+]=y", "pset 0 l[3]=z", "pdel 0 l[0]", "pset 0 l#",
             "dalloc 0 0", "dresize 0 1 2 2 3", "dsetfz0v 0 0 0 1", "dresize 0 0 0 0 0", "daddf 0 1e9"]
    for seq in itertools.product(alpha, repeat=depth):
        yield list(seq)


def run(ctx):
    ctx.level = "proof"
    ctx.trusted_base = [
        "Coq 8.16.1 kernel (coqc); vm_compute for the refutation witnesses and examples; no native_compute",
        "axioms: none (Print Assumptions: Closed under the global context for every theorem of Properties_C03.v)",
        "hand-written pointer-level models coq/Mem/{PropList,DataAlloc,ParamSlots,AddArrays,HashTab}.v tied to the C code by running the same "
        "op scripts on the extracted models and on the white-box ops of harness/mem_harness.c",
        "everything not modelled at pointer level (the rest of the public API) is covered by sanitizer runs only (support): "
        "gcc ASan/UBSan/LSan, harness/allocwrap.c live-block accounting",
        "OCaml extraction (ExtrOcamlBasic) and ocaml/drv_mem.ml",
    ]
    ctx.assumptions = ["C int arguments are modelled as Z; wrap-around is a Fault IntOverflow guard in the models",
                       "libyaml's and libc's own allocations are outside the ledger (only requests made by libvna objects are tracked)"]
    ctx.rule = ("evaluations = ops executed on the C side under the sanitizers; distinct non-trivial = distinct "
                "(op, failed?, errno class) triples observed + model/C tie steps compared")

    # ------------------------------------------------------------------ 1. Coq
    ok, res = ctx.coq_obligations(mem_tie.C03_VFILES) if mem_tie.C03_VFILES else (True, {})
    # ------------------------------------------------------------------ 2. harness
    exe = ctx.build_harness("mem_harness", san=True, wrap=True)
    ex = Explorer(ctx, exe)

    # corpus first
    for p in sorted(glob.glob(os.path.join(CORPUS, "*.txt"))):
        ops = [l for l in open(p).read().split("\n") if l and not l.startswith("#")]
        ex.explore(ops, "corpus/" + os.path.basename(p))
    # directed
    for name in sorted(DIRECTED):
        ex.explore(DIRECTED[name], "directed/" + name)
    # tie (model vs C) and witnesses
    tie_broken = mem_tie.run_tie(ctx, exe, "C03")

    # generated histories
    quick = ctx.tier != "thorough"
    mixes = [("p",), ("d",), ("c", "n"), ("p", "d", "c", "n"), ("c", "n", "d")]
    nhist = 8 if quick else 60
    nops = 40 if quick else 200
    for mi, mods in enumerate(mixes):
        for h in range(nhist):
            ops = mem_gen.gen_script(ctx.rng, nops, mods, p_bad=0.15 if h % 2 == 0 else 0.3)
            ex.explore(ops, "gen/%s/%d" % ("".join(mods), h))
            if h % 3 == 0:
                ex.explore(mem_gen.mutate_script(ctx.rng, ops, 4), "mut/%s/%d" % ("".join(mods), h))
            if h == 0:
                ctx.sample({"history": "gen/%s/%d" % ("".join(mods), h), "first_ops": ops[:6]})
    if not quick:
        n = 0
        for seq in bounded_prefixes(3):
            ex.explore(seq, "exh3/%d" % n)
            n += 1
    ex.flush()
    for k in sorted(ex.op_kinds):
        ctx.count(("opkind",) + k, 0)
    ctx.extra["histories_run"] = ex.runs
    ctx.extra["ops_executed"] = ex.ops_run
    ctx.extra["distinct_op_outcomes"] = len(ex.op_kinds)
    ctx.extra["modelled_at_pointer_level"] = mem_tie.MODELLED
    ctx.notes.append("sanitizer/live-count enumeration is support; proof covers only the functions listed in modelled_at_pointer_level")

    if not ok or tie_broken:
        found_new = any(vplib.match_known(ctx.prop, v.sig, ex.known) is None for v in ctx.violations)
        if not found_new:
            bad = [v for v, o in res.items() if not o] + tie_broken
            ctx.unproved("C03:" + ",".join(bad)[:200], "Coq obligation or model/C tie broke",
                         "%d histories (%d ops) under ASan/UBSan/LSan, directed scripts, tie scripts" % (ex.runs, ex.ops_run))
