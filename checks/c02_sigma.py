"""C02 / C10: the sigma of a correlated parameter as it is consumed by the self-calibration.

Through the PUBLIC API only (harness/selfcal_harness.c: vnacal_make_correlated_parameter,
vnacal_new_add_*, vnacal_new_solve, vnacal_get_parameter_value, vnacal_apply_m): one over-determined
self-calibration with a correlated parameter is solved three times.  The three runs differ only in the
way the same sigma(f) - a straight line over the calibration band - is described:

  (a) on a 2-point grid (the two points at or beyond the ends of the calibration band),
  (b) as that line sampled at every calibration frequency (grid = the calibration frequencies),
  (c) as (b) with every sample scaled by 1 + 1e-6 (conditioning probe only).

sigma(f) enters the solution as the weight 1 / sigma(f) of the equation `correlated = correlate` at
every frequency (vnacal_new_solve_auto.c); the true value of the correlated parameter differs from its
correlate, so the solution is a compromise that depends on the weight.  (a) and (b) are two descriptions
of the same function (C10: a spline through two points is the chord, a spline through samples of a line
is that line - theorems sigma_two_points / sigma_linear), so the solved parameters and a corrected
device must agree: tolerance 1e-8.  Conditioning filter: the change between (b) and (c) measures the
sensitivity d result / d log sigma; a scenario is compared only if that sensitivity times 1e-12 (the
sigma values of (a) and (b) agree to a few ulp) is below 1e-9, if all three solves succeeded (a solve that
does not converge is not compared: the iteration can stall at the tolerance), and it is counted as
discriminating only if (c) moved the result by more than 1e-9 (the weight matters).

run_part(ctx, rec=None): rec is the Recorder of checks/C02.py (rec.add(sig, what, scenario, result));
without it violations go to ctx.violation directly.
"""
import random

import selfcal_gen as G

TOL = 1e-8


def line_value(f, f0, f1, s0, s1):
    return s0 + (s1 - s0) * ((f - f0) / (f1 - f0))


def build(seed, sid, typ, nf, how, widen, s0, s1, two_corr):
    """The same data for every `how` (same seed); only the sigma description differs."""
    rng = random.Random(seed)
    freqs = G.default_freqs(nf)
    em = G.ErrorModel(rng, typ, 1, nf)
    sc = G.Scenario(sid, typ, 1, freqs)
    sc.em = em
    g0 = freqs[0] * (1.0 - widen)
    g1 = freqs[-1] * (1.0 + widen)

    def corr(base_nm, truth):
        nm = sc._name("c")
        if how == "two":
            grid, vals = [g0, g1], [s0, s1]
        else:
            k = 1.0 + 1e-6 if how == "probe" else 1.0
            grid, vals = freqs, [k * line_value(f, g0, g1, s0, s1) for f in freqs]
        sc.lines.append("correlated %s %s %d %s %s" % (nm, base_nm, len(grid), " ".join(G.fnum(f) for f in grid),
                                                      " ".join(G.fnum(v) for v in vals)))
        sc.truth[nm] = [complex(v) for v in truth]
        return nm

    stds = []
    # three known reflects, constant over frequency
    for k in range(3):
        v = G.rand_reflect(rng, k)
        stds.append((sc.known([v] * nf), [v] * nf))
    # two further known reflects (make the measurement equations alone over-determined)
    for k in (3, 4):
        vals = [G.rand_reflect(rng, k) for _ in range(nf)]
        stds.append((sc.known(vals), vals))
    # a correlated parameter whose truth is 0.03..0.08 away from its (known, frequency dependent) correlate
    base_vals = [G.crand(rng, 0.3, 0.8) for _ in range(nf)]
    base_nm = sc.known_vec(base_vals)
    truth = [b + G.crand(rng, 0.03, 0.08) for b in base_vals]
    c1 = corr(base_nm, truth)
    stds.append((c1, truth))
    if two_corr:
        # a second one correlated with the first (an unknown correlate: the -weight column)
        truth2 = [t + G.crand(rng, 0.03, 0.08) for t in truth]
        c2 = corr(c1, truth2)
        stds.append((c2, truth2))
    order = list(range(len(stds)))
    rng.shuffle(order)
    for i in order:
        nm, vals = stds[i]
        sc.add_single(nm, 1, [em.measure([[vals[f]]], f) for f in range(nf)])
    sc.cmd("ptol 1e-9")
    sc.cmd("ettol 1e-9")
    sc.cmd("itlimit 100")
    sc.solve()
    sc.getparams()
    G.add_dut(rng, sc)
    sc.meta.update({"family": "sigma_two_descriptions", "type": typ, "nf": nf, "sigma": how, "grid_widened_by": widen,
                    "sigma_at_ends": [s0, s1], "second_correlated": two_corr})
    return sc


def results_of(sc, r):
    """-> (flat list of solved parameter values and corrected device cells) or None"""
    if not r or r.get("crash") or not r.get("solve") or r["solve"][0]["rc"] != 0:
        return None
    out = []
    for nm in sorted(sc.truth):
        got = r["params"].get(nm)
        if not got or len(got[0]) != sc.nf:
            return None
        out += list(got[0])
    if not r["S"] or not r["S"][0]:
        return None
    for f in range(sc.nf):
        if f not in r["S"][0]:
            return None
        out += list(r["S"][0][f])
    return out


def run_part(ctx, rec=None):
    quick = ctx.tier == "quick"
    exe = ctx.build_harness("selfcal_harness", san=True)
    rng = ctx.rng
    groups = []
    n = 8 if quick else 60
    for i in range(n):
        seed = rng.getrandbits(48)
        typ = rng.choice(["E12", "T8", "U8", "TE10", "UE10", "UE14"])
        nf = rng.choice([3, 4, 5, 6])
        widen = rng.choice([0.0, 0.0, 0.005, 0.2])
        s0, s1 = rng.choice([(0.02, 0.5), (0.5, 0.02), (0.05, 1.0), (0.3, 0.03)])
        two = rng.random() < 0.4
        g = [build(seed, "sig%d_%s" % (i, how), typ, nf, how, widen, s0, s1, two) for how in ("two", "line", "probe")]
        groups.append(g)
    res = G.run_batch(ctx, exe, [sc for g in groups for sc in g])
    stats = {"groups": len(groups), "compared": 0, "discriminating": 0, "solve_failed": 0, "ill_conditioned": 0, "max_difference": 0.0}
    worst = None

    def report(sig, what, sc, r):
        if rec is not None:
            rec.add(sig, what, sc, r)
        else:
            ctx.violation(sig, what, {"how": "harness/selfcal_harness.c < scenario", "scenario": sc.text(), "meta": sc.meta,
                                      "observed": {"solve": r.get("solve") if r else None, "crash": r.get("crash") if r else None}})

    for g in groups:
        rs = [res.get(sc.sid) for sc in g]
        ctx.count(("sigma_two_descriptions", g[0].sid))
        crashed = next(((sc, r) for sc, r in zip(g, rs) if r and r.get("crash")), None)
        if crashed:
            sc, r = crashed
            c = r["crash"]
            report({"kind": c.get("kind", "fault"), "error": c.get("error"), "function": c.get("function")},
                   "fault in %s while solving a calibration with a correlated parameter whose sigma is given on a %s grid: %s"
                   % (c.get("function"), sc.meta["sigma"], c.get("error")), sc, r)
            continue
        va, vb, vc = (results_of(sc, r) for sc, r in zip(g, rs))
        # (a failed solve - the iteration can stall at the tolerance, and then a last-bit difference decides between
        # "converged" and "not converged" - says nothing about the two descriptions: not compared)
        if va is None or vb is None or vc is None:
            stats["solve_failed"] += 1
            continue
        sens = max(abs(x - y) for x, y in zip(vb, vc)) / 1e-6
        if sens * 1e-12 > 1e-9:
            stats["ill_conditioned"] += 1
            continue
        stats["compared"] += 1
        ctx.traces_validated += 1
        if sens * 1e-6 > 1e-9:
            stats["discriminating"] += 1
        d = max(abs(x - y) for x, y in zip(va, vb))
        stats["max_difference"] = max(stats["max_difference"], d)
        if d > TOL and (worst is None or d > worst[0]):
            worst = (d, g, rs, sens)
    if worst is not None:
        d, g, rs, sens = worst
        sc = g[0]
        report({"kind": "sigma_descriptions", "class": "results differ"},
               "two descriptions of the same sigma(f) (2-point grid %s vs the same line sampled at the %d calibration frequencies) give "
               "different results: solved parameters / corrected device differ by %.3g (tolerance %.0e; a relative change of 1e-6 in sigma moves them by %.3g)"
               % ([sc.meta["sigma_at_ends"][0], sc.meta["sigma_at_ends"][1]], sc.nf, d, TOL, sens * 1e-6), sc, rs[0])
    ctx.extra["sigma_two_descriptions"] = stats
    ctx.obligation("tie:sigma(f) on a 2-point grid == the same line sampled at every calibration frequency (public API, %d scenarios compared)"
                   % stats["compared"], worst is None, "" if worst is None else "difference %.3g" % worst[0])
    ctx.obligation("tie:sigma two-descriptions scenarios are discriminating (the weight matters)",
                   stats["discriminating"] >= max(1, stats["groups"] // 4),
                   "%d of %d scenarios react to a 1e-6 change of sigma" % (stats["discriminating"], stats["groups"]))
    return stats
