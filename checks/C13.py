"""C13 - the property tree behaves like a map/list/scalar document model.

1. Coq: the byte-level model (PropTree/PropModel.v), the abstract document (PropTree/DocSpec.v),
   the refinement / quote_key / grammar proofs and Properties_C13.v are rebuilt (obligations).
2. Tie: the extracted model (ocaml/drv_prop.ml) and the library (harness/prop_harness.c, built from
   the working tree under ASan/UBSan/LSan) run identical op scripts; every outcome line
   (return value, errno class, payload, pre-order digest through type/count/keys/get/get_subtree
   and the list allocation) must be equal.  Corpus, directed probes (one process each), random
   scripts, big maps / lists, bounded-exhaustive scripts, quote_key round trips, and the same
   through vnacal_property_* on the global and a per-calibration root.
   Aliased copies (fix D71; op `copywithin D D2` = p = set_subtree(&root, D); s = get_subtree(root, D2);
   vnaproperty_copy(p, s)): generated from the paths set earlier in the script with the source inside the
   destination, the destination inside the source, both equal, disjoint, a missing source, a destination that the
   call creates (prop_lib.gen_copywithin); directed probes; a bounded-exhaustive alphabet of their own.
   Hash table: coq/PropTree/HashModel.v (the table of a map as coded, any hash function; HashProofs.v:
   PropModel's association list is a sound abstraction of it) is run with h := crc32c on root-level
   scripts whose keys collide in CRC-32C (modulo 8/16/32 and modulo the real sizes 11/33/99, and with
   identical 32-bit CRCs) and compared bucket for bucket with the library's table (white-box op hdump);
   crc32c_table[] of the C source is compared with the Coq definition crc_entry.
3. A sanitizer report or a disagreement is shrunk and reported as a violation.  When a proof
   obligation breaks the search is widened; without a failing input the result is `unproved`.
"""
import glob
import hashlib
import itertools
import os

import vplib
import prop_lib as pl

VFILES = ["PropTree/PropModel.v", "PropTree/DocSpec.v", "PropTree/PropProofs.v",
          "PropTree/QuoteProofs.v", "PropTree/RebuildProofs.v", "PropTree/ApiProofs.v", "PropTree/WfProofs.v",
          "PropTree/CopyProofs.v", "PropTree/FrameProofs.v", "PropTree/DescGrammar.v", "PropTree/GrammarProofs.v",
          "PropTree/HashModel.v", "PropTree/HashProofs.v",
          "Properties_C13.v"]

# (name, script): probes for the candidate defects of DESIGN.md section 7 and for boundary cases;
# each runs in its own process so that a crash does not hide the others
PROBES = [
    ("D1_getsub_trailing", [("set", b"a=1"), ("getsub", b"a="), ("getsub", b"a x"), ("getsub", b"a#")]),
    ("D2_delete_at_allocation", [("set", b"[+]=%d" % i) for i in range(8)] + [("del", b"[0]"), ("count", b"[]")]),
    ("D2_deleted_element_freed", [("set", b"[0].a=x"), ("set", b"[1]=y"), ("del", b"[0]"), ("get", b"[0]")]),
    ("D3_failed_lookup", [("set", b"a=1"), ("get", b"b"), ("type", b"b.c"), ("del", b"zz"), ("getsub", b"q")]),
    ("D39_index_int_max", [("set", b"[2147483647]=x"), ("set", b"a[2147483647]#"), ("setsub", b"[2147483647]"),
                           ("set", b"[0]=y"), ("set", b"[2147483647+]=x"), ("get", b"[2147483647]")]),
    ("DP1_copy_empty_collections", [("setsub", b"a{}"), ("setsub", b"b[]"), ("set", b"c[1]#"), ("copyout", b"."),
                                    ("copyout", b"a"), ("copyout", b"b"), ("copyin", b"z.y")]),
    # fix D71: source and destination of vnaproperty_copy in the same tree, every relative position
    ("D71_copy_source_inside_destination", [("set", b"a.b.c=x"), ("set", b"a.b.l[1]=y"), ("set", b"a.k=z"),
                                            ("copywithin", b"a", b"a.b"), ("keys", b"a"), ("copywithin", b".", b"a.l[1]"), ("get", b".")]),
    ("D71_copy_destination_inside_source", [("set", b"a.b.c=x"), ("set", b"a.k=z"), ("copywithin", b"a.b", b"a"),
                                            ("get", b"a.b.b.c"), ("copywithin", b"a.b.k[2]", b"."), ("count", b"a.b.k"),
                                            ("copywithin", b"a.b.b.c.d", b"."), ("get", b"a.b.b.c.d.a.k")]),
    ("D71_copy_same_disjoint_missing_created", [("set", b"a.b=x"), ("set", b"l[+]=y"), ("copywithin", b"a", b"a"), ("copywithin", b".", b"."),
                                                ("copywithin", b"a.b", b"l"), ("copywithin", b"l", b"nokey"), ("type", b"l"),
                                                ("copywithin", b"l[+]", b"l"), ("copywithin", b"l[0+]", b"."), ("copywithin", b"m[3].n", b"m"),
                                                ("copywithin", b"a{}", b"a.b"), ("copywithin", b"l[]", b"a"), ("copywithin", b"a=", b"a"),
                                                ("copywithin", b"l[2147483647]", b"a"), ("copywithin", b"a", b"a.b x"), ("keys", b".")]),
    ("strtol_narrowing", [("set", b"[4294967297]=x"), ("set", b"[99999999999999999999]=x"), ("set", b"[2147483648]=y"),
                          ("get", b"[4294967296]"), ("get", b"[18446744073709551617]")]),
    ("refused_set_leaves_tree_unchanged", [("set", b"a=1"), ("set", b"a{}=x"), ("type", b"a"), ("set", b"a[]"), ("type", b"a"),
                                 ("set", b"b[99999999999999999999]=x"), ("type", b"b")]),
    ("trim_after_escapes", [("set", b"\\.\\.a  =x"), ("keys", b"."), ("set", b"a\\.b  =y"), ("keys", b"."),
                            ("set", b"a\\ \\ =z"), ("keys", b"."), ("set", b"p  .q =1"), ("keys", b"{}")]),
    ("trailing_dot", [("set", b"a.b=1"), ("set", b"l[2]=x"), ("del", b"a.b."), ("keys", b"a"), ("del", b"l[0]."),
                      ("count", b"l"), ("del", b"l[0]"), ("count", b"l"), ("del", b"a."), ("keys", b"."), ("del", b".")]),
    ("null_results", [("set", b"a#"), ("get", b"a"), ("type", b"a"), ("count", b"a"), ("keys", b"a"), ("getsub", b"a"),
                      ("get", b"."), ("count", b"a.b"), ("set", b".#"), ("type", b".")]),
    ("insert_append", [("set", b"[+]=a"), ("set", b"[+]=b"), ("set", b"[0+]=c"), ("set", b"[5+]=d"), ("set", b"[1+][+]=e"),
                       ("get", b"[1+]"), ("del", b"[+]"), ("type", b"[0+]"), ("count", b".")]),
]


def _sig_for(d):
    if d.crashed():
        sig = vplib.asan_signature(d.stderr)
        if sig is None:
            sig = {"kind": "fault", "error": "exit %s" % d.rc, "function": None}
        if sig.get("function") is None:
            # leaks allocated inside libyaml: the fast unwinder loses the libvna frame
            for name in ("yaml_parser_initialize", "yaml_emitter_initialize", "yaml_document_initialize"):
                if name in d.stderr:
                    sig["function"] = name
                    break
        return sig
    op = d.script[d.index]
    return {"kind": "disagreement", "op": op[0], "class": pl.classify_descriptor(op[1] if len(op) > 1 else b"")}


def report(ctx, d, where, c_cmd, m_cmd, env, seen, nfields=5):
    """Shrink and record one failure (one violation per distinct signature)."""
    d = pl.shrink(c_cmd, m_cmd, d, env, nfields)
    sig = _sig_for(d)
    key = tuple(sorted(sig.items()))
    if key in seen:
        return
    seen.add(key)
    steps = [pl.op_show(o) for o in d.script[:d.index + 1]]
    if d.crashed():
        what = "%s: sanitizer/crash %s in %s after %s" % (where, sig.get("error"), sig.get("function"), steps[-3:])
    else:
        what = "%s: library and model disagree at `%s`: C `%s` model `%s`" % (
            where, steps[-1], pl.norm_line(d.c_line, nfields), pl.norm_line(d.m_line, nfields))
    ctx.violation(sig, what[:600], {
        "where": where, "script": [pl.op_text(o) for o in d.script[:d.index + 1]], "script_readable": steps,
        "c_line": d.c_line, "model_line": d.m_line, "stderr": d.stderr[-3000:],
        "how": "harness/prop_harness.c < script ; ocaml/_build/drv_prop < script"})


def load_corpus(name):
    out = []
    for p in sorted(glob.glob(os.path.join(vplib.VERIF, "corpus", name, "*.script"))):
        script = []
        for line in open(p):
            w = line.split()
            if not w or w[0].startswith("#"):
                continue
            script.append(tuple([w[0]] + [b"" if a == "-" else bytes.fromhex(a) for a in w[1:]]))
        if script:
            out.append((os.path.basename(p), script))
    return out


def exhaustive_scripts(alphabet, depth):
    for n in range(1, depth + 1):
        for t in itertools.product(alphabet, repeat=n):
            yield list(t) + [("keys", b"."), ("count", b"a"), ("getsub", b"a.b")]


SMALL_ALPHABET = [
    ("set", b"a=x"), ("set", b"a.b=y"), ("set", b"a[1]=z"), ("set", b"a[0+]#"), ("set", b"a[+]=w"), ("set", b"[0]=l"),
    ("set", b".=s"), ("set", b"a.b.#"), ("set", b"a{}"), ("del", b"a"), ("del", b"a.b"), ("del", b"a[0]"), ("del", b"a."),
    ("del", b"."), ("setsub", b"a[]"), ("setsub", b"a.b{}"), ("subset", b"a", b"b=q"), ("copyout", b"a"), ("copyin", b"a.b"),
    ("set", b"a[1].b=n"), ("del", b"[0]"), ("set", b"b\\.c=d"), ("subdel", b"a", b"[0]"), ("set", b"a.b[+].c#"),
]


# bounded-exhaustive aliased copies: three ways of building a tree, every relative position of source and destination
ALIAS_ALPHABET = [
    ("set", b"a.b=x"), ("set", b"a.c[1]=y"), ("set", b"l[+]=z"), ("del", b"a.b"),
    ("copywithin", b"a", b"a.b"), ("copywithin", b"a.b", b"a"), ("copywithin", b"a", b"a"), ("copywithin", b"a.c", b"l"),
    ("copywithin", b"a.c[0]", b"zz"), ("copywithin", b"l[+]", b"."), ("copywithin", b"a.b[0+]", b"a"), ("copywithin", b".", b"a.c"),
]


def run(ctx):
    ctx.level = "proof"
    ctx.trusted_base = [
        "Coq 8.16.1 kernel (coqc); vm_compute for the examples; no native_compute",
        "axioms: none (Print Assumptions: Closed under the global context for every theorem of Properties_C13.v)",
        "hand-written model coq/PropTree/PropModel.v of src/vnaproperty.c, tied by op-script correspondence on every run",
        "hand-written model coq/PropTree/HashModel.v of the map hash table (map_compare_keys, map_find_anchor, map_subtree, "
        "map_delete, map_expand), tied bucket for bucket (h := crc32c, crc table compared with the C source) on every run",
        "hand-written specification coq/PropTree/DocSpec.v (update rules of vnaproperty(3))",
        "extraction (ExtrOcamlBasic) and the OCaml glue in ocaml/drv_prop.ml; harness/prop_harness.c; gcc ASan/UBSan/LSan",
    ]
    ctx.assumptions = ["C strings contain no NUL and are passed through \"%s\" (vasprintf formatting is not modelled)",
                       "C locale for isalpha/isdigit/isascii; allocation never fails (C12 covers failures)",
                       "PropModel keeps a map as its insertion-ordered association list; that this is a sound abstraction of the "
                       "hash table as coded is a theorem (c13_hash_table_refines_assoc_list, every hash function) about one map "
                       "node at a time"]
    ctx.rule = ("evaluation = one op executed on model and library with equal outcome lines; distinct non-trivial = "
                "distinct scripts (by content) that contain at least one modifying op")
    thorough = ctx.tier == "thorough"

    ok, res = ctx.coq_obligations(VFILES)
    if not ok:
        ctx.log("proof obligations failed:", [k for k, v in res.items() if not v])

    exe = ctx.build_harness("prop_harness", san=True)
    drv = ctx.ocaml_driver("drv_prop")
    env = ctx.run_env(leak=True)
    env["ASAN_OPTIONS"] += ":max_allocation_size_mb=2048"      # a 32 GB request fails at once
    env["PROP_TMP"] = ctx.tmp
    c_cmd, m_cmd = [exe], [drv]
    seen = set()
    nviol0 = len(ctx.violations)

    def account(scripts, results_ok=True):
        for s in scripts:
            txt = pl.script_text(s)
            ctx.count(hashlib.sha1(txt.encode()).hexdigest() if any(o[0] in ("set", "del", "setsub", "subset", "copyin", "copywithin")
                                                                   for o in s) else None, n=len(s))
        ctx.traces_validated += len(scripts)

    def batch(where, scripts, cmd=None, e=None, maxf=6, norm=5):
        cmd = cmd or c_cmd
        e = e or env
        done, found = pl.find_failures(cmd, m_cmd, scripts, e, nfields=norm, max_found=maxf)
        account(scripts[:done])
        for d in found:
            report(ctx, d, where, cmd, m_cmd, e, seen, norm)
        ctx.obligation("tie:" + where, not found, "%d scripts, %d failures" % (len(scripts), len(found)))
        return found

    # ---------------------------------------------------------------- corpus and probes (own process each)
    for name, script in load_corpus("C13"):
        batch("corpus/" + name, [script], maxf=1)
    for name, script in PROBES:
        # index INT_MAX: refusing with EINVAL (fix D39b) or failing the allocation (ENOMEM) both do
        batch("probe/" + name, [script], maxf=1,
              norm=pl.norm_enomem_as_einval if name.startswith("D39") else 5)
        ctx.sample({"probe": name, "ops": [pl.op_show(o) for o in script][:6]})

    # ---------------------------------------------------------------- random scripts
    n_short, n_long = (4000, 150) if not thorough else (40000, 2000)
    alias_stats = {}
    scripts = [pl.gen_script(ctx.rng, ctx.rng.randint(1, 40), stats=alias_stats) for _ in range(n_short)]
    scripts += [pl.gen_script(ctx.rng, 200, stats=alias_stats) for _ in range(n_long)]
    ctx.sample({"random_script": [pl.op_show(o) for o in scripts[0]][:8]})
    batch("random", scripts)
    # aliased copies (fix D71): scripts that build a tree and then copy inside it, every relative position in turn
    alias_scripts = []
    for i in range(300 if not thorough else 4000):
        keys = ctx.rng.sample(pl.PLAIN_KEYS, 3) + ctx.rng.sample(pl.HOSTILE_KEYS, ctx.rng.randint(0, 2))
        used, s_ = [], []
        for _ in range(ctx.rng.randint(2, 6)):
            s_.append(("set", pl.gen_set_arg(ctx.rng, keys, used)))
        for j in range(ctx.rng.randint(1, 4)):
            s_.append(pl.gen_copywithin(ctx.rng, keys, used, alias_stats, position=pl.COPY_POSITIONS[(i + j) % len(pl.COPY_POSITIONS)]))
            if ctx.rng.random() < 0.5:
                s_.append(("getsub", pl.gen_query_arg(ctx.rng, keys, used)))
        alias_scripts.append(s_)
    ctx.sample({"aliased_copy_script": [pl.op_show(o) for o in alias_scripts[0]][:8]})
    batch("aliased-copy", alias_scripts)
    ctx.extra["aliased_copy_positions"] = dict(alias_stats)
    ctx.obligation("tie:aliased copies generated in every relative position (%s)" % ", ".join(pl.COPY_POSITIONS),
                   all(alias_stats.get(p_, 0) > 0 for p_ in pl.COPY_POSITIONS), str(alias_stats))
    big = [pl.gen_bigmap_script(ctx.rng, n) for n in ((25, 70, 150) if not thorough else (23, 25, 67, 70, 150, 300, 700))]
    big += [pl.gen_biglist_script(ctx.rng, n) for n in ((20, 70) if not thorough else (9, 17, 20, 33, 70, 200))]
    batch("big-collections", big)

    # ---------------------------------------------------------------- the hash table
    # (a) crc32c_table[] as written in the C source = the table of polynomial 0x1EDC6F41 = crc_entry of HashModel.v
    try:
        ctab = pl.parse_c_crc_table(ctx.repo)
        rc, out, err = ctx.coq_eval("crc_table", "Require Import List NArith.\nImport ListNotations.\nRequire Import LV.PropTree.HashModel.\n"
                                    "Example crc_table_of_the_C_source : map (fun i => crc_entry (N.of_nat i)) (seq 0 256) = [%s]%%N.\n"
                                    "Proof. vm_compute. reflexivity. Qed.\n" % "; ".join(str(v) for v in ctab))
        ctx.obligation("tie:crc32c_table (C source = Coq crc_entry = polynomial 0x1EDC6F41)",
                       ctab == pl.crc32c_table() and rc == 0, "C/Python equal: %s, Coq check rc=%d %s" % (ctab == pl.crc32c_table(), rc, err[-200:]))
    except RuntimeError as e_:
        ctab = None
        ctx.obligation("tie:crc32c_table (C source = Coq crc_entry = polynomial 0x1EDC6F41)", False, str(e_))
    # (b) keys that collide in CRC-32C through the ordinary model/library correspondence
    full_pairs = pl.full_collisions(ctx.rng, pairs=2 if not thorough else 6, budget=260000 if not thorough else 600000)
    ctx.extra["crc32c_full_collisions"] = [[a.decode(), b.decode()] for a, b in full_pairs]
    coll = [pl.gen_collision_map_script(ctx.rng, full_pairs) for _ in range(12 if not thorough else 120)]
    batch("crc-collisions", coll)
    # (c) HashModel.v (h := crc32c) against the buckets of the library's table
    cases = [pl.gen_root_hash_case(ctx.rng, full_pairs, 80 if i % 3 else 230) for i in range(8 if not thorough else 80)]
    steps, bad = pl.run_hash_tie(c_cmd, m_cmd, cases, env)
    ctx.count(("hash-tie", steps), n=steps)
    ctx.traces_validated += len(cases)
    ctx.extra["hash_table_steps_compared"] = steps
    ctx.obligation("tie:hash-table (HashModel.v with crc32c vs the library's buckets)", bad is None,
                   "%d cases, %d steps" % (len(cases), steps) if bad is None else "%s at op %d of case %d" % (bad[2], bad[1], bad[0]))
    if bad is not None:
        ci, oi, what, cline, mline, err = bad
        c_ops = cases[ci][0][:oi + 1]
        sig = vplib.asan_signature(err) or {"kind": "disagreement", "op": "hash:" + c_ops[-1][0], "class": what}
        # c13_hash_table_refines_assoc_list holds of the model: the property (look-up finds exactly the stored keys) sides with it
        ctx.violation(sig, "hash table of the root map: %s after `%s` (model `%s`, library `%s`)" % (
            what, pl.op_show(c_ops[-1]), (mline or "")[:200], (cline or "")[:200]),
            {"script": [pl.op_text(o) for o in c_ops] + ["hdump"], "model": mline, "implementation": cline,
             "how": "harness/prop_harness.c (ops, then hdump) vs ocaml/drv_prop (hset/hlook/hdel)", "stderr": err})

    # ---------------------------------------------------------------- bounded exhaustive
    if thorough:
        ex = list(exhaustive_scripts(SMALL_ALPHABET, 3)) + list(exhaustive_scripts(SMALL_ALPHABET[:12], 4))
    else:
        ex = list(exhaustive_scripts(SMALL_ALPHABET[:14], 3))
    batch("exhaustive", ex)
    ex_alias = list(exhaustive_scripts(ALIAS_ALPHABET, 3 if not thorough else 4))
    batch("exhaustive-aliased-copy", ex_alias)
    ctx.extra["exhaustive_scripts"] = len(ex) + len(ex_alias)

    # ---------------------------------------------------------------- quote_key addresses exactly that key
    keys = list(pl.HOSTILE_KEYS) + list(pl.PLAIN_KEYS)
    alpha = b"a .\\[]{}=#+-_9\t\n~" + "é".encode()
    for _ in range(200 if not thorough else 3000):
        keys.append(bytes(ctx.rng.choice(alpha) for _ in range(ctx.rng.randint(1, 7))))
    keys = [k for k in dict.fromkeys(keys) if k and _valid_utf8(k)]
    rc, qres, qerr = pl.run_batch(c_cmd, [[("quote", k)] for k in keys], env=env)
    qscripts = []
    bad_quote = None
    for k, lines in zip(keys, qres):
        if not lines or not lines[0].split(" ")[2].startswith("S:"):
            bad_quote = k
            continue
        q = bytes.fromhex(lines[0].split(" ")[2][2:])
        qscripts.append([("quote", k), ("set", b"other=1"), ("set", q + b"=v"), ("keys", b"."), ("get", q),
                         ("set", q + b".sub[+]=w"), ("type", q + b"{}"), ("del", q + b"."), ("keys", b"{}"),
                         ("del", q), ("keys", b".")])
    found = batch("quote_key", qscripts)
    if not found:
        # independent of the model: the key list shown by the library must contain exactly k
        rc, cres, cerr = pl.run_batch(c_cmd, qscripts, env=env)
        for s, lines in zip(qscripts, cres):
            k = s[0][1]
            want = "K:" + b"other".hex() + "," + k.hex()
            if len(lines) > 4 and (lines[3].split(" ")[2] != want or lines[4].split(" ")[2] != "S:76"):
                ctx.violation({"kind": "disagreement", "op": "quote", "class": "addresses-other-key"},
                              "quote_key(%r) does not address exactly that key: keys %s" % (k, lines[3].split(" ")[2]),
                              {"script": [pl.op_text(o) for o in s], "lines": lines})
                break
    if bad_quote is not None:
        ctx.violation({"kind": "disagreement", "op": "quote", "class": "null"}, "quote_key(%r) failed" % bad_quote, {})

    # ---------------------------------------------------------------- through vnacal_property_*
    nv = 200 if not thorough else 3000
    vs = [pl.gen_script(ctx.rng, ctx.rng.randint(1, 40)) for _ in range(nv)] + [pl.gen_bigmap_script(ctx.rng, 30)]
    batch("vnacal_property/global", vs, cmd=[exe, "global"])
    env_noleak = ctx.run_env(leak=False)        # vnacal_free leaks the calibration (D37, not this property)
    env_noleak["ASAN_OPTIONS"] += ":max_allocation_size_mb=2048"
    env_noleak["PROP_TMP"] = ctx.tmp
    batch("vnacal_property/calibration", vs, cmd=[exe, "cal"], e=env_noleak)

    # ---------------------------------------------------------------- a proof broke but nothing disagreed
    if not ok and len(ctx.violations) == nviol0:
        more = [pl.gen_script(ctx.rng, ctx.rng.randint(1, 60)) for _ in range(6000)]
        found = batch("search-after-broken-proof", more)
        if not found:
            broken = [k for k, v in res.items() if not v]
            ctx.unproved(",".join(broken), "Coq development of C13 no longer compiles: " +
                         getattr(ctx, "_last_coq_log", "")[-400:],
                         "corpus, probes, %d random and %d exhaustive scripts, quote_key round trips: model and library agree"
                         % (len(scripts) + len(more), len(ex)))


def _valid_utf8(b):
    try:
        b.decode("utf-8")
        return True
    except UnicodeDecodeError:
        return False
