"""C10, the frequency side of vnacal_apply (called from checks/C10.py).

Tie of coq/Interp/ApplyFreqModel.v (the interpolation loop of _vnacal_apply_common: one _vnacal_rfi
call per error term per request frequency, order MIN(cal_frequencies, VNACAL_MAX_M), ONE segment
variable threaded through all calls) and ApplyFreqRange.v (the tests on the request vector) to the code:

  * harness/apply_wb.c compiles the unmodified src/vnacal_apply.c with every _vnacal_rfi call tapped
    (arguments, segment before / after, value), builds calibrations directly from dyadic frequency and
    error-term vectors (1x1 and 2x2, 3..16 terms, grids of 1..8 points) and calls vnacal_apply_m;
  * per request: the verdict (accepted / refused, one error report, no call made when refused) against
    apply_check evaluated by Coq and against the property (>= 5 % miss refused, cover accepted); the call
    sequence (request-major, term-minor, n, m, x) and the segment before / after EVERY call against the
    model's apply_trace exactly (Python mirror of RfiModel threaded as ApplyFreqModel does, compared exactly with
    the extracted ApplyFreqModel.apply_trace on the requests over grids of 1..3 points - exact evaluation of
    the extracted model is slow for orders 4, 5); values at calibration frequencies against the stored terms
    exactly, other values against the exact rational value (1e-12, conditioning filter of the rfi tie);
  * requests: the calibration grid, equal-length grids sharing a prefix with it, sorted mixtures of knots
    and interior points, single points, points inside the 1 % slack, empty requests, requests out of order
    or with a repeated frequency (must be refused: the loop is not reached), >= 5 % misses at either end;
  * across the requests of one calibration the tapped value of a term at a frequency and the corrected
    S cells at that frequency must be bit-identical (apply_request_pointwise at the level of the code);
  * the same request shapes through the normally linked library (harness/interp_harness.c op apply on a
    solved calibration): S at a frequency identical whatever else is in the request.
"""
import re
from fractions import Fraction

import vplib
import ranges  # noqa: F401  (translator idioms are checked by checks/C10.py through ranges.generate)
import interp_py as ip

FR = Fraction
CONFIGS = [("E12", 1, 1), ("T8", 2, 2), ("U8", 2, 2), ("TE10", 2, 2), ("E12", 2, 2), ("UE14", 2, 2), ("T16", 2, 2)]


def base():
    import C10
    return C10


def dblf(v):
    return FR(float(v))


# ----------------------------------------------------------------------------- generation
def gen_terms(rng, T, nf, xp):
    """T term vectors on nf points, dyadic, non-zero real parts; some smooth, some rational, some random."""
    out = []
    for t in range(T):
        mode = rng.choice(["rand", "rand", "smooth", "rat"])
        if mode == "rat":
            a, b = FR(rng.randint(-12, 12), 4), FR(rng.randint(-12, 12), 4)
            c = max(xp) + 1 + FR(rng.randint(0, 16), 4)
        vec = []
        for x in xp:
            if mode == "rand":
                v = (FR(rng.randint(1, 96) * rng.choice((-1, 1)), 64), FR(rng.randint(-64, 64), 64))
            elif mode == "smooth":
                v = (dblf(FR(3, 4) + x / 16), dblf(FR(1, 8) - x / 32))
            else:
                v = (dblf((a + b * x) / (c + x)), dblf(FR(1, 4) + x / 64))
            if v[0] == 0:
                v = (FR(1, 64), v[1])
            vec.append(v)
        if rng.random() < 0.3:
            k = FR(2) ** rng.randint(-18, 40)       # terms of another scale (real parts stay above 2^-29, see C10.yvals)
            vec = [(dblf(a * k), dblf(b * k)) for a, b in vec]
        out.append(vec)
    return out


def gen_requests(rng, xp):
    """[(label, req)] for one calibration grid"""
    B = base()
    n = len(xp)
    lo, hi = xp[0], xp[-1]
    out = [("grid", list(xp)), ("empty", [])]
    # equal length, shared prefix (every prefix length), the rest moved into the segments
    if n >= 2:
        for p in sorted(set([1, n // 8, n // 2, n - 1])):
            if 0 < p < n:
                req = list(xp[:p])
                for i in range(p, n):
                    a = xp[i - 1]
                    req.append(dblf(a + (xp[i] - a) * FR(rng.choice((1, 2, 3, 5, 6, 7)), 8)))
                if all(x < y for x, y in zip(req, req[1:])):
                    out.append(("prefix%d" % p, req))
        pool = sorted(set(B.queries(rng, xp, 5, lo=lo, hi=hi) + [rng.choice(xp), xp[0], xp[-1]]))
        out.append(("mixed", pool))
        out.append(("subset", sorted(rng.sample(pool, max(1, len(pool) // 2)))))
        out.append(("single", [rng.choice(pool)]))
        # inside the slack at both ends
        out.append(("slack", [dblf(lo * FR(995, 1000))] + [x for x in pool if lo < x < hi][:2] + [dblf(hi * FR(1005, 1000))]))
        # refused: order / repetition
        if len(pool) >= 2:
            bad = list(pool)
            i = rng.randrange(len(bad) - 1)
            bad[i], bad[i + 1] = bad[i + 1], bad[i]
            out.append(("unsorted", bad))
            rep = list(pool)
            j = rng.randrange(len(rep))
            rep.insert(j, rep[j])
            out.append(("repeated", rep))
    else:
        c = xp[0]
        out.append(("single", [c]))
        out.append(("slack", [dblf(c * FR(995, 1000)), c, dblf(c * FR(1005, 1000))]))
        out.append(("repeated", [c, c]))
    # refused: >= 5 % outside
    out.append(("miss_low", [dblf(lo * FR(rng.randint(50, 94), 100))] + ([hi] if n > 1 else [])))
    out.append(("miss_high", ([lo] if n > 1 else []) + [dblf(hi * FR(rng.randint(106, 200), 100))]))
    out.append(("miss_both", [dblf(lo * FR(rng.randint(50, 94), 100)), dblf(hi * FR(rng.randint(106, 200), 100))]))
    return out


# ----------------------------------------------------------------------------- model
def coq_q(v):
    return "(%d # %d)" % (v.numerator, v.denominator) if v.numerator >= 0 else "((%d) # %d)" % (v.numerator, v.denominator)


def coq_verdicts(ctx, items):
    """items = [(cal, req)] -> list of verdict names or None"""
    if not items:
        return []
    lst = lambda l: "[" + "; ".join(coq_q(v) for v in l) + "]"
    body = ["Require Import List ZArith QArith.", "Require Import LV.Interp.ApplyFreqRange.", "Import ListNotations.",
            "Eval vm_compute in [" + ";\n ".join("apply_check %s %s" % (lst(c), lst(r)) for c, r in items) + "]."]
    src = "\n".join(body) + "\n"
    rc, out, err = ctx.coq_eval("applycases", src, timeout=600)
    if rc != 0:
        ctx.coq_make(["Interp/ApplyFreqRange.vo"])
        rc, out, err = ctx.coq_eval("applycases", src, timeout=600)
    if rc != 0:
        ctx.log("coq_eval of apply_check failed:", err[-300:])
        return None
    vals = re.findall(r"\b(VNotIncreasing|VNoCalPoints|VOutOfRange|VOk)\b", out.split(": list verdict")[0])
    return vals if len(vals) == len(items) else None


def py_verdict(tr, cal, req):
    if any(b <= a for a, b in zip(req, req[1:])):
        return "VNotIncreasing"
    if not req:
        return "VOk"
    if not cal:
        return "VNoCalPoints"
    return "VOutOfRange" if ranges.py_decide(tr, "range_apply", req[0], req[-1], cal[0], cal[-1]) else "VOk"


def mirror_traces(R, jobs):
    """ApplyFreqModel.apply_trace through the Python mirror of RfiModel (lib/interp_py.py, validated exactly
    against the extracted model on every run by checks/C10.py): the segment is threaded from call to call."""
    res = []
    for xp, terms, req in jobs:
        n = len(xp)
        m = n if n <= R.max_m else R.max_m
        seg = 0
        calls = []
        for x in req:
            for yp in terms:
                try:
                    v, h, trc = ip.rfi_full(R.eps, R.cut, xp, yp, n, m, x, seg)
                    calls.append((seg, v, h, trc))
                    seg = h
                except ip.Fault:
                    calls.append((seg, None, None, []))
        res.append(calls)
    return res


def compare_value(B, xp, yp, m, x, cre, cim, mv, trc, st):
    """One tapped value against the exact one (the rules of C10.cmp_rfi_values): -> None or text."""
    cv = (B.cfloat(cre), B.cfloat(cim))
    if B.isbad(*cv):
        return "C returns a non-finite value %s at x = %.17g, model %s" % (B.fl2(cv), float(x), B.fl2(mv))
    if x in xp:
        k = xp.index(x)
        st["knot"] += 1
        if cv != yp[k]:
            return "x = knot %d: C returns %s, supplied value %s" % (k, B.fl2(cv), B.fl2(yp[k]))
        if mv != yp[k]:
            return "x = knot %d: model returns %s, supplied value %s" % (k, B.fl2(mv), B.fl2(yp[k]))
        return None
    if ip.cond(trc) < B.COND_MIN:
        st["illcond"] += 1
        return None
    amp = ip.amplification(trc) if m >= 3 else 1.0
    if amp > B.AMP_SKIP:
        st["illcond"] += 1
        return None
    st["interp"] += 1
    scale = max([abs(v[0]) + abs(v[1]) for v in yp] + [FR(0)])
    loose = FR(max(1.0, amp / B.AMP_MAX))
    if not (abs(cv[0] - mv[0]) <= B.TOL * loose * max(abs(mv[0]), scale) + B.ABS_EPS and abs(cv[1] - mv[1]) <= B.TOL * loose * max(abs(mv[1]), scale) + B.ABS_EPS):
        return "x = %.17g: C %s vs model %s (cond %.2e)" % (float(x), B.fl2(cv), B.fl2(mv), ip.cond(trc))
    return None


def extracted_small(jobs, limit):
    """indices of the jobs evaluated by the extracted Coq model as well (exact evaluation with Coq's binary
    integers is slow - about 1 s per 10 calls of order 3 on 53-bit data, far more for orders 4 and 5):
    calibration grids of at most 3 points, at most 24 calls, the `limit` shortest of each grid length"""
    out = []
    for n in (1, 2, 3):
        c = sorted((len(terms) * len(req), i) for i, (xp, terms, req) in enumerate(jobs) if len(xp) == n and 0 < len(terms) * len(req) <= 24)
        out += [i for _, i in c[:limit]]
    return sorted(out)


def model_traces(R, jobs):
    """jobs = [(xp, terms, req)] -> list of [(segin, (re, im) | None, segout)] from the extracted model"""
    B = base()
    pq = B.pq
    lines = []
    for xp, terms, req in jobs:
        lines.append("applytrace %d %d %d %d %s %s %s" % (
            len(xp), R.max_m, len(terms), len(req), " ".join(pq(v) for v in xp),
            " ".join("%s %s" % (pq(a), pq(b)) for t in terms for a, b in t), " ".join(pq(v) for v in req)))
    inp = "const %s %s %s\n" % (pq(R.eps), pq(R.cut), pq(R.min_dx)) + "\n".join(lines) + "\n"
    rc, out, err = vplib.sh([R.drv], input=inp, timeout=1500)
    if rc != 0:
        raise vplib.BuildError("model driver failed (%d): %s" % (rc, err[-500:]))
    res = []
    for l in out.strip().split("\n")[1:]:
        t = l.split()[1:]
        calls = []
        for i in range(0, len(t), 4):
            v = None if t[i + 1] == "F" else (FR(t[i + 1]), FR(t[i + 2]))
            calls.append((int(t[i]), v, None if t[i + 3] == "F" else int(t[i + 3])))
        res.append(calls)
    if len(res) != len(jobs):
        raise vplib.BuildError("model driver: %d lines for %d apply traces" % (len(res), len(jobs)))
    return res


# ----------------------------------------------------------------------------- harness output
def parse_wb(co):
    d = dict(x.split("=") for x in co[1:5])
    rc, err, T, nc = int(d["rc"]), int(d["err"]), int(d["T"]), int(d["calls"])
    pos = 5
    calls = []
    for _ in range(nc):
        t = co[pos:pos + 8]
        pos += 8
        calls.append({"term": int(t[0]), "n": int(t[1]), "m": int(t[2]), "x": t[3], "seg_in": int(t[4]), "re": t[5], "im": t[6], "seg_out": int(t[7])})
    assert co[pos] == "S"
    return rc, err, T, calls, co[pos + 1:]


def wb_line(cfg, xp, terms, req):
    hx = base().hx
    return "wb %s %d %d %d %s %s %d %s" % (cfg[0], cfg[1], cfg[2], len(xp), " ".join(hx(v) for v in xp),
                                          " ".join("%s %s" % (hx(a), hx(b)) for t in terms for a, b in t),
                                          len(req), " ".join(hx(v) for v in req))


def classify_req(cal, req):
    B = base()
    return B.classify(req[0], req[-1], cal[0], cal[-1])


# ----------------------------------------------------------------------------- the check
def check_apply(ctx, R, rng, broken, ncal):
    B = base()
    tr = R.tr
    exe = ctx.build_harness("apply_wb", san=True, exclude=("vnacal_apply.c",))
    env = ctx.run_env(leak=True)
    rc, out, err = vplib.sh([exe], input="".join("layout %s %d %d\n" % c for c in CONFIGS), timeout=60, env=env)
    if rc != 0:
        sig = vplib.asan_signature(err) or {"kind": "fault", "error": "exit %d" % rc, "function": None}
        ctx.violation(sig, "sanitizer/abort in the white-box apply harness (layout query)", {"stderr": err[-2000:]})
        return
    nterms = {}
    for c, l in zip(CONFIGS, out.strip().split("\n")):
        nterms[c] = int(re.search(r"T=(\d+)", l).group(1))
    # calibrations and their requests
    cals = []
    for i in range(ncal):
        cfg = CONFIGS[i % len(CONFIGS)] if i < len(CONFIGS) else rng.choice(CONFIGS)
        nf = [1, 2, 3, 4, 5, 6, 8][(i + i // 7) % 7] if i < 14 else rng.choice([1, 2, 3, 4, 5, 6, 8, 10])
        # every density: ordinary, narrow band (Hz apart at tens of GHz), a few ulps apart, wide log-spaced
        xp = B.knots(rng, nf, positive=True, kind=["dy", "hz", "ulp", "log", "dy"][i % 5] if i < 10 else rng.choice(["dy", "hz", "ulp", "log"]))
        if xp[0] <= 0:
            xp = [x + 1 for x in xp]
        terms = gen_terms(rng, nterms[cfg], nf, xp)
        cals.append((cfg, xp, terms, gen_requests(rng, xp)))
    flat = [(ci, lab, req) for ci, (cfg, xp, terms, reqs) in enumerate(cals) for lab, req in reqs]
    inp = "\n".join(wb_line(cals[ci][0], cals[ci][1], cals[ci][2], req) for ci, lab, req in flat) + "\n"
    rc, out, err = vplib.sh([exe], input=inp, timeout=600, env=env)
    lines = [l.split() for l in out.strip().split("\n") if l.strip()]
    if rc != 0:
        sig = vplib.asan_signature(err) or {"kind": "fault", "error": "exit %d" % rc, "function": None}
        idx = min(len(lines), len(flat) - 1)
        ci, lab, req = flat[idx]
        ctx.violation(sig, "sanitizer/abort in vnacal_apply_m on a %s request of %d frequencies, calibration grid of %d points (%s in %s)"
                      % (lab, len(req), len(cals[ci][1]), sig.get("error"), sig.get("function")),
                      {"harness_line": wb_line(cals[ci][0], cals[ci][1], cals[ci][2], req)[:4000], "stderr": err[-3000:],
                       "how": "harness/apply_wb.c, one line on stdin"})
        return
    # verdicts
    items = [(cals[ci][1], req) for ci, lab, req in flat]
    pyv = [py_verdict(tr, c, r) for c, r in items]
    cqv = coq_verdicts(ctx, items) if not tr.get("fallback") else None
    if cqv is None:
        ctx.obligation("tie:evaluation of ApplyFreqRange.apply_check by Coq", False, "coq_eval failed or Gen/RangeGen.v is stale; using the Python evaluation")
        cqv = pyv
    else:
        ctx.obligation("tie:evaluation of ApplyFreqRange.apply_check by Coq", cqv == pyv,
                       "" if cqv == pyv else "Coq and Python evaluation of the request tests differ")
    stats = {"calibrations": len(cals), "requests": len(flat), "accepted": 0, "refused": 0, "calls_compared": 0, "knot_values": 0,
             "interpolated_values": 0, "illconditioned": 0, "pointwise_pairs": 0, "labels": {}}
    tie_bad = None
    violated = 0
    jobs, jobidx = [], []
    parsed = []
    for (ci, lab, req), co, mv in zip(flat, lines, cqv):
        cfg, xp, terms, _ = cals[ci]
        try:
            prc, perr, T, calls, scells = parse_wb(co)
        except (ValueError, IndexError, AssertionError, KeyError) as e:
            tie_bad = tie_bad or "unparsable harness output (%s) for a %s request" % (e, lab)
            parsed.append(None)
            continue
        parsed.append((prc, calls, scells))
        ctx.traces_validated += 1
        ctx.count(("apply-wb", cfg, tuple(xp), tuple(req)))
        acc = prc == 0 and perr == 0
        rej = prc == -1 and perr == 1
        stats["labels"][lab + ("/ACC" if acc else "/REJ" if rej else "/ODD")] = stats["labels"].get(lab + ("/ACC" if acc else "/REJ" if rej else "/ODD"), 0) + 1
        if not (acc or rej):
            tie_bad = tie_bad or "vnacal_apply_m returned %d with %d error report(s) on a %s request" % (prc, perr, lab)
            continue
        stats["accepted" if acc else "refused"] += 1
        # the property itself: increasing, non-empty requests
        if req and all(a < b for a, b in zip(req, req[1:])):
            cls = classify_req(xp, req)
            want = {"cover": False, "miss_low": True, "miss_high": True, "miss_both": True}.get(cls)
            if want is not None and rej != want:
                violated += 1
                if violated <= 3:
                    ctx.violation({"kind": "range", "site": "range_apply", "class": cls},
                                  "vnacal_apply_m: request %.9g..%.9g (%d points), calibration %.9g..%.9g (%d points) (%s) is %s"
                                  % (float(req[0]), float(req[-1]), len(req), float(xp[0]), float(xp[-1]), len(xp), cls, "refused" if rej else "accepted"),
                                  {"harness_line": wb_line(cfg, xp, terms, req)[:4000], "model_says": mv, "how": "harness/apply_wb.c, one line on stdin"})
                continue
        model_rej = mv != "VOk"
        if rej != model_rej:
            near = bool(req) and xp and B.near_bound(R, "range_apply", req[0], req[-1], xp[0], xp[-1])
            if not near:
                tie_bad = tie_bad or ("%s request %s on calibration grid %s: model %s, implementation %s"
                                      % (lab, [float(v) for v in req][:8], [float(v) for v in xp], mv, "refused" if rej else "accepted"))
            continue
        if rej:
            if calls:
                tie_bad = tie_bad or "refused %s request, but %d _vnacal_rfi calls were made" % (lab, len(calls))
            continue
        jobs.append((xp, terms, req))
        jobidx.append(len(parsed) - 1)
    # traces of the accepted requests
    mtr = mirror_traces(R, jobs)
    small = extracted_small(jobs, 3 if ctx.tier == "quick" else 12)
    etr = model_traces(R, [jobs[i] for i in small]) if small else []
    ext_bad = next((i for i, e in zip(small, etr) if e != [c[:3] for c in mtr[i]]), None)
    stats["traces_by_extracted_model"] = len(small)
    ctx.obligation("tie:apply trace mirror == extracted ApplyFreqModel.apply_trace (%d requests on grids of 1..3 points)" % len(small),
                   ext_bad is None, "" if ext_bad is None else "request %s on grid %s" % ([float(v) for v in jobs[ext_bad][2]], [float(v) for v in jobs[ext_bad][0]]))
    if ext_bad is not None:
        broken["tie:apply mirror"] = "Python mirror and extracted model of the apply loop differ"
    rstats = {"knot": 0, "interp": 0, "illcond": 0}
    first_bad = None
    for (xp, terms, req), pi, mcalls in zip(jobs, jobidx, mtr):
        prc, calls, scells = parsed[pi]
        ci, lab, _ = flat[pi]
        n, T = len(xp), len(terms)
        m = min(n, R.max_m)
        why = None
        if len(calls) != len(req) * T or len(mcalls) != len(calls):
            why = "%d _vnacal_rfi calls for %d request frequencies x %d terms (model: %d)" % (len(calls), len(req), T, len(mcalls))
        else:
            prev = 0
            for i, (c, mc) in enumerate(zip(calls, mcalls)):
                x = req[i // T]
                if c["term"] != i % T or c["n"] != n or c["m"] != m or B.cfloat(c["x"]) != x:
                    why = "call %d: term %d, n %d, m %d, x %s; expected term %d, n %d, m %d, x %s" % (
                        i, c["term"], c["n"], c["m"], c["x"], i % T, n, m, float(x))
                    break
                if c["seg_in"] != prev:
                    why = "call %d (frequency %d, term %d): segment before the call is %d, after the previous call it was %d" % (i, i // T, i % T, c["seg_in"], prev)
                    break
                prev = c["seg_out"]
                if mc[1] is None:
                    why = "call %d: the model faults" % i
                    break
                if c["seg_in"] != mc[0] or c["seg_out"] != mc[2]:
                    why = "call %d (frequency %d = %.17g, term %d): segment %d -> %d, model %d -> %d" % (
                        i, i // T, float(x), i % T, c["seg_in"], c["seg_out"], mc[0], mc[2])
                    break
                stats["calls_compared"] += 1
                # value: knots exactly, others 1e-12 with the filters of the rfi tie of checks/C10.py
                r = compare_value(B, xp, terms[i % T], m, x, c["re"], c["im"], mc[1], mc[3], rstats)
                if r is not None:
                    why = "call %d (frequency %d, term %d): %s" % (i, i // T, i % T, r)
                    break
        if why is not None and first_bad is None:
            first_bad = (why, flat[pi], xp, terms, req)
    stats["knot_values"], stats["interpolated_values"], stats["illconditioned"] = rstats["knot"], rstats["interp"], rstats["illcond"]
    # pointwise at the level of the code: same calibration, same frequency -> same tapped values, same S
    pw_bad = None
    for ci in range(len(cals)):
        seen_v, seen_s = {}, {}
        cfg, xp, terms, _ = cals[ci]
        T = len(terms)
        ports = 1 if cfg[1] == 1 else 2
        for pi, (cj, lab, req) in enumerate(flat):
            if cj != ci or parsed[pi] is None or parsed[pi][0] != 0:
                continue
            prc, calls, scells = parsed[pi]
            for i, c in enumerate(calls):
                key = (c["x"], c["term"])
                v = (c["re"], c["im"])
                if key in seen_v:
                    stats["pointwise_pairs"] += 1
                    if seen_v[key][0] != v and pw_bad is None:
                        pw_bad = ("term %d at f = %s: %s in the %s request, %s in the %s request" % (c["term"], c["x"], v, lab, seen_v[key][0], seen_v[key][1]), pi)
                else:
                    seen_v[key] = (v, lab)
            per = 2 * ports * ports
            if len(scells) == per * len(req):
                for k, f in enumerate(req):
                    s = tuple(scells[per * k:per * (k + 1)])
                    if f in seen_s and seen_s[f][0] != s and pw_bad is None:
                        pw_bad = ("corrected S at f = %.17g: %s in the %s request, %s in the %s request" % (float(f), s[:2], lab, seen_s[f][0][:2], seen_s[f][1]), pi)
                    seen_s.setdefault(f, (s, lab))
    ctx.extra["apply_frequency_side"] = stats
    if first_bad is not None:
        why, (ci, lab, _), xp, terms, req = first_bad
        # values that differ from the stored terms at a knot / from the exact value: the property text sides with the model
        is_value = "supplied value" in why or "vs model" in why or "non-finite" in why
        if is_value:
            ctx.violation({"kind": "disagreement", "op": "apply-terms", "class": "knot" if "knot" in why else "interpolation", "n": len(xp)},
                          "vnacal_apply_m, %s request of %d frequencies on a calibration grid of %d points, %d terms: %s"
                          % (lab, len(req), len(xp), len(terms), why),
                          {"harness_line": wb_line(cals[ci][0], xp, terms, req)[:4000], "how": "harness/apply_wb.c, one line on stdin; model: ocaml/drv_interp.ml op applytrace"})
            violated += 1
        else:
            tie_bad = tie_bad or ("%s request of %d frequencies on a grid of %d points: %s" % (lab, len(req), len(xp), why))
    if pw_bad is not None:
        why, pi = pw_bad
        ci, lab, req = flat[pi]
        ctx.violation({"kind": "disagreement", "op": "apply", "class": "history"},
                      "vnacal_apply_m: the result at a frequency depends on the other frequencies of the request: " + why,
                      {"harness_line": wb_line(cals[ci][0], cals[ci][1], cals[ci][2], req)[:4000], "how": "harness/apply_wb.c: compare with the other requests on the same calibration"})
        violated += 1
    ctx.obligation("tie:apply interpolation loop == ApplyFreqModel (call sequence, order, segment before/after every call, values; %d calls)"
                   % stats["calls_compared"], tie_bad is None and first_bad is None, tie_bad or (first_bad[0] if first_bad else ""))
    ctx.obligation("tie:apply pointwise (tapped terms and S at a frequency identical across requests, %d pairs)" % stats["pointwise_pairs"],
                   pw_bad is None, pw_bad[0] if pw_bad else "")
    if tie_bad is not None and not violated:
        # search: a broken trace tie without a wrong value - look for a value-level consequence through the public path
        if not public_requests(ctx, R, rng, 12):
            broken["tie:apply loop"] = tie_bad
    elif not violated:
        need = ["grid/ACC", "mixed/ACC", "single/ACC", "empty/ACC", "slack/ACC", "unsorted/REJ", "repeated/REJ", "miss_low/REJ", "miss_high/REJ"]
        need += [k for k in ("prefix1/ACC",) if any(len(c[1]) >= 2 for c in cals)]
        missing = [k for k in need if not stats["labels"].get(k)]
        ctx.obligation("tie:apply request shapes reached", not missing, "not reached: %s" % missing if missing else "")
        public_requests(ctx, R, rng, 4 if ctx.tier == "quick" else 30)
    if violated:
        for k in list(broken):
            if k.startswith("coq:") or k.startswith("T6:") or k.startswith("tie:apply"):
                broken.pop(k, None)


def public_requests(ctx, R, rng, count):
    """The normally linked library (harness/interp_harness.c op apply: calibration solved from short /
    open / match): prefix-sharing equal-length requests, mixed requests and single points must give
    bit-identical S at common frequencies.  -> True when a violation was reported."""
    B = base()
    cases, meta = [], []
    for gi in range(count):
        nf = rng.choice([2, 3, 4, 6, 8, 10])
        lo = FR(rng.randint(8, 80), 8)
        cal = B.fill(rng, lo, dblf(lo * rng.randint(2, 6)), nf)
        reqs = [list(cal)]
        for p in sorted(set([1, nf // 8, nf // 2, nf - 1])):
            if 0 < p < nf:
                req = list(cal[:p]) + [dblf(cal[i - 1] + (cal[i] - cal[i - 1]) * FR(rng.choice((1, 3, 5, 7)), 8)) for i in range(p, nf)]
                if all(a < b for a, b in zip(req, req[1:])):
                    reqs.append(req)
        allf = sorted(set(f for r in reqs for f in r))
        reqs.append(allf)
        for f in rng.sample(allf, min(3, len(allf))):
            reqs.append([f])
        for r in reqs:
            cases.append(B.Case("apply", cf=cal, qs=r))
            meta.append(gi)
    outs, sig, err = R.run_c(cases)
    if sig is not None:
        B.report_fault(ctx, R, cases, outs, sig, err)
        return True
    seen = {}
    bad = None
    n = 0
    for case, o, gi in zip(cases, outs, meta):
        if o is None or o[1] != "ACC":
            bad = bad or (case, "request inside the calibration range is not accepted: %s" % (o,))
            continue
        for j, q in enumerate(case.qs):
            v = (o[2 + 2 * j], o[3 + 2 * j])
            ctx.count(("apply-public", gi, q))
            if (gi, q) in seen:
                n += 1
                if seen[(gi, q)][0] != v and bad is None:
                    bad = (case, "vnacal_apply_m at f = %.17g: %s in this request, %s in request %s"
                           % (float(q), v, seen[(gi, q)][0], [float(x) for x in seen[(gi, q)][1].qs]))
            seen.setdefault((gi, q), (v, case))
        ctx.traces_validated += 1
    ctx.obligation("tie:apply (public path) S at a frequency identical for prefix-sharing / mixed / single requests (%d comparisons)" % n,
                   bad is None, bad[1] if bad else "")
    if bad is not None:
        case, why = bad
        ctx.violation({"kind": "disagreement", "op": "apply", "class": "history"}, why,
                      {"case": case.to_json(), "how": "harness/interp_harness.c: compare with the other requests on the same calibration"})
        return True
    return False
