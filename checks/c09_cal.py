"""C09, calibration-file half: vnacal_load and vnaproperty_import_yaml_from_string/_from_file are total.

Inputs: valid .vnacal documents (independent writer of lib/calfile_lib.py, all versions) and YAML
property documents, then
  * structure-aware mutations on the *node tree* (node kind substitution scalar<->sequence<->mapping,
    key deletion / duplication / renaming, number perturbation, non-ascending / negative / NaN
    frequencies, matrices missing from the first or a later data entry, wrong matrix dimensions,
    dimensions that do not fit the type, huge dimensions, aliases including recursive ones),
  * text mutations (truncation at every byte, byte flips, line delete/duplicate/swap, version line
    variants), and random bytes,
all through the library under ASan/UBSan/LSan.  Required of every input:
  * the call returns (timeout = violation), no sanitizer report;
  * failure: NULL / -1, errno EBADMSG, ENOPROTOOPT or an errno reported through the VNAERR_SYSTEM
    category, nothing leaked (LeakSanitizer check and allocation-interposer block count per input);
  * success: self-consistent object - known type, dimensions that fit the type, strictly ascending
    non-negative frequencies, error-term count equal to the layout's, every cell readable - which
    vnacal_save writes (at VNACAL_MAX_PRECISION) and vnacal_load reloads to the same content.
Tie to the Coq model (CalFile/CalFileModel.v, extracted): the node tree of every input (from
harness/yamltree.c) is given to the model; its Ok / Error class must agree with vnacal_load.
"""
import math
import os
import re

import vplib
import calfile_lib as L
import C07 as G

OKERR = ("EBADMSG", "ENOPROTOOPT")


# --------------------------------------------------------------------------- trees
def S(text, style="d"):
    return L.Node("S", text=text, style=style)


def M(pairs):
    return L.Node("M", pairs=[(S(k) if isinstance(k, str) else k, v) for k, v in pairs])


def Q(items):
    return L.Node("Q", items=list(items))


def prop_tree(v):
    if v is None:
        return S("~", "p")
    if isinstance(v, str):
        return S(v)
    if isinstance(v, dict):
        return M([(L.quote_key(k), prop_tree(x)) for k, x in v.items()])
    return Q([prop_tree(x) for x in v])


def cal_tree(cals, gprops, version="1.0"):
    top = []
    if gprops != "absent":
        top.append(("properties", prop_tree(gprops)))
    cs = []
    for c in cals:
        pairs = [("name", S(c["name"]))]
        if version != "2.0":
            pairs.append(("type", S(c["type"])))
        pairs += [("rows", S(str(c["rows"]))), ("columns", S(str(c["cols"]))), ("frequencies", S(str(c["F"])))]
        if c.get("z0") is not None:
            pairs.append(("z0", S(L.cx_text(c["z0"], "hex"))))
        if c.get("props", "absent") != "absent":
            pairs.append(("properties", prop_tree(c["props"])))
        data = []
        fm = L.file_matrices(c["type"], c["rows"], c["cols"])
        for fi in range(c["F"]):
            ent = [("f", S(L.hexfmt(c["fvec"][fi])))]
            if version == "2.0":
                mr, mc = c["rows"], c["cols"]
                et = 3 * mr
                ent.append(("e", Q([Q([Q([S(L.cx_text(c["terms"][col * et + k * mr + r][fi], "hex")) for k in range(3)])
                                       for col in range(mc)]) for r in range(mr)])))
            else:
                for nm, kind, r, cc, cells in fm:
                    vals = [S(L.cx_text(c["terms"][t][fi], "hex")) for t in cells]
                    if kind == "v":
                        ent.append((nm, Q(vals)))
                    else:
                        rows = []
                        k = 0
                        for i in range(r):
                            row = []
                            for j in range(cc):
                                if kind == "d" and i == j:
                                    row.append(S("~", "p"))
                                else:
                                    row.append(vals[k])
                                    k += 1
                            rows.append(Q(row))
                        ent.append((nm, Q(rows)))
            data.append(M(ent))
        pairs.append(("data", Q(data)))
        cs.append(M(pairs))
    top.append(("sets" if version == "2.0" else "calibrations", Q(cs)))
    return M(top)


def emit_flow(nd, out):
    if nd.kind == "S":
        out.append(nd.text if nd.style == "p" else L.yq(nd.text))
    elif nd.kind == "Q":
        out.append("[")
        for i, x in enumerate(nd.items):
            if i:
                out.append(", ")
            emit_flow(x, out)
        out.append("]")
    elif nd.kind == "M":
        out.append("{")
        for i, (k, v) in enumerate(nd.pairs):
            if i:
                out.append(", ")
            if k.kind != "S":
                out.append("? ")
            emit_flow(k, out)
            out.append(": ")
            emit_flow(v, out)
        out.append("}")
    else:
        out.append(nd.text)         # raw text node (aliases, anchors)


def doc_text(head, tree):
    out = []
    emit_flow(tree, out)
    return head + "\n" + "".join(out) + "\n"


def clone(nd):
    if nd.kind == "S":
        return L.Node("S", text=nd.text, style=nd.style)
    if nd.kind == "Q":
        return L.Node("Q", items=[clone(x) for x in nd.items])
    if nd.kind == "M":
        return L.Node("M", pairs=[(clone(k), clone(v)) for k, v in nd.pairs])
    return L.Node(nd.kind, text=nd.text)


def all_nodes(nd, path=(), out=None):
    """[(parent, slot, node)] where slot = ('item', i) | ('key', i) | ('val', i)."""
    if out is None:
        out = []
    if nd.kind == "Q":
        for i, x in enumerate(nd.items):
            out.append((nd, ("item", i), x))
            all_nodes(x, path, out)
    elif nd.kind == "M":
        for i, (k, v) in enumerate(nd.pairs):
            out.append((nd, ("key", i), k))
            out.append((nd, ("val", i), v))
            all_nodes(v, path, out)
    return out


def put(parent, slot, new):
    kind, i = slot
    if kind == "item":
        parent.items[i] = new
    elif kind == "key":
        parent.pairs[i] = (new, parent.pairs[i][1])
    else:
        parent.pairs[i] = (parent.pairs[i][0], new)


NUMS = ["0", "-1", "1", "2", "3", "7", "65536", "70000", "2147483647", "2147483648", "-2147483648", "99999999999999999999",
        "1e3", "0x10", " 5", "5 ", "5x", "", "nan", "inf", "-inf", "1e999", "-0", "0.5", "+1 +1", "1 2 3", "j", "+j", "-j", "1+j", "1 - j",
        "1e9", "2e9", "0x1p+30", "1 2j", "1 2i", "1 2 j", "~", "null"]


def mutate_tree(rng, tree):
    """One structure-aware mutation; returns (kind of mutation, new tree)."""
    t = clone(tree)
    nodes = all_nodes(t)
    if not nodes:
        return "none", t
    k = rng.random()
    parent, slot, nd = rng.choice(nodes)
    if k < 0.22:                                        # node kind substitution
        if nd.kind == "S":
            new = rng.choice([Q([]), Q([clone(nd)]), M([]), M([("x", clone(nd))]), Q([Q([clone(nd)])])])
        elif nd.kind == "Q":
            # the last variant has half as many pairs as the sequence had items (pairs are twice as wide as items)
            new = rng.choice([S("x"), S("~", "p"), M([]), M([(str(i), clone(x)) for i, x in enumerate(nd.items)]), S(""),
                              M([(clone(nd.items[i]), clone(nd.items[i + 1])) for i in range(0, len(nd.items) - 1, 2)])])
        elif nd.kind == "M":
            new = rng.choice([S("x"), S("~", "p"), Q([]), Q([clone(v) for k2, v in nd.pairs]), S("1")])
        else:                                            # raw alias text inserted by an earlier mutation
            new = rng.choice([S("x"), Q([]), M([])])
        put(parent, slot, new)
        return "kind:%s->%s" % (nd.kind, new.kind), t
    maps = [x for _, _, x in nodes if x.kind == "M" and x.pairs] + ([t] if t.pairs else [])
    if not maps:
        k = 0.6
    if k < 0.36:                                        # key deletion
        m = rng.choice(maps)
        i = rng.randrange(len(m.pairs))
        key = m.pairs[i][0].text if m.pairs[i][0].kind == "S" else "?"
        del m.pairs[i]
        return "delkey:%s" % key, t
    if k < 0.46:                                        # key duplication / move
        m = rng.choice(maps)
        i = rng.randrange(len(m.pairs))
        kk, vv = m.pairs[i]
        m.pairs.insert(rng.randrange(len(m.pairs) + 1), (clone(kk), clone(vv) if rng.random() < 0.5 else S(rng.choice(NUMS))))
        return "dupkey:%s" % (kk.text if kk.kind == "S" else "?"), t
    if k < 0.54:                                        # key rename (prefix match of the data keys, non-scalar keys)
        keys = [(p, s, x) for p, s, x in nodes if s[0] == "key" and x.kind == "S"]
        p, s, x = rng.choice(keys)
        new = rng.choice([S((x.text or "") + "x"), S((x.text or "")[:1]), S(""), Q([clone(x)]), M([]), S((x.text or "").upper()),
                          S("e"), S("el"), S("f"), S("fx"), S("emx"), S("tsomething")])
        put(p, s, new)
        return "renkey:%s" % (x.text if x.kind == "S" else "?"), t
    if k < 0.74:                                        # number / scalar perturbation
        scal = [(p, s, x) for p, s, x in nodes if x.kind == "S" and s[0] != "key"]
        if scal:
            p, s, x = rng.choice(scal)
            put(p, s, S(rng.choice(NUMS), rng.choice("pd")))
            return "scalar", t
    if k < 0.84:                                        # sequence length change
        seqs = [x for _, _, x in nodes if x.kind == "Q"]
        if seqs:
            q = rng.choice(seqs)
            if q.items and rng.random() < 0.5:
                del q.items[rng.randrange(len(q.items))]
                return "seq-shorter", t
            q.items.insert(rng.randrange(len(q.items) + 1), clone(rng.choice(q.items)) if q.items else S("1"))
            return "seq-longer", t
    if k < 0.92:                                        # aliases
        p, s, x = rng.choice(nodes)
        if s[0] != "key":
            put(p, s, L.Node("R", text=rng.choice(["&a [ *a ]", "&b { k: *b }", "&c [ [ *c ] ]", "*nowhere", "&d [1, 2]", "&e {x: &f [*e, *f]}"])))
            return "alias", t
    # swap two sibling entries
    seqs = [x for _, _, x in nodes if x.kind == "Q" and len(x.items) >= 2]
    if seqs:
        q = rng.choice(seqs)
        i, j = rng.sample(range(len(q.items)), 2)
        q.items[i], q.items[j] = q.items[j], q.items[i]
        return "swap", t
    return "none", t


def directed_cases(rng):
    """Hand-made documents aimed at the branches of the loader (findings D27, D27b and relatives)."""
    out = []

    def t8(fs, drop=None, extra=None, rows=1, cols=1, typ="T8", kinds=None):
        ents = []
        for i, f in enumerate(fs):
            e = [("f", S(f))]
            for nm in ("ts", "ti", "tx", "tm"):
                if drop and (i, nm) in drop:
                    continue
                e.append((nm, Q([S("1")] * (rows if nm in ("ts", "ti") else cols))))
            if extra and i in extra:
                e += extra[i]
            ents.append(M(e) if not (kinds and i in kinds) else kinds[i])
        return M([("calibrations", Q([M([("name", S("x")), ("type", S(typ)), ("rows", S(str(rows))), ("columns", S(str(cols))),
                                          ("frequencies", S(str(len(fs)))), ("data", Q(ents))])]))])
    out.append(("desc-2", t8(["2e9", "1e9"])))
    out.append(("equal-2", t8(["1e9", "1e9"])))
    out.append(("desc-3", t8(["1e9", "2e9", "1.5e9"])))
    out.append(("asc-3", t8(["1e9", "2e9", "3e9"])))
    out.append(("neg-f", t8(["-1"])))
    out.append(("nan-f", t8(["nan"])))
    out.append(("nan-f2", t8(["1e9", "nan"])))
    out.append(("inf-f", t8(["1e9", "inf"])))
    out.append(("missing-later", t8(["1e9", "2e9"], drop={(1, "tm")})))
    out.append(("missing-first", t8(["1e9", "2e9"], drop={(0, "tm")})))
    out.append(("missing-all", t8(["1e9"], drop={(0, "ts"), (0, "ti"), (0, "tx"), (0, "tm")})))
    out.append(("entry-scalar", t8(["1e9", "2e9"], kinds={1: S("x")})))
    out.append(("entry-seq", t8(["1e9", "2e9"], kinds={1: Q([S("f"), S("1")])})))
    out.append(("entry-seq-first", t8(["1e9"], kinds={0: Q([])})))
    out.append(("entry-null", t8(["1e9"], kinds={0: S("~", "p")})))
    # a mapping with one pair where a two-element vector / a 2x2 matrix is expected
    for nm in ("ts", "tm"):
        tr = t8(["1e9"], rows=2, cols=2)
        ent = tr.pairs[0][1].items[0].get("data").items[0]
        for i, (k, v) in enumerate(ent.pairs):
            if k.text == nm:
                ent.pairs[i] = (k, M([(S("1"), S("2"))]))
        out.append(("vector-as-mapping-" + nm, tr))
    tr = M([("calibrations", Q([M([("name", S("x")), ("type", S("T16")), ("rows", S("1")), ("columns", S("1")), ("frequencies", S("1")),
                                   ("data", Q([M([("f", S("1e9")), ("ts", Q([M([(S("1"), S("1"))])])), ("ti", Q([Q([S("1")])])),
                                                  ("tx", Q([Q([S("1")])])), ("tm", M([(S("1"), Q([S("1")]))]))])]))])]))])
    out.append(("matrix-as-mapping", tr))
    out.append(("entry-key-non-ascii", t8(["1e9"], extra={0: [("\u00e9t\u00e9", S("x")), ("\u00ff", S("y"))]})))
    out.append(("dims-T-tall", t8(["1e9"], rows=2, cols=1)))
    out.append(("dims-U-wide", t8(["1e9"], rows=1, cols=2, typ="U8")))
    out.append(("dims-zero", t8(["1e9"], rows=0, cols=0)))
    # finding DC1: a per-column type with no column: zero-bound variable length arrays in parse_matrices
    out.append(("dims-UE14-no-column", M([("calibrations", Q([M([("name", S("x")), ("type", S("UE14")), ("rows", S("1")), ("columns", S("0")),
                                                                 ("frequencies", S("1")),
                                                                 ("data", Q([M([("f", S("1e9"))] + [(nm, Q([Q([])])) for nm in ("um", "ui", "ux", "us", "el")])]))])]))])))
    out.append(("dims-huge-T16", M([("calibrations", Q([M([("name", S("x")), ("type", S("T16")), ("rows", S("70000")), ("columns", S("70000")),
                                                            ("frequencies", S("0")), ("data", Q([]))])]))])))
    out.append(("dims-huge-TE10", M([("calibrations", Q([M([("name", S("x")), ("type", S("TE10")), ("rows", S("65536")), ("columns", S("65536")),
                                                             ("frequencies", S("0")), ("data", Q([]))])]))])))
    out.append(("freq-huge", M([("calibrations", Q([M([("name", S("x")), ("type", S("T8")), ("rows", S("1")), ("columns", S("1")),
                                                        ("frequencies", S("2000000000")), ("data", Q([]))])]))])))
    out.append(("freq-zero", M([("calibrations", Q([M([("name", S("x")), ("type", S("E12")), ("rows", S("2")), ("columns", S("1")),
                                                        ("frequencies", S("0")), ("data", Q([]))])]))])))
    out.append(("no-calibrations", M([("properties", S("x"))])))
    out.append(("empty-map", M([])))
    out.append(("top-seq", Q([])))
    out.append(("top-scalar", S("x")))
    out.append(("recursive-properties", M([("properties", L.Node("R", text="&a [ *a ]")), ("calibrations", Q([]))])))
    out.append(("recursive-properties-map", M([("properties", L.Node("R", text="&a { k: { j: *a } }")), ("calibrations", Q([]))])))
    out.append(("shared-alias", M([("properties", L.Node("R", text="[ &a [1, 2], *a, *a ]")), ("calibrations", Q([]))])))
    out.append(("prop-key-number", M([("properties", M([("7", S("x"))])), ("calibrations", Q([]))])))
    out.append(("prop-key-bracket", M([("properties", M([("a[", S("x"))])), ("calibrations", Q([]))])))
    out.append(("prop-key-dots", M([("properties", M([("a.b.c", S("x"))])), ("calibrations", Q([]))])))
    out.append(("two-calibration-keys", M([("calibrations", Q([])), ("calibrations", S("x"))])))
    return out


HEADS = ["#VNACal 1.0", "#VNACal 1.9", "#VNACal 0.0", "#VNACal 2.0", "#VNACal 1000000.0", "#VNACal -1.0", "#VNACal 1", "#VNACal 1.x",
         "#VNACAL 2.0", "#VNACAL 3.0", "#VNACAL 4.0", "#VNACAL 1.0", "#VNACAL 2", "#vnacal 1.0", "VNACal 1.0", "", "#VNACal 1.0 " + "x" * 100,
         "#VNACal 99999999999.5", "#VNACal 1.0\r", "%YAML 1.1", "---"]


# --------------------------------------------------------------------------- checks on the answers
def wf_state(st, problems):
    """Self-consistency of a loaded container (C09 'success' clause)."""
    for i, c in enumerate(st["slots"]):
        if c is None:
            problems.append("wf:hole: slot %d is empty right after a load" % i)
            continue
        w = "calibration %d (%s %dx%d, %d frequencies)" % (i, c["type"], c["rows"], c["cols"], c["F"])
        if c["type"] not in L.TYPES:
            problems.append("wf:type: %s: unknown type" % w)
            continue
        if c["rows"] < 0 or c["cols"] < 0 or c["F"] < 0:
            problems.append("wf:negative: %s" % w)
            continue
        if c["rows"] >= 1 and c["cols"] >= 1 and not L.dims_ok(c["type"], c["rows"], c["cols"]):
            problems.append("wf:dims: %s: dimensions do not fit the type (T: rows <= columns, U/E: rows >= columns)" % w)
            continue
        if c["rows"] >= 1 and c["cols"] >= 1 and c["nterms"] != L.n_terms(c["type"], c["rows"], c["cols"]):
            problems.append("wf:terms: %s: %d error terms, layout says %d" % (w, c["nterms"], L.n_terms(c["type"], c["rows"], c["cols"])))
        if len(c["fvec"]) != c["F"] or any(len(t) != c["F"] for t in c["terms"]):
            problems.append("wf:cells: %s: vectors shorter than the frequency count" % w)
        fv = c["fvec"]
        if any(not (f >= 0.0) for f in fv):
            problems.append("wf:frequency: %s: frequency vector %r has a negative or NaN entry" % (w, fv[:6]))
        elif any(not (a < b) for a, b in zip(fv, fv[1:])):
            problems.append("wf:ascending: %s: frequency vector %r is not strictly ascending" % (w, fv[:6]))


def states_equal(a, b):
    diffs = []
    if a is None or b is None:
        return ["no object"]
    G.cmp_state(a["slots"], a["gprops"], b, "reload", diffs)
    return diffs


class Case(object):
    def __init__(self, idx, family, label, text):
        self.idx, self.family, self.label, self.text = idx, family, label, text


def make_inputs(ctx, rng, ncal, nmut, ntrunc_docs, nrandom):
    cases = []

    def add(family, label, text):
        cases.append(Case(len(cases), family, label, text))
    bases = []
    # valid documents, every type; block style (writer) and flow style (tree emitter), all versions
    grid = [(t, r, c) for t in L.TYPES for r in range(1, 3) for c in range(1, 3) if L.dims_ok(t, r, c)]
    for i in range(ncal):
        t, r, c = grid[i % len(grid)] if i < len(grid) else (None, None, None)
        k = rng.choice([1, 1, 2])
        cals = [G.gen_cal(rng, "c%d" % j, t if j == 0 else None, (r, c) if (j == 0 and t) else None, F=rng.choice([1, 2, 3]), maxdim=2)
                for j in range(k)]
        for cc in cals:
            if cc["props"] == "absent":
                cc["props"] = None
        g = G.gen_props(rng)
        if all(cc["type"] == "E12" for cc in cals) and rng.random() < 0.7:
            ver = rng.choice(["2.0", "1.0", "3.0"])
        else:
            ver = rng.choice(["1.0", "1.0", "3.0"])
        head = {"1.0": "#VNACal 1.0", "3.0": "#VNACAL 3.1", "2.0": "#VNACAL 2.0"}[ver]
        tree = cal_tree(cals, g, ver)
        bases.append((head, tree, cals, g, ver))
        add("valid", "flow %s" % ver, doc_text(head, tree))
        add("valid", "block %s" % ver, L.write_vnacal(cals, g, style=rng.choice(["hex", "dec"]), version=ver, head=head))
    for label, tree in directed_cases(rng):
        add("directed", label, doc_text("#VNACal 1.0", tree))
    for i in range(nmut):
        head, tree, cals, g, ver = rng.choice(bases)
        kind, t2 = mutate_tree(rng, tree)
        if rng.random() < 0.25:
            k2, t2 = mutate_tree(rng, t2)
            kind += "+" + k2
        add("mutation", kind, doc_text(head, t2))
    head, tree, cals, g, ver = bases[0]
    base_text = doc_text("#VNACal 1.0", cal_tree(cals[:1], g, "1.0"))
    for h in HEADS:
        add("version", h[:24], h + "\n" + base_text.split("\n", 1)[1])
    # truncation at every byte of small documents (block and flow)
    small = [G.gen_cal(rng, "t", "T8", (1, 1), F=2), G.gen_cal(rng, "e", "E12", (2, 1), F=1)]
    for cc in small:
        cc["props"] = {"k": "v"}
    docs = [L.write_vnacal(small[:1], {"a": ["b", None]}, style="dec"), doc_text("#VNACal 1.0", cal_tree(small[1:], "x", "1.0")),
            L.write_vnacal(small[1:], None, style="hex", version="2.0")]
    for d in docs[:ntrunc_docs]:
        b = d.encode()
        step = 1
        for n in range(0, len(b), step):
            add("truncate", "at %d" % n, b[:n])
    # text level: byte flips, line operations
    for i in range(nmut // 3):
        head, tree, cals, g, ver = rng.choice(bases)
        txt = L.write_vnacal(cals, g, style="dec", version=ver, head=head)
        b = bytearray(txt.encode())
        k = rng.random()
        if k < 0.4:
            for _ in range(rng.randint(1, 3)):
                b[rng.randrange(len(b))] = rng.choice([0, 9, 10, 32, 34, 35, 37, 38, 42, 45, 58, 63, 91, 93, 123, 125, 126, 255, rng.randrange(256)])
            add("text", "byteflip", bytes(b))
        else:
            lines = txt.split("\n")
            i1 = rng.randrange(1, len(lines))
            if k < 0.6:
                del lines[i1]
                lab = "line-delete"
            elif k < 0.8:
                lines.insert(i1, lines[rng.randrange(1, len(lines))])
                lab = "line-duplicate"
            else:
                i2 = rng.randrange(1, len(lines))
                lines[i1], lines[i2] = lines[i2], lines[i1]
                lab = "line-swap"
            add("text", lab, "\n".join(lines))
    for i in range(nrandom):
        n = rng.choice([0, 1, 2, 5, 20, 100, 400])
        body = bytes(rng.randrange(256) for _ in range(n))
        add("random", "bytes %d" % n, body if rng.random() < 0.4 else b"#VNACal 1.0\n" + body)
    return cases


# --------------------------------------------------------------------------- property documents
PROP_DIRECTED = [
    "", "~", "null", "x", "[]", "{}", "[1, [2, [3]]]", "{a: {b: {c: d}}}", "a: 1\na: 2\n", "? [a]\n: b\n", "{[a]: b, c: d}",
    "&a [ *a ]", "&a { k: *a }", "&a [ &b [ *a, *b ] ]", "[ &a [1, 2], *a, *a ]", "*nowhere", "{7: x}", "{'a[': x}", "{a.b.c: x}",
    "{'': x}", "{' ': x}", "{a: ~, b: null, c: '~', d: \"null\"}", "--- a\n--- b\n", "%YAML 1.1\n---\nx: y\n", "%YAML 9.9\n---\nx\n",
    "!!binary aGVsbG8=", "!!set {a, b}", "? a\n? b\n", "\ufeffa: b", "a: |\n  two\n  lines\n", "a: >-\n  folded\n  text\n", "a: 'it''s'", "\"\\x00\"",
    "[" * 200 + "]" * 200, "{a: " * 50 + "x" + "}" * 50, "a:\n" + "".join(" " * (2 * i) + "b:\n" for i in range(1, 60)) + " " * 120 + "c",
    "- " * 300 + "x", "key with spaces: v", "{a=b: c}", "{'a\\\\b': c}", "{a: b", "a: [1, 2", "a: 'unterminated", "\t- a", "@a", "`a", "a: b: c",
]


def make_prop_inputs(rng, n):
    out = []
    for t in PROP_DIRECTED:
        out.append(("directed", t.encode("utf-8")))
    for i in range(n):
        v = G.gen_props(rng)
        tree = prop_tree(v)
        txt = []
        emit_flow(tree, txt)
        flow = "".join(txt)
        block = ("x:" + L.prop_yaml(v, 2))
        k = rng.random()
        if k < 0.25:
            out.append(("valid", flow.encode()))
        elif k < 0.4:
            out.append(("valid", block.encode()))
        elif k < 0.6:
            b = (flow if rng.random() < 0.5 else block).encode()
            out.append(("truncate", b[:rng.randrange(len(b) + 1)]))
        elif k < 0.8:
            b = bytearray((flow if rng.random() < 0.5 else block).encode())
            if b:
                for _ in range(rng.randint(1, 3)):
                    b[rng.randrange(len(b))] = rng.choice([0, 9, 10, 32, 34, 38, 42, 58, 63, 91, 93, 123, 125, 126, 255, rng.randrange(256)])
            out.append(("byteflip", bytes(b)))
        elif k < 0.9:
            kind, t2 = mutate_tree(rng, M([("root", tree)]))
            tx = []
            emit_flow(t2, tx)
            out.append(("mutation", "".join(tx).encode()))
        else:
            out.append(("random", bytes(rng.randrange(256) for _ in range(rng.choice([1, 3, 10, 50, 200])))))
    return out


def simple_prop(nd, ok):
    """Expected import result for trees whose keys are plain identifiers (else ok[0] = False)."""
    if nd.kind == "S":
        if nd.style == "p" and nd.text in ("~", "null", "Null", "NULL"):
            return None
        return nd.text.split("\0")[0]       # C strings end at the first NUL
    if nd.kind == "Q":
        return [simple_prop(x, ok) for x in nd.items]
    if nd.kind == "M":
        d = {}
        for k, v in nd.pairs:
            if k.kind != "S":
                continue                    # non-scalar keys are skipped with a warning
            if not re.match(r"^[A-Za-z_][A-Za-z0-9_]*$", k.text or "") or k.text in d:
                ok[0] = False
                return None
            d[k.text] = simple_prop(v, ok)
        return d
    ok[0] = False
    return None


LEAK_EVERY = 25


def case_script(c, number, leak):
    out = ["case %d" % number, "live", "load 0 %s" % c.path, "dump 0", "setfp 0 17", "setdp 0 17", "save 0 %s" % c.out,
           "load 1 %s" % c.out, "dump 1", "free 1", "free 0", "live"]
    if leak:
        out.append("leak")
    return out


# --------------------------------------------------------------------------- main
def run(ctx, standalone=False):
    rng = ctx.rng
    thorough = ctx.tier == "thorough"
    coq_ok, _res = ctx.coq_obligations(["CalFile/CalFileProofs.v", "CalFile/CalLoadWf.v", "Properties_C09cal.v"])
    ctx.trusted_base += [
        "C09(cal): Coq 8.16.1 kernel, no axioms (Print Assumptions: Closed under the global context for Properties_C09cal.v)",
        "C09(cal): libyaml supplies the node tree (harness/yamltree.c); the glue checks/c09_model.py attaches the sscanf/strtod oracle values",
        "C09(cal): hand-written model coq/CalFile/CalFileModel.v of vnacal_load.c, tied to the library by running both on every generated input",
        "C09(cal): gcc, ASan/UBSan/LSan, allocation interposer harness/allocwrap.c",
    ]
    ctx.assumptions += ["C09(cal): allocation failure inside vnacal_load is not modelled (C12 covers it); libyaml's own totality is trusted"]
    exe = ctx.build_harness("calfile_harness", san=True, wrap=True)
    ytree = ctx.build_harness("yamltree", san=True)
    d = os.path.join(ctx.tmp, "c09cal")
    os.makedirs(d, exist_ok=True)
    cases = make_inputs(ctx, rng, ncal=20 if not thorough else 60, nmut=700 if not thorough else 9000,
                        ntrunc_docs=2 if not thorough else 3, nrandom=60 if not thorough else 600)
    ctx.extra["cal_inputs"] = len(cases)
    script = []
    for c in cases:
        c.path = os.path.join(d, "i%d.vnacal" % c.idx)
        c.out = os.path.join(d, "o%d.vnacal" % c.idx)
        with open(c.path, "wb") as f:
            f.write(c.text if isinstance(c.text, bytes) else c.text.encode("utf-8", "surrogateescape"))
        script += case_script(c, c.idx, (c.idx % LEAK_EVERY == LEAK_EVERY - 1) or c.idx == len(cases) - 1)
    ctx.log("C09(cal): %d calibration-file inputs" % len(cases))
    res = L.run_script(ctx, exe, "\n".join(script) + "\n", len(cases), timeout=1200 if not thorough else 3400)
    ctx.log("C09(cal): main pass done, %d process restarts" % len([1 for c in res.values() if c.crash]))
    # LeakSanitizer is asked every LEAK_EVERY cases; a positive answer is pinned down by re-running that group
    suspects = []
    for c in cases:
        cr = res.get(c.idx)
        if cr is not None and not cr.crash and cr.lines and cr.lines[-1] == "leak 1":
            suspects += [x for x in cases[max(0, c.idx - LEAK_EVERY + 1):c.idx + 1]]
            cr.lines[-1] = "leak 0"
    if suspects:
        sub = []
        for j, c in enumerate(suspects[:200]):
            sub += case_script(c, j, True)
        res2 = L.run_script(ctx, exe, "\n".join(sub) + "\n", len(suspects[:200]), timeout=1200)
        for j, c in enumerate(suspects[:200]):
            cr2 = res2.get(j)
            if cr2 is not None and not cr2.crash and cr2.lines and cr2.lines[-1] == "leak 1" and res.get(c.idx) is not None:
                res[c.idx].lines.append("leak 1")
                res[c.idx].leak_err = cr2.leak_err
    ctx.log("C09(cal): leak attribution done (%d suspects)" % len(suspects))
    rc, tout, terr = vplib.sh([ytree, "cal", "-"], input="".join(c.path + "\n" for c in cases), timeout=900, env=ctx.run_env())
    trees = L.parse_tree_dump(tout)
    ctx.log("C09(cal): node trees done")
    seen = {}
    outcome = {}

    def violate(c, sig, what, extra=None):
        key = repr(sorted(sig.items()))
        seen[key] = seen.get(key, 0) + 1
        if seen[key] > 2 or len(seen) > 14:
            return
        rep = {"input_family": c.family, "mutation": c.label, "seed": ctx.seed,
               "file": c.text.decode("utf-8", "replace") if isinstance(c.text, bytes) else c.text,
               "how": "harness/calfile_harness.c: load 0 <file>; dump 0; setfp/setdp 17; save; load; dump; free; leak"}
        if extra:
            rep.update(extra)
        ctx.violation(sig, "C09(cal) %s input '%s': %s" % (c.family, c.label, what[:400]), rep)
    stats = {"ok": 0, "EBADMSG": 0, "ENOPROTOOPT": 0, "system": 0}
    for c in cases:
        cr = res.get(c.idx)
        if cr is None:
            violate(c, {"kind": "harness", "class": "case did not run"}, "case did not run")
            continue
        if cr.crash:
            sig = dict(cr.crash[2])
            what = "vnacal_load/save did not return normally: %s in %s" % (sig.get("error"), sig.get("function"))
            violate(c, sig, what, {"stderr": cr.crash[1][-3000:]})
            outcome[c.idx] = ("crash", None)
            continue
        ls = cr.lines
        try:
            live0 = int(ls[0].split()[1])
            ld = ls[1]
            i = 2
            st, i = L.parse_dump(ls, i)
            if ld.startswith("load ok"):
                stats["ok"] += 1
                outcome[c.idx] = ("ok", st)
                probs = []
                wf_state(st, probs)
                for p in probs[:3]:
                    violate(c, {"kind": "wf", "class": p.split(":")[1]}, "vnacal_load succeeded but the object is not self-consistent: " + p.split(":", 2)[2].strip())
                # save + reload
                i += 2                  # the two set lines
                sv = ls[i]
                rl = ls[i + 1]
                st2, i = L.parse_dump(ls, i + 2)
                nonempty = any(s is not None and s["rows"] >= 1 and s["cols"] >= 1 and s["F"] >= 1 for s in st["slots"])
                if not probs:
                    if not sv.startswith("save rc=0"):
                        violate(c, {"kind": "resave", "class": "save failed"}, "loaded object cannot be saved: %s" % sv)
                    elif not rl.startswith("load ok"):
                        violate(c, {"kind": "resave", "class": "reload failed"}, "file saved from the loaded object does not load: %s" % rl)
                    else:
                        df = states_equal(st, st2)
                        if df:
                            violate(c, {"kind": "resave", "class": "content differs"}, "save + reload changes the content: %s" % df[0], {"differences": df[:8]})
                        elif nonempty:
                            ctx.count((c.family, c.label.split(":")[0], tuple((s["type"], s["rows"], s["cols"], s["F"]) for s in st["slots"] if s)))
                        else:
                            ctx.count(None)
                ctx.traces_validated += 1
            else:
                m = re.match(r"load fail errno=(\S+) cb=(\d+) cat=(-?\d+)", ld)
                en, cb, cat = m.group(1), int(m.group(2)), int(m.group(3))
                cls = en if en in OKERR else ("system" if (cat == 0 and en != "0") else "bad:" + en)
                outcome[c.idx] = (cls, None)
                if cls.startswith("bad:"):
                    violate(c, {"kind": "errno", "class": en}, "vnacal_load failed with errno %s (callback category %d): not EBADMSG, ENOPROTOOPT or a system error" % (en, cat))
                else:
                    stats[cls] += 1
                    ctx.count((c.family, c.label.split(":")[0], cls))
                    ctx.traces_validated += 1
            live1 = [int(x.split()[1]) for x in ls if x.startswith("live ")][-1]
            if live1 != live0:
                violate(c, {"kind": "leak", "class": "library blocks"}, "%d library allocation(s) still live after vnacal_free / a failed load" % (live1 - live0))
            if ls[-1] == "leak 1":
                violate(c, L.leak_sig(cr.leak_err), "LeakSanitizer reports a leak for this input", {"stderr": (cr.leak_err or "")[:3000]})
        except (AssertionError, IndexError, ValueError, AttributeError) as e:
            violate(c, {"kind": "harness", "class": "transcript"}, "transcript not understood: %r %r" % (e, ls[:3]))
    ctx.extra["cal_outcomes"] = stats
    ctx.sample({"cal_inputs": len(cases), "outcomes": stats,
                "families": {f: len([c for c in cases if c.family == f]) for f in sorted(set(c.family for c in cases))}})

    # ---- tie: extracted Coq model of the loader on the same node trees
    import c09_model
    nv = len(ctx.violations)
    c09_model.tie(ctx, cases, trees, outcome, violate)
    if not coq_ok and len(ctx.violations) == nv:
        ctx.unproved("Properties_C09cal (load_enoprotoopt_iff_version, load_errors_after_version, load_ok_wf)", "the Coq development of the loader model no longer compiles",
                     "model vs vnacal_load on %d inputs: no disagreement, no ill-formed accepted object" % len(cases))

    ctx.log("C09(cal): calibration inputs evaluated")
    # ---- vnaproperty_import_yaml_from_string / _from_file
    pin = make_prop_inputs(rng, 400 if not thorough else 5000)
    script = []
    paths = []
    for j, (fam, b) in enumerate(pin):
        p = os.path.join(d, "p%d.yaml" % j)
        with open(p, "wb") as f:
            f.write(b)
        paths.append(p)
        script += ["case %d" % j, "live", "import %s" % p, "importf %s" % p, "live"]
        if j % LEAK_EVERY == LEAK_EVERY - 1 or j == len(pin) - 1:
            script.append("leak")
    res = L.run_script(ctx, exe, "\n".join(script) + "\n", len(pin), timeout=1200 if not thorough else 3400)
    sus = []
    for j in range(len(pin)):
        cr = res.get(j)
        if cr is not None and not cr.crash and cr.lines and cr.lines[-1] == "leak 1":
            sus += list(range(max(0, j - LEAK_EVERY + 1), j + 1))
            cr.lines[-1] = "leak 0"
    if sus:
        sub = []
        for k2, j in enumerate(sus[:200]):
            sub += ["case %d" % k2, "live", "import %s" % paths[j], "importf %s" % paths[j], "live", "leak"]
        res2 = L.run_script(ctx, exe, "\n".join(sub) + "\n", len(sus[:200]), timeout=1200)
        for k2, j in enumerate(sus[:200]):
            cr2 = res2.get(k2)
            if cr2 is not None and not cr2.crash and cr2.lines and cr2.lines[-1] == "leak 1" and res.get(j) is not None:
                res[j].lines.append("leak 1")
                res[j].leak_err = cr2.leak_err
    rc, tout, terr = vplib.sh([ytree, "str", "-"], input="".join(p + "\n" for p in paths), timeout=900, env=ctx.run_env())
    ptrees = L.parse_tree_dump(tout)
    pstats = {"ok": 0, "fail": 0, "compared": 0}
    for j, (fam, b) in enumerate(pin):
        c = Case(j, "yaml-" + fam, fam, b)
        cr = res.get(j)
        if cr is None:
            continue
        if cr.crash:
            sig = dict(cr.crash[2])
            violate(c, sig, "vnaproperty_import_yaml did not return normally: %s in %s" % (sig.get("error"), sig.get("function")),
                    {"stderr": cr.crash[1][-3000:], "how": "harness: import <file> (from_string), importf <file> (from_file)"})
            continue
        ls = cr.lines
        try:
            live0 = int(ls[0].split()[1])
            i = 1
            results = []
            for which in ("string", "file"):
                m = re.match(r"import rc=(-?\d+) errno=(\S+) cb=(\d+) cat=(-?\d+)", ls[i])
                v, i2 = L.parse_prop_lines(ls, i + 1)
                assert ls[i2] == "ENDDUMP"
                i = i2 + 1
                results.append((int(m.group(1)), m.group(2), int(m.group(4)), v))
            live1 = int(ls[i].split()[1])
            for which, (r, en, cat, v) in zip(("string", "file"), results):
                if r == 0:
                    pstats["ok"] += 1
                else:
                    pstats["fail"] += 1
                    cls = en if en in OKERR else ("system" if (cat == 0 and en != "0") else "bad:" + en)
                    if cls.startswith("bad:"):
                        violate(c, {"kind": "errno", "class": "import:" + en}, "import_yaml_from_%s failed with errno %s (category %d)" % (which, en, cat))
            doc = ptrees.get(paths[j])
            r, en, cat, v = results[0]
            if doc is not None:
                if doc["error"] is not None or doc["root"] is None:
                    if r == 0:
                        violate(c, {"kind": "import", "class": "accepted unparsable"}, "libyaml rejects the text (or it is empty) but import_yaml_from_string returned 0")
                elif "cycle" not in doc["flags"] and "toobig" not in doc["flags"]:
                    ok = [True]
                    exp = simple_prop(doc["root"], ok)
                    if ok[0]:
                        pstats["compared"] += 1
                        if r != 0:
                            violate(c, {"kind": "import", "class": "rejected valid"}, "valid YAML with identifier keys rejected: errno %s" % en)
                        elif v != exp:
                            violate(c, {"kind": "import", "class": "tree differs"}, "imported tree %r, expected %r" % (v, exp))
                        else:
                            ctx.count(("yaml", fam, repr(exp)[:60]))
                elif "cycle" in doc["flags"] and r == 0:
                    violate(c, {"kind": "import", "class": "accepted cycle"}, "recursive alias accepted")
            # binary-safe note: from_string cuts at NUL, from_file does not; only compare them without NUL
            if b"\0" not in b and results[0][0] != results[1][0]:
                violate(c, {"kind": "import", "class": "string/file disagree"}, "from_string rc %d, from_file rc %d" % (results[0][0], results[1][0]))
            if live1 != live0:
                violate(c, {"kind": "leak", "class": "library blocks (import)"}, "%d library allocation(s) live after import + delete" % (live1 - live0))
            if ls[-1] == "leak 1":
                violate(c, L.leak_sig(cr.leak_err), "LeakSanitizer reports a leak after import_yaml", {"stderr": (cr.leak_err or "")[:3000]})
            ctx.traces_validated += 1
        except (AssertionError, IndexError, ValueError, AttributeError) as e:
            violate(c, {"kind": "harness", "class": "import transcript"}, "transcript not understood: %r %r" % (e, ls[:3]))
    ctx.extra["yaml_import_outcomes"] = pstats
    ctx.extra["yaml_inputs"] = len(pin)

    # ---- failure atomicity and error class of the importers (fixes DO90, DO91): the same texts - mutation, truncation,
    # alias and invalid-key streams - plus directed / generated ones; the root after a FAILED import is compared with
    # the root before (digest through the public getters), with and without prior content, with every allocation
    # request of an import failing once, and as property sub-trees of a calibration file (lib/yaml_atomic_lib.py)
    import yaml_atomic_lib
    ctx.coq_obligations(["PropTree/YamlFault.v", "PropTree/YamlFaultProofs.v", "PropTree/YamlFaultTie.v",
                         "CalFile/CalLoadErrClass.v"])
    yaml_atomic_lib.run(ctx, "C09cal", extra_texts=[b for fam, b in pin], thorough=thorough)
