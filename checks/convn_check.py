"""n-port part of C04: hand-written model coq/Conv/ConvN.v (extracted, exact over Q[i]) against
the C functions for n = 1..6, aliased and separate; independent relation oracle; agreement of
the n-port functions with the two-port ones at n = 2."""
import os
import re
from fractions import Fraction

import vplib

FUNS_M = ["stozn", "ztosn", "stoyn", "ytosn"]
FUNS_I = ["ztoyn", "ytozn"]
FUNS_ZI = ["stozin", "ztozin", "ytozin"]
SQ = [Fraction(4), Fraction(9), Fraction(1, 4), Fraction(25, 4), Fraction(1), Fraction(16), Fraction(49, 9)]


def rr(rng):
    return Fraction(rng.randint(-9, 9), rng.randint(1, 4))


def cmul(a, b):
    return (a[0] * b[0] - a[1] * b[1], a[0] * b[1] + a[1] * b[0])


def fs(x):
    return "%d/%d" % (x.numerator, x.denominator) if x.denominator != 1 else str(x.numerator)


def parse_model(line):
    p = line.split()
    vals = [Fraction(x) for x in p[1:]]
    return p[0], [complex(float(vals[i]), float(vals[i + 1])) for i in range(0, len(vals), 2)]


def parse_c(line):
    p = line.split()
    vals = [float(x) for x in p[1:]]
    return p[0], [complex(vals[i], vals[i + 1]) for i in range(0, len(vals), 2)]


def mat_vec(m, n, v):
    return [sum(m[i * n + j] * v[j] for j in range(n)) for i in range(n)]


def relation_residual(kind_in, kind_out, n, min_, mout, z0, rng):
    """Independent oracle (vnaconv(3)): a state satisfying the input relation must satisfy the
    output relation.  kinds: 's','z','y'."""
    k = [abs(z.real) ** 0.5 for z in z0]
    free = [complex(rng.uniform(-1, 1), rng.uniform(-1, 1)) for _ in range(n)]
    if kind_in == "s":
        a = free
        b = mat_vec(min_, n, a)
        v = [(z0[i].conjugate() * a[i] + z0[i] * b[i]) / k[i] for i in range(n)]
        cur = [(a[i] - b[i]) / k[i] for i in range(n)]
    elif kind_in == "z":
        cur = free
        v = mat_vec(min_, n, cur)
    else:
        v = free
        cur = mat_vec(min_, n, v)
    if kind_out == "s":
        a = [(v[i] + z0[i] * cur[i]) / (2 * k[i]) for i in range(n)]
        b = [(v[i] - z0[i].conjugate() * cur[i]) / (2 * k[i]) for i in range(n)]
        lhs, rhs = b, mat_vec(mout, n, a)
    elif kind_out == "z":
        lhs, rhs = v, mat_vec(mout, n, cur)
    else:
        lhs, rhs = cur, mat_vec(mout, n, v)
    num = sum(abs(x - y) for x, y in zip(lhs, rhs))
    den = sum(abs(x) + abs(y) for x, y in zip(lhs, rhs)) + 1e-300
    return num / den


def run(ctx, broken):
    ncase = 4 if ctx.tier == "quick" else 25
    nmax = 6
    rng = ctx.rng
    cases = []
    for f in FUNS_M + FUNS_I + FUNS_ZI:
        for n in range(1, nmax + 1):
            for c in range(ncase if n > 1 else 2):
                m = [(rr(rng), rr(rng)) for _ in range(n * n)]
                if c == 2 and n > 1 and f not in FUNS_I:
                    # structured: a singular (rank one) matrix, e.g. a series element between ports
                    u = [(rr(rng), rr(rng)) for _ in range(n)]
                    m = [cmul(u[i], u[j]) for i in range(n) for j in range(n)]
                elif c == 1 and n > 1:
                    # structured: sparse / star network (only first row, column and diagonal)
                    m = [(m[i * n + j] if (i == j or i == 0 or j == 0) else (Fraction(0), Fraction(0)))
                         for i in range(n) for j in range(n)]
                if c == 0:
                    z0 = [(Fraction(4), Fraction(0))] * n
                else:
                    z0 = [(rng.choice(SQ), rr(rng)) for _ in range(n)]
                cases.append((f, n, m, z0))
    mlines, clines = [], []
    for f, n, m, z0 in cases:
        ms = " ".join("%s %s" % (fs(a), fs(b)) for a, b in m)
        cs = " ".join("%s %s" % (float(a).hex(), float(b).hex()) for a, b in m)
        if f in FUNS_I:
            mlines.append("%s %d %s" % (f, n, ms))
            clines.append("%s %d %s" % (f, n, cs))
            clines.append("alias %s %d %s" % (f, n, cs))
        else:
            zs = " ".join("%s %s" % (fs(a), fs(b)) for a, b in z0)
            zc = " ".join("%s %s" % (float(a).hex(), float(b).hex()) for a, b in z0)
            mlines.append("%s %d %s %s" % (f, n, ms, zs))
            clines.append("%s %d %s %s" % (f, n, cs, zc))
            if f not in FUNS_ZI:
                clines.append("alias %s %d %s %s" % (f, n, cs, zc))
            else:
                clines.append("%s %d %s %s" % (f, n, cs, zc))
    drv = ctx.ocaml_driver("drv_lin")
    rc, mout, merr = vplib.sh([drv], input="\n".join(mlines) + "\n", timeout=900)
    if rc != 0:
        raise vplib.BuildError("model driver failed: " + merr[-500:])
    exe = ctx.build_harness("lin_harness", san=True)
    rc, cout, cerr = vplib.sh([exe], input="\n".join(clines) + "\n", timeout=600, env=ctx.run_env())
    if rc != 0:
        sig = vplib.asan_signature(cerr) or {"kind": "fault", "error": "exit %d" % rc, "function": None}
        ctx.violation(sig, "n-port conversion harness failed: " + cerr[-300:], {"stderr": cerr[-3000:]})
        return
    ml = mout.strip().split("\n")
    cl = cout.strip().split("\n")
    bad = {}
    used = 0
    skipped = 0
    worst = {}
    for idx, (f, n, m, z0) in enumerate(cases):
        _, mv = parse_model(ml[idx])
        _, cv = parse_c(cl[2 * idx])
        _, ca = parse_c(cl[2 * idx + 1])
        scale = max([abs(x) for x in mv] + [1.0])
        inscale = max(abs(complex(float(a), float(b))) for a, b in m)
        ctx.evaluations += 1
        if scale > 1e5 * max(inscale, 1.0) or not all(x == x and abs(x) != float("inf") for x in cv):
            skipped += 1
            continue            # (near-)singular draw: nothing asserted
        used += 1
        ctx.nontrivial.add(("nport", f, n, idx))
        d1 = max(abs(x - y) for x, y in zip(mv, cv))
        d2 = max(abs(x - y) for x, y in zip(cv, ca))
        worst[f] = max(worst.get(f, 0.0), d1 / scale)
        if not d1 <= 1e-8 * scale:
            bad.setdefault(f, ("model", n, m, z0, mv, cv))
        if d2 != 0.0 and not all(x == y for x, y in zip(cv, ca)):
            bad.setdefault(f, ("alias", n, m, z0, cv, ca))
        # independent relation oracle on the C output
        if f in FUNS_M + FUNS_I:
            zc = [complex(float(a), float(b)) for a, b in z0] if f in FUNS_M else [complex(50, 0)] * n
            mc = [complex(float(a), float(b)) for a, b in m]
            r = relation_residual(f[0], f[3], n, mc, cv, zc, rng)
            if r > 1e-7:
                bad.setdefault(f, ("relation", n, m, z0, r, cv))
        if idx % 53 == 0:
            ctx.sample({"function": "vnaconv_" + f, "n": n, "matrix": [[fs(a), fs(b)] for a, b in m][:4],
                        "model_first_cell": str(mv[0]), "c_first_cell": str(cv[0])})
    ctx.traces_validated += used
    ctx.extra["nport_cases_used"] = used
    ctx.extra["nport_cases_skipped_singular"] = skipped
    if skipped > len(cases) // 4:
        bad.setdefault("many", ("too many non-finite / ill-conditioned outputs", 0, [], [], skipped, len(cases)))
    ctx.extra["nport_worst_rel_diff"] = worst
    ctx.obligation("tie:ConvN-vs-C (n=1..6, separate and aliased)", not bad,
                   "; ".join("%s: %s n=%d" % (f, b[0], b[1]) for f, b in bad.items()))
    for f, b in sorted(bad.items()):
        ctx.violation({"kind": "nport", "function": f, "class": b[0]},
                      "vnaconv_%s (n=%d): %s mismatch" % (f, b[1], b[0]),
                      {"function": "vnaconv_" + f, "n": b[1], "matrix": [[fs(x), fs(y)] for x, y in b[2]],
                       "z0": [[fs(x), fs(y)] for x, y in b[3]], "expected_or_residual": str(b[4]), "c_output": str(b[5]),
                       "class": b[0]})

    # ---- n-port vs two-port at n = 2 (on the C functions themselves)
    pairs = {"stozn": "stoz", "ztosn": "ztos", "stoyn": "stoy", "ytosn": "ytos", "ztoyn": "ztoy",
             "ytozn": "ytoz", "stozin": "stozi", "ztozin": "ztozi", "ytozin": "ytozi"}
    c2 = os.path.join(ctx.tmp, "conv2_harness_san")
    if os.path.exists(c2):
        lin_in, c2_in, keys = [], [], []
        for f, g in pairs.items():
            for c in range(4 if ctx.tier == "quick" else 40):
                m = [complex(rng.uniform(-2, 2), rng.uniform(-2, 2)) for _ in range(4)]
                z0 = [complex(rng.uniform(5, 100), rng.uniform(-50, 50)) for _ in range(2)]
                ms = " ".join("%s %s" % (x.real.hex(), x.imag.hex()) for x in m)
                zs = " ".join("%s %s" % (x.real.hex(), x.imag.hex()) for x in z0)
                lin_in.append("%s 2 %s%s" % (f, ms, "" if f in FUNS_I else " " + zs))
                c2_in.append("%s 0 %s %s" % (g, " ".join("%.17g %.17g" % (x.real, x.imag) for x in m),
                                             " ".join("%.17g %.17g" % (x.real, x.imag) for x in z0)))
                keys.append((f, g, m, z0))
        rc, o1, e1 = vplib.sh([exe], input="\n".join(lin_in) + "\n", timeout=300, env=ctx.run_env())
        rc, o2, e2 = vplib.sh([c2, "eval"], input="\n".join(c2_in) + "\n", timeout=300, env=ctx.run_env())
        l1, l2 = o1.strip().split("\n"), o2.strip().split("\n")
        for (f, g, m, z0), a, b in zip(keys, l1, l2):
            _, va = parse_c(a)
            _, vb = parse_c(b)
            ctx.evaluations += 1
            scale = max([abs(x) for x in vb] + [1.0])
            if scale > 1e5:
                continue
            ctx.nontrivial.add(("n2", f, str(m[0])))
            if not max(abs(x - y) for x, y in zip(va, vb)) <= 1e-9 * scale:
                ctx.violation({"kind": "nport", "function": f, "class": "n2-vs-2port"},
                              "vnaconv_%s at n=2 disagrees with vnaconv_%s" % (f, g),
                              {"nport": f, "twoport": g, "matrix": [str(x) for x in m], "z0": [str(x) for x in z0],
                               "nport_out": [str(x) for x in va], "twoport_out": [str(x) for x in vb]})
                break
