"""n-port part of C04: hand-written model coq/Conv/ConvN.v (extracted, exact over Q[i]) against
the C functions for n = 1..6, aliased and separate; independent relation oracle; agreement of
the n-port functions with the two-port ones at n = 2."""
import os
import re
from fractions import Fraction

import vplib

FUNS_M = ["stozn", "ztosn", "stoyn", "ytosn"]
FUNS_I = ["ztoyn", "ytozn"]
FUNS_ZI = ["stozin", "ztozin", "ytozin"]
SQ = [Fraction(4), Fraction(9), Fraction(1, 4), Fraction(25, 4), Fraction(1), Fraction(16), Fraction(49, 9)]


def rr(rng):
    return Fraction(rng.randint(-9, 9), rng.randint(1, 4))


def cmul(a, b):
    return (a[0] * b[0] - a[1] * b[1], a[0] * b[1] + a[1] * b[0])


def fs(x):
    return "%d/%d" % (x.numerator, x.denominator) if x.denominator != 1 else str(x.numerator)


def parse_model(line):
    p = line.split()
    vals = [Fraction(x) for x in p[1:]]
    return p[0], [complex(float(vals[i]), float(vals[i + 1])) for i in range(0, len(vals), 2)]


def parse_c(line):
    p = line.split()
    vals = [float(x) for x in p[1:]]
    return p[0], [complex(vals[i], vals[i + 1]) for i in range(0, len(vals), 2)]


def mat_vec(m, n, v):
    return [sum(m[i * n + j] * v[j] for j in range(n)) for i in range(n)]


def relation_residual(kind_in, kind_out, n, min_, mout, z0, rng):
    """Independent oracle (vnaconv(3)): a state satisfying the input relation must satisfy the
    output relation.  kinds: 's','z','y'."""
    k = [abs(z.real) ** 0.5 for z in z0]
    free = [complex(rng.uniform(-1, 1), rng.uniform(-1, 1)) for _ in range(n)]
    if kind_in == "s":
        a = free
        b = mat_vec(min_, n, a)
        v = [(z0[i].conjugate() * a[i] + z0[i] * b[i]) / k[i] for i in range(n)]
        cur = [(a[i] - b[i]) / k[i] for i in range(n)]
    elif kind_in == "z":
        cur = free
        v = mat_vec(min_, n, cur)
    else:
        v = free
        cur = mat_vec(min_, n, v)
    if kind_out == "s":
        a = [(v[i] + z0[i] * cur[i]) / (2 * k[i]) for i in range(n)]
        b = [(v[i] - z0[i].conjugate() * cur[i]) / (2 * k[i]) for i in range(n)]
        lhs, rhs = b, mat_vec(mout, n, a)
    elif kind_out == "z":
        lhs, rhs = v, mat_vec(mout, n, cur)
    else:
        lhs, rhs = cur, mat_vec(mout, n, v)
    num = sum(abs(x - y) for x, y in zip(lhs, rhs))
    den = sum(abs(x) + abs(y) for x, y in zip(lhs, rhs)) + 1e-300
    return num / den


Z = (Fraction(0), Fraction(0))
ONE = (Fraction(1), Fraction(0))
SQ_DY = [Fraction(4), Fraction(9), Fraction(1, 4), Fraction(25, 4), Fraction(1), Fraction(16)]
SQ_P2 = [Fraction(4), Fraction(1), Fraction(16), Fraction(1, 4)]


def rd(rng):
    """small dyadic rational (exact in binary64)"""
    return Fraction(rng.randint(-9, 9), rng.choice([1, 2, 4]))


def csub(a, b):
    return (a[0] - b[0], a[1] - b[1])


def cadd(a, b):
    return (a[0] + b[0], a[1] + b[1])


def cdivq(a, b):
    d = b[0] * b[0] + b[1] * b[1]
    return ((a[0] * b[0] + a[1] * b[1]) / d, (a[1] * b[0] - a[0] * b[1]) / d)


def cconj(a):
    return (a[0], -a[1])


def factored(f, n, m, z0):
    """the matrix the C function factors (LU), as exact complex rationals; None for stozin"""
    def cell(i, j):
        x = m[i * n + j]
        d = ONE if i == j else Z
        if f == "stozn":
            return csub(d, x)
        if f == "stoyn":
            return cadd(cmul(x, z0[j]), cconj(z0[i]) if i == j else Z)
        if f in ("ztosn", "ztozin"):
            return cadd(x, z0[i] if i == j else Z)
        if f in ("ytosn", "ytozin"):
            return cadd(cmul(z0[i], x), d)
        if f in ("ztoyn", "ytozn"):
            return x
        return None
    if f == "stozin":
        return None
    return [[cell(i, j) for j in range(n)] for i in range(n)]


def from_factored(f, n, F, z0):
    """inverse of [factored]: the input matrix whose factored matrix is F"""
    def cell(i, j):
        x = F[i][j]
        d = ONE if i == j else Z
        if f == "stozn":
            return csub(d, x)
        if f == "stoyn":
            return cdivq(csub(x, cconj(z0[i]) if i == j else Z), z0[j])
        if f in ("ztosn", "ztozin"):
            return csub(x, z0[i] if i == j else Z)
        if f in ("ytosn", "ytozin"):
            return cdivq(csub(x, d), z0[i])
        return x
    return [cell(i, j) for i in range(n) for j in range(n)]


def exact_nonsingular(F):
    """Gaussian elimination over Q[i]"""
    n = len(F)
    a = [row[:] for row in F]
    for c in range(n):
        p = next((r for r in range(c, n) if a[r][c] != Z), None)
        if p is None:
            return False
        a[c], a[p] = a[p], a[c]
        for r in range(c + 1, n):
            if a[r][c] != Z:
                q = cdivq(a[r][c], a[c][c])
                a[r] = [csub(x, cmul(q, y)) for x, y in zip(a[r], a[c])]
    return True


def exact_in_double(vals):
    return all(Fraction(float(x)) == x for v in vals for x in v)


def scale_c(v, c):
    return (v[0] * c, v[1] * c)


def run_model_parallel(drv, mlines, timeout=900):
    """the extracted model on every line, spread over the cores (output order preserved)"""
    import subprocess
    import threading
    nproc = max(1, min(vplib.NPROC, 12, len(mlines)))
    order = sorted(range(len(mlines)), key=lambda i: -len(mlines[i]))
    chunks = [order[k::nproc] for k in range(nproc)]
    procs = [(subprocess.Popen([drv], stdin=subprocess.PIPE, stdout=subprocess.PIPE, stderr=subprocess.PIPE,
                               universal_newlines=True), ch) for ch in chunks]
    outs = [None] * len(procs)

    def feed(k):
        p, ch = procs[k]
        try:
            outs[k] = p.communicate("".join(mlines[i] + "\n" for i in ch), timeout=timeout)
        except subprocess.TimeoutExpired:
            p.kill()
            outs[k] = ("", "[timeout]")
    ths = [threading.Thread(target=feed, args=(k,)) for k in range(len(procs))]
    for t in ths:
        t.start()
    for t in ths:
        t.join()
    res = [None] * len(mlines)
    for (p, ch), (o, e) in zip(procs, outs):
        lines = o.strip().split("\n") if o.strip() else []
        if p.returncode != 0 or len(lines) != len(ch):
            raise vplib.BuildError("model driver failed: " + (e or "")[-500:])
        for i, ln in zip(ch, lines):
            res[i] = ln
    return "\n".join(res) + "\n"


def run(ctx, broken):
    ncase = 4 if ctx.tier == "quick" else 25
    nmax = 6
    rng = ctx.rng
    cases = []
    for f in FUNS_M + FUNS_I + FUNS_ZI:
        for n in range(1, nmax + 1):
            for c in range(ncase if n > 1 else 2):
                m = [(rr(rng), rr(rng)) for _ in range(n * n)]
                if c == 2 and n > 1 and f not in FUNS_I:
                    # structured: a singular (rank one) matrix, e.g. a series element between ports
                    u = [(rr(rng), rr(rng)) for _ in range(n)]
                    m = [cmul(u[i], u[j]) for i in range(n) for j in range(n)]
                elif c == 1 and n > 1:
                    # structured: sparse / star network (only first row, column and diagonal)
                    m = [(m[i * n + j] if (i == j or i == 0 or j == 0) else (Fraction(0), Fraction(0)))
                         for i in range(n) for j in range(n)]
                if c == 0:
                    z0 = [(Fraction(4), Fraction(0))] * n
                else:
                    z0 = [(rng.choice(SQ), rr(rng)) for _ in range(n)]
                cases.append((f, n, m, z0))
    nbase = len(cases)
    fam = ["base"] * nbase          # family of each case
    ref = [None] * nbase            # index of the case whose conditioning verdict this one inherits
    thorough = ctx.tier != "quick"

    def add(f, n, m, z0, family, base=None):
        cases.append((f, n, m, z0))
        fam.append(family)
        ref.append(base)
        return len(cases) - 1

    # ---- (seq) call SEQUENCES in one process with related z0 vectors: the result of a conversion must
    # not depend on the previous call.  A, then B = A on the leading ports and different Re z0 on the
    # later ones, then A again, then A once more (different-then-same, same-then-same), same matrix.
    for f in FUNS_M + FUNS_ZI:
        for n in range(2, nmax + 1):
            for rep in range(1 if not thorough else 3):
                m = [(rr(rng), rr(rng)) for _ in range(n * n)]
                za = [(rng.choice(SQ), rr(rng)) for _ in range(n)]
                ia = add(f, n, m, za, "seq")
                for h in sorted({(n + 1) // 2, n - 1, 1}):
                    zb = list(za)
                    for t in range(h, n):
                        zb[t] = (rng.choice([q for q in SQ if q != za[t][0]]), za[t][1] if rng.random() < 0.5 else rr(rng))
                    add(f, n, m, zb, "seq", ia)
                    add(f, n, m, za, "seq", ia)
                add(f, n, m, za, "seq", ia)
    # ---- (scaled) power-of-two scalings (exact in binary64; the exact model follows): impedance level
    # multiplied by 4^k (z0 and Z by 4^k, Y by 4^-k, S unchanged), the Z <-> Y functions by 2^k.
    # Homogeneity (ytozn(c Y) = ytozn(Y)/c, ...) is checked through the exact model.
    for f in FUNS_M + FUNS_I + FUNS_ZI:
        for n in range(1, nmax + 1):
            for rep in range(1 if not thorough else 4):
                m = [(rd(rng), rd(rng)) for _ in range(n * n)]
                z0 = [(rng.choice(SQ_DY), rd(rng)) for _ in range(n)]
                ib = add(f, n, m, z0, "scaled-base")
                ks = [-20, -10, 10, 20] if (thorough or n >= 3) else [rng.choice([-20, -10]), rng.choice([10, 20])]
                for k in ks:
                    if f in FUNS_I:
                        add(f, n, [scale_c(v, Fraction(2) ** (2 * k)) for v in m], z0, "scaled", ib)
                        continue
                    c = Fraction(4) ** k
                    if f in ("ztosn", "ztozin"):
                        mk = [scale_c(v, c) for v in m]
                    elif f in ("ytosn", "ytozin"):
                        mk = [scale_c(v, 1 / c) for v in m]
                    else:
                        mk = m
                    add(f, n, mk, [scale_c(v, c) for v in z0], "scaled", ib)
    # ---- (zero-pivot) nonsingular inputs whose FACTORED matrix (I - S, S Z0 + Z0*, Z + Z0, I + Z0 Y, Z, Y)
    # has an exactly zero leading entry or an exactly singular leading 2x2 minor: elimination without
    # row exchanges breaks down on them, the library's pivoting LU does not.  Exact in binary64.
    for f in FUNS_M + FUNS_I + ["ztozin", "ytozin"]:
        for n in range(2, nmax + 1):
            for kind in ("zero_lead", "sing_minor"):
                if kind == "sing_minor" and n < 3:
                    continue
                for rep in range(1 if not thorough else 4):
                    for attempt in range(20):
                        F = [[(rd(rng), rd(rng)) for _ in range(n)] for _ in range(n)]
                        if kind == "zero_lead":
                            F[0][0] = Z
                        else:
                            q = (Fraction(rng.choice([-2, -1, 1, 2])), Fraction(rng.choice([-1, 0, 1])))
                            F[1][0] = cmul(q, F[0][0])
                            F[1][1] = cmul(q, F[0][1])
                        if f in ("stoyn", "ytosn", "ytozin"):
                            z0 = [(rng.choice(SQ_P2), Fraction(0)) for _ in range(n)]
                        else:
                            z0 = [(rng.choice(SQ_DY), rd(rng)) for _ in range(n)]
                        m = from_factored(f, n, F, z0)
                        if exact_nonsingular(F) and exact_in_double(m) and exact_in_double(z0):
                            add(f, n, m, z0, kind)
                            break
    mlines, clines = [], []
    for f, n, m, z0 in cases:
        ms = " ".join("%s %s" % (fs(a), fs(b)) for a, b in m)
        cs = " ".join("%s %s" % (float(a).hex(), float(b).hex()) for a, b in m)
        if f in FUNS_I:
            mlines.append("%s %d %s" % (f, n, ms))
            clines.append("%s %d %s" % (f, n, cs))
            clines.append("alias %s %d %s" % (f, n, cs))
        else:
            zs = " ".join("%s %s" % (fs(a), fs(b)) for a, b in z0)
            zc = " ".join("%s %s" % (float(a).hex(), float(b).hex()) for a, b in z0)
            mlines.append("%s %d %s %s" % (f, n, ms, zs))
            clines.append("%s %d %s %s" % (f, n, cs, zc))
            if f not in FUNS_ZI:
                clines.append("alias %s %d %s %s" % (f, n, cs, zc))
            else:
                clines.append("%s %d %s %s" % (f, n, cs, zc))
    drv = ctx.ocaml_driver("drv_lin")
    import time as _time
    t0 = _time.time()
    mout = run_model_parallel(drv, mlines)
    ctx.extra["nport_model_seconds"] = round(_time.time() - t0, 1)
    exe = ctx.build_harness("lin_harness", san=True)
    rc, cout, cerr = vplib.sh([exe], input="\n".join(clines) + "\n", timeout=600, env=ctx.run_env())
    if rc != 0:
        sig = vplib.asan_signature(cerr) or {"kind": "fault", "error": "exit %d" % rc, "function": None}
        ctx.violation(sig, "n-port conversion harness failed: " + cerr[-300:], {"stderr": cerr[-3000:]})
        return
    ml = mout.strip().split("\n")
    cl = cout.strip().split("\n")
    bad = {}
    used = 0
    skipped = 0
    worst = {}
    fam_used = {}
    verdict = [None] * len(cases)       # True = judged well conditioned on the exact model
    for idx, (f, n, m, z0) in enumerate(cases):
        _, mv = parse_model(ml[idx])
        _, cv = parse_c(cl[2 * idx])
        _, ca = parse_c(cl[2 * idx + 1])
        family = fam[idx]
        outscale = max(abs(x) for x in mv)
        inscale = max(abs(complex(float(a), float(b))) for a, b in m)
        ctx.evaluations += 1
        finite_c = all(x == x and abs(x) != float("inf") for x in cv)
        F = factored(f, n, m, z0)
        nonsing = exact_nonsingular(F) if F is not None else True
        if family in ("seq", "scaled") and ref[idx] is not None:
            well = verdict[ref[idx]]
        elif f in FUNS_I and family != "base":
            well = nonsing and inscale * outscale <= 1e6      # |M| |M^-1|
        else:
            well = nonsing and not max(outscale, 1.0) > 1e5 * max(inscale, 1.0)
        if f in FUNS_ZI and well:
            # the input-impedance functions divide once more per port (1 / x_ii resp. 1 / (1 - s_ii)); the
            # exact-field model computes 1/0 = 0 there, which shows as zin_i = -z0_i resp. zin_i = 0 exactly:
            # such a port has no finite input impedance, nothing is asserted
            ev = [Fraction(x) for x in ml[idx].split()[1:]]
            ex = [(ev[k], ev[k + 1]) for k in range(0, len(ev), 2)]
            if any(v == Z or v == (-z0[t][0], -z0[t][1]) for t, v in enumerate(ex)):
                well = False
        verdict[idx] = well
        if not well:
            skipped += 1
            continue            # (near-)singular draw: nothing asserted
        if not finite_c:
            if f in FUNS_ZI or (family == "base" and not nonsing):
                skipped += 1
                continue
            # the exact model shows a nonsingular, well-conditioned input: a non-finite output is wrong
            bad.setdefault(f, ("nonfinite(%s)" % family, n, m, z0, mv, cv))
            continue
        used += 1
        fam_used[family] = fam_used.get(family, 0) + 1
        ctx.nontrivial.add(("nport", f, n, idx))
        # base family: the historical absolute floor of 1; the new families (scaled inputs) are judged
        # relative to the size of the exact result
        scale = max(outscale, 1.0) if family == "base" else (outscale or 1.0)
        d1 = max(abs(x - y) for x, y in zip(mv, cv))
        d2 = max(abs(x - y) for x, y in zip(cv, ca))
        worst[f] = max(worst.get(f, 0.0), d1 / scale)
        if not d1 <= 1e-8 * scale:
            bad.setdefault(f, ("model" if family == "base" else "model(%s)" % family, n, m, z0, mv, cv))
        if d2 != 0.0 and not all(x == y for x, y in zip(cv, ca)):
            bad.setdefault(f, ("alias", n, m, z0, cv, ca))
        # independent relation oracle on the C output
        if f in FUNS_M + FUNS_I and family == "base":
            zc = [complex(float(a), float(b)) for a, b in z0] if f in FUNS_M else [complex(50, 0)] * n
            mc = [complex(float(a), float(b)) for a, b in m]
            r = relation_residual(f[0], f[3], n, mc, cv, zc, rng)
            if r > 1e-7:
                bad.setdefault(f, ("relation", n, m, z0, r, cv))
        if idx % 53 == 0:
            ctx.sample({"function": "vnaconv_" + f, "n": n, "family": family, "matrix": [[fs(a), fs(b)] for a, b in m][:4],
                        "model_first_cell": str(mv[0]), "c_first_cell": str(cv[0])})
    ctx.extra["nport_cases_by_family"] = fam_used
    for need in ("seq", "scaled", "zero_lead", "sing_minor"):
        if fam_used.get(need, 0) < 10:
            raise vplib.BuildError("n-port generator: only %d usable cases of family %s" % (fam_used.get(need, 0), need))
    ctx.traces_validated += used
    ctx.extra["nport_cases_used"] = used
    ctx.extra["nport_cases_skipped_singular"] = skipped
    if skipped > len(cases) // 3:
        bad.setdefault("many", ("too many non-finite / ill-conditioned outputs", 0, [], [], skipped, len(cases)))
    ctx.extra["nport_worst_rel_diff"] = worst
    ctx.obligation("tie:ConvN-vs-C (n=1..6, separate and aliased; call sequences with related z0, 4^k / 2^k scaled inputs, "
                   "zero leading entry / singular leading minor of the factored matrix)", not bad,
                   "; ".join("%s: %s n=%d" % (f, b[0], b[1]) for f, b in bad.items()))
    for f, b in sorted(bad.items()):
        ctx.violation({"kind": "nport", "function": f, "class": b[0]},
                      "vnaconv_%s (n=%d): %s mismatch" % (f, b[1], b[0]),
                      {"function": "vnaconv_" + f, "n": b[1], "matrix": [[fs(x), fs(y)] for x, y in b[2]],
                       "z0": [[fs(x), fs(y)] for x, y in b[3]], "expected_or_residual": str(b[4]), "c_output": str(b[5]),
                       "class": b[0]})

    # ---- n-port vs two-port at n = 2 (on the C functions themselves)
    pairs = {"stozn": "stoz", "ztosn": "ztos", "stoyn": "stoy", "ytosn": "ytos", "ztoyn": "ztoy",
             "ytozn": "ytoz", "stozin": "stozi", "ztozin": "ztozi", "ytozin": "ytozi"}
    c2 = os.path.join(ctx.tmp, "conv2_harness_san")
    if os.path.exists(c2):
        lin_in, c2_in, keys = [], [], []
        for f, g in pairs.items():
            for c in range(4 if ctx.tier == "quick" else 40):
                m = [complex(rng.uniform(-2, 2), rng.uniform(-2, 2)) for _ in range(4)]
                z0 = [complex(rng.uniform(5, 100), rng.uniform(-50, 50)) for _ in range(2)]
                ms = " ".join("%s %s" % (x.real.hex(), x.imag.hex()) for x in m)
                zs = " ".join("%s %s" % (x.real.hex(), x.imag.hex()) for x in z0)
                lin_in.append("%s 2 %s%s" % (f, ms, "" if f in FUNS_I else " " + zs))
                c2_in.append("%s 0 %s %s" % (g, " ".join("%.17g %.17g" % (x.real, x.imag) for x in m),
                                             " ".join("%.17g %.17g" % (x.real, x.imag) for x in z0)))
                keys.append((f, g, m, z0))
        rc, o1, e1 = vplib.sh([exe], input="\n".join(lin_in) + "\n", timeout=300, env=ctx.run_env())
        rc, o2, e2 = vplib.sh([c2, "eval"], input="\n".join(c2_in) + "\n", timeout=300, env=ctx.run_env())
        l1, l2 = o1.strip().split("\n"), o2.strip().split("\n")
        for (f, g, m, z0), a, b in zip(keys, l1, l2):
            _, va = parse_c(a)
            _, vb = parse_c(b)
            ctx.evaluations += 1
            scale = max([abs(x) for x in vb] + [1.0])
            if scale > 1e5:
                continue
            ctx.nontrivial.add(("n2", f, str(m[0])))
            if not max(abs(x - y) for x, y in zip(va, vb)) <= 1e-9 * scale:
                ctx.violation({"kind": "nport", "function": f, "class": "n2-vs-2port"},
                              "vnaconv_%s at n=2 disagrees with vnaconv_%s" % (f, g),
                              {"nport": f, "twoport": g, "matrix": [str(x) for x in m], "z0": [str(x) for x in z0],
                               "nport_out": [str(x) for x in va], "twoport_out": [str(x) for x in vb]})
                break
