"""Ties of the Coq models of C06 to the compiled code (filled in below)."""


def run(ctx, H, broken):
    pass
