"""Ties of the Coq models of C06 to the compiled code.

T1  print_value (coq/Files/NumFmtModel.v) vs the static print_value of vnadata_save.c
    (harness/datafiles_num.c): same bytes for a table of doubles x precisions x plus/pad, the model
    being given glibc's %.*e digit string.
T2  saver_fields / loader_fields (coq/Files/NpdScan.v) vs the number of fields on the data lines
    vnadata_fsave writes and vnadata_fload accepts.
T3  cksave (coq/Files/SaveModel.v) vs the return value of vnadata_cksave on the C06 configurations.
T4  save_emit (coq/Files/SaveEmit.v, instantiated by SaveEmitTie.v) vs the tokens of the bytes vnadata_fsave
    wrote: same keywords, words, line structure and the same number at every place, each number compared
    as the text the C library prints for it (harness/datafiles_num.c); converted matrices are taken from
    vnadata_convert through the harness (the tie checks which conversion is printed, not its arithmetic).
"""
import math
from fractions import Fraction
import re

import vplib
import datafiles as D

PT = {"UNDEF": "PUNDEF", "S": "PS", "T": "PT", "U": "PU", "Z": "PZ", "Y": "PY", "H": "PH", "G": "PG", "A": "PA",
      "B": "PB", "ZIN": "PZIN"}


def coq_list(xs):
    return "[" + "; ".join(xs) + "]"


def entry_term(e):
    """Format specifier (one list entry, as vnadata_set_format reads it) -> Coq entry term, or None."""
    u = e.strip().upper()
    if u in ("IL", "RL", "VSWR"):
        return "Build_entry PS %s" % u
    if u in ("PRC", "PRL", "SRC", "SRL"):
        return "Build_entry PZIN %s" % u
    if u in ("RI", "MA", "DB"):
        return "Build_entry PUNDEF %s" % u
    if u.startswith("ZIN"):
        f = u[3:] or "RI"
        return "Build_entry PZIN %s" % f if f in ("RI", "MA") else None
    if u and u[0] in "STUZYHGAB":
        f = u[1:] or "RI"
        return "Build_entry %s %s" % (PT[u[0]], f) if f in ("RI", "MA", "DB") else None
    return None


def tie_print_value(ctx, broken):
    exe = ctx.build_harness("datafiles_num", san=True, exclude=("vnadata_save.c",))
    rng = ctx.rng
    vals = [0.0, -0.0, 1.0, -1.0, 9.999999, 99.5, 999.9995, 1e-3, 123456.789, 5e-324, 1.7976931348623157e308, 0.5, 50.0,
            1e9, 2.5e-12, 7.25e11, -3.14159e-7]
    vals += [rng.uniform(-1, 1) * 10 ** rng.uniform(-300, 300) for _ in range(60)]
    vals += [rng.choice([1, 9.5, 99.95, 999.5, 9.9995]) * 10 ** rng.randint(-12, 12) for _ in range(40)]
    lines = []
    for v in vals:
        for p in sorted(set([1, 2, 3, rng.randint(4, 17), rng.randint(4, 17), 17])):
            lines.append("%d %d %d %s" % (p, rng.randint(0, 1), rng.randint(0, 1), float(v).hex()))
    rc, out, err = vplib.sh([exe], input="\n".join(lines) + "\n", timeout=120, env=ctx.run_env())
    if rc != 0:
        sig = vplib.asan_signature(err) or {"kind": "fault", "error": "exit %d" % rc, "function": "print_value"}
        ctx.violation(sig, "print_value harness died: %s" % err[-300:], {"stderr": err[-2000:], "input": lines[:50]})
        ctx.obligation("tie:print_value", False, "harness died")
        return
    cases = []
    body = ["Require Import List ZArith Ascii String Bool.", "Require Import LV.Files.NumFmtModel.", "Import ListNotations.",
            "Open Scope Z_scope.",
            "Definition hexs (t : text) : list nat := map nat_of_ascii t."]
    for ln, ol in zip(lines, out.strip().split("\n")):
        m = re.match(r"^E (\S+) \|(.*)$", ol)
        p, plus, pad, _ = ln.split()
        etext = m.group(1)
        cbytes = bytes(int(x, 16) for x in m.group(2).split())
        m2 = re.match(r"^(-?)(\d)(?:\.(\d+))?e([+-]\d+)$", etext)
        if not m2:
            continue
        digits = m2.group(2) + (m2.group(3) or "")
        cases.append((ln, etext, cbytes))
        body.append("Eval vm_compute in hexs (print_value %s %s %s %s%%nat (%s))." % (
            "true" if plus == "1" else "false", "true" if pad == "1" else "false",
            "true" if m2.group(1) else "false", coq_list(list(digits)), int(m2.group(4))))
    rc, cout, cerr = ctx.coq_eval("numfmt_cases", "\n".join(body) + "\n", timeout=600)
    if rc != 0:
        ctx.obligation("tie:print_value", False, "model evaluation failed: " + cerr[-300:])
        broken.append("print_value model cannot be evaluated: " + cerr[-300:])
        return
    blocks = re.findall(r"=\s*\[(.*?)\]\s*:\s*list nat", cout.replace("%nat", ""), flags=re.S)
    bad = 0
    for (ln, etext, cbytes), blk in zip(cases, blocks):
        mb = bytes(int(x) for x in re.findall(r"\d+", blk))
        ctx.count(("print_value", ln))
        ctx.traces_validated += 1
        if mb != cbytes:
            bad += 1
            if bad <= 3:
                ctx.violation({"kind": "disagreement", "op": "print_value", "class": "model_vs_c"},
                              "print_value(%s): C wrote %r, the model (given %s) writes %r" % (ln, cbytes, etext, mb),
                              {"input": ln, "sprintf": etext, "c": cbytes.hex(), "model": mb.hex()})
    ctx.obligation("tie:print_value", bad == 0 and len(blocks) == len(cases), "%d of %d differ" % (bad, len(cases)))
    ctx.extra["print_value_cases"] = len(cases)


# ------------------------------------------------------------------------------------------------
# T4: the saver model's token stream against the bytes written
# ------------------------------------------------------------------------------------------------
KW_NAMES = ["BEGIN INFORMATION", "END INFORMATION", "MATRIX FORMAT", "MIXED-MODE ORDER", "NETWORK DATA", "NOISE DATA",
            "NUMBER OF FREQUENCIES", "NUMBER OF NOISE FREQUENCIES", "NUMBER OF PORTS", "REFERENCE", "TWO-PORT ORDER",
            "VERSION", "END"]


def xnum_term(x):
    fr = Fraction(x)
    return "XQ (Q2Qc (Qmake (%d) %d))" % (fr.numerator, fr.denominator)


def sv_pair(a, b):
    return "(%s, %s)" % (a, b)


def mobj_term(c):
    o = c["obj"]
    ports = o.cols
    freqs = coq_list(["VF %d" % i for i in range(len(o.freqs))])
    if o.fz0 is None:
        z0 = coq_list([sv_pair("VZ %d false" % p, "VZ %d true" % p) for p in range(ports)])
        fz0 = "None"
        zre = coq_list([xnum_term(z.real) for z in o.z0])
        zim = coq_list([xnum_term(z.imag) for z in o.z0])
    else:
        z0 = "[]"
        fz0 = "(Some %s)" % coq_list([coq_list([sv_pair("VFZ %d %d false" % (f, p), "VFZ %d %d true" % (f, p)) for p in range(ports)])
                                      for f in range(len(o.freqs))])
        zre = zim = "[]"
    data = coq_list([coq_list([sv_pair("VC [] %d %d false" % (f, k), "VC [] %d %d true" % (f, k)) for k in range(o.rows * o.cols)])
                     for f in range(len(o.freqs))])
    return ("(mkmobj %s %d %d %s %s %s %s (%d) (%d))" % (PT[o.type], o.rows, o.cols, freqs, z0, fz0, data, c["fprec"], c["dprec"]),
            zre, zim)


class _Dec(object):
    """Decoder of the numeric encoding of coq/Files/SaveEmitTie.v."""

    def __init__(self, xs):
        self.xs = xs
        self.i = 0

    def n(self):
        v = self.xs[self.i] - 1000
        self.i += 1
        return v

    def sv(self):
        tag = self.xs[self.i]
        self.i += 1
        if tag == 1010:
            return ("F", self.n())
        if tag == 1011:
            return ("Z", self.n(), self.n())
        if tag == 1012:
            return ("FZ", self.n(), self.n(), self.n())
        if tag == 1013:
            k = self.n()
            path = tuple((self.n(), self.n(), self.n()) for _ in range(k))
            return ("C", path, self.n(), self.n(), self.n())
        if tag == 1014:
            return ("ONE",)
        if tag == 1015:
            return ("ZERO",)
        if tag == 1016:
            return ("BAD",)
        if tag == 1017:
            op = self.n()
            return ("OP", op, self.sv(), self.sv(), self.sv())
        raise ValueError("bad tag %d" % tag)


def decode_text(xs):
    """One word / field of the model -> ('lit', str) or ('num', kind, prec, flag, sv, suffix)."""
    if all(x < 256 for x in xs):
        return ("lit", "".join(chr(x) for x in xs))
    d = _Dec(xs)
    tag = xs[0]
    d.i = 1
    if tag == 1003:
        return ("lit", str(d.n()))
    prec, flag = d.n(), d.n()
    v = d.sv()
    suffix = "".join(chr(x) for x in xs[d.i:])
    return ("num", "P" if tag == 1001 else "A", prec, flag, v, suffix)


def sv_paths(v, acc):
    if v[0] == "C" and v[1]:
        acc.add(v[1])
    elif v[0] == "OP":
        for w in v[2:]:
            sv_paths(w, acc)


def sv_eval(v, o, conv):
    k = v[0]
    if k == "F":
        return o.freqs[v[1]]
    if k == "Z":
        z = o.z0[v[1]]
        return z.imag if v[2] else z.real
    if k == "FZ":
        z = o.fz0[v[1]][v[2]]
        return z.imag if v[3] else z.real
    if k == "C":
        m = o.data if not v[1] else conv[v[1]]
        z = m[v[2]][v[3]]
        return z.imag if v[4] else z.real
    if k == "ONE":
        return 1.0
    if k == "ZERO":
        return 0.0
    if k == "OP":
        op = v[1]
        a, b = sv_eval(v[2], o, conv), sv_eval(v[3], o, conv)
        if op <= 4:
            r = abs(complex(a, b))
            if op == 0:
                return r
            if op == 1:
                return 180.0 / math.pi * math.atan2(b, a)
            if op == 2:
                return 20.0 * math.log10(r)
            if op == 3:
                return -20.0 * math.log10(r)
            return (1.0 + r) / abs(1.0 - r)
        if op == 5:
            return (a * a + b * b) / a
        f = sv_eval(v[4], o, conv)
        if op == 6:
            return -1.0 / (2.0 * math.pi * f * ((a * a + b * b) / b))
        if op == 7:
            return ((a * a + b * b) / b) / (2.0 * math.pi * f)
        if op == 8:
            return -1.0 / (2.0 * math.pi * f * b)
        if op == 9:
            return b / (2.0 * math.pi * f)
    raise ValueError("cannot evaluate %r" % (v,))


def c_tokens(text):
    """Tokens of a file vnadata_fsave wrote, in the vocabulary of the model's flattened stream."""
    if text.startswith("#NPD"):
        lines = []
        for ln in text.split("\n"):
            if not ln.strip() or (ln.startswith("#") and not ln.startswith("#:")):
                continue
            lines.append(ln.split())
        return ("npd", lines)
    toks = []
    for ln in text.split("\n")[:-1]:
        body = ln.split("!")[0]
        opt = False
        pos = 0
        for m in re.finditer(r"\[([^\]]*)\]|#|(\S+)", body):
            if m.group(0) == "#":
                toks.append(("option",))
                opt = True
            elif m.group(1) is not None:
                toks.append(("kw", m.group(1).upper()))
            else:
                toks.append(("word", m.group(2).upper(), opt))
        toks.append(("nl", opt))
    toks.append(("eof",))
    return ("ts", toks)


def model_tokens(xs):
    """Flattened model stream -> same vocabulary, numbers still symbolic."""
    kind = "ts" if xs[0] == 2020 else "npd"
    i = 1
    if kind == "ts":
        toks = []
        opt = False
        while i < len(xs):
            x = xs[i]
            i += 1
            if 2100 <= x < 2100 + len(KW_NAMES):
                toks.append(("kw", KW_NAMES[x - 2100]))
            elif x == 2001:
                j = xs.index(2002, i)
                toks.append(("word", decode_text(xs[i:j]), opt))
                i = j + 1
            elif x in (2003, 2004):
                toks.append(("nl", x == 2004))
                opt = False
            elif x == 2005:
                toks.append(("option",))
                opt = True
            elif x == 2006:
                toks.append(("eof",))
            else:
                raise ValueError("bad stream item %d" % x)
        return kind, toks
    lines = []
    while i < len(xs):
        x = xs[i]
        i += 1
        if x == 2010:
            lines.append([])
        elif x == 2001:
            j = xs.index(2002, i)
            lines[-1].append(decode_text(xs[i:j]))
            i = j + 1
        else:
            raise ValueError("bad stream item %d" % x)
    return kind, lines


def tie_save_emit(ctx, H, broken, cases, results, expected_filetype):
    limit = 150 if ctx.tier == "quick" else 900
    groups = {}
    for c in cases:
        lines = results.get(c["id"]) or []
        sv = [l for l in lines if l.startswith("SAVE")]
        sets = [l for l in lines if l.startswith("SET")]
        if not sv or any(x.split()[1] != "0" for x in sets):
            continue
        f = sv[0].split(" # ")[0].split()
        if f[1] != "0" or f[6] == "-":
            continue
        ents = [entry_term(e) for e in (c["format"].split(",") if c["format"] else [])]
        if any(e is None for e in ents):
            continue
        o = c["obj"]
        text = bytes.fromhex(f[6]).decode("latin-1")
        eft = expected_filetype(c)
        base = c["name"].rsplit("/", 1)[-1]
        ext = base.rsplit(".", 1)[1].lower() if "." in base else ""
        promote = ext == "ts" and c["setft"] == D.FT_TS1
        ft = "TS1" if promote else eft
        one = o.fz0 is None and o.z0[0] == 1
        key = (ft, promote, min(o.cols, 5), o.type in ("S",), c["zmode"], len(ents), one)
        groups.setdefault(key, []).append((c, text, ents, ft, promote))
    sel = []
    depth = 0
    while len(sel) < limit and any(len(g) > depth for g in groups.values()):
        for k in sorted(groups):
            if len(groups[k]) > depth and len(sel) < limit:
                sel.append(groups[k][depth])
        depth += 1
    if not sel:
        ctx.obligation("tie:save_emit_model", False, "no accepted configuration to compare")
        return
    body = ["Require Import List NArith ZArith QArith Qcanon Bool.", "Import ListNotations.",
            "Require Import LV.Files.TsTok LV.Files.TsParse LV.Files.NpdScan LV.Files.SaveModel LV.Files.SaveEmit LV.Files.SaveEmitTie."]
    for c, text, ents, ft, promote in sel:
        term, zre, zim = mobj_term(c)
        body.append("Eval vm_compute in flat_saved (save_emit (tie_env %s %s) %s %s %s %s)."
                    % (zre, zim, term, ft, "true" if promote else "false", coq_list(ents)))
    rc, cout, cerr = ctx.coq_eval("save_emit_cases", "\n".join(body) + "\n", timeout=900)
    if rc != 0:
        ctx.obligation("tie:save_emit_model", False, "model evaluation failed: " + cerr[-300:])
        broken.append("saver model cannot be evaluated: " + cerr[-300:])
        return
    blocks = re.findall(r"=\s*\[(.*?)\]\s*:\s*list N", cout, flags=re.S)
    if len(blocks) != len(sel):
        ctx.obligation("tie:save_emit_model", False, "%d model outputs for %d cases" % (len(blocks), len(sel)))
        broken.append("saver model output could not be read back")
        return
    models = []
    for blk in blocks:
        xs = [int(x) for x in re.findall(r"\d+", blk)]
        models.append(model_tokens(xs))
    # conversions the model printed from: ask the library for them
    def texts_of(m):
        kind, t = m
        if kind == "ts":
            return [x[1] for x in t if x[0] == "word"]
        return [f for ln in t for f in ln]
    scripts = []
    need = []
    for (c, text, ents, ft, promote), m in zip(sel, models):
        paths = set()
        for t in texts_of(m):
            if t[0] == "num":
                sv_paths(t[4], paths)
        need.append(sorted(paths))
        if paths:
            cmds = c["obj"].cmds(0)
            for path in sorted(paths):
                src = 0
                nxt = 1
                for (a, b, ones) in path:
                    if ones:
                        if src == 0:
                            cmds.append("convert 0 %d %d" % (nxt, a))
                            src = nxt
                            nxt += 1
                        cmds.append("z0all %d 0x1p+0" % src)
                    cmds.append("convert %d %d %d" % (src, nxt, b))
                    src = nxt
                    nxt += 1
                cmds += ["dump %d" % src, "free 1", "free 2", "free 3"]
            scripts.append(("e" + c["id"], cmds))
    cres, cfaults = H.run(scripts, timeout=900) if scripts else ({}, [])
    convs = []
    for (c, text, ents, ft, promote), paths in zip(sel, need):
        cv = {}
        if paths:
            lines = cres.get("e" + c["id"]) or []
            dumps = [D.parse_dump(l) for l in lines if l.startswith("DUMP")]
            if len(dumps) == len(paths) and all(d is not None for d in dumps) and all(l.split()[1] == "0" for l in lines if l.startswith("SET")):
                for pth, d in zip(paths, dumps):
                    cv[pth] = d.data
            else:
                cv = None
        convs.append(cv)
    # the numbers, as the C library prints them
    reqs = {}
    plan = []
    for (c, text, ents, ft, promote), m, cv in zip(sel, models, convs):
        vals = []
        ok = cv is not None
        if ok:
            for t in texts_of(m):
                if t[0] != "num":
                    continue
                try:
                    v = sv_eval(t[4], c["obj"], cv)
                except (ValueError, ZeroDivisionError, OverflowError, IndexError, KeyError):
                    ok = False
                    break
                vals.append(v)
                if t[1] == "P":
                    reqs[(t[2], t[3], v.hex())] = None
                elif t[2] == D.MAXP:
                    reqs[(t[2], 2, v.hex())] = None
        plan.append(vals if ok else None)
    exe = ctx.build_harness("datafiles_num", san=True, exclude=("vnadata_save.c",))
    keys = sorted(reqs)
    rc, out, err = vplib.sh([exe], input="".join("%d %d 0 %s\n" % k for k in keys), timeout=300, env=ctx.run_env())
    olines = out.strip().split("\n") if out.strip() else []
    if rc != 0 or len(olines) != len(keys):
        ctx.obligation("tie:save_emit_model", False, "number formatting harness failed: " + err[-200:])
        broken.append("datafiles_num failed while formatting the numbers of the saver-model tie")
        return
    for k, ol in zip(keys, olines):
        reqs[k] = bytes(int(x, 16) for x in ol.split("|", 1)[1].split()).decode("latin-1")

    def expect(t, v, upper):
        if t[0] == "lit":
            return t[1].upper() if upper else t[1], False
        _, kind, prec, flag, svv, suffix = t
        if kind == "P":
            sx = reqs[(prec, flag, v.hex())]
        elif prec == D.MAXP:
            sx = reqs[(prec, 2, v.hex())]
        else:
            sx = "%+.*f" % (prec - 3 if flag else prec - 1, v)
        sx += suffix
        return (sx.upper() if upper else sx), svv[0] == "OP" or (svv[0] == "C" and bool(svv[1]))

    def close(a, b):
        try:
            x, y = D.parse_number(a.rstrip("jJ")), D.parse_number(b.rstrip("jJ"))
        except Exception:
            return False
        if x is None or y is None:
            return False
        x, y = float(x), float(y)
        return x == y or abs(x - y) <= 1e-11 * max(abs(x), abs(y)) + 1e-300

    bad = compared = skipped = inexact = 0
    for (c, text, ents, ft, promote), m, vals in zip(sel, models, plan):
        if vals is None:
            skipped += 1
            continue
        ckind, ctoks = c_tokens(text)
        mkind, mtoks = m
        it = iter(vals)
        diff = None
        if ckind != mkind:
            diff = "file kind: C wrote %s, model %s" % (ckind, mkind)
        elif ckind == "ts":
            exp = []
            for t in mtoks:
                if t[0] == "word":
                    e, derived = expect(t[1], next(it) if t[1][0] == "num" else None, True)
                    exp.append(("word", e, t[2], derived))
                else:
                    exp.append(t + (False,) if t[0] != "word" else t)
            if len(exp) != len(ctoks):
                diff = "token count: C %d, model %d" % (len(ctoks), len(exp))
            else:
                for n, (a, b) in enumerate(zip(ctoks, exp)):
                    if a[0] == "word" and b[0] == "word":
                        if a[1] == b[1] and a[2] == b[2]:
                            continue
                        if b[3] and a[2] == b[2] and close(a[1], b[1]):
                            inexact += 1
                            continue
                        diff = "token %d: C %r, model %r" % (n, a, b[:3])
                        break
                    if tuple(a) != tuple(b[:len(a)]):
                        diff = "token %d: C %r, model %r" % (n, a, b[:len(a)])
                        break
        else:
            if len(ctoks) != len(mtoks):
                diff = "line count: C %d, model %d" % (len(ctoks), len(mtoks))
            else:
                for ln, (cl, ml) in enumerate(zip(ctoks, mtoks)):
                    el = [expect(t, next(it) if t[0] == "num" else None, False) for t in ml]
                    if len(cl) != len(el):
                        diff = "line %d: C has %d fields, model %d" % (ln, len(cl), len(el))
                        break
                    for fi, (a, (b, derived)) in enumerate(zip(cl, el)):
                        if a == b:
                            continue
                        if derived and close(a, b):
                            inexact += 1
                            continue
                        diff = "line %d field %d: C %r, model %r" % (ln, fi, a, b)
                        break
                    if diff:
                        break
        compared += 1
        ctx.count(("save_emit", c["id"]))
        ctx.traces_validated += 1
        if diff:
            bad += 1
            if bad <= 3:
                o = c["obj"]
                ctx.violation({"kind": "disagreement", "op": "vnadata_fsave", "class": "emit_model_vs_c"},
                              "vnadata_fsave and the saver model write different files (%s %dx%d, %s, format %s, file %s): %s"
                              % (o.type, o.rows, o.cols, ft, c["format"], c["name"], diff),
                              {"case": {k: repr(v) for k, v in c.items() if k != "obj"}, "file": text[:3000], "difference": diff})
    ctx.obligation("tie:save_emit_model", bad == 0 and compared >= max(1, len(sel) // 2),
                   "%d of %d differ (%d not evaluated, %d derived numbers equal to 1e-11 only)" % (bad, compared, skipped, inexact))
    ctx.extra["save_emit_cases"] = compared
    ctx.extra["save_emit_groups"] = len(groups)


def run(ctx, H, broken, cases=None, results=None, expected_filetype=None):
    tie_print_value(ctx, broken)
    if not cases:
        return
    tie_save_emit(ctx, H, broken, cases, results, expected_filetype)
    # ---- T2 / T3 on the configurations of the round-trip run
    body = ["Require Import List Bool Arith.", "Require Import LV.Files.NpdScan LV.Files.SaveModel.", "Import ListNotations."]
    rows = []
    for c in cases:
        lines = results.get(c["id"]) or []
        ck = [l for l in lines if l.startswith("CKSAVE")]
        sv = [l for l in lines if l.startswith("SAVE")]
        sets = [l for l in lines if l.startswith("SET")]
        if not ck or not sv or any(s.split()[1] != "0" for s in sets):
            continue
        o = c["obj"]
        ents = [entry_term(e) for e in (c["format"].split(",") if c["format"] else [])]
        if any(e is None for e in ents):
            continue
        eft = expected_filetype(c)
        base = c["name"].rsplit("/", 1)[-1]
        ext = base.rsplit(".", 1)[1].lower() if "." in base else ""
        promote = ext == "ts" and c["setft"] == D.FT_TS1
        ft = "TS1" if promote else eft
        z = o.z0 or []
        realpos = o.fz0 is None and all(x.imag == 0 and x.real > 0 for x in z)
        equal = o.fz0 is None and all(x == z[0] for x in z)
        term = "(Build_sobj %s %d %d %d %s %s %s %s %s %s)" % (
            PT[o.type], o.rows, o.cols, len(o.freqs), "true" if o.fz0 is not None else "false",
            "true" if realpos else "false", "true" if equal else "false", ft, "true" if promote else "false", coq_list(ents))
        # field counts only make sense for the entries with resolved types
        res = [e.replace("PUNDEF", PT[o.type]) for e in (ents or ["Build_entry %s RI" % PT[o.type]])]
        z0_one = o.fz0 is None and z and z[0] == 1
        body.append("Eval vm_compute in (cksave %s, line_fields (saver_fields %d %d) %s %d %s, line_fields (loader_fields %d) %s %d %s, save %s %s)."
                    % (term, o.rows, o.cols, "true" if o.fz0 is not None else "false", o.cols, coq_list(res),
                       o.cols, "true" if o.fz0 is not None else "false", o.cols, coq_list(res), "true" if z0_one else "false", term))
        rows.append((c, int(ck[0].split()[1]), sv[0]))
        if len(rows) >= 400:
            break
    rc, cout, cerr = ctx.coq_eval("save_cases", "\n".join(body) + "\n", timeout=600)
    if rc != 0:
        ctx.obligation("tie:cksave_model", False, "model evaluation failed: " + cerr[-300:])
        broken.append("save model cannot be evaluated: " + cerr[-300:])
        return
    blocks = re.findall(r"=\s*\((true|false),\s*(\d+),\s*(\d+),\s*(true|false)\)", cout)
    bad_ck = bad_f = bad_sv = 0
    for (c, ckrc, svline), (mck, msf, mlf, msv) in zip(rows, blocks):
        if (msv == "true") != (int(svline.split(" # ")[0].split()[1]) == 0):
            bad_sv += 1
            if bad_sv <= 3:
                ctx.violation({"kind": "disagreement", "op": "vnadata_fsave", "class": "save_model_vs_c"},
                              "vnadata_fsave returned %s, the model's save (checks + conversions) says %s (type %s %dx%d, format %s, file %s)"
                              % (svline.split(" # ")[0].split()[1], msv, c["obj"].type, c["obj"].rows, c["obj"].cols, c["format"], c["name"]),
                              {"case": {k: repr(v) for k, v in c.items() if k != "obj"}})
        ctx.count(("save_model", c["id"]))
        if (mck == "true") != (ckrc == 0):
            bad_ck += 1
            if bad_ck <= 3:
                ctx.violation({"kind": "disagreement", "op": "vnadata_cksave", "class": "model_vs_c"},
                              "vnadata_cksave returned %d, the model says %s (type %s %dx%d, format %s, file %s)"
                              % (ckrc, mck, c["obj"].type, c["obj"].rows, c["obj"].cols, c["format"], c["name"]),
                              {"case": {k: repr(v) for k, v in c.items() if k != "obj"}})
        sv = svline.split(" # ")[0].split()
        if int(sv[1]) == 0 and sv[6] != "-":
            text = bytes.fromhex(sv[6]).decode("latin-1")
            if text.startswith("#NPD"):
                data = [l for l in text.split("\n") if l.strip() and not l.startswith("#")]
                nf = len(data[0].split())
                ctx.traces_validated += 1
                if nf != int(msf) or int(msf) != int(mlf):
                    bad_f += 1
                    if bad_f <= 3:
                        ctx.violation({"kind": "disagreement", "op": "npd_field_count", "class": "model_vs_c"},
                                      "vnadata_fsave wrote %d fields per line, model saver %s, model loader %s (format %s, %d ports)"
                                      % (nf, msf, mlf, c["format"], c["obj"].cols), {"file": text[:2000]})
    ok = len(blocks) == len(rows)
    ctx.obligation("tie:cksave_model", ok and bad_ck == 0, "%d of %d differ" % (bad_ck, len(rows)))
    ctx.obligation("tie:save_model", ok and bad_sv == 0, "%d of %d differ" % (bad_sv, len(rows)))
    ctx.obligation("tie:npd_field_counts", ok and bad_f == 0, "%d differ" % bad_f)
    ctx.extra["save_model_cases"] = len(rows)
