"""Ties of the Coq models of C06 to the compiled code.

T1  print_value (coq/Files/NumFmtModel.v) vs the static print_value of vnadata_save.c
    (harness/datafiles_num.c): same bytes for a table of doubles x precisions x plus/pad, the model
    being given glibc's %.*e digit string.
T2  saver_fields / loader_fields (coq/Files/NpdScan.v) vs the number of fields on the data lines
    vnadata_fsave writes and vnadata_fload accepts.
T3  cksave (coq/Files/SaveModel.v) vs the return value of vnadata_cksave on the C06 configurations.
"""
import re

import vplib
import datafiles as D

PT = {"UNDEF": "PUNDEF", "S": "PS", "T": "PT", "U": "PU", "Z": "PZ", "Y": "PY", "H": "PH", "G": "PG", "A": "PA",
      "B": "PB", "ZIN": "PZIN"}


def coq_list(xs):
    return "[" + "; ".join(xs) + "]"


def entry_term(e):
    """Format specifier (one list entry, as vnadata_set_format reads it) -> Coq entry term, or None."""
    u = e.strip().upper()
    if u in ("IL", "RL", "VSWR"):
        return "Build_entry PS %s" % u
    if u in ("PRC", "PRL", "SRC", "SRL"):
        return "Build_entry PZIN %s" % u
    if u in ("RI", "MA", "DB"):
        return "Build_entry PUNDEF %s" % u
    if u.startswith("ZIN"):
        f = u[3:] or "RI"
        return "Build_entry PZIN %s" % f if f in ("RI", "MA") else None
    if u and u[0] in "STUZYHGAB":
        f = u[1:] or "RI"
        return "Build_entry %s %s" % (PT[u[0]], f) if f in ("RI", "MA", "DB") else None
    return None


def tie_print_value(ctx, broken):
    exe = ctx.build_harness("datafiles_num", san=True, exclude=("vnadata_save.c",))
    rng = ctx.rng
    vals = [0.0, -0.0, 1.0, -1.0, 9.999999, 99.5, 999.9995, 1e-3, 123456.789, 5e-324, 1.7976931348623157e308, 0.5, 50.0,
            1e9, 2.5e-12, 7.25e11, -3.14159e-7]
    vals += [rng.uniform(-1, 1) * 10 ** rng.uniform(-300, 300) for _ in range(60)]
    vals += [rng.choice([1, 9.5, 99.95, 999.5, 9.9995]) * 10 ** rng.randint(-12, 12) for _ in range(40)]
    lines = []
    for v in vals:
        for p in sorted(set([1, 2, 3, rng.randint(4, 17), rng.randint(4, 17), 17])):
            lines.append("%d %d %d %s" % (p, rng.randint(0, 1), rng.randint(0, 1), float(v).hex()))
    rc, out, err = vplib.sh([exe], input="\n".join(lines) + "\n", timeout=120, env=ctx.run_env())
    if rc != 0:
        sig = vplib.asan_signature(err) or {"kind": "fault", "error": "exit %d" % rc, "function": "print_value"}
        ctx.violation(sig, "print_value harness died: %s" % err[-300:], {"stderr": err[-2000:], "input": lines[:50]})
        ctx.obligation("tie:print_value", False, "harness died")
        return
    cases = []
    body = ["Require Import List ZArith Ascii String Bool.", "Require Import LV.Files.NumFmtModel.", "Import ListNotations.",
            "Open Scope Z_scope.",
            "Definition hexs (t : text) : list nat := map nat_of_ascii t."]
    for ln, ol in zip(lines, out.strip().split("\n")):
        m = re.match(r"^E (\S+) \|(.*)$", ol)
        p, plus, pad, _ = ln.split()
        etext = m.group(1)
        cbytes = bytes(int(x, 16) for x in m.group(2).split())
        m2 = re.match(r"^(-?)(\d)(?:\.(\d+))?e([+-]\d+)$", etext)
        if not m2:
            continue
        digits = m2.group(2) + (m2.group(3) or "")
        cases.append((ln, etext, cbytes))
        body.append("Eval vm_compute in hexs (print_value %s %s %s %s%%nat (%s))." % (
            "true" if plus == "1" else "false", "true" if pad == "1" else "false",
            "true" if m2.group(1) else "false", coq_list(list(digits)), int(m2.group(4))))
    rc, cout, cerr = ctx.coq_eval("numfmt_cases", "\n".join(body) + "\n", timeout=600)
    if rc != 0:
        ctx.obligation("tie:print_value", False, "model evaluation failed: " + cerr[-300:])
        broken.append("print_value model cannot be evaluated: " + cerr[-300:])
        return
    blocks = re.findall(r"=\s*\[(.*?)\]\s*:\s*list nat", cout.replace("%nat", ""), flags=re.S)
    bad = 0
    for (ln, etext, cbytes), blk in zip(cases, blocks):
        mb = bytes(int(x) for x in re.findall(r"\d+", blk))
        ctx.count(("print_value", ln))
        ctx.traces_validated += 1
        if mb != cbytes:
            bad += 1
            if bad <= 3:
                ctx.violation({"kind": "disagreement", "op": "print_value", "class": "model_vs_c"},
                              "print_value(%s): C wrote %r, the model (given %s) writes %r" % (ln, cbytes, etext, mb),
                              {"input": ln, "sprintf": etext, "c": cbytes.hex(), "model": mb.hex()})
    ctx.obligation("tie:print_value", bad == 0 and len(blocks) == len(cases), "%d of %d differ" % (bad, len(cases)))
    ctx.extra["print_value_cases"] = len(cases)


def run(ctx, H, broken, cases=None, results=None, expected_filetype=None):
    tie_print_value(ctx, broken)
    if not cases:
        return
    # ---- T2 / T3 on the configurations of the round-trip run
    body = ["Require Import List Bool Arith.", "Require Import LV.Files.NpdScan LV.Files.SaveModel.", "Import ListNotations."]
    rows = []
    for c in cases:
        lines = results.get(c["id"]) or []
        ck = [l for l in lines if l.startswith("CKSAVE")]
        sv = [l for l in lines if l.startswith("SAVE")]
        sets = [l for l in lines if l.startswith("SET")]
        if not ck or not sv or any(s.split()[1] != "0" for s in sets):
            continue
        o = c["obj"]
        ents = [entry_term(e) for e in (c["format"].split(",") if c["format"] else [])]
        if any(e is None for e in ents):
            continue
        eft = expected_filetype(c)
        base = c["name"].rsplit("/", 1)[-1]
        ext = base.rsplit(".", 1)[1].lower() if "." in base else ""
        promote = ext == "ts" and c["setft"] == D.FT_TS1
        ft = "TS1" if promote else eft
        z = o.z0 or []
        realpos = o.fz0 is None and all(x.imag == 0 and x.real > 0 for x in z)
        equal = o.fz0 is None and all(x == z[0] for x in z)
        term = "(Build_sobj %s %d %d %d %s %s %s %s %s %s)" % (
            PT[o.type], o.rows, o.cols, len(o.freqs), "true" if o.fz0 is not None else "false",
            "true" if realpos else "false", "true" if equal else "false", ft, "true" if promote else "false", coq_list(ents))
        # field counts only make sense for the entries with resolved types
        res = [e.replace("PUNDEF", PT[o.type]) for e in (ents or ["Build_entry %s RI" % PT[o.type]])]
        body.append("Eval vm_compute in (cksave %s, line_fields (saver_fields %d %d) %s %d %s, line_fields (loader_fields %d) %s %d %s)."
                    % (term, o.rows, o.cols, "true" if o.fz0 is not None else "false", o.cols, coq_list(res),
                       o.cols, "true" if o.fz0 is not None else "false", o.cols, coq_list(res)))
        rows.append((c, int(ck[0].split()[1]), sv[0]))
        if len(rows) >= 400:
            break
    rc, cout, cerr = ctx.coq_eval("save_cases", "\n".join(body) + "\n", timeout=600)
    if rc != 0:
        ctx.obligation("tie:cksave_model", False, "model evaluation failed: " + cerr[-300:])
        broken.append("save model cannot be evaluated: " + cerr[-300:])
        return
    blocks = re.findall(r"=\s*\((true|false),\s*(\d+),\s*(\d+)\)", cout)
    bad_ck = bad_f = 0
    for (c, ckrc, svline), (mck, msf, mlf) in zip(rows, blocks):
        ctx.count(("save_model", c["id"]))
        if (mck == "true") != (ckrc == 0):
            bad_ck += 1
            if bad_ck <= 3:
                ctx.violation({"kind": "disagreement", "op": "vnadata_cksave", "class": "model_vs_c"},
                              "vnadata_cksave returned %d, the model says %s (type %s %dx%d, format %s, file %s)"
                              % (ckrc, mck, c["obj"].type, c["obj"].rows, c["obj"].cols, c["format"], c["name"]),
                              {"case": {k: repr(v) for k, v in c.items() if k != "obj"}})
        sv = svline.split(" # ")[0].split()
        if int(sv[1]) == 0 and sv[6] != "-":
            text = bytes.fromhex(sv[6]).decode("latin-1")
            if text.startswith("#NPD"):
                data = [l for l in text.split("\n") if l.strip() and not l.startswith("#")]
                nf = len(data[0].split())
                ctx.traces_validated += 1
                if nf != int(msf) or int(msf) != int(mlf):
                    bad_f += 1
                    if bad_f <= 3:
                        ctx.violation({"kind": "disagreement", "op": "npd_field_count", "class": "model_vs_c"},
                                      "vnadata_fsave wrote %d fields per line, model saver %s, model loader %s (format %s, %d ports)"
                                      % (nf, msf, mlf, c["format"], c["obj"].cols), {"file": text[:2000]})
    ok = len(blocks) == len(rows)
    ctx.obligation("tie:cksave_model", ok and bad_ck == 0, "%d of %d differ" % (bad_ck, len(rows)))
    ctx.obligation("tie:npd_field_counts", ok and bad_f == 0, "%d differ" % bad_f)
    ctx.extra["save_model_cases"] = len(rows)
