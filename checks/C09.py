"""C09 - every file parser is total: arbitrary bytes are rejected cleanly or loaded whole.

Two halves:
* network data (.s1p-.s4p, .ts, .npd): coq/Properties_C09.v (the byte-level models of the Touchstone tokenizer and
  parser and of the NPD scanner and loader are total: final token, text buffer never overflows, Ok or a classified
  error, never the model's internal-error class) and checks/c09_data.py: the mutation / fuzz harness under
  ASan/UBSan/LSan, and the ties of the extracted models to the C code on the same inputs (checks/tstone_ties.py);
* calibration files and YAML property import (.vnacal, vnaproperty_import_yaml_*): module
  checks/c09_cal.py (agent calfile), theorems in coq/Properties_C09cal.v.
"""
import c09_data
import c09_mem
import tstone_ties

# the pointer-level models of the parsers' own buffers (session 5, package B) and their proofs
COQ_FILES_MEM = ["Mem/Alloc.v", "Mem/AllocProofs.v", "Files/TsMem.v", "Files/TsMemProofs.v", "Files/TsMemNpd.v",
                 "Files/TsMemNpdProofs.v", "Files/LoadFail.v", "Files/LoadFailProofs.v", "Files/LoadFailSave.v",
                 "Files/LoadFailSaveProofs.v"]


def run(ctx):
    ctx.level = "proof"
    ctx.trusted_base = [
        "network-data half: Coq 8.16.1 kernel, no axioms (Print Assumptions: Closed under the global context for every "
        "theorem of Properties_C09.v)",
        "network-data half: hand-written models coq/Files/TsTok.v (next_char / next_token / add_char / strtol / strtod on a word), "
        "coq/Files/TsParse.v (_vnadata_load_touchstone, load_touchstone1) and coq/Files/NpdLoad.v (scan_line, _vnadata_load_npd, "
        "parse_format), extracted to OCaml (ocaml/Extract_tstone.v, glue ocaml/drv_tstone.ml) and compared with the compiled C "
        "code on every input of the run: harness/tstone_tok.c (#includes the two loader sources to reach the static scanners), "
        "harness/datafiles_harness.c (vnadata_fload); lib/tstone.py does the comparison (exact where the C code does no "
        "arithmetic, else 1e-12 / 1e-11 relative)",
        "network-data half: hand-written pointer-level models coq/Files/TsMem.v / TsMemNpd.v of the parsers' own buffers in the "
        "checked-memory monad coq/Mem/Alloc.v, extracted (ocaml/Extract_tsmem.v, glue ocaml/drv_tsmem.ml) and compared on every "
        "run with the C code compiled with its malloc / calloc / realloc / free renamed to a counting, failing, block-moving "
        "ledger (harness/tstone_mem.c, tstone_mem_npd.c; checks/c09_mem.py): outcome, number of requests, sizes of the blocks "
        "freed at out:, blocks left, for every failing request",
        "network-data half: the calls the loaders make on the destination are recorded by the same models (TsMem.t_log, "
        "TsMemNpd.n_log) and interpreted as operations of the container model coq/Data/DataModel.v (coq/Files/LoadFail.v); the "
        "digest of the destination (type, rows, columns, frequencies, file type, z0 mode, precisions) after every run of the "
        "memory harness, failure runs included, is compared with the model's; cell values at a failure exit and save / re-load "
        "are harness only (checks/c09_data.py under ASan/UBSan/LSan with harness/allocwrap.c and a 5 s watchdog)",
        "network-data half: coq/Files/SaveModel.v (acceptance model of vnadata_cksave, tied by C06) for the savability theorems",
        "gcc, ASan/UBSan/LSan",
    ]
    ctx.assumptions = ["inputs declaring more than 40 ports or 5000 frequencies are not executed (allocation size), "
                       "except the directed overflow cases",
                       "allocation failure of the parsers' own requests is modelled and tied (fail_at of the memory monad); "
                       "failures of the requests of other modules reached from the loaders (vnadata_init, _vnadata_error, "
                       "vnadata_set_format ...) are not (C12 covers allocation faults of the API)"]
    ctx.rule = ("one evaluation = one input file loaded into a fresh and into a used object, dumped, re-saved and re-loaded; "
                "distinct non-trivial = inputs for which every clause held")
    files = [f for f in tstone_ties.COQ_FILES_C09 if f != "Properties_C09.v"] + COQ_FILES_MEM + ["Properties_C09.v"]
    ok, res = ctx.coq_obligations(files)
    inputs = c09_data.run(ctx)
    c09_mem.run(ctx, inputs)
    if not ok:
        ctx.unproved("C09 (network data)", "Coq development of C09 does not build: " + getattr(ctx, "_last_coq_log", "")[-400:],
                     "%d mutated / truncated / random / directed inputs through vnadata_fload and the extracted models" % len(inputs))
    try:
        import c09_cal
    except ImportError:
        ctx.notes.append("calibration-file / YAML half (checks/c09_cal.py, agent calfile) is not present in this tree; "
                         "only the network-data half was checked")
        return
    c09_cal.run(ctx)
