"""C09 - every file parser is total: arbitrary bytes are rejected cleanly or loaded whole.

Two halves:
* network data (.s1p-.s4p, .ts, .npd): checks/c09_data.py (agent datafiles) - mutation/fuzz harness under
  ASan/UBSan/LSan plus the Coq tokenizer / scanner models (totality by structural recursion) of
  coq/Files/TouchstoneTok.v and coq/Files/NpdScan.v, theorems in coq/Properties_C09.v;
* calibration files and YAML property import (.vnacal, vnaproperty_import_yaml_*): module
  checks/c09_cal.py (agent calfile), theorems in coq/Properties_C09cal.v.
"""
import c09_data
import c09_ties


def run(ctx):
    ctx.level = "proof"
    ctx.trusted_base = [
        "Coq 8.16.1 kernel; no axioms (Print Assumptions: Closed under the global context)",
        "byte-level models coq/Files/TouchstoneTok.v (next_char/next_token) and coq/Files/NpdScan.v (scan_line), total by "
        "structural recursion on the input, tied to the compiled functions on generated, mutated and random inputs "
        "(harness/datafiles_tok.c, harness/datafiles_npdscan.c include the loaders' .c files)",
        "the parsers above the tokenizer/scanner are not modelled: their totality, error classes and memory safety are "
        "supported by the mutation harness under ASan/UBSan/LSan and the allocation interposer only",
        "strtod/strtol are uninterpreted parameters of the tokenizer model",
        "gcc, ASan/UBSan/LSan, harness/allocwrap.c",
    ]
    ctx.assumptions = ["inputs declaring more than 40 ports or 5000 frequencies are not executed (allocation size), "
                       "except the directed overflow cases"]
    ctx.rule = ("one evaluation = one input file loaded into a fresh and into a used object, dumped, re-saved and re-loaded; "
                "distinct non-trivial = inputs for which every clause held")
    broken = []
    ok, res = ctx.coq_obligations(["Files/TouchstoneTok.v", "Files/TouchstoneTokProofs.v", "Files/NpdScan.v",
                                   "Files/NpdScanProofs.v", "Properties_C09.v"])
    if not ok:
        broken.append("Coq development of C09 (network-data half) does not build: " + getattr(ctx, "_last_coq_log", "")[-400:])
    inputs = c09_data.run(ctx)
    c09_ties.run(ctx, inputs, broken)
    for b in broken:
        ctx.unproved("C09", b, "%d mutated / random inputs" % len(inputs))
    try:
        import c09_cal
    except ImportError:
        ctx.notes.append("calibration-file / YAML half (checks/c09_cal.py, agent calfile) is not present in this tree; "
                         "only the network-data half was checked")
        return
    c09_cal.run(ctx)
