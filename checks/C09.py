"""C09 - every file parser is total: arbitrary bytes are rejected cleanly or loaded whole.

Two halves:
* network data (.s1p-.s4p, .ts, .npd): checks/c09_data.py (agent datafiles) - mutation/fuzz harness under
  ASan/UBSan/LSan (exploration only: the byte-level Coq models planned in DESIGN.md were not built);
* calibration files and YAML property import (.vnacal, vnaproperty_import_yaml_*): module
  checks/c09_cal.py (agent calfile), theorems in coq/Properties_C09cal.v.
"""
import c09_data


def run(ctx):
    # network-data half: no theorem of this half is finished (the byte-level tokenizer / scanner models of
    # DESIGN.md C09 were not built), so it is exploration: mutation + sanitizer evidence only
    ctx.level = "exploration"
    ctx.trusted_base = [
        "network-data half: no Coq model; totality, error classes and memory safety of the Touchstone / NPD loaders are "
        "supported only by the mutation harness (checks/c09_data.py) under ASan/UBSan/LSan with the allocation interposer "
        "harness/allocwrap.c and a 5 s watchdog per library call",
        "gcc, ASan/UBSan/LSan",
    ]
    ctx.assumptions = ["inputs declaring more than 40 ports or 5000 frequencies are not executed (allocation size), "
                       "except the directed overflow cases"]
    ctx.rule = ("one evaluation = one input file loaded into a fresh and into a used object, dumped, re-saved and re-loaded; "
                "distinct non-trivial = inputs for which every clause held")
    inputs = c09_data.run(ctx)
    try:
        import c09_cal
    except ImportError:
        ctx.notes.append("calibration-file / YAML half (checks/c09_cal.py, agent calfile) is not present in this tree; "
                         "only the network-data half was checked")
        return
    c09_cal.run(ctx)
