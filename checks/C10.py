"""C10 - frequency interpolation is exact at given points and refuses out-of-range use.

1. translate/ranges.py regenerates coq/Gen/RangeGen.v (constants + four range decision functions)
   from the C text; the Coq development (Interp/*Proofs.v, Properties_C10.v) is rebuilt: every
   theorem is an obligation.
2. Tie of the generated decision functions: evaluated by Coq (vm_compute) and compared with the
   accept/reject outcome of the public calls (vnacal_new_add_single_reflect_m /
   vnacal_new_set_frequency_vector, vnacal_new_set_m_error, vnacal_get_parameter_value,
   vnacal_apply_m) on ranges that cover, miss by >= 5 % (low, high, both) or fall in between
   (in between only function-vs-code, nothing demanded by the property).
3. Tie of RfiModel / SplineModel: exact-rational evaluation against _vnacal_rfi and
   _vnacommon_spline_* called directly and through the public paths; knot queries compared
   exactly, others to 1e-12 relative (rfi: only where the recorded denominators do not cancel);
   hints / query orders random.  The fast mirror lib/interp_py.py is validated exactly against the
   extracted model on every run (see that file).
4. On any disagreement: shrink the knot vector / query list, decide sides with the property's
   boolean form (knot exactness, hint independence, 5 % rule), record the violation with replay.
5. Parameter chains (checks/c10_chains.py): FrangeModel (range of scalar / vector / unknown / correlated
   chains as _vnacal_get_parameter_frange computes it, the two clamp comparisons and the decision
   regenerated from the C text, add-time recursion into the correlate, set_frequency_vector over the
   hash) against the harness op `chain` (ranges of every parameter exactly, parameters made / refused,
   accept / refuse through the public add + set_frequency_vector in both orders, and the property's
   5 % / cover rule on every range the solver reads); sigma of the chain head against the extracted
   SigmaSplineModel.  checks/c02_sigma.py: through the public API, a self-calibration whose correlated
   parameter has its sigma(f) given on a 2-point grid and as the same line sampled at every calibration
   frequency must give the same solved parameters and corrected device.
6. The frequency side of vnacal_apply (checks/c10_apply.py): ApplyFreqModel / ApplyFreqRange against the
   unmodified vnacal_apply.c compiled with its _vnacal_rfi calls tapped (harness/apply_wb.c): verdicts on
   the request vector, the call sequence and the segment variable before / after every call, values.
"""
import os
import re
from fractions import Fraction

import vplib
import ranges
import interp_py as ip

FR = Fraction
TOL = FR(1, 10 ** 12)
COND_MIN = 1e-6
ABS_EPS = FR(1, 10 ** 24)     # 10 * EPS of vnacal_rfi.c: absolute floor of every interpolated-value comparison
AMP_MAX = 100.0
AMP_SKIP = 1e7
RFI_CONSTS = [None, None, 5]
# the chain model: its comparison operators come from Gen/RangeGen.v
GEN_DEPENDENT = ["Interp/FrangeModel.v", "Interp/FrangeProofs.v", "Interp/FrangeExamples.v", "Interp/FrangeRun.v",
                 "Interp/ApplyFreqRange.v", "Interp/ApplyFreqRangeProofs.v"]


# ----------------------------------------------------------------------------- number helpers
def hx(fr):
    f = float(fr)
    assert FR(f) == fr, "not a double: %s" % fr
    return f.hex()


def pq(fr):
    return "%d/%d" % (fr.numerator, fr.denominator) if fr.denominator != 1 else str(fr.numerator)


def dbl(rng, kind):
    """A random double as an exact Fraction."""
    if kind == "dy":
        return FR(rng.randint(-256, 256), 64)
    if kind == "dec":
        return FR(float(rng.randint(-9999, 9999)) / 1000.0)
    return FR(rng.uniform(-4, 4))


def dense_knots(rng, n, kind):
    """Knot vectors of other densities, all exact binary64 values (so the rational model applies as it stands):
    hz   narrow band: tens of GHz, neighbours 0.25 .. 4 Hz apart;
    ulp  neighbours 2 .. 6 units in the last place apart at 1 .. 100 GHz (a double lies between any two);
    log  wide, logarithmically spaced: 1 kHz .. 100 GHz."""
    import math
    if kind == "hz":
        x = FR(rng.choice([10 ** 9, 10 ** 10, 4 * 10 ** 10, 10 ** 11]) + rng.randint(0, 1000))
        out = [x]
        for _ in range(n - 1):
            x += FR(rng.randint(1, 16), 4)
            out.append(x)
    elif kind == "ulp":
        f = float(rng.randint(10 ** 9, 10 ** 11))
        out = [FR(f)]
        for _ in range(n - 1):
            for _ in range(rng.randint(2, 6)):
                f = math.nextafter(f, math.inf)
            out.append(FR(f))
    else:
        e = rng.randint(10, 14)
        out = []
        for _ in range(n):
            out.append(FR(2) ** e * FR(8 + rng.randint(0, 7), 8))
            e += rng.randint(1, 5)
    assert all(a < b for a, b in zip(out, out[1:])) and all(FR(float(v)) == v for v in out)
    return out


def knots(rng, n, positive=False, mingap=None, kind=None):
    kind = kind or rng.choice(["dy", "dy", "dec", "any", "hz", "ulp", "log"] if mingap is None else ["dy", "dy", "dec", "any", "hz"])
    if kind in ("hz", "ulp", "log"):
        return dense_knots(rng, n, kind)
    x = FR(rng.randint(0, 40), 8) if positive else FR(rng.randint(-80, 80), 8)
    if positive and rng.random() < 0.7:
        x += FR(1, 2)
    out = [x]
    for _ in range(n - 1):
        if kind == "dy":
            g = FR(rng.randint(1, 64), 16)
        elif kind == "dec":
            g = FR(float(rng.randint(1, 4000)) / 1000.0)
        else:
            g = FR(rng.uniform(0.01, 3.0))
        if mingap is not None and g < mingap:
            g = mingap
        x = FR(float(x + g))
        out.append(x)
    assert all(a < b for a, b in zip(out, out[1:]))
    return out


def yvals(rng, xs):
    mode = rng.choice(["rand", "rand", "smooth", "rat", "zeros", "flat"])
    out = []
    if mode == "rat":
        a, b, c = (FR(rng.randint(-20, 20), 4) for _ in range(3))
        c = abs(c) + max(abs(v) for v in xs) + 1
    for i, x in enumerate(xs):
        if mode == "rand":
            v = (dbl(rng, "dy"), dbl(rng, "dy"))
        elif mode == "smooth":
            xf = float(x)
            v = (FR(1.0 + 0.3 * xf - 0.01 * xf * xf), FR(0.5 - 0.1 * xf))
        elif mode == "rat":
            v = (FR(float((a + b * x) / (c + x))), FR(0))
        elif mode == "zeros":
            v = (FR(0), FR(0)) if rng.random() < 0.6 else (dbl(rng, "dy"), FR(0))
        else:
            v = out[-1] if out and rng.random() < 0.6 else (dbl(rng, "dy"), dbl(rng, "dy"))
        out.append(v)
    if rng.random() < 0.3:
        # values of another scale (2^-20 .. 2^40, about 1e-6 .. 1e12): exact, and the real parts stay above the
        # 2^-29 below which binary64 no longer absorbs the EPS of `d[i] = yp[i] + EPS` (RfiModel.add_eps)
        k = FR(2) ** rng.randint(-20, 40)
        out = [(FR(float(a * k)), FR(float(b * k))) for a, b in out]
    return out


def queries(rng, xs, k, lo=None, hi=None):
    """k query points: knots, interior points, points outside; never closer to the middle of a
    segment than 1e-6 relative unless everything is dyadic (dx1 <= dx2 is evaluated on rounded
    differences in C)."""
    out = []
    n = len(xs)
    span = (xs[-1] - xs[0]) if n > 1 else FR(1)
    while len(out) < k:
        r = rng.random()
        if r < 0.3:
            q = rng.choice(xs)
        elif r < 0.8 and n > 1:
            i = rng.randrange(n - 1)
            t = FR(rng.randint(1, 63), 64)
            q = FR(float(xs[i] + (xs[i + 1] - xs[i]) * t))
        elif r < 0.9:
            q = FR(float(xs[0] - span * FR(rng.randint(1, 32), 64)))
        else:
            q = FR(float(xs[-1] + span * FR(rng.randint(1, 32), 64)))
        if lo is not None and q < lo:
            continue
        if hi is not None and q > hi:
            continue
        ok = True
        for a, b in zip(xs, xs[1:]):
            if a < q < b:
                d1, d2 = q - a, b - q
                exact = FR(float(d1)) == d1 and FR(float(d2)) == d2
                if not exact and abs(d1 - d2) < (d1 + d2) / 10 ** 6:
                    ok = False
        if ok:
            out.append(q)
    return out


# ----------------------------------------------------------------------------- case rendering
class Case(object):
    """op + fields; rendered for the C harness (hex doubles) and for the OCaml driver (p/q)."""

    def __init__(self, op, **kw):
        self.op = op
        self.__dict__.update(kw)

    def line(self, num):
        o = self.op
        cv = lambda l: " ".join("%s %s" % (num(a), num(b)) for a, b in l)
        v = lambda l: " ".join(num(a) for a in l)
        if o == "rfi":
            return "rfi %d %d %d %s %s %s" % (len(self.xp), self.m, self.hint, num(self.qs[0]), v(self.xp), cv(self.yp))
        if o == "run":
            return "run %d %d %d %d %s %s %s" % (len(self.xp), self.m, self.hint, len(self.qs), v(self.xp), cv(self.yp), v(self.qs))
        if o in ("param", "ipar"):
            return "%s %d %s %s %d %s" % (o, len(self.xp), v(self.xp), cv(self.yp), len(self.qs), v(self.qs))
        if o in ("spline", "corr"):
            return "%s %d %s %s %d %s" % (o, len(self.xp), v(self.xp), v(self.ys), len(self.qs), v(self.qs))
        if o == "newpar":
            return "newpar %d %d %s %d %s" % (self.order, len(self.cf), v(self.cf), len(self.xp), v(self.xp))
        if o == "newparh":
            return "newparh %d %d %d %d %d %s %d %s" % (self.order, self.pre, self.others, self.before, len(self.cf), v(self.cf), len(self.xp), v(self.xp))
        if o == "merr":
            return "merr %d %s %d %s %s %d" % (len(self.cf), v(self.cf), len(self.xp), v(self.xp), v(self.ys), self.tr)
        if o == "merrh":
            return "merrh %d %s %s %d %s %s" % (len(self.cf), v(self.cf), v(self.cf2), len(self.xp), v(self.xp), v(self.ys))
        if o == "apply":
            return "apply %d %s %d %s" % (len(self.cf), v(self.cf), len(self.qs), v(self.qs))
        if o == "zero":
            return "zero"
        if o == "chain":
            parts = []
            for nd in self.nodes:
                if nd[0] in ("S", "U"):
                    parts.append(nd[0])
                elif nd[0] == "V":
                    parts.append("V %d %s" % (len(nd[1]), v(nd[1])))
                elif nd[2] is None:
                    parts.append("K %d N %s" % (nd[1], v(nd[3])))
                else:
                    parts.append("K %d O %s %s" % (nd[1], v(nd[2]), v(nd[3])))
            return "chain %d %d %s %d %s %d %s" % (self.order, len(self.cf), v(self.cf), len(self.nodes), " ".join(parts), len(self.qs), v(self.qs))
        raise ValueError(o)

    def c_line(self):
        return self.line(hx)

    def m_line(self):
        return self.line(pq)

    def to_json(self):
        d = dict(self.__dict__)
        if "nodes" in d:
            d["nodes"] = [chain_node_text(nd) for nd in d["nodes"]]
        for k, val in list(d.items()):
            if k == "nodes":
                continue
            if isinstance(val, list):
                d[k] = [[str(a) for a in e] if isinstance(e, tuple) else str(e) for e in val]
            elif isinstance(val, Fraction):
                d[k] = str(val)
        d["harness_line"] = self.c_line()
        return d


def chain_node_text(nd):
    fl = lambda l: "[" + ", ".join("%.17g" % float(x) for x in l) + "]"
    if nd[0] in ("S", "U"):
        return {"S": "scalar", "U": "unknown(previous)"}[nd[0]]
    if nd[0] == "V":
        return "vector " + fl(nd[1])
    return "correlated(previous, sigma_frequencies=%d, grid=%s, sigma=%s)" % (nd[1], "NULL" if nd[2] is None else fl(nd[2]), fl(nd[3]))


def parse_corpus_line(line):
    """Corpus lines are harness lines (hex or decimal doubles)."""
    t = line.split()
    if not t or t[0].startswith("#"):
        return None
    op = t[0]
    num = lambda s: FR(float.fromhex(s)) if "x" in s.lower() else FR(float(s))
    pos = [1]

    def nxt():
        pos[0] += 1
        return t[pos[0] - 1]

    def vec(n):
        return [num(nxt()) for _ in range(n)]

    def cvec(n):
        return [(num(nxt()), num(nxt())) for _ in range(n)]
    if op == "rfi":
        n, m, hint = int(nxt()), int(nxt()), int(nxt())
        q = num(nxt())
        xp = vec(n)
        return Case("rfi", xp=xp, yp=cvec(n), m=m, hint=hint, qs=[q])
    if op == "run":
        n, m, hint, k = int(nxt()), int(nxt()), int(nxt()), int(nxt())
        xp = vec(n)
        yp = cvec(n)
        return Case("run", xp=xp, yp=yp, m=m, hint=hint, qs=vec(k))
    if op in ("param", "ipar"):
        n = int(nxt())
        xp = vec(n)
        yp = cvec(n)
        return Case(op, xp=xp, yp=yp, qs=vec(int(nxt())))
    if op in ("spline", "corr"):
        n = int(nxt())
        xp = vec(n)
        ys = vec(n)
        return Case(op, xp=xp, ys=ys, qs=vec(int(nxt())))
    if op == "newpar":
        order = int(nxt())
        cf = vec(int(nxt()))
        return Case(op, order=order, cf=cf, xp=vec(int(nxt())))
    if op == "newparh":
        order, pre, others, before = int(nxt()), int(nxt()), int(nxt()), int(nxt())
        cf = vec(int(nxt()))
        return Case(op, order=order, pre=pre, others=others, before=before, cf=cf, xp=vec(int(nxt())))
    if op == "merr":
        cf = vec(int(nxt()))
        n = int(nxt())
        xp = vec(n)
        ys = vec(n)
        return Case(op, cf=cf, xp=xp, ys=ys, tr=int(nxt()))
    if op == "merrh":
        nf = int(nxt())
        cf = vec(nf)
        cf2 = vec(nf)
        n = int(nxt())
        xp = vec(n)
        return Case(op, cf=cf, cf2=cf2, xp=xp, ys=vec(n))
    if op == "apply":
        cf = vec(int(nxt()))
        return Case(op, cf=cf, qs=vec(int(nxt())))
    if op == "zero":
        return Case("zero")
    if op == "chain":
        order = int(nxt())
        cf = vec(int(nxt()))
        nodes = []
        for _ in range(int(nxt())):
            k = nxt()
            if k in ("S", "U"):
                nodes.append((k,))
            elif k == "V":
                nodes.append(("V", vec(int(nxt()))))
            else:
                ns = int(nxt())
                mode = nxt()
                g = vec(ns) if mode == "O" else None
                nodes.append(("K", ns, g, vec(ns)))
        return Case("chain", order=order, cf=cf, nodes=nodes, qs=vec(int(nxt())))
    raise ValueError("corpus: unknown op " + op)


# ----------------------------------------------------------------------------- running both sides
class Runner(object):
    def __init__(self, ctx, exe, drv, tr):
        self.ctx, self.exe, self.drv, self.tr = ctx, exe, drv, tr
        c = tr["consts"]
        self.eps = c["rfi_eps"]
        self.cut = c["rfi_cut_factor"] * c["rfi_eps"]
        self.min_dx = c["spline_min_dx"]
        self.max_m = c["vnacal_max_m"]
        self.fext = c["f_extrapolation"]

    def run_c(self, cases, timeout=300):
        """-> (list of output token lists or None, sanitizer signature or None, stderr)"""
        inp = "\n".join(c.c_line() for c in cases) + "\n"
        rc, out, err = vplib.sh([self.exe], input=inp, timeout=timeout, env=self.ctx.run_env(leak=True))
        lines = [l.split() for l in out.strip().split("\n") if l.strip()]
        sig = None
        if rc != 0:
            sig = vplib.asan_signature(err) or {"kind": "fault", "error": "exit %d" % rc, "function": None}
        res = lines + [None] * (len(cases) - len(lines))
        return res, sig, err

    def run_model(self, cases, consts=None, timeout=900):
        eps, cut, mdx = consts or (self.eps, self.cut, self.min_dx)
        inp = "const %s %s %s\n" % (pq(eps), pq(cut), pq(mdx)) + "\n".join(c.m_line() for c in cases) + "\n"
        rc, out, err = vplib.sh([self.drv], input=inp, timeout=timeout)
        if rc != 0:
            raise vplib.BuildError("model driver failed (%d): %s" % (rc, err[-500:]))
        lines = [l.split() for l in out.strip().split("\n")][1:]
        if len(lines) != len(cases):
            raise vplib.BuildError("model driver: %d lines for %d cases" % (len(lines), len(cases)))
        return lines

    def order(self, n):
        return n if n <= self.max_m else self.max_m


class Bad(object):
    """A value printed by the implementation that is not a finite double (inf, nan, garbage)."""

    def __init__(self, tok):
        self.tok = tok

    def __repr__(self):
        return "<%s>" % self.tok


def cfloat(tok):
    """C output token -> exact Fraction, or Bad(tok) when it is not a finite number."""
    try:
        f = float.fromhex(tok)
    except (ValueError, OverflowError):
        try:
            f = float(tok)
        except (ValueError, OverflowError):
            return Bad(tok)
    if f != f or f in (float("inf"), float("-inf")):
        return Bad(tok)
    return FR(f)


def isbad(*vals):
    return any(isinstance(v, Bad) for v in vals)


def show(v):
    return v.tok if isinstance(v, Bad) else "%.17g" % float(v)


def close(c, mval, scale):
    return abs(c - mval) <= TOL * max(abs(mval), scale)


# ----------------------------------------------------------------------------- rfi comparisons
def rfi_expect(R, case):
    """Mirror evaluation of an rfi-type case -> (list of (value, cond) | None, final hint)."""
    n = len(case.xp)
    m = case.m if case.op in ("rfi", "run") else R.order(n)
    hint = case.hint if case.op in ("rfi", "run") else 0
    return ip.rfi_run(R.eps, R.cut, case.xp, case.yp, n, m, hint, case.qs)


def cmp_rfi_values(case, cvals, exp, stats):
    """cvals: list of (re, im) Fractions from C.  -> None or a description of the first mismatch."""
    scale = max([abs(v[0]) + abs(v[1]) for v in case.yp] + [FR(0)])
    for i, (q, cv, e) in enumerate(zip(case.qs, cvals, exp)):
        if e is None:
            return "query %d: the model faults (index out of bounds / assert)" % i
        (mv, cond) = e
        if isbad(*cv):
            return "query %d (x = %s): C returns a non-finite value %s, model %s" % (i, float(q), fl2(cv), fl2(mv))
        if q in case.xp:
            k = case.xp.index(q)
            stats["knot"] += 1
            if cv != case.yp[k]:
                return "query %d (x = knot %d): C returns %s, supplied value %s" % (i, k, fl2(cv), fl2(case.yp[k]))
            if mv != case.yp[k]:
                return "query %d (x = knot %d): model returns %s, supplied value %s" % (i, k, fl2(mv), fl2(case.yp[k]))
            continue
        if cond < COND_MIN:
            stats["illcond"] += 1
            continue
        # cancellation compounds over the m(m-1)/2 steps (orders 4, 5 outside the knots): the
        # tolerance is 1e-12 while the product of the per-step amplifications stays below AMP_MAX,
        # grows in proportion beyond, and nothing is asserted beyond AMP_SKIP
        amp = amplification_of(case, q) if getattr(case, "m", 5) >= 3 or case.op in ("param", "ipar") else 1.0
        if amp > AMP_SKIP:
            stats["illcond"] += 1
            continue
        stats["interp"] += 1
        loose = FR(max(1.0, amp / AMP_MAX))
        # (+ the library's own absolute threshold 10 * EPS: on a wide grid `yp + EPS` with (nearly) all-zero data leaves
        # 1e-41 where the model has 0, and values of 1e-16 carry an absolute error of 1e-25)
        if not (abs(cv[0] - mv[0]) <= TOL * loose * max(abs(mv[0]), scale) + ABS_EPS and abs(cv[1] - mv[1]) <= TOL * loose * max(abs(mv[1]), scale) + ABS_EPS):
            return "query %d (x = %s): C %s vs model %s (cond %.2e)" % (i, float(q), fl2(cv), fl2(mv), cond)
    return None


def amplification_of(case, q):
    n = len(case.xp)
    m = case.m if case.op in ("rfi", "run") else min(n, RFI_CONSTS[2])
    try:
        v, h, trc = ip.rfi_full(RFI_CONSTS[0], RFI_CONSTS[1], case.xp, case.yp, n, m, q, getattr(case, "hint", 0))
    except ip.Fault:
        return 1.0
    return ip.amplification(trc)


def fl2(v):
    return "(%s, %s)" % (show(v[0]), show(v[1]))


def check_rfi_case(R, case, cout, stats):
    """-> None or mismatch text, for ops rfi/run/ipar/param."""
    exp, hint = rfi_expect(R, case)
    if cout is None or cout[0] != case.op:
        return "no output from the implementation"
    toks = cout[1:]
    if case.op == "param":
        # rejected queries do not reach the interpolator: thread the hint over the accepted ones
        acc, cvals = [], []
        i = 0
        for q in case.qs:
            if toks[i] in ("REJ", "ERR", "MAKEFAIL"):
                if toks[i] != "REJ":
                    return "vnacal_get_parameter_value: unexpected outcome %s" % toks[i]
                i += 1
                continue
            acc.append(q)
            cvals.append((cfloat(toks[i]), cfloat(toks[i + 1])))
            i += 2
        sub = Case("param", xp=case.xp, yp=case.yp, qs=acc)
        exp, hint = rfi_expect(R, sub)
        return cmp_rfi_values(sub, cvals, exp, stats)
    seg = None
    if toks and toks[-1].startswith("seg="):
        seg = int(toks[-1][4:])
        toks = toks[:-1]
    cvals = [(cfloat(toks[2 * i]), cfloat(toks[2 * i + 1])) for i in range(len(toks) // 2)]
    if len(cvals) != len(case.qs):
        return "implementation printed %d values for %d queries" % (len(cvals), len(case.qs))
    r = cmp_rfi_values(case, cvals, exp, stats)
    if r is None and seg is not None and seg != hint and all(e is not None for e in exp):
        return "segment hint after the call(s): C %d, model %d" % (seg, hint)
    return r


# ----------------------------------------------------------------------------- generators
def gen_rfi_cases(rng, count, max_m):
    out = []
    for i in range(count):
        n = rng.choice([1, 2, 2, 3, 3, 4, 5, 6, 7, 8])
        m = rng.randint(1, min(n, max_m))
        xp = knots(rng, n)
        yp = yvals(rng, xp)
        hint = rng.choice([rng.randint(-3, n + 3), rng.randint(0, max(0, n - 1)), -2 ** 31, 2 ** 31 - 1])
        if i % 8 == 7:
            # tiny values (2^-40 .. 2^-21, about 1e-12 .. 1e-6): every knot, in random order; between the knots the
            # EPS of `d[i] = yp[i] + EPS` is no longer absorbed by binary64 and the exact model does not apply
            k = FR(2) ** rng.randint(-40, -21)
            yp = [(FR(rng.randint(1, 256) * rng.choice((-1, 1)), 64) * k, FR(rng.randint(-256, 256), 64) * k) for _ in xp]
            qs = list(xp)
            rng.shuffle(qs)
            out.append(Case("run", xp=xp, yp=yp, m=m, hint=hint, qs=qs))
        elif rng.random() < 0.5:
            out.append(Case("rfi", xp=xp, yp=yp, m=m, hint=hint, qs=queries(rng, xp, 1)))
        else:
            qs = queries(rng, xp, rng.randint(2, 6))
            if rng.random() < 0.3:
                qs += list(xp)                      # every knot
                rng.shuffle(qs)
            out.append(Case("run", xp=xp, yp=yp, m=m, hint=hint, qs=qs))
    return out


def rational_of_order(rng, m, xs):
    """A rational function of the type the m-point recurrence reproduces (numerator degree
    (m-1)//2, denominator degree m//2, monic), complex coefficients, poles away from the knots:
    -> f(x) as a pair of Fractions."""
    dn, dd = (m - 1) // 2, m // 2
    num = [(FR(rng.randint(-12, 12), 4), FR(rng.randint(-12, 12), 4)) for _ in range(dn + 1)]
    if num[-1] == (0, 0):
        num[-1] = (FR(1), FR(1, 2))
    big = max(abs(v) for v in xs) + 2
    # denominator = product of (x + r_k), r_k beyond the knots or off the real axis
    roots = []
    for _ in range(dd):
        if rng.random() < 0.5:
            roots.append((big + FR(rng.randint(0, 16), 4), FR(rng.randint(-8, 8), 4)))
        else:
            roots.append((FR(rng.randint(-8, 8), 4), FR(rng.randint(4, 16), 4) * rng.choice((-1, 1))))

    def f(x):
        p = (FR(0), FR(0))
        for cf in reversed(num):
            p = ip.cadd(ip.cmul(p, (x, FR(0))), cf)
        q = (FR(1), FR(0))
        for r in roots:
            q = ip.cmul(q, (x + r[0], r[1]))
        return ip.cdiv(p, q)
    return f


def gen_window_cases(rng, R, thorough):
    """Directed cases for the case splits of RfiWindow / RfiRationalN: vectors longer than the
    order, the selected window at the left edge, in the interior and at the right edge, queries
    outside the knots on both sides, on both halves of a segment and next to a knot, extreme hints;
    data sampled from a rational function of the type that order reproduces (truth = its value)."""
    out = []
    reps = 1 if not thorough else 6
    for m in range(1, R.max_m + 1):
        for n in sorted(set([m, m + 1, m + 2, m + 4, 8])):
            if n < max(m, 2):
                continue
            for _ in range(reps):
                for attempt in range(8):           # (the model's add_eps needs non-zero real parts)
                    xp = knots(rng, n, kind="dy")
                    f = rational_of_order(rng, max(m, 2), xp)
                    yp = []
                    for v in xp:
                        a, b = f(v)
                        yp.append((FR(float(a)), FR(float(b))))
                    if all(v[0] != 0 for v in yp):
                        break
                else:
                    continue
                span = xp[-1] - xp[0]
                qs = [FR(float(xp[0] - span / 8)), FR(float(xp[-1] + span / 8))]
                for i in range(n - 1):
                    g = xp[i + 1] - xp[i]
                    qs.append(xp[i] + g * FR(rng.choice((1, 2, 3)), 8))          # nearer to the left knot
                    qs.append(xp[i] + g * FR(rng.choice((5, 6, 7)), 8))          # nearer to the right knot
                for i in (0, n // 2, n - 1):                                      # next to a knot, both sides
                    qs.append(FR(float(xp[i] + span / 2 ** 20)))
                    qs.append(FR(float(xp[i] - span / 2 ** 20)))
                for q in qs:
                    hint = rng.choice([-2 ** 31, 0, n - 2, n + 5, rng.randint(0, n - 1)])
                    out.append(Case("rfi", xp=xp, yp=yp, m=m, hint=hint, qs=[q], truth=[f(q)] if m >= 2 else None))
    return out


def window_class(R, case):
    """('left' | 'interior' | 'right' | 'whole' | None, cur) for a one-query rfi case."""
    n = len(case.xp)
    try:
        w = ip.window(R.eps, case.xp, n, case.m, case.qs[0], case.hint)
    except ip.Fault:
        return None
    if w is None:
        return None
    base, cur = w
    pos = "whole" if n == case.m else ("left" if base == 0 else ("right" if base == n - case.m else "interior"))
    return pos, cur


def check_truth(R, case, co):
    """Property-level comparison for data sampled from a rational function of matching type: the
    implementation's value against the function itself (1e-8 of the data scale: the knot values
    are rounded to binary64), where the recurrence completed and is well conditioned."""
    if getattr(case, "truth", None) is None or co is None:
        return None
    n = len(case.xp)
    try:
        v, h, trc = ip.rfi_full(R.eps, R.cut, case.xp, case.yp, n, case.m, case.qs[0], case.hint)
    except ip.Fault:
        return None
    if len(trc) != case.m * (case.m - 1) // 2 or ip.cond(trc) < COND_MIN or ip.amplification(trc) > AMP_MAX:
        return None
    toks = [t for t in co[1:] if not t.startswith("seg=")]
    cv = (cfloat(toks[0]), cfloat(toks[1]))
    if isbad(*cv):
        return "non-finite value %s" % fl2(cv)
    scale = max(abs(y[0]) + abs(y[1]) for y in case.yp)
    t = case.truth[0]
    if abs(cv[0] - t[0]) > scale / 10 ** 8 or abs(cv[1] - t[1]) > scale / 10 ** 8:
        return ("order %d on %d knots sampled from a rational function of matching type: C returns %s at x = %s, the function is %s"
                % (case.m, n, fl2(cv), float(case.qs[0]), fl2(t)))
    return "ok"


def gen_param_cases(rng, count, fext):
    out = []
    for i in range(count):
        n = rng.choice([1, 2, 2, 3, 4, 5, 6, 8])
        xp = knots(rng, n, positive=True)
        yp = yvals(rng, xp)
        lo = xp[0]
        qs = queries(rng, xp, rng.randint(2, 6), lo=FR(0))
        # out-of-range probes: 5 % or more outside, and a few inside the slack
        for _ in range(rng.randint(0, 3)):
            r = rng.random()
            if r < 0.4:
                qs.append(FR(float(xp[-1] * FR(rng.randint(106, 300), 100))))
            elif r < 0.8:
                qs.append(FR(float(xp[0] * FR(rng.randint(0, 94), 100))))
            else:
                qs.append(FR(float(xp[-1] * FR(1001 + rng.randint(0, 8), 1000))))
        rng.shuffle(qs)
        out.append(Case("param" if rng.random() < 0.8 else "ipar", xp=xp, yp=yp, qs=qs))
    return out


def gen_spline_cases(rng, count, min_dx):
    out = []
    for i in range(count):
        n = rng.choice([1, 2, 2, 2, 3, 3, 4, 5, 6, 8])
        op = rng.choice(["spline", "spline", "corr"])
        # (exact evaluation of the extracted spline model with 53-bit data is slow beyond 4 points)
        xp = knots(rng, n, positive=(op == "corr"), mingap=FR(1, 16), kind=("dy" if n >= 5 else None))
        if op == "spline" and 2 <= n <= 4 and rng.random() < 0.15:
            j = rng.randrange(1, n)                      # one gap below MIN_DX: EINVAL expected
            xp[j] = FR(float(xp[j - 1] + min_dx / 2))
            if j + 1 < n and xp[j] >= xp[j + 1]:
                xp[j + 1:] = [FR(float(xp[j] + (v - xp[j - 1]))) for v in xp[j + 1:]]
        mode = rng.choice(["rand", "line", "pos"])
        if op == "corr":
            ys = [FR(rng.randint(1, 200), 64) for _ in xp]
        elif mode == "line":
            p, q = FR(rng.randint(-40, 40), 8), FR(rng.randint(-40, 40), 8)
            ys = [FR(float(p + q * v)) for v in xp]
        else:
            ys = [dbl(rng, "dy") for _ in xp]
        out.append(Case(op, xp=xp, ys=ys, qs=queries(rng, xp, rng.randint(2, 6), lo=(FR(0) if op == "corr" else None))))
    return out


def band_variants(rng, lo, hi):
    """(label, have_lo, have_hi) around a needed band [lo, hi] with lo > 0."""
    span = hi - lo
    f = lambda v: FR(float(v))
    out = [("cover", f(lo * FR(rng.randint(50, 100), 100)), f(hi * FR(rng.randint(100, 200), 100))),
           ("miss_low", f(lo * FR(rng.randint(105, 120), 100)), f(hi * FR(rng.randint(100, 150), 100))),
           ("miss_high", f(lo * FR(rng.randint(50, 100), 100)), f(hi * FR(rng.randint(40, 95), 100))),
           ("miss_both", f(lo * FR(rng.randint(105, 110), 100)), f(hi * FR(rng.randint(80, 95), 100))),
           ("between", f(lo * FR(rng.randint(1001, 1040), 1000)), f(hi * FR(rng.randint(960, 999), 1000)))]
    res = []
    for lab, a, b in out:
        if a < b:
            res.append((lab, a, b))
    return res


def fill(rng, a, b, n):
    """n increasing doubles from a to b (n >= 2) with gaps >= (b - a) / (4 n)."""
    pts = [a]
    for i in range(1, n - 1):
        t = FR(i, n - 1) + FR(rng.randint(-20, 20), 100 * (n - 1))
        pts.append(FR(float(a + (b - a) * t)))
    pts.append(b)
    assert all(x < y for x, y in zip(pts, pts[1:])), pts
    return pts


def classify(nl, nh, hl, hh):
    """What the property says about supplying [hl, hh] where [nl, nh] (nl > 0) is needed."""
    if hl <= nl and nh <= hh:
        return "cover"
    low = hl > 0 and hl * 100 >= nl * 105          # (nl >= 0: a band starting at 0 Hz is missed by any range starting above 0)
    high = hh * 100 <= nh * 95
    if low and high:
        return "miss_both"
    if low:
        return "miss_low"
    if high:
        return "miss_high"
    return "between"


def gen_range_cases(rng, count):
    """Cases for the four decision functions: (case, site, label, need_lo, need_hi, have_lo, have_hi).
    The label is computed from the bands actually used (classify)."""
    out = []
    for i in range(count):
        nf = rng.choice([2, 3, 4, 6])
        lo = FR(rng.randint(8, 400), 8)
        hi = FR(float(lo * FR(rng.randint(150, 1000), 100)))
        site = ["range_new_parameter", "range_m_error", "range_apply", "range_get_value"][i % 4]
        for lab, a, b in band_variants(rng, lo, hi):
            if site == "range_new_parameter":
                cf = fill(rng, lo, hi, nf)
                n = rng.choice([2, 2, 3, 5])
                xp = fill(rng, a, b, n)
                if rng.random() < 0.4:
                    out.append((Case("newpar", order=rng.randint(0, 1), cf=cf, xp=xp), site, classify(lo, hi, a, b), lo, hi, a, b))
                else:
                    # the decision must not depend on the history: other parameters in the vnacal_t (the handle of the
                    # parameter under test is 3 + pre), other standards in the same vnacal_new_t before / after it
                    pre = rng.choice([0, 1, 2, 4, 5, 6, 7, 8, 12, 13, 14, 19, 24, 29])
                    others = rng.randint(0, 3) if pre == 0 else rng.randint(0, min(3 + pre + 4, 14))
                    out.append((Case("newparh", order=rng.randint(0, 1), pre=pre, others=others, before=rng.randint(0, others),
                                     cf=cf, xp=xp), site, classify(lo, hi, a, b), lo, hi, a, b))
            elif site == "range_m_error":
                cf = fill(rng, lo, hi, nf)
                n = rng.choice([1, 2, 2, 3, 5])
                xp = fill(rng, a, b, n) if n > 1 else [rng.choice([a, b])]
                ys = [FR(rng.randint(1, 100), 64) for _ in xp]
                # a single value applies to every frequency: its frequency vector is not used, nothing is extrapolated
                out.append((Case("merr", cf=cf, xp=xp, ys=ys, tr=rng.randint(0, 1)), site,
                            classify(lo, hi, a, b) if n > 1 else "single", lo, hi, xp[0], xp[-1]))
            elif site == "range_apply":
                # the calibration grid is the supplied band, the request the needed band
                cal = fill(rng, a, b, rng.choice([2, 3, 5, 6]))
                qs = fill(rng, lo, hi, rng.choice([2, 3, 5]))
                out.append((Case("apply", cf=cal, qs=qs), site, classify(lo, hi, a, b), lo, hi, a, b))
            else:
                n = rng.choice([1, 2, 3, 6])
                xp = [a] if n == 1 else fill(rng, a, b, n)
                bb = xp[-1]
                yp = [(FR(rng.randint(-64, 64), 64), FR(rng.randint(-64, 64), 64)) for _ in xp]
                for q in (lo, hi):          # the needed "band" is the single queried frequency
                    out.append((Case("param", xp=xp, yp=yp, qs=[q]), site, classify(q, q, a, bb), q, q, a, bb))
    return out


# ----------------------------------------------------------------------------- shrinking
def shrink_case(case, fails):
    """Greedy removal of knots / queries while the case still fails."""
    cur = case
    changed = True
    rounds = 0
    while changed and rounds < 40:
        changed = False
        rounds += 1
        if len(getattr(cur, "qs", [])) > 1:
            for i in range(len(cur.qs)):
                d = dict(cur.__dict__)
                d["qs"] = cur.qs[:i] + cur.qs[i + 1:]
                if cur.op == "run" and len(d["qs"]) == 0:
                    continue
                c2 = Case(**d)
                if fails(c2):
                    cur, changed = c2, True
                    break
            if changed:
                continue
        n = len(getattr(cur, "xp", []))
        minn = max(1, getattr(cur, "m", 1)) if cur.op in ("rfi", "run") else 1
        if n > minn:
            for i in range(n):
                d = dict(cur.__dict__)
                d["xp"] = cur.xp[:i] + cur.xp[i + 1:]
                if "yp" in d:
                    d["yp"] = cur.yp[:i] + cur.yp[i + 1:]
                if "ys" in d:
                    d["ys"] = cur.ys[:i] + cur.ys[i + 1:]
                c2 = Case(**d)
                if fails(c2):
                    cur, changed = c2, True
                    break
        if not changed and cur.op in ("rfi", "run") and cur.m > 1:
            d = dict(cur.__dict__)
            d["m"] = cur.m - 1
            c2 = Case(**d)
            if fails(c2):
                cur, changed = c2, True
    return cur


# ----------------------------------------------------------------------------- main
def run(ctx):
    ctx.level = "proof"
    ctx.trusted_base = [
        "Coq 8.16.1 kernel (coqc); vm_compute for the examples and for evaluating the generated decision functions; no native_compute",
        "axioms: none (Print Assumptions: Closed under the global context for every theorem of Properties_C10.v)",
        "translator translate/ranges.py (C text -> Gen/RangeGen.v: EPS, 10*EPS, MIN_DX, VNACAL_F_EXTRAPOLATION, VNACAL_MAX_M and the four range decision functions), "
        "validated on every run against the accept/reject outcome of the compiled public functions",
        "translator translate/ranges.py, parameter chains: the two clamp stanzas of _vnacal_get_parameter_frange -> frange_clamp, check_single_frequency_range "
        "with an infinite upper end -> range_new_parameter_reject_x; the walk, the sigma-vector assignment of vnacal_make_correlated_parameter, "
        "_vnacal_get_correlated_sigma and the recursion of _vnacal_new_get_parameter / _vnacal_new_check_parameter are checked against fixed idioms",
        "hand-written models coq/Interp/FrangeModel.v (parameter trees, walk, mk_correlated validation, add_ok / set_ok) and SigmaSplineModel.v tied by "
        "exact comparison with the harness op `chain` (vm_compute of FrangeRun.chain_report; Python mirror in lib/interp_py.py compared with it on every case)",
        "hand-written models coq/Interp/RfiModel.v, SplineModel.v tied by exact-rational correspondence with _vnacal_rfi / _vnacommon_spline_* "
        "(extracted OCaml driver; fast Python mirror lib/interp_py.py validated exactly against the extracted model on every run)",
        "gcc, ASan/UBSan/LSan for the harness; OCaml + zarith for number parsing/printing in the driver glue",
    ]
    ctx.assumptions = ["exact rational arithmetic stands for binary64 arithmetic (rounding is outside every theorem; measured by the correspondence to 1e-12)",
                       "frequencies are positive where a relative (5 %) miss is spoken of"]
    ctx.rule = ("one evaluation = one interpolation query or one accept/reject decision compared between model and implementation; "
                "distinct non-trivial = distinct (knot vector, order, hint, query) tuples with n >= 2 that reach the comparison, "
                "plus distinct (site, have-band, need-band) decisions")
    thorough = ctx.tier != "quick"
    broken = {}

    # ---------------------------------------------------------------- 1. translate + Coq
    tr = None
    try:
        tr = ranges.generate(ctx)
        ctx.obligation("T6:translate", True)
    except ranges.TranslateError as e:
        ctx.log("translator: source no longer matches the accepted idiom:", e)
        ctx.obligation("T6:translate", False, str(e))
        broken["T6:translate"] = "translator: " + str(e)
    vfiles = ["Interp/QOrd.v", "Interp/RfiModel.v", "Interp/SplineModel.v", "Interp/FrangeBase.v", "Gen/RangeGen.v", "Interp/RfiProofs.v",
              "Interp/SplineProofs.v", "Interp/RangeProofs.v", "Interp/RfiRational.v", "Interp/C10Lemmas.v", "Interp/RfiWindow.v",
              "Interp/RfiRationalN.v", "Interp/RfiRationalEx.v"] + GEN_DEPENDENT + \
             ["Interp/SigmaSplineModel.v", "Interp/SigmaSplineProofs.v", "Interp/SigmaSplineExamples.v",
              "Interp/ApplyFreqModel.v", "Interp/ApplyFreqProofs.v", "Interp/ApplyFreqExamples.v", "Properties_C10.v"]
    vfiles = [v for v in vfiles if os.path.exists(os.path.join(vplib.COQDIR, v))]
    if tr is None:
        # Gen/RangeGen.v on disk is stale: the theorems that depend on it are not discharged
        vfiles = [v for v in vfiles if v not in ["Gen/RangeGen.v", "Interp/RangeProofs.v", "Properties_C10.v"] + GEN_DEPENDENT]
        ctx.obligation("coq:Interp/RangeProofs.v + Properties_C10.v", False, "Gen/RangeGen.v could not be regenerated")
    ok, res = ctx.coq_obligations(vfiles)
    if not ok:
        for v in vfiles:
            if not res[v + "o"]:
                broken.setdefault("coq:" + v, "%s does not compile: %s" % (v, coq_error(getattr(ctx, "_last_coq_log", ""), v)))
        ctx.log("proof obligations failed:", sorted(broken))
    if tr is None:
        # fall back on the constants/functions of the last good generation is not sound: use the
        # accepted values only to keep the search for a failing input going
        tr = fallback_translation()

    exe = ctx.build_harness("interp_harness", san=True)
    drv = ctx.ocaml_driver("drv_interp")
    R = Runner(ctx, exe, drv, tr)
    RFI_CONSTS[0], RFI_CONSTS[1], RFI_CONSTS[2] = R.eps, R.cut, R.max_m
    rng = ctx.rng
    stats = {"knot": 0, "interp": 0, "illcond": 0}
    ctx.extra["constants"] = dict((k, str(v)) for k, v in tr["consts"].items())

    # ---------------------------------------------------------------- 2. mirror validation
    ctx.log("built harness and driver")
    validate_mirror(ctx, R, rng, thorough, broken)
    ctx.log("mirror validated:", ctx.extra.get("mirror_validation"))

    # ---------------------------------------------------------------- 3. corpus, directed, generated
    corpus = []
    cdir = os.path.join(vplib.VERIF, "corpus", "C10")
    if os.path.isdir(cdir):
        for fn in sorted(os.listdir(cdir)):
            if fn.endswith(".txt"):
                for line in open(os.path.join(cdir, fn)):
                    c = parse_corpus_line(line)
                    if c is not None:
                        corpus.append(c)
    ctx.extra["corpus_cases"] = len(corpus)
    corpus_range = [c for c in corpus if c.op in ("newpar", "newparh", "merr", "apply")]
    corpus_chain = [c for c in corpus if c.op == "chain"]
    corpus_merrh = [c for c in corpus if c.op == "merrh"]
    corpus = [c for c in corpus if c.op not in ("newpar", "newparh", "merr", "apply", "chain", "merrh")]
    nrfi = 400 if not thorough else 6000
    npar = 120 if not thorough else 1500
    nspl = 250 if not thorough else 3000
    nrng = 24 if not thorough else 200
    cases = corpus + [Case("zero")]
    cases += gen_rfi_cases(rng, nrfi, R.max_m)
    wcases = gen_window_cases(rng, R, thorough)
    cases += wcases
    cases += gen_param_cases(rng, npar, R.fext)
    cases += gen_spline_cases(rng, nspl, R.min_dx)
    rcases = gen_range_cases(rng, nrng)
    for c in corpus_range:           # range cases of the corpus: verdict from the bands
        if c.op in ("newpar", "newparh"):
            rcases.append((c, "range_new_parameter", classify(c.cf[0], c.cf[-1], c.xp[0], c.xp[-1]), c.cf[0], c.cf[-1], c.xp[0], c.xp[-1]))
        elif c.op == "merr":
            rcases.append((c, "range_m_error", classify(c.cf[0], c.cf[-1], c.xp[0], c.xp[-1]), c.cf[0], c.cf[-1], c.xp[0], c.xp[-1]))
        elif c.op == "apply":
            rcases.append((c, "range_apply", classify(c.qs[0], c.qs[-1], c.cf[0], c.cf[-1]), c.qs[0], c.qs[-1], c.cf[0], c.cf[-1]))
    ctx.extra["generated"] = {"rfi/run": nrfi, "rfi window-directed": len(wcases), "param/ipar": npar, "spline/corr": nspl,
                              "range decisions": len(rcases)}

    couts, sig, err = R.run_c(cases + [rc[0] for rc in rcases])
    if sig is not None:
        report_fault(ctx, R, cases + [rc[0] for rc in rcases], couts, sig, err)
        return finish(ctx, broken, stats)
    routs = couts[len(cases):]
    ctx.log("implementation ran %d cases" % (len(cases) + len(rcases)))
    couts = couts[:len(cases)]

    # rfi-type cases
    failures = []
    wcover = {}
    for case, co in zip(cases, couts):
        if case.op in ("rfi", "run", "param", "ipar"):
            try:
                r = check_rfi_case(R, case, co, stats)
            except (ValueError, OverflowError, IndexError, ZeroDivisionError) as e:
                r = "unparsable output of the implementation %s (%s)" % (co, e)
            n = len(case.xp)
            for q in case.qs:
                ctx.count((case.op, tuple(case.xp), getattr(case, "m", 0), getattr(case, "hint", 0), q) if n >= 2 else None)
            ctx.traces_validated += 1
            if r is None and hasattr(case, "truth"):
                wc = window_class(R, case)
                if wc is not None:
                    wcover[(case.m, wc[0])] = wcover.get((case.m, wc[0]), 0) + 1
                    ctx.count(("window", case.m, n, wc[0], wc[1]))
                t = check_truth(R, case, co)
                if t == "ok":
                    stats["rational_vs_function"] = stats.get("rational_vs_function", 0) + 1
                elif t is not None:
                    r = t
            if r is not None:
                failures.append((case, r))
            elif len(ctx.samples) < 3 and n >= 3 and case.op == "run":
                ctx.sample({"op": case.op, "n": n, "m": case.m, "hint": case.hint, "queries": [float(q) for q in case.qs],
                            "c_output": " ".join(co[1:])[:200]})
        elif case.op == "zero":
            if co is None or co != ["zero", "set=0", "apply=0"]:
                failures.append((case, "frequencies == 0: %s" % (co,)))
    # spline cases against the extracted model
    scases = [(c, co) for c, co in zip(cases, couts) if c.op in ("spline", "corr")]
    mouts = R.run_model([Case("spline", xp=c.xp, ys=c.ys, qs=c.qs) for c, _ in scases]) if scases else []
    sstats = {"knot": 0, "interp": 0, "einval": 0, "skipped": 0}
    for (case, co), mo in zip(scases, mouts):
        try:
            r = check_spline_case(R, case, co, mo, sstats)
        except (ValueError, OverflowError, IndexError, ZeroDivisionError) as e:
            r = "unparsable output of the implementation %s (%s)" % (co, e)
        for q in case.qs:
            ctx.count((case.op, tuple(case.xp), tuple(case.ys), q) if len(case.xp) >= 2 else None)
        ctx.traces_validated += 1
        if r is not None:
            failures.append((case, r))
    ctx.log("rfi", stats, "spline", sstats, "failures", len(failures))
    # the directed cases must have reached every case split of the window selection
    want = [(m, pos) for m in range(2, R.max_m + 1) for pos in ("left", "interior", "right", "whole")]
    missing = [w for w in want if not wcover.get(w)]
    ctx.extra["window_positions_compared"] = dict(("m=%d/%s" % k, v) for k, v in sorted(wcover.items()))
    if not failures:
        ctx.obligation("tie:window positions (left edge, interior, right edge, whole vector) compared for every order 2..%d" % R.max_m,
                       not missing, "not reached: %s" % missing if missing else "")
    ctx.extra["rfi_comparisons"] = stats
    ctx.extra["spline_comparisons"] = sstats

    for case, why in failures[:3]:
        handle_failure(ctx, R, case, why, broken)

    # ---------------------------------------------------------------- 4. range decisions
    check_ranges(ctx, R, rcases, routs, broken)
    check_nan_query(ctx, R, broken)
    check_merr_histories(ctx, R, rng, 10 if not thorough else 80, corpus_merrh)
    ctx.log("range decisions compared")
    check_apply_history(ctx, R, rng, 6 if not thorough else 60)
    ctx.log("apply history compared")
    # ---------------------------------------------------------------- 5. parameter chains, sigma
    import c10_chains
    c10_chains.check_chains(ctx, R, rng, broken, 70 if not thorough else 700, corpus_chain)
    ctx.log("parameter chains compared")
    # ---------------------------------------------------------------- 6. the frequency side of vnacal_apply
    import c10_apply
    c10_apply.check_apply(ctx, R, rng, broken, 10 if not thorough else 80)
    ctx.log("apply interpolation loop compared (white box + public path)")
    import c02_sigma
    c02_sigma.run_part(ctx)
    ctx.log("two descriptions of one sigma(f) compared (public API)")
    return finish(ctx, broken, stats)


def finish(ctx, broken, stats):
    for name, reason in sorted(broken.items()):
        ctx.unproved("C10:" + name, reason,
                     "generated knot vectors of length 1..8 (orders 1..5, random hints and query orders), "
                     "range bands covering / missing by >= 5 %, corpus")


def coq_error(log, v):
    m = re.search(r'File "\./%s", line (\d+)[^\n]*\n((?:[^\n]*\n){0,6})' % re.escape(v), log)
    return ("line %s: %s" % (m.group(1), " ".join(m.group(2).split())[:300])) if m else "see build log"


def fallback_translation():
    f = FR
    names = {"need_lo": "need_lo", "need_hi": "need_hi", "have_lo": "have_lo", "have_hi": "have_hi"}
    one = ("num", f(1))
    lo = lambda v: ("mul", ("sub", one, ("fext",)), ("var", v))
    hi = lambda v: ("mul", ("add", one, ("fext",)), ("var", v))
    sites = {
        "range_new_parameter": {"lets": [("lower", hi("need_lo")), ("upper", lo("need_hi"))],
                                "cond": [(">", ("var", "have_lo"), ("var", "lower")), ("<", ("var", "have_hi"), ("var", "upper"))]},
        "range_m_error": {"lets": [("lower", hi("need_lo")), ("upper", lo("need_hi"))],
                          "cond": [(">", ("var", "have_lo"), ("var", "lower")), ("<", ("var", "have_hi"), ("var", "upper"))],
                          "applies": (">", 1)},
        "range_get_value": {"lets": [("lower", lo("have_lo")), ("upper", hi("have_hi"))],
                            "cond": [("<", ("var", "need_lo"), ("var", "lower")), (">", ("var", "need_lo"), ("var", "upper"))],
                            "nan_guard": ["need_lo"]},
        "range_apply": {"lets": [("fmin", lo("have_lo")), ("fmax", hi("have_hi"))],
                        "cond": [("<", ("var", "need_lo"), ("var", "fmin")), (">", ("var", "need_hi"), ("var", "fmax"))]}}
    return {"consts": {"f_extrapolation": f(1, 100), "rfi_eps": f(1, 10 ** 25), "rfi_cut_factor": f(10),
                       "spline_min_dx": f(1, 10000), "vnacal_max_m": 5}, "sites": sites, "fallback": True,
            "frange": {"stanzas": [{"a": "smin", "op": ">", "b": "fmin", "target": "fmin", "value": "smin"},
                                   {"a": "smax", "op": "<", "b": "fmax", "target": "fmax", "value": "smax"}]}}


# ----------------------------------------------------------------------------- mirror validation
def validate_mirror(ctx, R, rng, thorough, broken):
    real, coarse = [], []
    for i in range(60 if not thorough else 400):
        n = rng.choice([2, 3, 3, 4, 5, 6, 8])
        xp = [FR(v, 4) for v in sorted(rng.sample(range(-40, 41), n))]
        yp = [(FR(rng.randint(-32, 32), 16), FR(rng.randint(-32, 32), 16)) for _ in xp]
        zeros = any(v[0] == 0 for v in yp)
        m = rng.randint(1, min(n, 3 if zeros else R.max_m))
        real.append(Case("rfi", xp=xp, yp=yp, m=m, hint=rng.randint(-2, n + 1), qs=[FR(rng.randint(-170, 170), 16)]))
    for i in range(2 if not thorough else 8):
        xp = [FR(v) for v in sorted(rng.sample(range(-6, 7), 4))]
        yp = [(FR(rng.randint(-8, 8), 4), FR(rng.randint(-8, 8), 4)) for _ in xp]
        real.append(Case("rfi", xp=xp, yp=yp, m=4, hint=rng.randint(-2, 5), qs=[FR(rng.randint(-13, 13), 2)]))
    for i in range(250 if not thorough else 2500):
        n = rng.choice([2, 3, 4, 5, 6, 7, 8])
        m = rng.randint(1, min(n, 5))
        xp = [FR(v, 2) for v in sorted(rng.sample(range(-12, 13), n))]
        yp = [(FR(rng.randint(-6, 6), 4), FR(rng.randint(-6, 6), 4) if rng.random() < 0.5 else FR(0)) for _ in xp]
        if rng.random() < 0.3:
            yp = [(FR(0), FR(0)) if rng.random() < 0.5 else v for v in yp]
        coarse.append(Case("rfi", xp=xp, yp=yp, m=m, hint=rng.randint(-2, n + 1), qs=[FR(rng.randint(-30, 30), 4)]))
    bad = None
    total = 0
    cuts = 0
    for label, cs, consts in (("real", real, (R.eps, R.cut, R.min_dx)),
                              ("coarse", coarse, (FR(1, 8), FR(10, 8) * R.tr["consts"]["rfi_cut_factor"] / 10, R.min_dx))):
        mo = R.run_model(cs, consts)
        for c, o in zip(cs, mo):
            total += 1
            try:
                v, h, trc = ip.rfi_full(consts[0], consts[1], c.xp, c.yp, len(c.xp), c.m, c.qs[0], c.hint)
                mine = ["rfi", pq(v[0]), pq(v[1]), "seg=%d" % h, "steps=%d" % len(trc)]
                if len(trc) < (c.m * (c.m - 1)) // 2 and len(trc) > 0:
                    cuts += 1
            except ip.Fault:
                mine = ["rfi", "FAULT"]
            theirs = [t for t in o if not t.startswith("cond=")]
            if mine != theirs and bad is None:
                bad = "%s constants, case %s: extracted model %s, mirror %s" % (label, c.m_line(), " ".join(theirs)[:160], " ".join(mine)[:160])
    ctx.extra["mirror_validation"] = {"cases": total, "with_cut_off": cuts}
    ctx.obligation("tie:mirror==extracted RfiModel", bad is None, bad or "")
    if bad is not None:
        broken["tie:mirror"] = bad


# ----------------------------------------------------------------------------- spline comparison
def check_spline_case(R, case, co, mo, st):
    if co is None or co[0] != case.op:
        return "no output from the implementation"
    n = len(case.xp)
    if case.op == "corr" and n == 1:
        # one sigma value applies to all frequencies
        for t in co[1:]:
            if isbad(cfloat(t)) or cfloat(t) != case.ys[0]:
                return "single-point sigma vector: C returns %s, supplied %s" % (show(cfloat(t)), float(case.ys[0]))
        return None
    if mo[1] == "EINVAL":
        st["einval"] += 1
        if case.op == "spline" and co[1] != "EINVAL":
            return "model: EINVAL (gap < MIN_DX), C: %s" % " ".join(co[1:3])
        if case.op == "corr" and co[1] != "MAKEFAIL":
            return "model: EINVAL (gap < MIN_DX), C: %s" % " ".join(co[1:3])
        return None
    if co[1] in ("EINVAL", "MAKEFAIL"):
        return "C reports %s, model returns values" % co[1]
    scale = max(abs(v) for v in case.ys)
    gaps = [b - a for a, b in zip(case.xp, case.xp[1:])]
    for i, (q, ct, mt) in enumerate(zip(case.qs, co[1:], mo[1:])):
        if (ct == "E") != (mt == "E"):
            return "query %d: C %s, model %s" % (i, ct, mt)
        if ct == "E":
            continue
        cv, mv = cfloat(ct), FR(mt)
        if isbad(cv):
            kn = (" = knot %d" % case.xp.index(q)) if q in case.xp else ""
            return "query %d (x = %.17g%s): C returns a non-finite value %s, model %.17g" % (i, float(q), kn, cv.tok, float(mv))
        if q in case.xp:
            k = case.xp.index(q)
            st["knot"] += 1
            if cv != case.ys[k]:
                return "query %d (x = knot %d): C returns %.17g, supplied value %.17g" % (i, k, float(cv), float(case.ys[k]))
            if mv != case.ys[k]:
                return "query %d (x = knot %d): model returns %s, supplied value %s" % (i, k, mv, case.ys[k])
            continue
        # second differences amplify rounding by (largest gap / smallest gap)^2 at most
        amp = max(FR(1), (max(gaps) / min(gaps)) ** 2) if gaps else FR(1)
        if q < case.xp[0] or q > case.xp[-1]:
            amp *= 1 + max(case.xp[0] - q, q - case.xp[-1]) / min(gaps) if gaps else 1
        if amp > 64:
            st["skipped"] += 1
            continue
        st["interp"] += 1
        if abs(cv - mv) > TOL * amp * max(abs(mv), scale):
            return "query %d (x = %.17g): C %.17g vs model %.17g" % (i, float(q), float(cv), float(mv))
    return None


# ----------------------------------------------------------------------------- failures
def report_fault(ctx, R, cases, couts, sig, err):
    """The harness died: find the first case without output, shrink it, report."""
    idx = next((i for i, o in enumerate(couts) if o is None), None)
    if idx is None:
        # every case produced its line (a leak report at exit): bisect
        lo, hi = 0, len(cases)
        while hi - lo > 1:
            mid = (lo + hi) // 2
            o, s2, e2 = R.run_c(cases[lo:mid], timeout=300)
            if s2 is not None:
                hi = mid
            else:
                lo = mid
        idx = lo
    case = cases[idx]

    def fails(c):
        o, s, e = R.run_c([c], timeout=60)
        return s is not None and s.get("error") == sig.get("error")
    small = shrink_case(case, fails) if hasattr(case, "xp") else case
    ctx.violation(sig, "sanitizer/abort in the implementation on: %s (%s in %s)" % (small.c_line()[:160], sig.get("error"), sig.get("function")),
                  {"case": small.to_json(), "stderr": err[-3000:], "how": "harness/interp_harness.c, one line on stdin"})


def handle_failure(ctx, R, case, why, broken):
    """Model and implementation disagree on `case`: shrink, then decide the side from the property."""
    def fails(c):
        o, s, e = R.run_c([c], timeout=60)
        if s is not None:
            return True
        st = {"knot": 0, "interp": 0, "illcond": 0, "einval": 0, "skipped": 0}
        if c.op in ("rfi", "run", "param", "ipar"):
            return check_rfi_case(R, c, o[0], st) is not None
        if c.op in ("spline", "corr"):
            mo = R.run_model([Case("spline", xp=c.xp, ys=c.ys, qs=c.qs)])
            return check_spline_case(R, c, o[0], mo[0], st) is not None
        return False
    small = shrink_case(case, fails) if hasattr(case, "xp") else case
    o, s, e = R.run_c([small], timeout=60)
    st = {"knot": 0, "interp": 0, "illcond": 0, "einval": 0, "skipped": 0}
    if small.op in ("rfi", "run", "param", "ipar"):
        why2 = check_rfi_case(R, small, o[0], st) or why
    elif small.op in ("spline", "corr"):
        mo = R.run_model([Case("spline", xp=small.xp, ys=small.ys, qs=small.qs)])
        why2 = check_spline_case(R, small, o[0], mo[0], st) or why
    else:
        why2 = why
    kind = "knot" if "knot" in why2 else "interpolation"
    sig = s or {"kind": "disagreement", "op": small.op, "class": kind, "n": len(getattr(small, "xp", []))}
    what = "%s with %d knot(s): %s" % (small.op, len(getattr(small, "xp", [])), why2)
    ctx.violation(sig, what, {"case": small.to_json(), "c_output": o[0], "original_case": case.to_json(),
                              "how": "harness/interp_harness.c, one line on stdin; model: ocaml/drv_interp.ml / lib/interp_py.py",
                              "broken_obligations": sorted(broken)})
    save_corpus(small)
    broken.clear()


def save_corpus(case):
    if os.environ.get("VERIF_REPO", "/repo") != "/repo":
        return                      # experiments on a private (mutated) copy do not feed the corpus
    d = os.path.join(vplib.VERIF, "corpus", "C10")
    p = os.path.join(d, "found.txt")
    try:
        os.makedirs(d, exist_ok=True)
        old = open(p).read().split("\n") if os.path.exists(p) else []
        line = case.c_line()
        if line not in old and len(old) < 40:
            with open(p, "a") as f:
                f.write(line + "\n")
    except (IOError, OSError):
        pass


# ----------------------------------------------------------------------------- range decisions
def coq_decisions(ctx, items):
    """Evaluate the generated decision functions in Coq: items = [(site, nl, nh, hl, hh)] -> [bool] or None."""
    q = lambda v: "(%d # %d)" % (v.numerator, v.denominator) if v.numerator >= 0 else "((%d) # %d)" % (v.numerator, v.denominator)
    body = ["Require Import List ZArith QArith.", "Require Import LV.Gen.RangeGen.", "Import ListNotations.",
            "Eval vm_compute in [" + "; ".join(("%s_reject %s %s %s %s" % (s, q(a), q(b), q(c), q(d))) if n is None else
                                               ("%s_reject_n %d%%Z %s %s %s %s" % (s, n, q(a), q(b), q(c), q(d)))
                                               for s, a, b, c, d, n in items) + "]."]
    rc, out, err = ctx.coq_eval("rangecases", "\n".join(body) + "\n", timeout=300)
    if rc != 0:
        # (a concurrent `make` of the shared coq/ tree can leave .vo files momentarily inconsistent)
        ctx.coq_make(["Gen/RangeGen.vo"])
        rc, out, err = ctx.coq_eval("rangecases", "\n".join(body) + "\n", timeout=300)
    if rc != 0:
        ctx.log("coq_eval of the range decisions failed:", err[-300:])
        return None
    vals = re.findall(r"\b(true|false)\b", out.split(":")[0])
    return [v == "true" for v in vals] if len(vals) == len(items) else None


def py_decision(tr, site, nl, nh, hl, hh, n=None):
    if n is not None:
        op, k = tr["sites"][site].get("applies", (">", 1))
        if not (n > k if op == ">" else n >= k):
            return False
    return ranges.py_decide(tr, site, nl, nh, hl, hh)


def check_ranges(ctx, R, rcases, routs, broken):
    items = [(site, nl, nh, hl, hh, len(case.xp) if case.op == "merr" else None) for (case, site, _, nl, nh, hl, hh) in rcases]
    pyd = [py_decision(R.tr, *it) for it in items]
    cq = coq_decisions(ctx, items) if not R.tr.get("fallback") else None
    if cq is None:
        ctx.obligation("T6:evaluation of Gen/RangeGen.v", False, "coq_eval failed; using the Python evaluation of the parsed statements")
        cq = pyd
    else:
        ctx.obligation("T6:evaluation of Gen/RangeGen.v", cq == pyd, "" if cq == pyd else "Coq and Python evaluation of the parsed statements differ")
    tie_bad = None
    counts = {}
    for (case, site, lab, nl, nh, hl, hh), co, dec in zip(rcases, routs, cq):
        if co is None:
            continue
        outcome = co[1]
        if case.op == "param" and outcome != "REJ" and len(co) == 3:
            outcome = "ACC"
        if outcome not in ("ACC", "REJ"):
            tie_bad = tie_bad or "%s: unexpected outcome %s on %s" % (site, outcome, case.c_line()[:120])
            continue
        rej = outcome == "REJ"
        counts[(site, lab, outcome)] = counts.get((site, lab, outcome), 0) + 1
        ctx.count((site, lab, nl, nh, hl, hh))
        ctx.traces_validated += 1
        want = {"cover": False, "miss_low": True, "miss_high": True, "miss_both": True, "single": False}.get(lab)
        if want is not None and rej != want:
            # the property itself is violated on this input
            ctx.violation({"kind": "range", "site": site, "class": lab},
                          "%s: needed band %.6g..%.6g, supplied band %.6g..%.6g (%s) is %s by the implementation"
                          % (site, float(nl), float(nh), float(hl), float(hh), lab, "refused" if rej else "accepted"),
                          {"case": case.to_json(), "c_output": co, "generated_function_says": "reject" if dec else "accept",
                           "expected": "reject" if want else "accept", "how": "harness/interp_harness.c, one line on stdin"})
            broken.pop("coq:Interp/RangeProofs.v", None)
            broken.pop("coq:Properties_C10.v", None)
            broken.pop("coq:Gen/RangeGen.v", None)
            continue
        # near the bounds (within 1e-9 relative) rounding of (1 +- F) * f may decide differently
        if rej != dec and tie_bad is None and not near_bound(R, site, nl, nh, hl, hh):
            tie_bad = ("%s: generated function says %s, implementation %s for need %.9g..%.9g have %.9g..%.9g"
                       % (site, "reject" if dec else "accept", outcome, float(nl), float(nh), float(hl), float(hh)))
        if outcome == "ACC" and case.op == "merr":
            try:
                r = check_merr_values(R, case, co)
            except (ValueError, OverflowError, IndexError, ZeroDivisionError) as e:
                r = "unparsable output of the implementation %s (%s)" % (co, e)
            if r is not None:
                ctx.violation({"kind": "disagreement", "op": "merr", "class": "knot" if "knot" in r else "interpolation", "n": len(case.xp)},
                              "merr with %d knot(s) %s, sigma %s, calibration frequencies %s: %s"
                              % (len(case.xp), [float(v) for v in case.xp], [float(v) for v in case.ys], [float(v) for v in case.cf], r),
                              {"case": case.to_json(), "c_output": co,
                               "how": "harness/interp_harness.c, one line on stdin; model: ocaml/drv_interp.ml (spline <noise grid> evaluated at the calibration frequencies)",
                               "broken_obligations": sorted(broken)})
    ctx.extra["range_outcomes"] = dict(("%s/%s/%s" % k, v) for k, v in sorted(counts.items()))
    ctx.obligation("tie:RangeGen==implementation (accept/reject)", tie_bad is None, tie_bad or "")
    if tie_bad is not None:
        broken["tie:RangeGen"] = tie_bad
    # when the range theorems no longer prove: directed search on the regenerated functions
    if any(k.startswith("coq:") for k in broken) or "T6:translate" in broken:
        search_ranges(ctx, R, broken)


def check_nan_query(ctx, R, broken):
    """vnacal_get_parameter_value at a NaN frequency: no comparison of the range test holds for NaN; the regenerated
    range_get_value_reject_nan says what the code does (refused iff the isnan() disjunct is there); NaN lies in no range,
    so the property wants it refused."""
    model_rej = "need_lo" in R.tr["sites"]["range_get_value"].get("nan_guard", [])
    line = "param 2 %s %s %s 0x0p+0 %s 0x1p-1 3 nan %s -nan\n" % (hx(FR(1)), hx(FR(3)), hx(FR(1)), hx(FR(-1)), hx(FR(2)))
    rc, out, err = vplib.sh([R.exe], input=line, timeout=60, env=ctx.run_env(leak=True))
    t = out.split()
    if rc != 0 or not t or t[0] != "param":
        sig = vplib.asan_signature(err) or {"kind": "fault", "error": "exit %d" % rc, "function": None}
        ctx.violation(sig, "sanitizer/abort in vnacal_get_parameter_value at a NaN frequency", {"harness_line": line, "stderr": err[-2000:]})
        return
    # tokens: REJ | re im per query
    toks, outcomes = t[1:], []
    i = 0
    for _ in range(3):
        if toks[i] in ("REJ", "ERR"):
            outcomes.append(toks[i])
            i += 1
        else:
            outcomes.append((toks[i], toks[i + 1]))
            i += 2
    nan_rej = outcomes[0] == "REJ" and outcomes[2] == "REJ"
    ctx.count(("nan-query",))
    ctx.obligation("tie:range_get_value_reject_nan==implementation (NaN frequency)", nan_rej == model_rej and outcomes[1] not in ("REJ", "ERR"),
                   "" if nan_rej == model_rej else "model %s, implementation %s" % (model_rej, outcomes))
    if not nan_rej:
        ctx.violation({"kind": "range", "site": "range_get_value", "class": "nan"},
                      "vnacal_get_parameter_value at frequency NaN on a vector parameter 1..3: not refused (%s)" % (outcomes,),
                      {"harness_line": line, "how": "harness/interp_harness.c, one line on stdin"})
        broken.pop("coq:Interp/RangeProofs.v", None)
        broken.pop("coq:Properties_C10.v", None)


def check_merr_histories(ctx, R, rng, count, corpus_cases=()):
    """History set_frequency_vector(A); set_m_error(own grid); set_frequency_vector(B).  Whatever noise model is in force
    afterwards must satisfy what set_m_error itself guarantees for the band in force: its frequency range covers the band
    (range_m_error_reject_n; >= 5 % misses are the property's own clause) and the stored values are the spline through
    the given points evaluated at the frequencies in force.  A refusal of the last call is fine.
    (Library finding DM90: the last call returned 0 and kept the noise interpolated on A; repair
    fixes/DM90_set_frequency_vector_after_m_error.diff makes it refuse a changed vector while a model is set.)"""
    cases = list(corpus_cases)
    for i in range(count):
        nf = rng.choice([2, 3, 3, 5])
        lo = FR(rng.randint(8, 400), 8)
        hi = FR(float(lo * FR(rng.randint(150, 1000), 100)))
        ca = fill(rng, lo, hi, nf)
        n = rng.choice([1, 2, 2, 3, 5])
        xp = fill(rng, FR(float(lo * FR(rng.randint(70, 100), 100))), FR(float(hi * FR(rng.randint(100, 140), 100))), n) if n > 1 else [lo]
        ys = [FR(rng.randint(1, 100), 64) for _ in xp]
        kind = rng.choice(["same", "inside", "inside", "shift_up", "shift_down", "wider"])
        if kind == "same":
            cb = list(ca)
        elif kind == "inside":            # same band, other interior points (or a narrower band)
            cb = fill(rng, FR(float(lo * FR(rng.randint(100, 110), 100))), FR(float(hi * FR(rng.randint(90, 100), 100))), nf)
        elif kind == "shift_up":
            k = rng.randint(2, 12)
            cb = [FR(float(v * k)) for v in ca]
        elif kind == "shift_down":
            cb = [FR(float(v / rng.randint(2, 12))) for v in ca]
        else:
            cb = fill(rng, FR(float(lo * FR(rng.randint(50, 94), 100))), FR(float(hi * FR(rng.randint(150, 300), 100))), nf)
        cases.append(Case("merrh", cf=ca, cf2=cb, xp=xp, ys=ys))
    outs, sig, err = R.run_c(cases)
    if sig is not None:
        report_fault(ctx, R, cases, outs, sig, err)
        return
    counts = {}
    nviol = 0
    tie_bad = None
    for case, co in zip(cases, outs):
        if co is None or len(co) < 2 or co[1] not in ("ACC", "REJ"):
            tie_bad = tie_bad or "unexpected outcome %s on %s" % (co, case.c_line()[:160])
            continue
        n = len(case.xp)
        nl, nh = case.cf2[0], case.cf2[-1]
        lab = classify(nl, nh, case.xp[0], case.xp[-1]) if n > 1 else "single"
        counts["%s/%s" % (lab, co[1])] = counts.get("%s/%s" % (lab, co[1]), 0) + 1
        ctx.count(("merrh", tuple(case.cf), tuple(case.cf2), tuple(case.xp)))
        ctx.traces_validated += 1
        if co[1] == "REJ":
            continue
        why = None
        sigk = None
        if lab in ("miss_low", "miss_high", "miss_both"):
            why = ("the noise model given on %.6g..%.6g stays in force for the calibration band %.6g..%.6g (%s); the same vnacal_new_set_m_error call made on that band is refused"
                   % (float(case.xp[0]), float(case.xp[-1]), float(nl), float(nh), lab))
            sigk = {"kind": "range", "site": "range_m_error", "class": lab, "history": "set_m_error, set_frequency_vector"}
        elif co[2] == "NONE":
            pass                      # the model was dropped: nothing is extrapolated
        else:
            try:
                r = check_merr_values(R, Case("merr", cf=case.cf2, xp=case.xp, ys=case.ys, tr=0), ["merr", "ACC"] + co[2:])
            except (ValueError, OverflowError, IndexError, ZeroDivisionError) as e:
                r = "unparsable output %s (%s)" % (co, e)
            if r is not None:
                why = "the stored noise is not the model through the given points on the frequencies now in force: " + r
                sigk = {"kind": "disagreement", "op": "merr", "class": "knot" if "knot" in r else "interpolation", "n": n,
                        "history": "set_m_error, set_frequency_vector"}
            elif py_decision(R.tr, "range_m_error", nl, nh, case.xp[0], case.xp[-1], n) and not near_bound(R, "range_m_error", nl, nh, case.xp[0], case.xp[-1]):
                tie_bad = tie_bad or ("noise range %.9g..%.9g in force on the band %.9g..%.9g which range_m_error refuses (inside the 5 %% zone: no property verdict)"
                                      % (float(case.xp[0]), float(case.xp[-1]), float(nl), float(nh)))
        if why is not None:
            nviol += 1
            if nviol <= 2:
                ctx.violation(sigk, "vnacal_new_set_frequency_vector %s after vnacal_new_set_m_error(%s, %d, %s) on %s returns 0: %s"
                              % ([float(v) for v in case.cf2], [float(v) for v in case.xp], n, [float(v) for v in case.ys], [float(v) for v in case.cf], why),
                              {"case": case.to_json(), "c_output": co, "how": "harness/interp_harness.c, one line on stdin (op merrh)"})
    ctx.extra["m_error_then_set_frequency_vector"] = dict(counts, violations=nviol)
    ctx.obligation("tie:noise model vs the frequency vector in force after set_m_error; set_frequency_vector histories", tie_bad is None and nviol == 0,
                   tie_bad or ("%d histories leave a noise model in force that set_m_error would not have produced" % nviol if nviol else ""))
    if tie_bad is not None and nviol == 0:
        broken["tie:m_error histories"] = tie_bad


def near_bound(R, site, nl, nh, hl, hh):
    f = R.fext
    pairs = {"range_new_parameter": [(hl, (1 + f) * nl), (hh, (1 - f) * nh)], "range_m_error": [(hl, (1 + f) * nl), (hh, (1 - f) * nh)],
             "range_get_value": [(nl, (1 - f) * hl), (nl, (1 + f) * hh)], "range_apply": [(nl, (1 - f) * hl), (nh, (1 + f) * hh)]}[site]
    return any(abs(a - b) <= abs(b) / 10 ** 9 for a, b in pairs)


def check_merr_values(R, case, co):
    if len(case.xp) == 1:
        for i in range(len(case.cf)):
            nfv, trv = cfloat(co[2 + 2 * i]), cfloat(co[3 + 2 * i])
            if isbad(nfv, trv) or nfv != case.ys[0] or trv != (2 * case.ys[0] if case.tr else 0):
                return "vnacal_new_set_m_error values: single value %s (tr %s) stored as %s / %s at frequency %d" % (
                    float(case.ys[0]), bool(case.tr), show(nfv), show(trv), i)
        return None
    mo = R.run_model([Case("spline", xp=case.xp, ys=case.ys, qs=case.cf)])[0]
    st = {"knot": 0, "interp": 0, "einval": 0, "skipped": 0}
    nf_vals = ["spline"] + [co[2 + 2 * i] for i in range(len(case.cf))]
    r = check_spline_case(R, Case("spline", xp=case.xp, ys=case.ys, qs=case.cf), nf_vals, mo, st)
    if r is None and case.tr:
        ys2 = [2 * v for v in case.ys]
        mo2 = R.run_model([Case("spline", xp=case.xp, ys=ys2, qs=case.cf)])[0]
        tr_vals = ["spline"] + [co[3 + 2 * i] for i in range(len(case.cf))]
        r = check_spline_case(R, Case("spline", xp=case.xp, ys=ys2, qs=case.cf), tr_vals, mo2, st)
    return ("vnacal_new_set_m_error values: " + r) if r else None


def search_ranges(ctx, R, broken):
    """Boolean form of range_rejects_5pct / range_accepts_cover on the regenerated functions over a
    structured grid; a counterexample is replayed on the implementation."""
    grid = [FR(1), FR(10), FR(1000), FR(5, 2)]
    found = None
    for site in ("range_new_parameter", "range_m_error", "range_get_value", "range_apply"):
        for lo in grid:
            for ratio in (FR(1), FR(2), FR(10), FR(100)):
                hi = lo * ratio
                single = site == "range_get_value"
                nh = lo if single else hi
                for lab, hl, hh, want in (("cover", lo, nh, False), ("cover", lo / 2, nh * 2, False),
                                          ("miss_low", lo * FR(105, 100), nh * 2, True), ("miss_low", lo * 3, nh * 4, True),
                                          ("miss_high", lo / 2, nh * FR(95, 100), True), ("miss_high", lo / 4, nh / 2, True)):
                    if hl > hh:
                        continue
                    try:
                        dec = ranges.py_decide(R.tr, site, lo, nh, hl, hh)
                    except Exception:
                        continue
                    if dec != want and found is None:
                        found = (site, lab, lo, nh, hl, hh, want, dec)
    if found is None:
        return
    site, lab, nl, nh, hl, hh, want, dec = found
    f = lambda v: FR(float(v))
    nl, nh, hl, hh = f(nl), f(nh), f(hl), f(hh)
    if site == "range_new_parameter":
        case = Case("newpar", order=0, cf=[nl, nh] if nl < nh else [nl], xp=[hl, hh] if hl < hh else [hl])
    elif site == "range_m_error":
        case = Case("merr", cf=[nl, nh] if nl < nh else [nl], xp=[hl, hh], ys=[FR(1), FR(1)], tr=0)
    elif site == "range_apply":
        case = Case("apply", cf=[hl, hh] if hl < hh else [hl], qs=[nl, nh] if nl < nh else [nl])
    else:
        case = Case("param", xp=[hl, hh] if hl < hh else [hl], yp=[(FR(1), FR(0))] * (2 if hl < hh else 1), qs=[nl])
    o, s, e = R.run_c([case], timeout=60)
    outcome = o[0][1] if o and o[0] else None
    if outcome in ("ACC", "REJ") or (outcome is not None and site == "range_get_value"):
        rej = outcome == "REJ"
        if rej != want:
            ctx.violation({"kind": "range", "site": site, "class": lab},
                          "%s: needed band %s..%s, supplied band %s..%s (%s) is %s by the implementation"
                          % (site, float(nl), float(nh), float(hl), float(hh), lab, "refused" if rej else "accepted"),
                          {"case": case.to_json(), "c_output": o[0], "generated_function_says": "reject" if dec else "accept",
                           "expected": "reject" if want else "accept", "broken_obligations": sorted(broken),
                           "how": "harness/interp_harness.c, one line on stdin"})
            broken.clear()


def check_apply_history(ctx, R, rng, count):
    """The result of vnacal_apply at a frequency does not depend on the other frequencies of the
    request (the segment hint is carried from one frequency to the next)."""
    cases = []
    meta = []
    for i in range(count):
        nf = rng.choice([1, 2, 3, 4, 6, 8])
        lo = FR(rng.randint(8, 80), 8)
        cal = [lo] if nf == 1 else fill(rng, lo, FR(float(lo * rng.randint(2, 6))), nf)
        pool = sorted(set(queries(rng, cal, 8, lo=cal[0], hi=cal[-1]) + [rng.choice(cal)]))
        a = pool
        b = sorted(rng.sample(pool, max(1, len(pool) // 2)))
        c = [rng.choice(pool)]
        for req in (a, b, c):
            cases.append(Case("apply", cf=cal, qs=req))
            meta.append(i)
    outs, sig, err = R.run_c(cases)
    if sig is not None:
        report_fault(ctx, R, cases, outs, sig, err)
        return
    bad = None
    seen = {}
    for case, o, gi in zip(cases, outs, meta):
        if o is None or o[1] != "ACC":
            bad = bad or (case, "request inside the calibration range is not accepted: %s" % (o,))
            continue
        for j, q in enumerate(case.qs):
            v = (o[2 + 2 * j], o[3 + 2 * j])
            ctx.count(("apply", gi, q))
            if isbad(cfloat(v[0]), cfloat(v[1])) and bad is None:
                bad = (case, "vnacal_apply_m at f = %.17g inside the calibration range returns a non-finite value %s" % (float(q), v))
            if (gi, q) in seen and seen[(gi, q)][0] != v and bad is None:
                bad = (case, "vnacal_apply_m at f = %.17g: %s in this request, %s in request %s"
                       % (float(q), v, seen[(gi, q)][0], [float(x) for x in seen[(gi, q)][1].qs]))
            seen.setdefault((gi, q), (v, case))
        ctx.traces_validated += 1
    ctx.obligation("tie:apply result independent of the other frequencies in the request", bad is None, bad[1] if bad else "")
    if bad is not None:
        case, why = bad
        ctx.violation({"kind": "disagreement", "op": "apply", "class": "history"}, why,
                      {"case": case.to_json(), "how": "harness/interp_harness.c: compare with the single-frequency request"})
