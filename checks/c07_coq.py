"""Coq / translator part of C07: T4 (translate/savebuf.py) -> coq/Gen/SaveBufGen.v, obligations,
validation of the generated constants against the compiled code, tie of CalFile/NumText.v's text
length model to glibc, and the search for an overflowing precision when cal_buffers_fit breaks."""
import os
import re

import vplib
import savebuf
import calfile_lib as L

DEFAULTS = (6, 7)
VFILES = ["CalFile/NumTextProofs.v", "CalFile/CalFileProofs.v", "CalFile/CalSaveProofs.v", "CalFile/CalSaveExamples.v",
          "CalFile/SaveBufFacts.v", "Properties_C07.v"]


def py_accepts(setter, p):
    lo, hi = setter
    return p >= lo and (hi is None or p <= hi)


def max_text(items, p):
    n = 0
    for it in items:
        if it == "FLit":
            n += 1
        elif it == "FD":
            n += 11
        elif it.startswith("(FE"):
            n += 7 if p <= 1 else p + 7
        else:
            n += 24
    return n


def py_first_unfit(info, which, limit=2000):
    """Smallest accepted precision whose longest text overflows (python mirror of NumText.first_unfit)."""
    a = info["adders"]["add_double" if which == "f" else "add_complex"]
    for p in list(range(1, limit)) + [2 ** 31 - 1]:
        if not py_accepts(info["setters"][which], p):
            continue
        fmt = a["fmt_max"] if (a["fmt_max"] is not None and p == info["maxp"]) else a["fmt_dec"]
        size = a["coef"] * max(p, 1) + a["const"]
        if max_text(fmt, p) + 1 > size or size > 65536:         # NumText.vla_limit
            return p
    return None


def run(ctx):
    global DEFAULTS
    src = os.path.join(ctx.repo, "src")
    info = None
    try:
        info = savebuf.translate(src)
        ctx.obligation("T4:savebuf translate", True)
    except savebuf.TranslateError as e:
        ctx.obligation("T4:savebuf translate", False, str(e))
        ctx.log("T4: vnacal_save.c / setters no longer match the accepted idiom:", e)
    exe = ctx.build_harness("calfile_harness", san=True, wrap=True)
    abi = None
    rc, out, err = vplib.sh([exe, "-"], input="case 0\nabi\n", timeout=60, env=ctx.run_env())
    m = re.search(r"abi int=(\d+) double=(\d+) complex=(\d+) maxp=(\d+) deff=(\d+) defd=(\d+) acceptf(.*) acceptd(.*)", out)
    if m:
        abi = {"int": int(m.group(1)), "double": int(m.group(2)), "double complex": int(m.group(3)), "maxp": int(m.group(4)),
               "deff": int(m.group(5)), "defd": int(m.group(6)),
               "f": {int(a): b == "1" for a, b in (x.split(":") for x in m.group(7).split())},
               "d": {int(a): b == "1" for a, b in (x.split(":") for x in m.group(8).split())}}
        DEFAULTS = (abi["deff"], abi["defd"])
    else:
        ctx.obligation("tie:T4 constants", False, "harness abi probe failed: %s" % err[-200:])
    coq_ok = False
    if info is not None:
        ctx.write_if_changed(os.path.join(vplib.COQDIR, "Gen", "SaveBufGen.v"), savebuf.emit(info))
        coq_ok, res = ctx.coq_obligations(VFILES)
        # translator output against the compiled code
        if abi:
            bad = []
            for k in ("int", "double", "double complex"):
                if savebuf.SIZEOF[k] != abi[k]:
                    bad.append("sizeof(%s) = %d, translator assumes %d" % (k, abi[k], savebuf.SIZEOF[k]))
            if info["maxp"] != abi["maxp"]:
                bad.append("VNACAL_MAX_PRECISION %d vs %d" % (info["maxp"], abi["maxp"]))
            if (info["defaults"]["f"], info["defaults"]["d"]) != (abi["deff"], abi["defd"]):
                bad.append("default precisions %r vs compiled %r" % (info["defaults"], (abi["deff"], abi["defd"])))
            for w in "fd":
                for p, acc in sorted(abi[w].items()):
                    if py_accepts(info["setters"][w], p) != acc:
                        bad.append("vnacal_set_%sprecision(%d): compiled code %s, translated setter %s"
                                   % (w, p, "accepts" if acc else "rejects", "accepts" if not acc else "rejects"))
            ctx.obligation("tie:T4 constants", not bad, "; ".join(bad[:4]))
            ctx.count(("T4", tuple(sorted(abi["f"].items())), abi["maxp"]))
    # text length model of NumText.v against glibc
    numtext_tie(ctx, exe)
    if info is not None and not coq_ok:
        search_overflow(ctx, info, exe)
    elif info is None:
        search_overflow(ctx, None, exe)
    ctx.trusted_base += [
        "Coq 8.16.1 kernel; vm_compute only for the Examples (toy instance, bounded sweep); no native_compute",
        "axioms: none (Print Assumptions: Closed under the global context for every theorem of Properties_C07.v)",
        "number-text layer = Section hypotheses of Properties_C07.v (what C99 printf/sscanf/strtod and vnacal_name_to_type guarantee, not proved): "
        "int_rt, cx_accepted, name_text, type_rt, real_rt, cx_rt, num_rt (strtod(printf) is the identity at VNACAL_MAX_PRECISION (%a) and at >= 17 digits); "
        "discharged for a toy number type in CalFile/CalSaveExamples.v; exercised on every number of every scenario",
        "hand-written models CalFile/CalSaveModel.v (vnacal_save.c) and CalFile/CalFileModel.v (vnacal_load.c), tied to the library by execution "
        "(checks/c07_savetie.py, checks/c09_model.py); extraction and ocaml/drv_calfile.ml",
        "translator translate/savebuf.py (C text -> coq/Gen/SaveBufGen.v), validated against the compiled code (sizeof, VNACAL_MAX_PRECISION, defaults, setter probes)",
        "CalFile/NumText.v: shapes of C99 %e/%a/%d output (glibc's conformance is exercised by the length tie, not proved)",
    ]
    ctx.assumptions += ["the longest %.*e text of a finite double has a sign, one digit, a point, p-1 digits, 'e', a sign and three exponent digits",
                        "int is 32 bits, double is binary64 (checked against the compiled harness)"]
    return DEFAULTS


def numtext_tie(ctx, exe):
    rng = ctx.rng
    vals = [0.0, -0.0, 1.0, -1.5, 9.999999e99, 1e100, -1e-100, 5e-324, -1.7976931348623157e308, 2.2250738585072014e-308, 123456.789, -9.5e-10]
    vals += [rng.uniform(-1, 1) * 10.0 ** rng.randint(-320, 308) for _ in range(30)]
    precs = [1, 2, 3, 6, 7, 17, 25, 26, 27, 40, 100, 999]
    cases = [(rng.choice(precs), v) for v in vals] + [(p, -1.25e-300) for p in precs]
    script = "case 0\n" + "".join("fmt %d %s\n" % (p, float.hex(v)) for p, v in cases)
    rc, out, err = vplib.sh([exe, "-"], input=script, timeout=60, env=ctx.run_env())
    texts = [(L.unhex(a).decode(), L.unhex(b).decode()) for a, b in
             (ln.split()[1:3] for ln in out.split("\n") if ln.startswith("fmt "))]
    if len(texts) != len(cases):
        ctx.obligation("tie:NumText lengths", False, "harness fmt op failed: %s" % err[-200:])
        return
    body = ["Require Import ZArith List Bool.", "Require Import LV.CalFile.NumText.", "Open Scope Z_scope."]
    exp = []
    for (p, v), (te, ta) in zip(cases, texts):
        m = re.match(r"^(-?)\d(?:\.(\d+))?e[+-](\d+)$", te)
        if not m or (len(m.group(2) or "") != p - 1):
            ctx.obligation("tie:NumText lengths", False, "text %r of %r at precision %d does not have the modelled shape" % (te, v, p))
            return
        body.append("Eval vm_compute in (len_e false %d (EFinite %s %s), len_e true %d (EFinite %s %s), max_e %d)."
                    % (p, "true" if m.group(1) else "false", "true" if len(m.group(3)) == 3 else "false",
                       p, "true" if m.group(1) else "false", "true" if len(m.group(3)) == 3 else "false", p))
        exp.append((len(te), len(te) + (0 if m.group(1) else 1)))
        ma = re.match(r"^(-?)0x[01](?:\.([0-9a-f]+))?p[+-](\d+)$", ta)
        if not ma:
            ctx.obligation("tie:NumText lengths", False, "%%a text %r does not have the modelled shape" % ta)
            return
        body.append("Eval vm_compute in (len_a false (AFinite %s %d %d))." % ("true" if ma.group(1) else "false", len(ma.group(2) or ""), len(ma.group(3))))
        exp.append((len(ta),))
    rc, out, err = ctx.coq_eval("numtext_tie", "\n".join(body) + "\n")
    got = re.findall(r"=\s*\(?([0-9, ]+)\)?\s*:", out)
    bad = []
    if rc != 0 or len(got) != len(exp):
        ctx.obligation("tie:NumText lengths", False, "coq evaluation failed: %s" % (err[-200:] or out[-200:]))
        return
    for e, g, k in zip(exp, got, range(len(exp))):
        gv = [int(x) for x in g.replace(" ", "").split(",")]
        if gv[:len(e)] != list(e):
            bad.append("case %d: glibc lengths %r, model %r" % (k, e, gv))
        if len(gv) == 3 and gv[0] > gv[2]:
            bad.append("case %d: length %d above max_e %d" % (k, gv[0], gv[2]))
        ctx.count(("numtext", k, tuple(gv)))
    ctx.obligation("tie:NumText lengths", not bad, "; ".join(bad[:3]))
    ctx.traces_validated += len(exp)


def search_overflow(ctx, info, exe):
    """cal_buffers_fit no longer checks: look for a precision the setters accept that overruns a buffer."""
    cands = []
    if info is not None:
        for w in "fd":
            p = py_first_unfit(info, w)
            if p is not None:
                cands.append((w, p))
    if not cands:
        cands = [("f", p) for p in (27, 28, 40, 999, 1000, 1001, 5000)] + [("d", p) for p in (26, 27, 40, 999, 1001, 5000)]
    d = ctx.tmp
    src = os.path.join(d, "ovf_in.vnacal")
    cal = {"name": "x", "type": "T8", "rows": 1, "cols": 1, "F": 1, "z0": complex(-50.0, -1.0), "fvec": [1.5e300],
           "terms": [[complex(-1.5e-300, -2.5e-300)]] * 4, "props": None}
    with open(src, "w") as f:
        f.write(L.write_vnacal([cal], None))
    script = []
    for k, (w, p) in enumerate(cands):
        script += ["case %d" % k, "load 0 %s" % src, "set%sp 0 %d" % (w, p), "save 0 %s" % os.path.join(d, "ovf_out.vnacal"), "free 0"]
    res = L.run_script(ctx, exe, "\n".join(script) + "\n", len(cands), timeout=300)
    found = False
    for k, (w, p) in enumerate(cands):
        cr = res.get(k)
        if cr is not None and cr.crash:
            sig = dict(cr.crash[2])
            ctx.violation(sig, "vnacal_save overruns its number buffer with %sprecision = %d (accepted by the setter): %s in %s"
                          % (w, p, sig.get("error"), sig.get("function")),
                          {"how": "harness/calfile_harness.c: load; set%sp %d; save" % (w, p), "file": open(src).read(), "stderr": cr.crash[1][-2500:],
                           "theorem": "cal_buffers_fit"})
            found = True
    if not found:
        ctx.unproved("cal_buffers_fit / T4", "the Coq development of C07 or its translator no longer checks",
                     "vnacal_save at the precisions %r under ASan" % (cands,))
