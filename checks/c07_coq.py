"""Coq / translator part of C07 (stub, replaced below)."""
import os
import savebuf
DEFAULTS = (6, 7)
def run(ctx):
    global DEFAULTS
    info = savebuf.translate(os.path.join(ctx.repo, "src"))
    DEFAULTS = (info["defaults"]["f"], info["defaults"]["d"])
    return DEFAULTS
