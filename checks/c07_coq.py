"""Coq / translator part of C07: T4 (translate/savebuf.py) -> coq/Gen/SaveBufGen.v, obligations,
validation of the generated constants against the compiled code, tie of CalFile/NumText.v's text
length model to glibc, and the search for an overflowing precision when cal_buffers_fit breaks."""
import os
import re

import vplib
import savebuf
import calfile_lib as L

DEFAULTS = (6, 7)
VFILES = ["CalFile/NumTextProofs.v", "CalFile/CalFileProofs.v", "CalFile/CalSaveProofs.v", "CalFile/CalSaveExamples.v",
          "CalFile/SaveBufFacts.v", "CalFile/LegacyProofs.v", "CalFile/LegacyExamples.v", "CalFile/LegacyApplyProofs.v",
          "CalFile/LegacyApplyExamples.v", "CalFile/LegacyFreqCollision.v", "CalFile/LegacyFreqCollisionEx.v", "CalFile/LegacyTerms.v", "Properties_C07.v"]


def py_accepts(setter, p):
    lo, hi = setter
    return p >= lo and (hi is None or p <= hi)


def max_text(items, p):
    n = 0
    for it in items:
        if it == "FLit":
            n += 1
        elif it == "FD":
            n += 11
        elif it.startswith("(FE"):
            n += 7 if p <= 1 else p + 7
        else:
            n += 24
    return n


def py_first_unfit(info, which, limit=2000):
    """Smallest accepted precision whose longest text overflows (python mirror of NumText.first_unfit)."""
    a = info["adders"]["add_double" if which == "f" else "add_complex"]
    for p in list(range(1, limit)) + [2 ** 31 - 1]:
        if not py_accepts(info["setters"][which], p):
            continue
        fmt = a["fmt_max"] if (a["fmt_max"] is not None and p == info["maxp"]) else a["fmt_dec"]
        size = a["coef"] * max(p, 1) + a["const"]
        if max_text(fmt, p) + 1 > size or size > 65536:         # NumText.vla_limit
            return p
    return None


def run(ctx):
    global DEFAULTS
    src = os.path.join(ctx.repo, "src")
    info = None
    try:
        info = savebuf.translate(src)
        ctx.obligation("T4:savebuf translate", True)
    except savebuf.TranslateError as e:
        ctx.obligation("T4:savebuf translate", False, str(e))
        ctx.log("T4: vnacal_save.c / setters no longer match the accepted idiom:", e)
    exe = ctx.build_harness("calfile_harness", san=True, wrap=True)
    abi = None
    rc, out, err = vplib.sh([exe, "-"], input="case 0\nabi\n", timeout=60, env=ctx.run_env())
    m = re.search(r"abi int=(\d+) double=(\d+) complex=(\d+) maxp=(\d+) deff=(\d+) defd=(\d+) acceptf(.*) acceptd(.*)", out)
    if m:
        abi = {"int": int(m.group(1)), "double": int(m.group(2)), "double complex": int(m.group(3)), "maxp": int(m.group(4)),
               "deff": int(m.group(5)), "defd": int(m.group(6)),
               "f": {int(a): b == "1" for a, b in (x.split(":") for x in m.group(7).split())},
               "d": {int(a): b == "1" for a, b in (x.split(":") for x in m.group(8).split())}}
        DEFAULTS = (abi["deff"], abi["defd"])
    else:
        ctx.obligation("tie:T4 constants", False, "harness abi probe failed: %s" % err[-200:])
    coq_ok = False
    if info is not None:
        ctx.write_if_changed(os.path.join(vplib.COQDIR, "Gen", "SaveBufGen.v"), savebuf.emit(info))
        coq_ok, res = ctx.coq_obligations(VFILES)
        # translator output against the compiled code
        if abi:
            bad = []
            for k in ("int", "double", "double complex"):
                if savebuf.SIZEOF[k] != abi[k]:
                    bad.append("sizeof(%s) = %d, translator assumes %d" % (k, abi[k], savebuf.SIZEOF[k]))
            if info["maxp"] != abi["maxp"]:
                bad.append("VNACAL_MAX_PRECISION %d vs %d" % (info["maxp"], abi["maxp"]))
            if (info["defaults"]["f"], info["defaults"]["d"]) != (abi["deff"], abi["defd"]):
                bad.append("default precisions %r vs compiled %r" % (info["defaults"], (abi["deff"], abi["defd"])))
            for w in "fd":
                for p, acc in sorted(abi[w].items()):
                    if py_accepts(info["setters"][w], p) != acc:
                        bad.append("vnacal_set_%sprecision(%d): compiled code %s, translated setter %s"
                                   % (w, p, "accepts" if acc else "rejects", "accepts" if not acc else "rejects"))
            ctx.obligation("tie:T4 constants", not bad, "; ".join(bad[:4]))
            ctx.count(("T4", tuple(sorted(abi["f"].items())), abi["maxp"]))
    # text length model of NumText.v against glibc
    numtext_tie(ctx, exe)
    if info is None or not coq_ok:
        # the translator or a proof no longer recognises the source: both searches run on the compiled code
        # only (they need neither the translator's output nor a built Coq file)
        found, cands = search_overflow(ctx, info, exe)
        found = search_number_texts(ctx, exe) or found
        if not found:
            ctx.unproved("cal_buffers_fit / T4", "the Coq development of C07 or its translator no longer checks",
                         "vnacal_save at the precisions %r under ASan; byte-level number tie: every number text of the saved file "
                         "(z0, every frequency, every error-term cell) of all 8 types x %d (fprecision, dprecision) pairs equals the "
                         "correctly rounded C99 text at the precision that governs it" % (cands, len(NUMBER_PROBE_PRECS)))
    ctx.trusted_base += [
        "Coq 8.16.1 kernel; vm_compute only for the Examples (toy instance, bounded sweep); no native_compute",
        "axioms: none (Print Assumptions: Closed under the global context for every theorem of Properties_C07.v)",
        "number-text layer = Section hypotheses of Properties_C07.v (what C99 printf/sscanf/strtod and vnacal_name_to_type guarantee, not proved): "
        "int_rt, cx_accepted, name_text, type_rt, real_rt, cx_rt, num_rt (strtod(printf) is the identity at VNACAL_MAX_PRECISION (%a) and at >= 17 digits); "
        "discharged for a toy number type in CalFile/CalSaveExamples.v; exercised on every number of every scenario",
        "hand-written models CalFile/CalSaveModel.v (vnacal_save.c) and CalFile/CalFileModel.v (vnacal_load.c), tied to the library by execution "
        "(checks/c07_savetie.py, checks/c09_model.py); extraction and ocaml/drv_calfile.ml",
        "translator translate/savebuf.py (C text -> coq/Gen/SaveBufGen.v), validated against the compiled code (sizeof, VNACAL_MAX_PRECISION, defaults, setter probes)",
        "CalFile/NumText.v: shapes of C99 %e/%a/%d output (glibc's conformance is exercised by the length tie, not proved)",
        "the \"C\" numeric locale (int_rt, real_rt, cx_rt: libvna never calls setlocale; a decimal-comma locale set by the program changes what printf writes and strtod reads)",
        "rd_readable (cal_roundtrip_or_collision): a non-negative finite or +inf double printed with p digits reads back non-negative or +inf",
    ]
    ctx.assumptions += ["the longest %.*e text of a finite double has a sign, one digit, a point, p-1 digits, 'e', a sign and three exponent digits",
                        "int is 32 bits, double is binary64 (checked against the compiled harness)"]
    return DEFAULTS


def numtext_tie(ctx, exe):
    rng = ctx.rng
    vals = [0.0, -0.0, 1.0, -1.5, 9.999999e99, 1e100, -1e-100, 5e-324, -1.7976931348623157e308, 2.2250738585072014e-308, 123456.789, -9.5e-10]
    vals += [rng.uniform(-1, 1) * 10.0 ** rng.randint(-320, 308) for _ in range(30)]
    precs = [1, 2, 3, 6, 7, 17, 25, 26, 27, 40, 100, 999]
    cases = [(rng.choice(precs), v) for v in vals] + [(p, -1.25e-300) for p in precs]
    script = "case 0\n" + "".join("fmt %d %s\n" % (p, float.hex(v)) for p, v in cases)
    rc, out, err = vplib.sh([exe, "-"], input=script, timeout=60, env=ctx.run_env())
    texts = [(L.unhex(a).decode(), L.unhex(b).decode()) for a, b in
             (ln.split()[1:3] for ln in out.split("\n") if ln.startswith("fmt "))]
    if len(texts) != len(cases):
        ctx.obligation("tie:NumText lengths", False, "harness fmt op failed: %s" % err[-200:])
        return
    body = ["Require Import ZArith List Bool.", "Require Import LV.CalFile.NumText.", "Open Scope Z_scope."]
    exp = []
    for (p, v), (te, ta) in zip(cases, texts):
        m = re.match(r"^(-?)\d(?:\.(\d+))?e[+-](\d+)$", te)
        if not m or (len(m.group(2) or "") != p - 1):
            ctx.obligation("tie:NumText lengths", False, "text %r of %r at precision %d does not have the modelled shape" % (te, v, p))
            return
        body.append("Eval vm_compute in (len_e false %d (EFinite %s %s), len_e true %d (EFinite %s %s), max_e %d)."
                    % (p, "true" if m.group(1) else "false", "true" if len(m.group(3)) == 3 else "false",
                       p, "true" if m.group(1) else "false", "true" if len(m.group(3)) == 3 else "false", p))
        exp.append((len(te), len(te) + (0 if m.group(1) else 1)))
        ma = re.match(r"^(-?)0x[01](?:\.([0-9a-f]+))?p[+-](\d+)$", ta)
        if not ma:
            ctx.obligation("tie:NumText lengths", False, "%%a text %r does not have the modelled shape" % ta)
            return
        body.append("Eval vm_compute in (len_a false (AFinite %s %d %d))." % ("true" if ma.group(1) else "false", len(ma.group(2) or ""), len(ma.group(3))))
        exp.append((len(ta),))
    rc, out, err = ctx.coq_eval("numtext_tie", "\n".join(body) + "\n")
    got = re.findall(r"=\s*\(?([0-9, ]+)\)?\s*:", out)
    bad = []
    if rc != 0 or len(got) != len(exp):
        ctx.obligation("tie:NumText lengths", False, "coq evaluation failed: %s" % (err[-200:] or out[-200:]))
        return
    for e, g, k in zip(exp, got, range(len(exp))):
        gv = [int(x) for x in g.replace(" ", "").split(",")]
        if gv[:len(e)] != list(e):
            bad.append("case %d: glibc lengths %r, model %r" % (k, e, gv))
        if len(gv) == 3 and gv[0] > gv[2]:
            bad.append("case %d: length %d above max_e %d" % (k, gv[0], gv[2]))
        ctx.count(("numtext", k, tuple(gv)))
    ctx.obligation("tie:NumText lengths", not bad, "; ".join(bad[:3]))
    ctx.traces_validated += len(exp)


def search_overflow(ctx, info, exe):
    """cal_buffers_fit no longer checks: look for a precision the setters accept that overruns a buffer."""
    cands = []
    if info is not None:
        for w in "fd":
            p = py_first_unfit(info, w)
            if p is not None:
                cands.append((w, p))
    if not cands:
        cands = [("f", p) for p in (27, 28, 40, 999, 1000, 1001, 5000)] + [("d", p) for p in (26, 27, 40, 999, 1001, 5000)]
    d = ctx.tmp
    src = os.path.join(d, "ovf_in.vnacal")
    cal = {"name": "x", "type": "T8", "rows": 1, "cols": 1, "F": 1, "z0": complex(-50.0, -1.0), "fvec": [1.5e300],
           "terms": [[complex(-1.5e-300, -2.5e-300)]] * 4, "props": None}
    with open(src, "w") as f:
        f.write(L.write_vnacal([cal], None))
    script = []
    for k, (w, p) in enumerate(cands):
        script += ["case %d" % k, "load 0 %s" % src, "set%sp 0 %d" % (w, p), "save 0 %s" % os.path.join(d, "ovf_out.vnacal"), "free 0"]
    res = L.run_script(ctx, exe, "\n".join(script) + "\n", len(cands), timeout=300)
    found = False
    for k, (w, p) in enumerate(cands):
        cr = res.get(k)
        if cr is not None and cr.crash:
            sig = dict(cr.crash[2])
            ctx.violation(sig, "vnacal_save overruns its number buffer with %sprecision = %d (accepted by the setter): %s in %s"
                          % (w, p, sig.get("error"), sig.get("function")),
                          {"how": "harness/calfile_harness.c: load; set%sp %d; save" % (w, p), "file": open(src).read(), "stderr": cr.crash[1][-2500:],
                           "theorem": "cal_buffers_fit"})
            found = True
    return found, cands


# (fprecision, dprecision) pairs of the byte-level number search: the two precisions always differ, both
# orders, the defaults, hexadecimal on one side only
NUMBER_PROBE_PRECS = [(None, None), (3, 12), (12, 3), (None, 1000), (1000, None), (17, 2), (1, 40), (9, 18)]


def search_number_texts(ctx, exe):
    """Byte-level number tie that does not depend on the translator or on any Coq file: for every
    calibration type (a square and a rectangular shape, so that every vector / matrix of the type is
    written and 'el' has a diagonal) and every pair of NUMBER_PROBE_PRECS, one calibration with two
    frequencies is saved and the text of EVERY number of the file - z0, every frequency, every
    error-term cell - is compared with the correctly rounded C99 text of the value the container held
    (harness dump) at the precision that governs it (fprecision for 'f', dprecision for z0 and the
    error terms; %a at VNACAL_MAX_PRECISION).  The first difference per (type, matrix) is reported
    as a violation with type, dimensions, both precisions and the cell as replay."""
    import random
    rng = random.Random(ctx.seed * 7919 + 12)
    ytree = ctx.build_harness("yamltree", san=True)
    d = os.path.join(ctx.tmp, "numprobe")
    os.makedirs(d, exist_ok=True)
    shapes = []
    for t in L.TYPES:
        shapes += [(t, 2, 2), (t, 2, 3) if L.is_t(t) else (t, 3, 2)]
    probes = []
    script = []
    for t, mr, mc in shapes:
        for fp, dp in NUMBER_PROBE_PRECS:
            k = len(probes)
            nt = L.n_terms(t, mr, mc)
            cal = {"name": "p%d" % k, "type": t, "rows": mr, "cols": mc, "F": 2, "z0": complex(rng.uniform(40, 60), rng.uniform(-3, 3)),
                   "fvec": [1.0e9 * (1 + rng.random() / 8), 3.0e9 * (1 + rng.random() / 8)],
                   "terms": [[complex(rng.uniform(-2, 2), rng.uniform(-2, 2)) * 10.0 ** rng.randint(-3, 3) for _ in range(2)] for _ in range(nt)],
                   "props": None}
            src = os.path.join(d, "n%d.vnacal" % k)
            out = os.path.join(d, "n%d_out.vnacal" % k)
            text = L.write_vnacal([cal], None, style="hex")
            with open(src, "w") as f:
                f.write(text)
            lines = ["load 0 %s" % src]
            if fp is not None:
                lines.append("setfp 0 %d" % fp)
            if dp is not None:
                lines.append("setdp 0 %d" % dp)
            lines += ["dump 0", "save 0 %s" % out, "free 0"]
            script += ["case %d" % k] + lines
            probes.append((t, mr, mc, fp, dp, src, out, lines, text))
    res = L.run_script(ctx, exe, "\n".join(script) + "\n", len(probes), timeout=300)
    rc, tout, terr = vplib.sh([ytree, "cal", "-"], input="".join(p[6] + "\n" for p in probes if os.path.exists(p[6])),
                              timeout=300, env=ctx.run_env())
    trees = L.parse_tree_dump(tout)
    found = 0
    seen = set()
    compared = 0
    for k, (t, mr, mc, fp, dp, src, out, lines, text) in enumerate(probes):
        cr = res.get(k)
        efp = DEFAULTS[0] if fp is None else fp
        edp = DEFAULTS[1] if dp is None else dp
        rep = {"type": t, "rows": mr, "columns": mc, "fprecision": efp, "dprecision": edp, "script": lines,
               "files": {os.path.basename(src): text}, "how": "harness/calfile_harness.c runs the script; harness/yamltree.c cal <saved file> prints the node tree"}
        if cr is None:
            continue
        if cr.crash:
            sig = dict(cr.crash[2])
            if found < 4:
                ctx.violation(sig, "number-text search, %s %dx%d fprecision=%d dprecision=%d: %s in %s" % (t, mr, mc, efp, edp, sig.get("error"), sig.get("function")),
                              dict(rep, stderr=cr.crash[1][-2500:]))
            found += 1
            continue
        try:
            i = 0
            while not cr.lines[i].startswith("NCAL"):
                i += 1
            st, i = L.parse_dump(cr.lines, i)
            saved = cr.lines[i].startswith("save rc=0")
        except (IndexError, ValueError, AssertionError):
            continue
        doc = trees.get(out)
        if not saved or doc is None or doc["root"] is None or doc["error"]:
            continue
        probs = []
        g, cals = L.read_saved_doc(doc["root"], probs)
        s = st["slots"][0] if st and st["slots"] else None
        if probs or len(cals) != 1 or s is None:
            continue
        c = cals[0]
        fm = L.file_matrices(t, mr, mc)
        items = [("z0", None, None, c["z0_text"], L.fmt_c(s["z0"], edp), "dprecision")]
        for fi in range(min(len(c["f_text"]), len(s["fvec"]))):
            items.append(("f", None, fi, c["f_text"][fi], L.fmt_f(s["fvec"][fi], efp), "fprecision"))
        for nm, kind, r, cc, cells in fm:
            for pos, ti in enumerate(cells):
                for fi in range(c["F"]):
                    if ti < len(s["terms"]) and fi < len(s["terms"][ti]) and c["term_text"][ti][fi] is not None:
                        items.append((nm, pos, fi, c["term_text"][ti][fi], L.fmt_c(s["terms"][ti][fi], edp), "dprecision"))
        for nm, pos, fi, got, want, which in items:
            compared += 1
            if got != want and (t, nm) not in seen:
                seen.add((t, nm))
                found += 1
                if found <= 4:
                    cell = nm if pos is None else "%s[%d]" % (nm, pos)
                    ctx.violation({"kind": "number-text", "class": "%s of %s" % (nm, t)},
                                  "vnacal_save writes %s of a %s %dx%d calibration (frequency index %s) as %r; the correctly rounded C99 text of the stored value at %s = %d is %r "
                                  "(fprecision=%d dprecision=%d)" % (cell, t, mr, mc, fi, got, which, edp if which == "dprecision" else efp, want, efp, edp),
                                  dict(rep, cell=cell, findex=fi, text=got, expected=want, governed_by=which))
        ctx.count(("numprobe", t, mr, mc, efp, edp))
    ctx.extra["number_text_search"] = {"probes": len(probes), "texts_compared": compared, "differences": found}
    return found > 0
